/*
 * Engine `api` (C07): arbitrary call sequences on the five handle kinds.
 *
 * First op of a case: "kind read|write|wdisk|rdisk|match".  Every later op is
 * one public API call on the current handle.  After each call the engine
 * prints the return class (vh_st), the handle's real `a->state` (read through
 * archive_private.h) and a few per-kind resource counters:
 *   reader   cl=<client close callbacks so far>
 *   writer   op= cl= fr=  (client open / close / free callbacks so far)
 *   wdisk    fx=<length of a->fixup_list> fd=<1 if a->fd is open>
 * `fds` (last op of every case) prints the change in the number of open
 * descriptors since the case began.  The build is ASan+UBSan+LSan, every case
 * runs in a forked child (common.h) so corruption, aborts and leaks are
 * attributed to the case.
 *
 * archive_write_disk_posix.c is #included so that the engine can read
 * `struct archive_write_disk` (fixup list, fd); nothing in it is modified.
 */
#include "common.h"
#include <dirent.h>
#include <fcntl.h>
#include <sys/stat.h>
#include <ftw.h>
#include "archive_write_disk_posix.c"
#include "archive_read_private.h"
#include "archive_write_private.h"

enum { K_NONE, K_READ, K_WRITE, K_WDISK, K_RDISK, K_MATCH };
static int kind;
static struct archive *a;            /* the handle under test (NULL: none / freed) */
static struct archive_entry *ent;    /* scratch entry */
static int n_open, n_close, n_free;  /* client callback counters */
static int fds0, rfd = -1, wfd = -1;
static char scratch[512];
static char *outbuf; static size_t outused;   /* archive_write_open_memory target */

/* ---- input archives, built once in the parent ---- */
static unsigned char *ar_valid, *ar_damaged, *ar_trunc, *ar_gz, *ar_zip, *ar_garbage;
static size_t n_valid, n_damaged, n_trunc, n_gz, n_zip, n_garbage;

static void build_one(int zip, int gz, unsigned char **out, size_t *n)
{
	size_t cap = 1 << 16, used = 0;
	unsigned char *b = malloc(cap);
	struct archive *w = archive_write_new();
	if (zip) archive_write_set_format_zip(w); else archive_write_set_format_ustar(w);
	if (gz) archive_write_add_filter_gzip(w);
	archive_write_set_bytes_per_block(w, 512);
	archive_write_set_bytes_in_last_block(w, 512);
	archive_write_open_memory(w, b, cap, &used);
	struct archive_entry *e = archive_entry_new();
	static char body[700];
	memset(body, 'x', sizeof body);
	archive_entry_copy_pathname(e, "f1"); archive_entry_set_mode(e, AE_IFREG | 0644);
	archive_entry_set_size(e, 700); archive_write_header(w, e); archive_write_data(w, body, 700);
	archive_entry_clear(e);
	archive_entry_copy_pathname(e, "d/"); archive_entry_set_mode(e, AE_IFDIR | 0755);
	archive_write_header(w, e);
	archive_entry_clear(e);
	archive_entry_copy_pathname(e, "f2"); archive_entry_set_mode(e, AE_IFREG | 0600);
	archive_entry_set_size(e, 10); archive_write_header(w, e); archive_write_data(w, body, 10);
	archive_entry_free(e);
	archive_write_close(w); archive_write_free(w);
	*out = b; *n = used;
}

static void build_archives(void)
{
	build_one(0, 0, &ar_valid, &n_valid);
	build_one(0, 1, &ar_gz, &n_gz);
	build_one(1, 0, &ar_zip, &n_zip);
	ar_damaged = malloc(n_valid); memcpy(ar_damaged, ar_valid, n_valid); n_damaged = n_valid;
	/* second header block starts at 512 + 1024; break its checksum field */
	memset(ar_damaged + 1536 + 148, '7', 6);
	ar_trunc = malloc(812); memcpy(ar_trunc, ar_valid, 812); n_trunc = 812;
	ar_garbage = malloc(600); memset(ar_garbage, 0xA5, 600); n_garbage = 600;
}

static int pick(const char *name, unsigned char **p, size_t *n)
{
	if (!strcmp(name, "valid")) { *p = ar_valid; *n = n_valid; }
	else if (!strcmp(name, "empty")) { *p = ar_valid; *n = 0; }
	else if (!strcmp(name, "damaged")) { *p = ar_damaged; *n = n_damaged; }
	else if (!strcmp(name, "trunc")) { *p = ar_trunc; *n = n_trunc; }
	else if (!strcmp(name, "gz")) { *p = ar_gz; *n = n_gz; }
	else if (!strcmp(name, "zip")) { *p = ar_zip; *n = n_zip; }
	else if (!strcmp(name, "garbage")) { *p = ar_garbage; *n = n_garbage; }
	else return 0;
	return 1;
}

/* ---- client callbacks with call counters ---- */
struct rsrc { const unsigned char *p; size_t n, off; int openfail, readfail; };
static struct rsrc rs;
static int r_open(struct archive *x, void *d) { (void)x; n_open++; return d && ((struct rsrc *)d)->openfail ? ARCHIVE_FATAL : ARCHIVE_OK; }
static la_ssize_t r_read(struct archive *x, void *d, const void **b)
{
	struct rsrc *s = d;
	if (s == NULL) { *b = NULL; return 0; }   /* no callback data registered: an empty stream */
	if (s->readfail) { archive_set_error(x, EIO, "read failed"); return -1; }
	size_t k = s->n - s->off; if (k > 300) k = 300;
	*b = s->p + s->off; s->off += k; return (la_ssize_t)k;
}
static int r_close(struct archive *x, void *d) { (void)x; (void)d; n_close++; return ARCHIVE_OK; }

struct wsink { int openfail, writefail; size_t total; };
static struct wsink ws;
static int w_open(struct archive *x, void *d) { (void)x; n_open++; return ((struct wsink *)d)->openfail ? ARCHIVE_FATAL : ARCHIVE_OK; }
static la_ssize_t w_write(struct archive *x, void *d, const void *b, size_t n)
{
	struct wsink *s = d; (void)b;
	if (s->writefail) { archive_set_error(x, EIO, "write failed"); return -1; }
	s->total += n; return (la_ssize_t)n;
}
static int w_close(struct archive *x, void *d) { (void)x; (void)d; n_close++; return ARCHIVE_OK; }
static int w_free(struct archive *x, void *d) { (void)x; (void)d; n_free++; return ARCHIVE_OK; }

/* ---- helpers ---- */
static int count_fds(void)
{
	int n = 0; DIR *d = opendir("/proc/self/fd");
	if (!d) return -1;
	while (readdir(d)) n++;
	closedir(d);
	return n;
}

static const char *stname(unsigned s)
{
	switch (s) {
	case ARCHIVE_STATE_NEW: return "new"; case ARCHIVE_STATE_HEADER: return "header";
	case ARCHIVE_STATE_DATA: return "data"; case ARCHIVE_STATE_EOF: return "eof";
	case ARCHIVE_STATE_CLOSED: return "closed"; case ARCHIVE_STATE_FATAL: return "fatal";
	default: return "other";
	}
}

static void report(const char *rc)
{
	printf("%s st=%s", rc, a ? stname(a->state) : "-");
	if (kind == K_READ) printf(" cl=%d", n_close);
	else if (kind == K_WRITE) printf(" op=%d cl=%d fr=%d", n_open, n_close, n_free);
	else if (kind == K_WDISK) {
		if (a) {
			struct archive_write_disk *d = (struct archive_write_disk *)a; int n = 0;
			for (struct fixup_entry *f = d->fixup_list; f; f = f->next) n++;
			printf(" fx=%d fd=%d", n, d->fd >= 0);
		} else printf(" fx=- fd=-");
	}
	putchar('\n');
}

/* for calls whose non-negative return is a plain int status */
static void reps(int r) { report(vh_st(r)); }
/* for calls that return a count / truth value when >= 0 */
static void repb(long r) { report(r >= 0 ? "ok" : vh_st((int)r)); }
static int do_free(void)
{
	int r = kind == K_MATCH ? archive_match_free(a) : archive_free(a);
	a = NULL; return r;
}

static int rm_cb(const char *p, const struct stat *s, int f, struct FTW *w)
{ (void)s; (void)w; if (f == FTW_DP || f == FTW_D) { chmod(p, 0700); rmdir(p); } else unlink(p); return 0; }
static int chmod_cb(const char *p, const struct stat *s, int f, struct FTW *w)
{ (void)s; (void)w; if (f == FTW_D || f == FTW_DNR) chmod(p, 0700); return 0; }

static void a_begin(void)
{
	kind = K_NONE; a = NULL; n_open = n_close = n_free = 0;
	const char *out = getenv("VERIF_OUT");
	snprintf(scratch, sizeof scratch, "%s/c07.XXXXXX", out ? out : ".");
	if (mkdtemp(scratch) == NULL || chdir(scratch) != 0) { perror("scratch"); _exit(4); }
	/* a small tree for the disk reader */
	mkdir("t", 0755); mkdir("t/d", 0755);
	int fd = open("t/a", O_WRONLY | O_CREAT, 0644); if (fd >= 0) { if (write(fd, "hello", 5) != 5) {} close(fd); }
	fd = open("t/d/b", O_WRONLY | O_CREAT, 0644); if (fd >= 0) close(fd);
	if (symlink("a", "t/l") != 0) {}
	mkdir("x", 0755);
	fd = open("ar.tar", O_WRONLY | O_CREAT, 0644); if (fd >= 0) { if (write(fd, ar_valid, n_valid) != (ssize_t)n_valid) {} close(fd); }
	rfd = wfd = -1;
	ent = archive_entry_new();
	outbuf = malloc(1 << 16);
	fds0 = count_fds();
}

static void a_end(void)
{
	/* a handle the op stream left alive is released here so that LSan only
	 * reports what the library lost */
	if (a) do_free();
	archive_entry_free(ent); ent = NULL;
	free(outbuf); outbuf = NULL;
	if (chdir("/") != 0) {}
	nftw(scratch, chmod_cb, 16, FTW_PHYS);
	nftw(scratch, rm_cb, 16, FTW_DEPTH | FTW_PHYS);
}

static void mk_entry(const char *path, const char *type, long size, unsigned mode, long mtime)
{
	archive_entry_clear(ent);
	if (strcmp(path, "-") != 0) archive_entry_copy_pathname(ent, path);
	unsigned ft = AE_IFREG;
	if (!strcmp(type, "dir")) ft = AE_IFDIR; else if (!strcmp(type, "lnk")) { ft = AE_IFLNK; archive_entry_copy_symlink(ent, "a"); }
	else if (!strcmp(type, "hl")) { archive_entry_copy_hardlink(ent, path); }
	else if (!strcmp(type, "fifo")) ft = AE_IFIFO;
	archive_entry_set_mode(ent, ft | mode);
	if (size >= 0) archive_entry_set_size(ent, size);
	if (mtime >= 0) archive_entry_set_mtime(ent, mtime, 0);
}

/* ---- ops common to several kinds ---- */
static int common_op(char **w, int n)
{
	if (n == 1 && !strcmp(w[0], "close")) {
		reps(kind == K_READ || kind == K_RDISK ? archive_read_close(a) : archive_write_close(a));
	} else if (n == 1 && !strcmp(w[0], "free")) {
		reps(do_free());
	} else if (n == 1 && !strcmp(w[0], "fail")) {
		/* archive_write_fail returns a->state (0x8000), not a status code */
		int r = archive_write_fail(a); report(r == (int)ARCHIVE_STATE_FATAL ? "pos" : vh_st(r));
	} else if (n == 1 && !strcmp(w[0], "errno")) {
		(void)archive_errno(a); report("ok");
	} else if (n == 1 && !strcmp(w[0], "error_string")) {
		const char *s = archive_error_string(a); if (s) (void)strlen(s); report("ok");
	} else return 0;
	return 1;
}

static void op_read(char **w, int n)
{
	unsigned char *p; size_t len;
	if (n == 1 && !strcmp(w[0], "new")) { a = archive_read_new(); report(a ? "ok" : "fatal"); }
	else if (n == 1 && !strcmp(w[0], "support_format_all")) reps(archive_read_support_format_all(a));
	else if (n == 1 && !strcmp(w[0], "support_filter_all")) reps(archive_read_support_filter_all(a));
	else if (n == 1 && !strcmp(w[0], "support_format_raw")) reps(archive_read_support_format_raw(a));
	else if (n == 2 && !strcmp(w[0], "set_options")) reps(archive_read_set_options(a, w[1]));
	else if (n == 2 && !strcmp(w[0], "open_mem") && pick(w[1], &p, &len)) reps(archive_read_open_memory(a, p, len));
	else if (n >= 2 && !strcmp(w[0], "open_cb") && pick(w[1], &p, &len)) {
		rs.p = p; rs.n = len; rs.off = 0;
		rs.openfail = n > 2 && !strcmp(w[2], "openfail");
		rs.readfail = n > 2 && !strcmp(w[2], "readfail");
		archive_read_set_open_callback(a, r_open);
		archive_read_set_read_callback(a, r_read);
		archive_read_set_close_callback(a, r_close);
		archive_read_set_callback_data(a, &rs);
		reps(archive_read_open1(a));
	}
	else if (n == 2 && !strcmp(w[0], "open_file")) reps(archive_read_open_filename(a, w[1], 512));
	else if (n == 2 && !strcmp(w[0], "open_fd")) {
		/* the descriptor stays the caller's: closed at case end */
		if (rfd < 0) rfd = open(w[1], O_RDONLY);
		reps(archive_read_open_fd(a, rfd, 512));
	}
	else if (n == 1 && !strcmp(w[0], "set_read_cb")) reps(archive_read_set_read_callback(a, r_read));
	else if (n == 1 && !strcmp(w[0], "open1")) reps(archive_read_open1(a));
	else if (n == 1 && !strcmp(w[0], "next_header")) { struct archive_entry *e; reps(archive_read_next_header(a, &e)); }
	else if (n == 1 && !strcmp(w[0], "next_header2")) reps(archive_read_next_header2(a, ent));
	else if (n == 2 && !strcmp(w[0], "read_data")) {
		size_t k = (size_t)atol(w[1]); char *b = malloc(k ? k : 1);
		repb((long)archive_read_data(a, b, k)); free(b);
	}
	else if (n == 1 && !strcmp(w[0], "read_data_block")) { const void *b; size_t s; la_int64_t o; reps(archive_read_data_block(a, &b, &s, &o)); }
	else if (n == 1 && !strcmp(w[0], "data_skip")) reps(archive_read_data_skip(a));
	else if (n == 1 && !strcmp(w[0], "seek_data")) repb((long)archive_seek_data(a, 0, SEEK_SET));
	else if (n == 1 && !strcmp(w[0], "header_position")) repb((long)archive_read_header_position(a));
	else if (!common_op(w, n)) printf("bad-op\n");
}

static void op_write(char **w, int n)
{
	if (n == 1 && !strcmp(w[0], "new")) { a = archive_write_new(); report(a ? "ok" : "fatal"); }
	else if (n == 2 && !strcmp(w[0], "set_format")) {
		int r;
		if (!strcmp(w[1], "ustar")) r = archive_write_set_format_ustar(a);
		else if (!strcmp(w[1], "pax")) r = archive_write_set_format_pax(a);
		else if (!strcmp(w[1], "zip")) r = archive_write_set_format_zip(a);
		else if (!strcmp(w[1], "cpio")) r = archive_write_set_format_cpio_newc(a);
		else if (!strcmp(w[1], "7zip")) r = archive_write_set_format_7zip(a);
		else if (!strcmp(w[1], "raw")) r = archive_write_set_format_raw(a);
		else if (!strcmp(w[1], "mtree")) r = archive_write_set_format_mtree(a);
		else if (!strcmp(w[1], "ar")) r = archive_write_set_format_ar_bsd(a);
		else if (!strcmp(w[1], "xar")) r = archive_write_set_format_xar(a);
		else if (!strcmp(w[1], "iso9660")) r = archive_write_set_format_iso9660(a);
		else if (!strcmp(w[1], "shar")) r = archive_write_set_format_shar(a);
		else if (!strcmp(w[1], "warc")) r = archive_write_set_format_warc(a);
		else { printf("bad-op\n"); return; }
		reps(r);
	}
	else if (n == 2 && !strcmp(w[0], "add_filter")) {
		int r;
		if (!strcmp(w[1], "gzip")) r = archive_write_add_filter_gzip(a);
		else if (!strcmp(w[1], "bzip2")) r = archive_write_add_filter_bzip2(a);
		else if (!strcmp(w[1], "xz")) r = archive_write_add_filter_xz(a);
		else if (!strcmp(w[1], "zstd")) r = archive_write_add_filter_zstd(a);
		else if (!strcmp(w[1], "b64encode")) r = archive_write_add_filter_b64encode(a);
		else if (!strcmp(w[1], "compress")) r = archive_write_add_filter_compress(a);
		else if (!strcmp(w[1], "none")) r = archive_write_add_filter_none(a);
		else { printf("bad-op\n"); return; }
		reps(r);
	}
	else if (n == 2 && !strcmp(w[0], "set_options")) reps(archive_write_set_options(a, w[1]));
	else if (n == 2 && !strcmp(w[0], "set_bytes_per_block")) reps(archive_write_set_bytes_per_block(a, atoi(w[1])));
	else if (n == 1 && !strcmp(w[0], "get_bytes_per_block")) repb(archive_write_get_bytes_per_block(a));
	else if (n == 1 && !strcmp(w[0], "open_mem")) { outused = 0; reps(archive_write_open_memory(a, outbuf, 1 << 16, &outused)); }
	else if (n == 2 && !strcmp(w[0], "open_file")) reps(archive_write_open_filename(a, w[1]));
	else if (n == 1 && !strcmp(w[0], "open_fd")) {
		if (wfd < 0) wfd = open("out.fd", O_WRONLY | O_CREAT | O_TRUNC, 0644);
		reps(archive_write_open_fd(a, wfd));
	}
	else if (n >= 1 && !strcmp(w[0], "open_cb")) {
		ws.openfail = n > 1 && !strcmp(w[1], "openfail");
		ws.writefail = n > 1 && !strcmp(w[1], "writefail");
		ws.total = 0;
		reps(archive_write_open2(a, &ws, w_open, w_write, w_close, w_free));
	}
	else if (n == 4 && !strcmp(w[0], "write_header")) { mk_entry(w[1], w[2], atol(w[3]), 0644, 1); reps(archive_write_header(a, ent)); }
	else if (n == 2 && !strcmp(w[0], "write_data")) {
		size_t k = (size_t)atol(w[1]); char *b = calloc(1, k ? k : 1);
		repb((long)archive_write_data(a, b, k)); free(b);
	}
	else if (n == 1 && !strcmp(w[0], "finish_entry")) reps(archive_write_finish_entry(a));
	else if (!common_op(w, n)) printf("bad-op\n");
}

static void op_wdisk(char **w, int n)
{
	if (n == 1 && !strcmp(w[0], "new")) { a = archive_write_disk_new(); report(a ? "ok" : "fatal"); }
	else if (n == 2 && !strcmp(w[0], "set_options")) reps(archive_write_disk_set_options(a, (int)strtol(w[1], NULL, 0)));
	else if (n == 1 && !strcmp(w[0], "set_standard_lookup")) reps(archive_write_disk_set_standard_lookup(a));
	else if (n == 1 && !strcmp(w[0], "set_skip_file")) reps(archive_write_disk_set_skip_file(a, 1, 2));
	else if (n == 6 && !strcmp(w[0], "header")) {
		mk_entry(w[1], w[2], atol(w[3]), (unsigned)strtoul(w[4], NULL, 8), atol(w[5]));
		reps(archive_write_header(a, ent));
	}
	else if (n == 2 && !strcmp(w[0], "data")) {
		size_t k = (size_t)atol(w[1]); char *b = calloc(1, k ? k : 1);
		repb((long)archive_write_data(a, b, k)); free(b);
	}
	else if (n == 3 && !strcmp(w[0], "data_block")) {
		size_t k = (size_t)atol(w[1]); char *b = calloc(1, k ? k : 1);
		repb((long)archive_write_data_block(a, b, k, atol(w[2]))); free(b);
	}
	else if (n == 1 && !strcmp(w[0], "finish_entry")) reps(archive_write_finish_entry(a));
	else if (!common_op(w, n)) printf("bad-op\n");
}

static void op_rdisk(char **w, int n)
{
	if (n == 1 && !strcmp(w[0], "new")) { a = archive_read_disk_new(); report(a ? "ok" : "fatal"); }
	else if (n == 2 && !strcmp(w[0], "open")) reps(archive_read_disk_open(a, w[1]));
	else if (n == 1 && !strcmp(w[0], "next_header2")) reps(archive_read_next_header2(a, ent));
	else if (n == 1 && !strcmp(w[0], "next_header")) { struct archive_entry *e; reps(archive_read_next_header(a, &e)); }
	else if (n == 1 && !strcmp(w[0], "descend")) reps(archive_read_disk_descend(a));
	else if (n == 1 && !strcmp(w[0], "can_descend")) repb(archive_read_disk_can_descend(a));
	else if (n == 1 && !strcmp(w[0], "read_data_block")) { const void *b; size_t s; la_int64_t o; reps(archive_read_data_block(a, &b, &s, &o)); }
	else if (n == 2 && !strcmp(w[0], "set_behavior")) reps(archive_read_disk_set_behavior(a, (int)strtol(w[1], NULL, 0)));
	else if (n == 1 && !strcmp(w[0], "set_symlink_logical")) reps(archive_read_disk_set_symlink_logical(a));
	else if (n == 1 && !strcmp(w[0], "set_standard_lookup")) reps(archive_read_disk_set_standard_lookup(a));
	else if (n == 1 && !strcmp(w[0], "current_filesystem")) repb(archive_read_disk_current_filesystem(a));
	else if (!common_op(w, n)) printf("bad-op\n");
}

static void op_match(char **w, int n)
{
	if (n == 1 && !strcmp(w[0], "new")) { a = archive_match_new(); report(a ? "ok" : "fatal"); }
	else if (n == 2 && !strcmp(w[0], "exclude_pattern")) reps(archive_match_exclude_pattern(a, strcmp(w[1], "-") ? w[1] : ""));
	else if (n == 2 && !strcmp(w[0], "include_pattern")) reps(archive_match_include_pattern(a, strcmp(w[1], "-") ? w[1] : ""));
	else if (n == 2 && !strcmp(w[0], "path_excluded")) { mk_entry(w[1], "reg", 1, 0644, 5); repb(archive_match_path_excluded(a, ent)); }
	else if (n == 2 && !strcmp(w[0], "excluded")) { mk_entry(w[1], "reg", 1, 0644, 5); repb(archive_match_excluded(a, ent)); }
	else if (n == 2 && !strcmp(w[0], "include_uid")) reps(archive_match_include_uid(a, atol(w[1])));
	else if (n == 2 && !strcmp(w[0], "include_uname")) reps(archive_match_include_uname(a, w[1]));
	else if (n == 2 && !strcmp(w[0], "include_time")) reps(archive_match_include_time(a, (int)strtol(w[1], NULL, 0), 10, 0));
	else if (n == 2 && !strcmp(w[0], "include_date")) reps(archive_match_include_date(a, ARCHIVE_MATCH_MTIME | ARCHIVE_MATCH_NEWER, w[1]));
	else if (n == 2 && !strcmp(w[0], "owner_excluded")) { mk_entry(w[1], "reg", 1, 0644, 5); repb(archive_match_owner_excluded(a, ent)); }
	else if (n == 2 && !strcmp(w[0], "time_excluded")) { mk_entry(w[1], "reg", 1, 0644, 5); repb(archive_match_time_excluded(a, ent)); }
	else if (n == 1 && !strcmp(w[0], "unmatched_inclusions")) repb(archive_match_path_unmatched_inclusions(a));
	else if (n == 1 && !strcmp(w[0], "unmatched_next")) { const char *p; reps(archive_match_path_unmatched_inclusions_next(a, &p)); }
	else if (n == 2 && !strcmp(w[0], "set_recursion")) reps(archive_match_set_inclusion_recursion(a, atoi(w[1])));
	else if (n == 2 && !strcmp(w[0], "exclude_entry")) { mk_entry(w[1], "reg", 1, 0644, 5); reps(archive_match_exclude_entry(a, ARCHIVE_MATCH_MTIME | ARCHIVE_MATCH_OLDER, ent)); }
	else if (!common_op(w, n)) printf("bad-op\n");
}

static void a_op(char *line)
{
	char *w[8]; int n = vh_split(line, w, 8);
	if (n == 0) { printf("bad-op\n"); return; }
	if (n == 2 && !strcmp(w[0], "kind")) {
		kind = !strcmp(w[1], "read") ? K_READ : !strcmp(w[1], "write") ? K_WRITE :
		    !strcmp(w[1], "wdisk") ? K_WDISK : !strcmp(w[1], "rdisk") ? K_RDISK :
		    !strcmp(w[1], "match") ? K_MATCH : K_NONE;
		printf(kind == K_NONE ? "bad-op\n" : "ok\n");
		return;
	}
	if (n == 1 && !strcmp(w[0], "fds")) {
		/* handle still alive: release it first so that the count is about the library */
		if (a) do_free();
		if (rfd >= 0) { close(rfd); rfd = -1; }
		if (wfd >= 0) { close(wfd); wfd = -1; }
		printf("fds=%d\n", count_fds() - fds0);
		return;
	}
	if (kind == K_NONE) { printf("bad-op\n"); return; }
	if (a == NULL && strcmp(w[0], "new") != 0) { printf("nohandle\n"); return; }
	if (a != NULL && !strcmp(w[0], "new")) { printf("nohandle\n"); return; }
	switch (kind) {
	case K_READ: op_read(w, n); break;
	case K_WRITE: op_write(w, n); break;
	case K_WDISK: op_wdisk(w, n); break;
	case K_RDISK: op_rdisk(w, n); break;
	case K_MATCH: op_match(w, n); break;
	}
}

int main(int argc, char **argv)
{
	struct vh_engine e = { a_begin, a_op, a_end };
	build_archives();
	return vh_main(argc, argv, &e);
}
