/* Engine `tree` (C12): a directory tree is materialised on disk, captured with the
 * real archive_read_disk, pushed through the real link resolver and a real format
 * writer, read back and restored with the real archive_write_disk (library and
 * bsdtar / bsdcpio), and the restored tree is snapshotted.
 *
 * Tree-building ops (paths are relative to the source root, '/'-joined, hex; "-" = the root):
 *   d <path> <mode8> <sec> <nsec>                       directory (metadata applied by `seal`)
 *   f <path> <mode8> <sec> <nsec> <size> <seed> <segs>  regular file; segs "off:len,..." | "-"
 *   l <path> <sec> <nsec> <target>                      symlink
 *   p <path> <mode8> <sec> <nsec>                       fifo
 *   h <path> <existing>                                 hard link
 *   hx <existing>                                       one more link outside the tree
 *   x <path> <name> <value>                             user.<name> xattr (hex)
 *   seal                                                 apply modes/mtimes children-first
 *                                                        -> "S blk=<st_blksize> xattr=<0|1>|<snapshot>"
 * Scenario ops:
 *   walk                      archive_read_disk walk       -> "W <final st>|<entry>|..."   (emission order)
 *   rt <fmt> <flags> <uid>    library round trip           -> "R w=<st> x=<st> nfail=<n>|<snapshot of dst>"
 *   cli <tar|cpio> <fmt> <opts> <uid>                      -> "C rc=<a>,<b>|<snapshot of dst>"
 *   list <fmt>                bsdtar -cf - | bsdtar -tf -  -> "L rc=<a>,<b>|<name>|..."
 *   xcmp <fmt> <uid>          xattr round trip (pax/xar)   -> "X <same|diff:<path>|nosup>"
 *
 * snapshot entry: <path> <type> <mode8> <sec>.<nsec>|NOW <group> <size> <content> <extents> <target>
 *   group: index (in the sorted snapshot) of the first name of the same inode, "-" for directories
 *   content: ok | BAD@<offset> | ? (no such file in the source description)
 */
#include "common.h"
#include <fcntl.h>
#include <dirent.h>
#include <sys/stat.h>
#include <sys/xattr.h>
#include <grp.h>
#include <time.h>
#include <locale.h>
#include <archive.h>
#include <archive_entry.h>

#define MAXN 16384
struct seg { int64_t off, len; };
struct node {
	char *path;           /* relative, "" = root */
	int type;             /* 'd' 'f' 'l' 'p' */
	unsigned mode; int64_t sec; long nsec;
	int64_t size; uint64_t seed; struct seg *segs; int nsegs;
	int hasmeta;
};
static struct node N[MAXN]; static int nn;
static char base[512], src[600];
static int seq, nextra, xattr_ok = 1;
static long blk = 4096;
static char bindir[512];
static time_t t0;

/* a timestamp taken from the clock during this case is not an archived value */
static const char *show_time(long long sec, long nsec)
{
	static char b[4][64]; static int k;
	char *r = b[k++ & 3];
	if (sec >= (long long)t0 - 5 && sec <= (long long)t0 + 7200) snprintf(r, 64, "NOW");
	else snprintf(r, 64, "%lld.%ld", sec, nsec);
	return r;
}

static unsigned char genbyte(uint64_t seed, int64_t off)
{
	uint64_t h = seed * 2654435761ULL + (uint64_t)off * 40503ULL + ((uint64_t)off >> 8) * 2246822519ULL;
	h ^= h >> 29;
	return (unsigned char)(1 + h % 255);
}

static char *unhexs(const char *s)
{
	size_t n; unsigned char *b = vh_unhex(s, &n);
	char *r = malloc(n + 1); memcpy(r, b, n); r[n] = 0; free(b); return r;
}

static void rm_rf_at(int dfd, const char *name)
{
	struct stat st;
	if (fstatat(dfd, name, &st, AT_SYMLINK_NOFOLLOW) != 0) return;
	if (!S_ISDIR(st.st_mode)) { unlinkat(dfd, name, 0); return; }
	fchmodat(dfd, name, 0700, 0);
	int fd = openat(dfd, name, O_RDONLY | O_DIRECTORY | O_NOFOLLOW);
	if (fd >= 0) {
		DIR *d = fdopendir(fd); struct dirent *de;
		while (d && (de = readdir(d)) != NULL) {
			if (!strcmp(de->d_name, ".") || !strcmp(de->d_name, "..")) continue;
			rm_rf_at(fd, de->d_name);
		}
		if (d) closedir(d); else close(fd);
	}
	unlinkat(dfd, name, AT_REMOVEDIR);
}
static void rm_rf(const char *p) { rm_rf_at(AT_FDCWD, p); }

static struct node *find_node(const char *path)
{
	for (int i = 0; i < nn; i++) if (strcmp(N[i].path, path) == 0) return &N[i];
	return NULL;
}

static char *full(const char *root, const char *rel)
{
	static char buf[4][8192]; static int k;
	char *b = buf[k++ & 3];
	if (*rel) snprintf(b, 8192, "%s/%s", root, rel); else snprintf(b, 8192, "%s", root);
	return b;
}

/* ---------------------------------------------------------------- snapshot */
struct sent { char *path; struct stat st; char *target; char content[40]; char *ext; };
static struct sent *SN; static int nsn, capsn;

static char *extents_of(int fd, int64_t size)
{
	char *out = malloc(64); size_t cap = 64, len = 0; out[0] = 0;
	int64_t pos = 0;
	while (pos < size) {
		int64_t d = lseek(fd, pos, SEEK_DATA);
		if (d < 0) break;
		int64_t h = lseek(fd, d, SEEK_HOLE);
		if (h < 0) h = size;
		if (len + 48 > cap) { cap *= 2; out = realloc(out, cap); }
		len += (size_t)snprintf(out + len, cap - len, "%s%lld:%lld", len ? "," : "", (long long)d, (long long)(h - d));
		pos = h;
	}
	if (len == 0) strcpy(out, "-");
	return out;
}

static void check_content(int fd, const struct node *nd, int64_t size, char *res)
{
	if (nd == NULL || nd->type != 'f') { strcpy(res, "?"); return; }
	if (size != nd->size) { snprintf(res, 40, "BADSIZE"); return; }
	unsigned char *buf = malloc(1 << 16);
	int64_t pos = 0; int si = 0;
	strcpy(res, "ok");
	while (pos < size) {
		ssize_t k = pread(fd, buf, 1 << 16, pos);
		if (k <= 0) { snprintf(res, 40, "BAD@%lld", (long long)pos); break; }
		for (ssize_t i = 0; i < k; i++) {
			int64_t o = pos + i; unsigned char want = 0;
			while (si < nd->nsegs && o >= nd->segs[si].off + nd->segs[si].len) si++;
			if (si < nd->nsegs && o >= nd->segs[si].off) want = genbyte(nd->seed, o);
			if (buf[i] != want) { snprintf(res, 40, "BAD@%lld", (long long)o); free(buf); return; }
		}
		pos += k;
	}
	free(buf);
}

static void snap_dir(int dfd, const char *rel)
{
	DIR *d = fdopendir(dup(dfd)); struct dirent *de;
	if (!d) return;
	rewinddir(d);
	while ((de = readdir(d)) != NULL) {
		if (!strcmp(de->d_name, ".") || !strcmp(de->d_name, "..")) continue;
		if (nsn == capsn) { capsn = capsn ? capsn * 2 : 256; SN = realloc(SN, capsn * sizeof *SN); }
		struct sent *s = &SN[nsn]; memset(s, 0, sizeof *s);
		size_t l = strlen(rel) + strlen(de->d_name) + 2;
		s->path = malloc(l);
		if (*rel) snprintf(s->path, l, "%s/%s", rel, de->d_name); else snprintf(s->path, l, "%s", de->d_name);
		if (fstatat(dfd, de->d_name, &s->st, AT_SYMLINK_NOFOLLOW) != 0) { free(s->path); continue; }
		nsn++;
		strcpy(s->content, "-");
		if (S_ISLNK(s->st.st_mode)) {
			char t[8192]; ssize_t k = readlinkat(dfd, de->d_name, t, sizeof t - 1);
			if (k < 0) k = 0;
			t[k] = 0; s->target = strdup(t);
		} else if (S_ISREG(s->st.st_mode)) {
			int fd = openat(dfd, de->d_name, O_RDONLY | O_NOFOLLOW);
			if (fd >= 0) {
				s->ext = extents_of(fd, s->st.st_size);
				check_content(fd, find_node(s->path), s->st.st_size, s->content);
				close(fd);
			} else strcpy(s->content, "UNREADABLE");
		} else if (S_ISDIR(s->st.st_mode)) {
			int fd = openat(dfd, de->d_name, O_RDONLY | O_DIRECTORY | O_NOFOLLOW);
			if (fd >= 0) { char *p = strdup(s->path); snap_dir(fd, p); free(p); close(fd); }
		}
	}
	closedir(d);
}

static int cmp_sent(const void *a, const void *b)
{ return strcmp(((const struct sent *)a)->path, ((const struct sent *)b)->path); }

static char tchar(mode_t m)
{ return S_ISDIR(m) ? 'd' : S_ISREG(m) ? 'f' : S_ISLNK(m) ? 'l' : S_ISFIFO(m) ? 'p' : 'o'; }

/* prints "|entry|entry..." */
static void snapshot(const char *root)
{
	nsn = 0;
	int fd = open(root, O_RDONLY | O_DIRECTORY);
	if (fd < 0) { printf("|NOROOT"); return; }
	if (nsn == capsn) { capsn = capsn ? capsn * 2 : 256; SN = realloc(SN, capsn * sizeof *SN); }
	memset(&SN[0], 0, sizeof SN[0]); SN[0].path = strdup(""); fstat(fd, &SN[0].st); strcpy(SN[0].content, "-"); nsn = 1;
	snap_dir(fd, "");
	close(fd);
	qsort(SN, nsn, sizeof *SN, cmp_sent);
	for (int i = 0; i < nsn; i++) {
		struct sent *s = &SN[i];
		int g = -1;
		if (!S_ISDIR(s->st.st_mode))
			for (int j = 0; j <= i; j++)
				if (SN[j].st.st_dev == s->st.st_dev && SN[j].st.st_ino == s->st.st_ino && !S_ISDIR(SN[j].st.st_mode)) { g = j; break; }
		putchar('|'); vh_puthex(s->path, strlen(s->path));
		printf(" %c %o %s ", tchar(s->st.st_mode), (unsigned)(s->st.st_mode & 07777),
		    show_time((long long)s->st.st_mtim.tv_sec, (long)s->st.st_mtim.tv_nsec));
		if (g < 0) printf("-"); else printf("%d", g);
		printf(" %lld %s %s ", (long long)(S_ISREG(s->st.st_mode) ? s->st.st_size : 0), s->content, s->ext ? s->ext : "-");
		if (s->target) vh_puthex(s->target, strlen(s->target)); else putchar('-');
	}
	for (int i = 0; i < nsn; i++) { free(SN[i].path); free(SN[i].target); free(SN[i].ext); }
	nsn = 0;
}

/* ---------------------------------------------------------------- building */
static void t_begin(void)
{
	const char *sc = getenv("VERIF_SCRATCH");
	if (!sc) sc = "/tmp";
	snprintf(base, sizeof base, "%s/tree.%d", sc, (int)getpid());
	rm_rf(base);
	mkdir(base, 0755);
	snprintf(src, sizeof src, "%s/src", base);
	mkdir(src, 0755);
	nn = 0; seq = 0; nextra = 0; t0 = time(NULL);
	const char *b = getenv("VERIF_BIN");
	snprintf(bindir, sizeof bindir, "%s", b ? b : ".");
	umask(022);
}

static void t_end(void)
{
	if (getenv("VERIF_KEEP_TREE") == NULL) rm_rf(base);
	for (int i = 0; i < nn; i++) { free(N[i].path); free(N[i].segs); }
	nn = 0; free(SN); SN = NULL; capsn = 0;
}

static struct node *add_node(char *path, int type)
{
	if (nn == MAXN) return NULL;
	struct node *n = &N[nn++]; memset(n, 0, sizeof *n);
	n->path = path; n->type = type; return n;
}

static void parse_segs(struct node *n, const char *s)
{
	n->nsegs = 0; n->segs = NULL;
	if (strcmp(s, "-") == 0) return;
	int cnt = 1; for (const char *p = s; *p; p++) if (*p == ',') cnt++;
	n->segs = calloc((size_t)cnt, sizeof *n->segs);
	const char *p = s;
	while (*p) {
		char *e; long long o = strtoll(p, &e, 10); if (*e != ':') break;
		long long l = strtoll(e + 1, &e, 10);
		n->segs[n->nsegs].off = o; n->segs[n->nsegs].len = l; n->nsegs++;
		if (*e == ',') e++;
		p = e;
	}
}

static int make_file(const char *fp, struct node *n)
{
	int fd = open(fp, O_WRONLY | O_CREAT | O_EXCL, 0600);
	if (fd < 0) return -1;
	unsigned char *buf = malloc(1 << 16);
	for (int i = 0; i < n->nsegs; i++) {
		int64_t o = n->segs[i].off, end = o + n->segs[i].len;
		while (o < end) {
			int64_t k = end - o; if (k > (1 << 16)) k = 1 << 16;
			for (int64_t j = 0; j < k; j++) buf[j] = genbyte(n->seed, o + j);
			if (pwrite(fd, buf, (size_t)k, o) != k) { free(buf); close(fd); return -1; }
			o += k;
		}
	}
	free(buf);
	if (ftruncate(fd, n->size) != 0) { close(fd); return -1; }
	close(fd);
	return 0;
}

static void do_seal(void)
{
	for (int i = nn - 1; i >= 0; i--) {
		struct node *n = &N[i];
		if (!n->hasmeta) continue;
		char *fp = full(src, n->path);
		struct timespec ts[2] = { { n->sec, n->nsec }, { n->sec, n->nsec } };
		if (n->type != 'l') {
			/* set times first: a directory without owner bits is still ours (root) */
			utimensat(AT_FDCWD, fp, ts, AT_SYMLINK_NOFOLLOW);
			chmod(fp, n->mode);
		} else
			utimensat(AT_FDCWD, fp, ts, AT_SYMLINK_NOFOLLOW);
	}
	struct stat st;
	if (stat(src, &st) == 0) blk = st.st_blksize;
	printf("S blk=%ld xattr=%d", blk, xattr_ok);
	snapshot(src);
	putchar('\n');
}

/* ---------------------------------------------------------------- walk */
static const char *ftname(unsigned ft)
{
	switch (ft) { case AE_IFDIR: return "d"; case AE_IFREG: return "f"; case AE_IFLNK: return "l"; case AE_IFIFO: return "p"; default: return "o"; }
}

static const char *relname(const char *p)
{
	if (p[0] == '.' && p[1] == 0) return "";
	if (p[0] == '.' && p[1] == '/') return p + 2;
	return p;
}

static int worse(int a, int b) { return b < a ? b : a; }

static void do_walk(void)
{
	int cwd = open(".", O_RDONLY);
	if (chdir(src) != 0) { printf("W nochdir\n"); close(cwd); return; }
	struct archive *d = archive_read_disk_new();
	archive_read_disk_set_symlink_physical(d);
	int r = archive_read_disk_open(d, ".");
	struct { int64_t dev, ino; } seen[MAXN]; int ns = 0;
	char *out = NULL; size_t outlen = 0; FILE *o = open_memstream(&out, &outlen);
	int final = r;
	while (r == ARCHIVE_OK || r == ARCHIVE_WARN) {
		struct archive_entry *e = archive_entry_new();
		r = archive_read_next_header2(d, e);
		if (r == ARCHIVE_EOF) { final = r; archive_entry_free(e); break; }
		if (r < ARCHIVE_WARN) { final = r; archive_entry_free(e); if (r == ARCHIVE_FAILED) { r = ARCHIVE_OK; fprintf(o, "|FAILED"); continue; } break; }
		archive_read_disk_descend(d);
		const char *rel = relname(archive_entry_pathname(e));
		unsigned ft = archive_entry_filetype(e);
		fputc('|', o);
		if (*rel) for (const char *p = rel; *p; p++) fprintf(o, "%02x", (unsigned char)*p); else fputc('-', o);
		fprintf(o, " %s %o %s ", ftname(ft), (unsigned)(archive_entry_mode(e) & 07777),
		    show_time((long long)archive_entry_mtime(e), archive_entry_mtime_nsec(e)));
		if (ft == AE_IFDIR) fprintf(o, "- -");
		else {
			int g = -1;
			for (int j = 0; j < ns; j++) if (seen[j].dev == archive_entry_dev(e) && seen[j].ino == archive_entry_ino64(e)) { g = j; break; }
			if (g < 0 && ns < MAXN) { g = ns; }
			fprintf(o, "%d %u", g, archive_entry_nlink(e));
		}
		if (ns < MAXN) { seen[ns].dev = ft == AE_IFDIR ? -1 : archive_entry_dev(e); seen[ns].ino = ft == AE_IFDIR ? -1 - ns : archive_entry_ino64(e); ns++; }
		fprintf(o, " %lld ", (long long)(ft == AE_IFREG ? archive_entry_size(e) : 0));
		/* content through read_data_block */
		if (ft == AE_IFREG) {
			struct node *nd = find_node(rel);
			int64_t size = archive_entry_size(e);
			unsigned char *img = calloc(1, (size_t)size + 1);
			const void *b; size_t bs; int64_t off; int rr, bad = 0;
			while ((rr = archive_read_data_block(d, &b, &bs, &off)) == ARCHIVE_OK) {
				if (off < 0 || off + (int64_t)bs > size) { bad = 1; break; }
				memcpy(img + off, b, bs);
			}
			if (rr != ARCHIVE_EOF) bad = 1;
			if (!bad && nd && nd->type == 'f' && nd->size == size) {
				int si = 0;
				for (int64_t q = 0; q < size; q++) {
					unsigned char want = 0;
					while (si < nd->nsegs && q >= nd->segs[si].off + nd->segs[si].len) si++;
					if (si < nd->nsegs && q >= nd->segs[si].off) want = genbyte(nd->seed, q);
					if (img[q] != want) { bad = 2; break; }
				}
			} else if (!bad) bad = 3;
			free(img);
			fprintf(o, bad ? "BAD%d" : "ok", bad);
		} else fputc('-', o);
		/* sparse map */
		fputc(' ', o);
		int sc = archive_entry_sparse_reset(e);
		if (sc == 0) fputc('-', o);
		for (int k = 0; k < sc; k++) {
			la_int64_t so, sl; archive_entry_sparse_next(e, &so, &sl);
			fprintf(o, "%s%lld:%lld", k ? "," : "", (long long)so, (long long)sl);
		}
		fputc(' ', o);
		const char *t = archive_entry_symlink(e);
		if (t && ft == AE_IFLNK) { if (!*t) fputc('-', o); for (const char *p = t; *p; p++) fprintf(o, "%02x", (unsigned char)*p); } else fputc('-', o);
		archive_entry_free(e);
	}
	archive_read_close(d);
	archive_read_free(d);
	fclose(o);
	/* getcwd restored? */
	struct stat a, b2; int cwdok = stat(".", &a) == 0 && stat(src, &b2) == 0 && a.st_ino == b2.st_ino && a.st_dev == b2.st_dev;
	printf("W %s cwd=%d%s\n", vh_st(final), cwdok, out ? out : "");
	free(out);
	if (fchdir(cwd) != 0) {}
	close(cwd);
}

/* ---------------------------------------------------------------- library round trip */
static int write_one(struct archive *aw, struct archive *disk, struct archive_entry *e, int *worst)
{
	int r = archive_write_header(aw, e);
	*worst = worse(*worst, r);
	if (r == ARCHIVE_FATAL) return r;
	if (r >= ARCHIVE_WARN && archive_entry_size(e) > 0) {
		static char nulls[16384];
		const void *b; size_t bs; int64_t off, progress = 0; int rr;
		while ((rr = archive_read_data_block(disk, &b, &bs, &off)) == ARCHIVE_OK) {
			while (off > progress) {
				int64_t k = off - progress; if (k > (int64_t)sizeof nulls) k = sizeof nulls;
				la_ssize_t w = archive_write_data(aw, nulls, (size_t)k);
				if (w < 0) { *worst = worse(*worst, (int)w); return (int)w; }
				if (w == 0) break;
				progress += w;
			}
			la_ssize_t w = archive_write_data(aw, b, bs);
			if (w < 0) { *worst = worse(*worst, (int)w); return (int)w; }
			progress += w;
		}
		if (rr != ARCHIVE_EOF) *worst = worse(*worst, rr);
	}
	return r;
}

static int pack(const char *fmt, const char *apath)
{
	int worst = ARCHIVE_OK;
	struct archive *aw = archive_write_new();
	char fbuf[64];
	if (strlen(fmt) > 4 && strlen(fmt) < sizeof fbuf && strcmp(fmt + strlen(fmt) - 4, "-seq") == 0) {
		snprintf(fbuf, sizeof fbuf, "%.*s", (int)strlen(fmt) - 4, fmt);
		fmt = fbuf;
	}
	if (archive_write_set_format_by_name(aw, fmt) != ARCHIVE_OK) { archive_write_free(aw); return ARCHIVE_FATAL; }
	if (archive_write_open_filename(aw, apath) != ARCHIVE_OK) { archive_write_free(aw); return ARCHIVE_FATAL; }
	struct archive *disk = archive_read_disk_new();
	archive_read_disk_set_symlink_physical(disk);
	archive_read_disk_set_standard_lookup(disk);
	struct archive_entry_linkresolver *res = archive_entry_linkresolver_new();
	archive_entry_linkresolver_set_strategy(res, archive_format(aw));
	int r = archive_read_disk_open(disk, ".");
	worst = worse(worst, r);
	while (r >= ARCHIVE_WARN) {
		struct archive_entry *e = archive_entry_new(), *spare = NULL;
		r = archive_read_next_header2(disk, e);
		if (r == ARCHIVE_EOF) { archive_entry_free(e); break; }
		if (r < ARCHIVE_WARN) { worst = worse(worst, r); archive_entry_free(e); if (r == ARCHIVE_FAILED) { r = ARCHIVE_OK; continue; } break; }
		archive_read_disk_descend(disk);
		if (archive_entry_filetype(e) != AE_IFREG) archive_entry_set_size(e, 0);
		archive_entry_linkify(res, &e, &spare);
		while (e != NULL) {
			write_one(aw, disk, e, &worst);
			archive_entry_free(e);
			e = spare; spare = NULL;
		}
	}
	archive_read_close(disk);
	/* entries still parked in the resolver (new cpio): re-open each to read its body (tar/write.c) */
	struct archive_entry *e = NULL, *spare = NULL;
	archive_entry_linkify(res, &e, &spare);
	while (e != NULL) {
		if (archive_read_disk_open(disk, archive_entry_sourcepath(e)) == ARCHIVE_OK) {
			struct archive_entry *e2 = archive_entry_new();
			if (archive_read_next_header2(disk, e2) == ARCHIVE_OK) write_one(aw, disk, e, &worst);
			else worst = worse(worst, ARCHIVE_FAILED);
			archive_entry_free(e2);
			archive_read_close(disk);
		} else worst = worse(worst, ARCHIVE_FAILED);
		archive_entry_free(e);
		e = NULL;
		archive_entry_linkify(res, &e, &spare);
	}
	archive_entry_linkresolver_free(res);
	archive_read_free(disk);
	worst = worse(worst, archive_write_close(aw));
	archive_write_free(aw);
	return worst;
}

static int parse_flags(const char *s)
{
	int f = ARCHIVE_EXTRACT_SECURE_SYMLINKS | ARCHIVE_EXTRACT_SECURE_NODOTDOT;
	for (; *s; s++) switch (*s) {
	case 'p': f |= ARCHIVE_EXTRACT_PERM; break;
	case 't': f |= ARCHIVE_EXTRACT_TIME; break;
	case 's': f |= ARCHIVE_EXTRACT_SPARSE; break;
	case 'x': f |= ARCHIVE_EXTRACT_XATTR; break;
	case 'a': f |= ARCHIVE_EXTRACT_SECURE_NOABSOLUTEPATHS; break;
	default: break;
	}
	return f;
}

/* sequential byte source without skip/seek (like a pipe) */
struct seqsrc { int fd; char buf[10240]; };
static la_ssize_t seq_read(struct archive *a, void *d, const void **b)
{
	struct seqsrc *s = d; (void)a;
	ssize_t k = read(s->fd, s->buf, sizeof s->buf);
	*b = s->buf; return k;
}
static int seq_close(struct archive *a, void *d) { struct seqsrc *s = d; (void)a; close(s->fd); free(s); return ARCHIVE_OK; }
static int unpack_sequential;

/* runs in the (possibly unprivileged) child: extract apath into cwd; returns worst<<16 | nfail */
static void unpack(const char *apath, int flags, int *worstp, int *nfailp)
{
	int worst = ARCHIVE_OK, nfail = 0;
	struct archive *ar = archive_read_new();
	archive_read_support_format_all(ar);
	archive_read_support_filter_all(ar);
	struct archive *ext = archive_write_disk_new();
	archive_write_disk_set_options(ext, flags);
	int r;
	if (unpack_sequential) {
		struct seqsrc *s = calloc(1, sizeof *s);
		s->fd = open(apath, O_RDONLY);
		r = archive_read_open(ar, s, NULL, seq_read, seq_close);
	} else
		r = archive_read_open_filename(ar, apath, 10240);
	worst = worse(worst, r);
	while (r >= ARCHIVE_WARN) {
		struct archive_entry *e;
		r = archive_read_next_header(ar, &e);
		if (r == ARCHIVE_EOF) break;
		if (r < ARCHIVE_WARN) {
			worst = worse(worst, r);
			fprintf(stderr, "[unpack] next_header: %s\n", archive_error_string(ar) ? archive_error_string(ar) : "?");
			break;
		}
		int x = archive_read_extract2(ar, e, ext);
		if (x != ARCHIVE_OK) {
			nfail++; worst = worse(worst, x);
			fprintf(stderr, "[unpack] extract %s: %s\n", archive_entry_pathname(e), archive_error_string(ar) ? archive_error_string(ar) : "?");
		}
		if (x == ARCHIVE_FATAL) break;
	}
	worst = worse(worst, archive_write_close(ext));
	archive_write_free(ext);
	archive_read_close(ar);
	archive_read_free(ar);
	*worstp = worst; *nfailp = nfail;
}

static void drop_to(int uid)
{
	if (uid == 0) return;
	if (setgroups(0, NULL) != 0 || setgid((gid_t)uid) != 0 || setuid((uid_t)uid) != 0) _exit(70);
}

static void do_rt(const char *fmt, const char *flagstr, int uid)
{
	char apath[700], dst[700];
	seq++;
	snprintf(apath, sizeof apath, "%s/a%d.bin", base, seq);
	snprintf(dst, sizeof dst, "%s/dst%d", base, seq);
	int cwd = open(".", O_RDONLY);
	if (chdir(src) != 0) { printf("R nochdir\n"); close(cwd); return; }
	int w = pack(fmt, apath);
	/* "rt <fmt>-seq" reads the archive back through a sequential source (no skip, no seek) */
	unpack_sequential = strlen(fmt) > 4 && strcmp(fmt + strlen(fmt) - 4, "-seq") == 0;
	if (fchdir(cwd) != 0) {}
	mkdir(dst, 0755);
	if (uid) { if (chown(dst, (uid_t)uid, (gid_t)uid) != 0) {} }
	int xw = ARCHIVE_FATAL, nfail = -1;
	int pfd[2];
	if (pipe(pfd) == 0) {
		fflush(stdout);
		pid_t pid = fork();
		if (pid == 0) {
			close(pfd[0]);
			if (chdir(dst) != 0) _exit(71);
			drop_to(uid);
			int res[2];
			unpack(apath, parse_flags(flagstr), &res[0], &res[1]);
			if (write(pfd[1], res, sizeof res) != sizeof res) _exit(72);
			_exit(0);
		}
		close(pfd[1]);
		int res[2];
		if (read(pfd[0], res, sizeof res) == sizeof res) { xw = res[0]; nfail = res[1]; }
		close(pfd[0]);
		int st; waitpid(pid, &st, 0);
		if (!WIFEXITED(st) || WEXITSTATUS(st) != 0) { xw = ARCHIVE_FATAL; nfail = -2; }
	}
	printf("R w=%s x=%s nfail=%d", vh_st(w), vh_st(xw), nfail);
	snapshot(dst);
	putchar('\n');
	rm_rf(dst);
	if (getenv("VERIF_KEEP_TREE") == NULL) unlink(apath);
	close(cwd);
}

/* ---------------------------------------------------------------- CLI */
static pid_t spawn(char *const argv[], const char *cwd, int uid, int in, int out, int errfd)
{
	fflush(stdout);
	pid_t pid = fork();
	if (pid == 0) {
		if (in >= 0) { dup2(in, 0); } else { int n = open("/dev/null", O_RDONLY); dup2(n, 0); }
		if (out >= 0) dup2(out, 1);
		if (errfd >= 0) dup2(errfd, 2);
		for (int fd = 3; fd < 256; fd++) close(fd);
		if (chdir(cwd) != 0) _exit(71);
		drop_to(uid);
		setenv("ASAN_OPTIONS", "detect_leaks=0:exitcode=98", 1);
		setenv("LC_ALL", "C.UTF-8", 1);
		setenv("LANG", "C.UTF-8", 1);
		execv(argv[0], argv);
		_exit(127);
	}
	return pid;
}

static int wait_rc(pid_t p)
{
	int st = 0; waitpid(p, &st, 0);
	return WIFEXITED(st) ? WEXITSTATUS(st) : 128 + WTERMSIG(st);
}

/* pre-order list of names as `find .` prints them */
static void find_list(int dfd, const char *rel, FILE *o)
{
	DIR *d = fdopendir(dup(dfd)); struct dirent *de;
	if (!d) return;
	rewinddir(d);
	while ((de = readdir(d)) != NULL) {
		if (!strcmp(de->d_name, ".") || !strcmp(de->d_name, "..")) continue;
		fprintf(o, "%s/%s\n", rel, de->d_name);
		struct stat st;
		if (fstatat(dfd, de->d_name, &st, AT_SYMLINK_NOFOLLOW) == 0 && S_ISDIR(st.st_mode)) {
			int fd = openat(dfd, de->d_name, O_RDONLY | O_DIRECTORY | O_NOFOLLOW);
			if (fd >= 0) {
				size_t l = strlen(rel) + strlen(de->d_name) + 2; char *p = malloc(l);
				snprintf(p, l, "%s/%s", rel, de->d_name);
				find_list(fd, p, o); free(p); close(fd);
			}
		}
	}
	closedir(d);
}

static int split_opts(char *s, char **argv, int n, int max)
{
	if (strcmp(s, "-") == 0) return n;
	for (char *t = strtok(s, ","); t && n < max; t = strtok(NULL, ",")) argv[n++] = t;
	return n;
}

static void do_cli(const char *tool, const char *fmt, char *copts, char *xopts, int uid)
{
	char dst[700], errp[700], tarbin[600], cpiobin[600], names[700];
	seq++;
	snprintf(dst, sizeof dst, "%s/dst%d", base, seq);
	snprintf(errp, sizeof errp, "%s/err%d", base, seq);
	snprintf(names, sizeof names, "%s/names%d", base, seq);
	snprintf(tarbin, sizeof tarbin, "%s/bsdtar", bindir);
	snprintf(cpiobin, sizeof cpiobin, "%s/bsdcpio", bindir);
	mkdir(dst, 0755);
	if (uid) { if (chown(dst, (uid_t)uid, (gid_t)uid) != 0) {} }
	int efd = open(errp, O_WRONLY | O_CREAT | O_TRUNC, 0644);
	int pfd[2]; if (pipe(pfd) != 0) { printf("C nopipe\n"); return; }
	char *a1[32], *a2[32]; int n1 = 0, n2 = 0, in1 = -1;
	char f1[64];
	if (strcmp(tool, "tar") == 0) {
		a1[n1++] = tarbin; a1[n1++] = "-cf"; a1[n1++] = "-";
		if (strcmp(fmt, "-") != 0) { a1[n1++] = "--format"; snprintf(f1, sizeof f1, "%s", fmt); a1[n1++] = f1; }
		n1 = split_opts(copts, a1, n1, 28);
		a1[n1++] = "."; a1[n1] = NULL;
		a2[n2++] = tarbin; a2[n2++] = "-xf"; a2[n2++] = "-";
		n2 = split_opts(xopts, a2, n2, 30); a2[n2] = NULL;
	} else {
		FILE *nf = fopen(names, "w");
		fprintf(nf, ".\n");
		int sfd = open(src, O_RDONLY | O_DIRECTORY);
		if (sfd >= 0) { find_list(sfd, ".", nf); close(sfd); }
		fclose(nf);
		in1 = open(names, O_RDONLY);
		a1[n1++] = cpiobin; a1[n1++] = "-o"; a1[n1++] = "--quiet";
		if (strcmp(fmt, "-") != 0) { a1[n1++] = "-H"; snprintf(f1, sizeof f1, "%s", fmt); a1[n1++] = f1; }
		n1 = split_opts(copts, a1, n1, 30); a1[n1] = NULL;
		a2[n2++] = cpiobin; a2[n2++] = "-i"; a2[n2++] = "--quiet";
		n2 = split_opts(xopts, a2, n2, 30); a2[n2] = NULL;
	}
	pid_t p1 = spawn(a1, src, 0, in1, pfd[1], efd);
	pid_t p2 = spawn(a2, dst, uid, pfd[0], efd, efd);
	close(pfd[0]); close(pfd[1]); if (in1 >= 0) close(in1);
	int r1 = wait_rc(p1), r2 = wait_rc(p2);
	close(efd);
	printf("C rc=%d,%d", r1, r2);
	snapshot(dst);
	putchar('\n');
	if (getenv("VERIF_KEEP_ERR")) { FILE *e = fopen(errp, "r"); char l[512]; while (e && fgets(l, sizeof l, e)) fprintf(stderr, "[cli] %s", l); if (e) fclose(e); }
	rm_rf(dst); unlink(errp); unlink(names);
}

static void do_list(const char *fmt)
{
	char outp[700], tarbin[600], f1[64];
	seq++;
	snprintf(outp, sizeof outp, "%s/list%d", base, seq);
	snprintf(tarbin, sizeof tarbin, "%s/bsdtar", bindir);
	int ofd = open(outp, O_WRONLY | O_CREAT | O_TRUNC, 0644);
	int nul = open("/dev/null", O_WRONLY);
	int pfd[2]; if (pipe(pfd) != 0) { printf("L nopipe\n"); return; }
	char *a1[16], *a2[16]; int n1 = 0, n2 = 0;
	a1[n1++] = tarbin; a1[n1++] = "-cf"; a1[n1++] = "-";
	if (strcmp(fmt, "-") != 0) { a1[n1++] = "--format"; snprintf(f1, sizeof f1, "%s", fmt); a1[n1++] = f1; }
	a1[n1++] = "."; a1[n1] = NULL;
	a2[n2++] = tarbin; a2[n2++] = "-tf"; a2[n2++] = "-"; a2[n2] = NULL;
	pid_t p1 = spawn(a1, src, 0, -1, pfd[1], nul);
	pid_t p2 = spawn(a2, base, 0, pfd[0], ofd, nul);
	close(pfd[0]); close(pfd[1]); close(ofd); close(nul);
	int r1 = wait_rc(p1), r2 = wait_rc(p2);
	printf("L rc=%d,%d", r1, r2);
	FILE *f = fopen(outp, "r"); char *line = NULL; size_t cap = 0; ssize_t k;
	while (f && (k = getline(&line, &cap, f)) > 0) {
		if (line[k - 1] == '\n') line[--k] = 0;
		putchar('|'); vh_puthex(line, (size_t)k);
	}
	free(line); if (f) fclose(f);
	putchar('\n');
	unlink(outp);
}

/* ---------------------------------------------------------------- xattrs */
static uint64_t xattr_digest(const char *path)
{
	char names[4096]; ssize_t l = llistxattr(path, names, sizeof names);
	if (l <= 0) return 0;
	/* order-independent digest of user.* name=value pairs */
	uint64_t acc = 0;
	for (char *p = names; p < names + l; p += strlen(p) + 1) {
		if (strncmp(p, "user.", 5) != 0) continue;
		char val[4096]; ssize_t vl = lgetxattr(path, p, val, sizeof val);
		if (vl < 0) vl = 0;
		acc += vh_fnv(p, strlen(p)) * 31 + vh_fnv(val, (size_t)vl);
	}
	return acc;
}

static void do_xcmp(const char *fmt, int uid)
{
	if (!xattr_ok) { printf("X nosup\n"); return; }
	char apath[700], dst[700];
	seq++;
	snprintf(apath, sizeof apath, "%s/a%d.bin", base, seq);
	snprintf(dst, sizeof dst, "%s/dst%d", base, seq);
	int cwd = open(".", O_RDONLY);
	if (chdir(src) != 0) { printf("X nochdir\n"); close(cwd); return; }
	pack(fmt, apath);
	unpack_sequential = 0;
	if (fchdir(cwd) != 0) {}
	mkdir(dst, 0755);
	if (uid) { if (chown(dst, (uid_t)uid, (gid_t)uid) != 0) {} }
	fflush(stdout);
	pid_t pid = fork();
	if (pid == 0) {
		if (chdir(dst) != 0) _exit(71);
		drop_to(uid);
		int a, b; unpack(apath, parse_flags("ptx"), &a, &b);
		_exit(0);
	}
	int st; waitpid(pid, &st, 0);
	const char *verdict = "same"; char bad[8192] = "";
	for (int i = 0; i < nn; i++) {
		if (N[i].type == 'l' || N[i].type == 0) continue;
		uint64_t a = xattr_digest(full(src, N[i].path)), b = xattr_digest(full(dst, N[i].path));
		if (a != b) { verdict = "diff"; snprintf(bad, sizeof bad, "%s", N[i].path); break; }
	}
	if (*bad) { printf("X diff:"); vh_puthex(bad, strlen(bad)); putchar('\n'); }
	else printf("X %s\n", verdict);
	rm_rf(dst); unlink(apath);
	close(cwd);
}

/* ---------------------------------------------------------------- dispatch */
static void t_op(char *line)
{
	char *w[12]; int n = vh_split(line, w, 12);
	if (n == 0) { printf("bad-op\n"); return; }
	if (!strcmp(w[0], "seal") && n == 1) { do_seal(); return; }
	if (!strcmp(w[0], "walk") && n == 1) { do_walk(); return; }
	if (!strcmp(w[0], "rt") && n == 4) { do_rt(w[1], w[2], atoi(w[3])); return; }
	if (!strcmp(w[0], "cli") && n == 6) { do_cli(w[1], w[2], w[3], w[4], atoi(w[5])); return; }
	if (!strcmp(w[0], "list") && n == 2) { do_list(w[1]); return; }
	if (!strcmp(w[0], "xcmp") && n == 3) { do_xcmp(w[1], atoi(w[2])); return; }
	if (!strcmp(w[0], "d") && n == 5) {
		char *p = unhexs(w[1]);
		if (*p == 0) { struct node *nd = add_node(p, 'd'); nd->mode = (unsigned)strtoul(w[2], NULL, 8); nd->sec = strtoll(w[3], NULL, 10); nd->nsec = strtol(w[4], NULL, 10); nd->hasmeta = 1; printf("ok\n"); return; }
		if (find_node(p) || mkdir(full(src, p), 0700) != 0) { free(p); printf("skip\n"); return; }
		struct node *nd = add_node(p, 'd');
		nd->mode = (unsigned)strtoul(w[2], NULL, 8); nd->sec = strtoll(w[3], NULL, 10); nd->nsec = strtol(w[4], NULL, 10); nd->hasmeta = 1;
		printf("ok\n"); return;
	}
	if (!strcmp(w[0], "f") && n == 8) {
		char *p = unhexs(w[1]);
		if (*p == 0 || find_node(p)) { free(p); printf("skip\n"); return; }
		struct node tmp; memset(&tmp, 0, sizeof tmp);
		tmp.size = strtoll(w[5], NULL, 10); tmp.seed = strtoull(w[6], NULL, 10); parse_segs(&tmp, w[7]);
		if (make_file(full(src, p), &tmp) != 0) { free(tmp.segs); free(p); printf("skip\n"); return; }
		struct node *nd = add_node(p, 'f');
		nd->size = tmp.size; nd->seed = tmp.seed; nd->segs = tmp.segs; nd->nsegs = tmp.nsegs;
		nd->mode = (unsigned)strtoul(w[2], NULL, 8); nd->sec = strtoll(w[3], NULL, 10); nd->nsec = strtol(w[4], NULL, 10); nd->hasmeta = 1;
		printf("ok\n"); return;
	}
	if (!strcmp(w[0], "l") && n == 5) {
		char *p = unhexs(w[1]), *t = unhexs(w[4]);
		if (*p == 0 || find_node(p) || symlink(t, full(src, p)) != 0) { free(p); free(t); printf("skip\n"); return; }
		free(t);
		struct node *nd = add_node(p, 'l');
		nd->mode = 0777; nd->sec = strtoll(w[2], NULL, 10); nd->nsec = strtol(w[3], NULL, 10); nd->hasmeta = 1;
		printf("ok\n"); return;
	}
	if (!strcmp(w[0], "p") && n == 5) {
		char *p = unhexs(w[1]);
		if (*p == 0 || find_node(p) || mkfifo(full(src, p), 0600) != 0) { free(p); printf("skip\n"); return; }
		struct node *nd = add_node(p, 'p');
		nd->mode = (unsigned)strtoul(w[2], NULL, 8); nd->sec = strtoll(w[3], NULL, 10); nd->nsec = strtol(w[4], NULL, 10); nd->hasmeta = 1;
		printf("ok\n"); return;
	}
	if (!strcmp(w[0], "h") && n == 3) {
		char *p = unhexs(w[1]), *q = unhexs(w[2]);
		struct node *o = find_node(q);
		if (*p == 0 || find_node(p) || !o || o->type == 'd' || linkat(AT_FDCWD, full(src, q), AT_FDCWD, full(src, p), 0) != 0) { free(p); free(q); printf("skip\n"); return; }
		struct node *nd = add_node(p, o->type);
		nd->size = o->size; nd->seed = o->seed; nd->nsegs = o->nsegs;
		if (o->nsegs) { nd->segs = malloc(sizeof *nd->segs * (size_t)o->nsegs); memcpy(nd->segs, o->segs, sizeof *nd->segs * (size_t)o->nsegs); }
		nd->hasmeta = 0;
		free(q); printf("ok\n"); return;
	}
	if (!strcmp(w[0], "hx") && n == 2) {
		char *q = unhexs(w[1]); char ext[700];
		struct node *o = find_node(q);
		snprintf(ext, sizeof ext, "%s/ext%d", base, nextra++);
		if (!o || o->type == 'd' || linkat(AT_FDCWD, full(src, q), AT_FDCWD, ext, 0) != 0) { free(q); printf("skip\n"); return; }
		free(q); printf("ok\n"); return;
	}
	if (!strcmp(w[0], "x") && n == 4) {
		char *p = unhexs(w[1]), *nm = unhexs(w[2]); size_t vl; unsigned char *v = vh_unhex(w[3], &vl);
		char key[300]; snprintf(key, sizeof key, "user.%s", nm);
		struct node *o = find_node(p);
		if (!o || o->type == 'l' || o->type == 'p') printf("skip\n");
		else if (setxattr(full(src, p), key, v, vl, 0) != 0) { if (errno == ENOTSUP) xattr_ok = 0; printf("nosup\n"); }
		else printf("ok\n");
		free(p); free(nm); free(v); return;
	}
	printf("bad-op\n");
}

int main(int argc, char **argv)
{
	struct vh_engine e = { t_begin, t_op, t_end };
	setlocale(LC_ALL, "");     /* as bsdtar/bsdcpio do: pathnames are converted from the locale's charset */
	return vh_main(argc, argv, &e);
}
