/* Engine `uni` (C18): drives the real Unicode codecs of archive_string.c.
 * The static functions are reached by including the .c file into this TU.
 * Every source string is placed in an exact-size malloc block so that ASan sees
 * any read past `n`; every destination gets exactly the room announced. */
#include "common.h"
#include <locale.h>
#include <wchar.h>
#include <archive.h>
#include <archive_entry.h>
#include "archive_string.c"

#define SENTINEL 0xAAAAAAAAu

/* owners of the conversion objects of one case.  Two handles: libarchive caches conversion objects
 * per archive by the pair of charset names only, so to_charset("UTF-8") and from_charset("UTF-8")
 * in a UTF-8 locale would share one object (and the normalisation flag of whichever came first). */
static struct archive *ar_to, *ar_from;

#include <sys/time.h>
static void watchdog(int cpu_seconds)
{
	struct itimerval it; memset(&it, 0, sizeof it);
	it.it_value.tv_sec = cpu_seconds;
	setitimer(ITIMER_PROF, &it, NULL);
	alarm(cpu_seconds ? cpu_seconds * 30 : 0);
}

static void u_begin(void) { ar_to = ar_from = NULL; }
static void u_end(void)
{
	watchdog(0);     /* nothing is armed during teardown and the exit-time leak check */
	if (ar_to) archive_read_free(ar_to);
	if (ar_from) archive_read_free(ar_from);
	ar_to = ar_from = NULL;
}

/* exact-size copy of the first n bytes; for n == 0 a zero-size block (ASan flags any access) */
static char *exact(const unsigned char *b, size_t n)
{
	char *p = malloc(n);
	if (p == NULL) p = malloc(1);
	if (n) memcpy(p, b, n);
	return p;
}

/* Operand syntax: "-" empty | hex | "@N" = N pattern bytes 'a'+(i%26) | "R<k>:<unithex>:<tailhex|->" = unit repeated
 * k times followed by tail (long border inputs stay short on the protocol line; the driver expands the same way). */
static unsigned char *operand(const char *s, size_t *n)
{
	if (s[0] == '@') {
		size_t l = strtoull(s + 1, NULL, 10); unsigned char *b = malloc(l ? l : 1);
		for (size_t i = 0; i < l; i++) b[i] = (unsigned char)('a' + i % 26);
		*n = l; return b;
	}
	if (s[0] == 'R') {
		char *c1 = strchr(s, ':'), *c2 = c1 ? strchr(c1 + 1, ':') : NULL;
		if (c2 == NULL) { *n = 0; return malloc(1); }
		size_t k = strtoull(s + 1, NULL, 10), ul, tl;
		char *us = strndup(c1 + 1, (size_t)(c2 - c1 - 1));
		unsigned char *u = vh_unhex(us, &ul), *tb = vh_unhex(c2 + 1, &tl);
		unsigned char *b = malloc(k * ul + tl + 1);
		for (size_t i = 0; i < k; i++) memcpy(b + i * ul, u, ul);
		memcpy(b + k * ul, tb, tl);
		*n = k * ul + tl; free(us); free(u); free(tb); return b;
	}
	return vh_unhex(s, n);
}

/* bytes as hex, or as "#<n>:<fnv1a-64>" when there are more than 2048 of them */
static void puthexd(const void *p, size_t n)
{
	if (n <= 2048) { vh_puthex(p, n); return; }
	printf("#%zu:%016llx", n, (unsigned long long)vh_fnv(p, n));
}

/* a destination that already holds `n` pattern bytes, grown by libarchive's own policy */
static void prefill(struct archive_string *as, size_t n)
{
	size_t l; char word[32]; snprintf(word, sizeof word, "@%zu", n);
	unsigned char *b = operand(word, &l);
	archive_string_init(as);
	if (n) archive_strncat(as, b, l);
	free(b);
}

static void pr_dec(int r, uint32_t uc)
{
	printf("r=%d uc=", r);
	if (uc == SENTINEL) printf("-"); else printf("%x", uc);
}

typedef int (*dec_fn)(uint32_t *, const char *, size_t);

static dec_fn dec_by_name(const char *w)
{
	if (!strcmp(w, "d8r")) return _utf8_to_unicode;
	if (!strcmp(w, "d8")) return utf8_to_unicode;
	if (!strcmp(w, "dc8")) return cesu8_to_unicode;
	if (!strcmp(w, "d16be")) return utf16be_to_unicode;
	if (!strcmp(w, "d16le")) return utf16le_to_unicode;
	return NULL;
}

static uint64_t dg;
static void mix(uint64_t v) { dg ^= v; dg *= 1099511628211ULL; }

static void mix_dec(dec_fn f, const char *s, size_t n)
{
	uint32_t uc = SENTINEL; int r = f(&uc, s, n);
	mix((uint64_t)(int64_t)(r + 16)); mix(uc);
}

/* set up an archive_string with exactly `cap` bytes of buffer holding `pre` */
static int mk_as(struct archive_string *as, size_t cap, const unsigned char *pre, size_t npre)
{
	archive_string_init(as);
	if (cap == 0) return npre == 0;
	if (npre >= cap) return 0;
	as->s = malloc(cap); as->buffer_length = cap; as->length = npre;
	memcpy(as->s, pre, npre); as->s[npre] = 0;
	return 1;
}

static void pr_as(int r, struct archive_string *as, int ts)
{
	int nul = as->s != NULL && as->length + ts <= as->buffer_length && as->s[as->length] == 0 &&
	    (ts == 1 || as->s[as->length + 1] == 0);
	printf("r=%d len=%zu cap=%zu out=", r, as->length, as->buffer_length);
	puthexd(as->s, as->length);
	printf(" nul=%s\n", nul ? "ok" : "bad");
}

static void pr_ms_bytes(const char *k, int r, const char *p)
{
	printf("%s=%d:", k, r);
	if (p == NULL) printf("null"); else puthexd(p, strlen(p));
}

static struct archive_string_conv *get_sc(const char *dir, const char *cs)
{
	if (!strcmp(dir, "to")) {
		if (ar_to == NULL) ar_to = archive_read_new();
		return archive_string_conversion_to_charset(ar_to, cs, 1);
	}
	if (ar_from == NULL) ar_from = archive_read_new();
	return archive_string_conversion_from_charset(ar_from, cs, 1);
}

static void u_op(char *line)
{
	/* A conversion loop that stops making progress must not hang the run.  The watchdog counts the CPU
	 * time of this process (ITIMER_PROF), so a loaded machine cannot trip it: an endless loop burns CPU
	 * and is killed by SIGPROF (`!crash signal=27`), a starved process is not.  A generous wall-clock
	 * alarm stays as a backstop for a blocked process. */
	watchdog(strncmp(line, "enum", 4) == 0 ? 1800 : strncmp(line, "big8", 4) == 0 ? 120 : 4);
	char *w[8]; int n = vh_split(line, w, 8);
	size_t len; dec_fn df;
	if (n == 2 && (df = dec_by_name(w[0])) != NULL) {
		unsigned char *b = operand(w[1], &len); char *s = exact(b, len);
		uint32_t uc = SENTINEL; int r = df(&uc, s, len);
		pr_dec(r, uc); putchar('\n'); free(s); free(b);
	} else if (n == 3 && !strcmp(w[0], "big8")) {
		/* a block of `nn` bytes (zero filled after the given prefix): lengths at and above 2^31 */
		unsigned char *b = operand(w[1], &len); size_t nn = strtoull(w[2], NULL, 10);
		if (nn < len) { printf("bad-op\n"); free(b); return; }
		char *s = calloc(nn ? nn : 1, 1);
		if (s == NULL) { printf("nomem\n"); free(b); return; }
		memcpy(s, b, len);
		uint32_t uc = SENTINEL; int r = _utf8_to_unicode(&uc, s, nn); pr_dec(r, uc); putchar(' ');
		uc = SENTINEL; r = utf8_to_unicode(&uc, s, nn); pr_dec(r, uc); putchar(' ');
		uc = SENTINEL; r = cesu8_to_unicode(&uc, s, nn); pr_dec(r, uc); putchar('\n');
		free(s); free(b);
	} else if (n == 3 && (!strcmp(w[0], "e8") || !strcmp(w[0], "e16be") || !strcmp(w[0], "e16le"))) {
		uint32_t uc = (uint32_t)strtoul(w[1], NULL, 16); size_t rem = strtoul(w[2], NULL, 10);
		char *p = exact((const unsigned char *)"", 0);
		if (rem) { free(p); p = malloc(rem); memset(p, 0x5a, rem); }
		if (rem > 64) { printf("bad-op\n"); free(p); return; }
		size_t r = !strcmp(w[0], "e8") ? unicode_to_utf8(p, rem, uc) :
		    !strcmp(w[0], "e16be") ? unicode_to_utf16be(p, rem, uc) : unicode_to_utf16le(p, rem, uc);
		printf("w=%zu out=", r); vh_puthex(p, r <= rem ? r : 0); putchar('\n'); free(p);
	} else if ((n == 2 || n == 3) && !strcmp(w[0], "u8u8")) {
		unsigned char *b = operand(w[1], &len); char *s = exact(b, len);
		struct archive_string as; prefill(&as, n == 3 ? strtoull(w[2], NULL, 10) : 0);
		int r = strncat_from_utf8_to_utf8(&as, s, len, NULL);
		printf("r=%d out=", r); puthexd(as.s, as.length); putchar('\n');
		archive_string_free(&as); free(s); free(b);
	} else if ((n == 2 || n == 3) && !strcmp(w[0], "la2")) {
		/* strncat_from_utf8_libarchive2 (the "compat-2x" UTF-8 reader): _utf8_to_unicode + wcrtomb with its own
		 * re-allocation loop */
		unsigned char *b = operand(w[1], &len); char *s = exact(b, len);
		struct archive_string as; prefill(&as, n == 3 ? strtoull(w[2], NULL, 10) : 0);
		int r = strncat_from_utf8_libarchive2(&as, s, len, NULL);
		printf("r=%d out=", r); puthexd(as.s, as.length); putchar('\n');
		archive_string_free(&as); free(s); free(b);
	} else if (n == 5 && !strcmp(w[0], "app")) {
		struct archive_string_conv sc; memset(&sc, 0, sizeof sc);
		sc.flag = (int)strtoul(w[1], NULL, 10);
		size_t cap = strtoul(w[2], NULL, 10), npre;
		unsigned char *pre = operand(w[3], &npre), *b = operand(w[4], &len);
		char *s = exact(b, len); struct archive_string as;
		if (!mk_as(&as, cap, pre, npre)) printf("bad-op\n");
		else {
			int ts = (sc.flag & SCONV_TO_UTF16) ? 2 : (sc.flag & SCONV_TO_UTF8) ? 1 :
			    (sc.flag & SCONV_FROM_UTF16) ? 2 : 1;
			int r = archive_string_append_unicode(&as, s, len, &sc);
			pr_as(r, &as, ts);
		}
		archive_string_free(&as); free(s); free(b); free(pre);
	} else if (n == 5 && (!strcmp(w[0], "bto") || !strcmp(w[0], "bfrom"))) {
		int be = atoi(w[1]); size_t cap = strtoul(w[2], NULL, 10), npre;
		unsigned char *pre = operand(w[3], &npre), *b = operand(w[4], &len);
		char *s = exact(b, len); struct archive_string as;
		if (!mk_as(&as, cap, pre, npre)) printf("bad-op\n");
		else if (!strcmp(w[0], "bto")) {
			int r = best_effort_strncat_to_utf16(&as, s, len, NULL, be); pr_as(r, &as, 2);
		} else {
			int r = best_effort_strncat_from_utf16(&as, s, len, NULL, be); pr_as(r, &as, 1);
		}
		archive_string_free(&as); free(s); free(b); free(pre);
	} else if ((n == 4 || n == 5) && !strcmp(w[0], "conv")) {
		/* public conversion object + archive_strncpy_l / archive_strncat_l */
		struct archive_string_conv *sc = get_sc(w[1], w[2]);
		unsigned char *b = operand(w[3], &len); char *s = exact(b, len);
		struct archive_string as; archive_string_init(&as);
		if (sc == NULL) printf("no-conv\n");
		else if (n == 5) {
			/* appended to a destination that already holds text */
			prefill(&as, strtoull(w[4], NULL, 10));
			int r = archive_strncat_l(&as, s, len, sc);
			printf("r=%d out=", r); puthexd(as.s, as.length); putchar('\n');
		} else {
			archive_strcpy(&as, "x");
			int r = archive_strncpy_l(&as, s, len, sc);
			printf("r=%d out=", r); puthexd(as.s, as.length); putchar('\n');
		}
		archive_string_free(&as); free(s); free(b);
	} else if (n == 3 && !strcmp(w[0], "rt")) {
		/* TEST, not model: current locale (UTF-8) -> charset -> back, through iconv */
		struct archive_string_conv *to = get_sc("to", w[1]), *from = get_sc("from", w[1]);
		unsigned char *b = operand(w[2], &len); char *s = exact(b, len);
		struct archive_string mid, back; archive_string_init(&mid); archive_string_init(&back);
		if (to == NULL || from == NULL) printf("no-conv\n");
		else {
			int r1 = archive_strncpy_l(&mid, s, len, to);
			int r2 = archive_strncpy_l(&back, mid.s, mid.length, from);
			printf("r1=%d mid=", r1); puthexd(mid.s, mid.length);
			printf(" r2=%d back=", r2); puthexd(back.s, back.length); putchar('\n');
		}
		archive_string_free(&mid); archive_string_free(&back); free(s); free(b);
	} else if ((n == 3 || n == 4) && (!strcmp(w[0], "ms") || !strcmp(w[0], "msl"))) {
		/* archive_mstring views in the C.UTF-8 locale; wcs operands are UTF-32BE hex.
		 * ms <mbs|utf8|wcs> <src> [prior]   msl <charset> <src> [prior] (archive_mstring_copy_mbs_len_l)
		 * prior: the object first held (and showed all views of) that many pattern bytes, so its
		 * internal strings are not fresh but grown by an earlier value. */
		struct archive_mstring ms; memset(&ms, 0, sizeof ms);
		const char *p = NULL; const wchar_t *wp = NULL; int r;
		if (n == 4) {
			struct archive_string pre; prefill(&pre, strtoull(w[3], NULL, 10));
			archive_mstring_copy_mbs_len(&ms, pre.s ? pre.s : "", pre.length);
			archive_mstring_get_mbs(NULL, &ms, &p); archive_mstring_get_utf8(NULL, &ms, &p);
			archive_mstring_get_wcs(NULL, &ms, &wp);
			archive_string_free(&pre); p = NULL; wp = NULL;
		}
		unsigned char *b = operand(w[2], &len);
		if (!strcmp(w[0], "msl")) {
			struct archive_string_conv *sc = get_sc("from", w[1]);
			char *s = exact(b, len); r = archive_mstring_copy_mbs_len_l(&ms, s, len, sc); free(s);
			printf("c=%d ", r);
		} else if (!strcmp(w[1], "mbs")) {
			char *s = exact(b, len); archive_mstring_copy_mbs_len(&ms, s, len); free(s);
		} else if (!strcmp(w[1], "utf8")) {
			char *s = malloc(len + 1); memcpy(s, b, len); s[len] = 0;
			archive_mstring_copy_utf8(&ms, s); free(s);
		} else {
			size_t nw = len / 4; wchar_t *ws = malloc((nw ? nw : 1) * sizeof(wchar_t));
			for (size_t i = 0; i < nw; i++)
				ws[i] = (wchar_t)(((uint32_t)b[4*i] << 24) | (b[4*i+1] << 16) | (b[4*i+2] << 8) | b[4*i+3]);
			archive_mstring_copy_wcs_len(&ms, ws, nw); free(ws);
		}
		r = archive_mstring_get_mbs(NULL, &ms, &p); pr_ms_bytes("m", r, p); putchar(' ');
		p = NULL; r = archive_mstring_get_utf8(NULL, &ms, &p); pr_ms_bytes("u", r, p); putchar(' ');
		r = archive_mstring_get_wcs(NULL, &ms, &wp);
		printf("w=%d:", r);
		if (wp == NULL) printf("null");
		else if (wp[0] == 0) printf("-");
		else {
			size_t nw = wcslen(wp);
			if (nw <= 512) for (size_t i = 0; i < nw; i++) printf("%s%x", i ? "," : "", (unsigned)wp[i]);
			else {
				unsigned char *ser = malloc(nw * 4);
				for (size_t i = 0; i < nw; i++) { uint32_t v = (uint32_t)wp[i];
					ser[4*i] = v >> 24; ser[4*i+1] = v >> 16; ser[4*i+2] = v >> 8; ser[4*i+3] = v; }
				printf("#%zu:%016llx", nw, (unsigned long long)vh_fnv(ser, nw * 4)); free(ser);
			}
		}
		putchar('\n');
		archive_mstring_clean(&ms); free(b);
	} else if (n == 3 && !strcmp(w[0], "enum")) {
		/* every code point in [lo, hi): encode with room 4, decode what was written */
		uint32_t lo = (uint32_t)strtoul(w[1], NULL, 10), hi = (uint32_t)strtoul(w[2], NULL, 10);
		char *buf = malloc(4); dg = 14695981039346656037ULL;
		for (uint32_t uc = lo; uc < hi; uc++) {
			size_t k = unicode_to_utf8(buf, 4, uc);
			mix(k); for (size_t i = 0; i < k; i++) mix((unsigned char)buf[i]);
			char *s = exact((unsigned char *)buf, k);
			mix_dec(_utf8_to_unicode, s, k); mix_dec(utf8_to_unicode, s, k); mix_dec(cesu8_to_unicode, s, k);
			free(s);
			k = unicode_to_utf16be(buf, 4, uc);
			mix(k); for (size_t i = 0; i < k; i++) mix((unsigned char)buf[i]);
			s = exact((unsigned char *)buf, k); mix_dec(utf16be_to_unicode, s, k); free(s);
			k = unicode_to_utf16le(buf, 4, uc);
			mix(k); for (size_t i = 0; i < k; i++) mix((unsigned char)buf[i]);
			s = exact((unsigned char *)buf, k); mix_dec(utf16le_to_unicode, s, k); free(s);
		}
		free(buf);
		printf("digest=%016llx\n", (unsigned long long)dg);
	} else if (n == 5 && !strcmp(w[0], "enumb")) {
		/* every string of k bytes over the given alphabet with rank in [lo, hi), all five decoders */
		size_t m; unsigned char *al = operand(w[1], &m); size_t k = strtoul(w[2], NULL, 10);
		uint64_t lo = strtoull(w[3], NULL, 10), hi = strtoull(w[4], NULL, 10);
		if (m == 0 || k == 0 || k > 8) { printf("bad-op\n"); free(al); return; }
		char *s = malloc(k); dg = 14695981039346656037ULL;
		for (uint64_t i = lo; i < hi; i++) {
			uint64_t x = i;
			for (size_t j = k; j-- > 0; ) { s[j] = (char)al[x % m]; x /= m; }
			mix_dec(_utf8_to_unicode, s, k); mix_dec(utf8_to_unicode, s, k); mix_dec(cesu8_to_unicode, s, k);
			mix_dec(utf16be_to_unicode, s, k); mix_dec(utf16le_to_unicode, s, k);
		}
		free(s); free(al);
		printf("digest=%016llx\n", (unsigned long long)dg);
	} else printf("bad-op\n");
}

int main(int argc, char **argv)
{
	setlocale(LC_ALL, "C.UTF-8");
	struct vh_engine e = { u_begin, u_op, u_end };
	return vh_main(argc, argv, &e);
}
