#include "archive_write_set_format_cpio_newc.c"
#include "codec_inc.h"
int vhx_newc_format_hex(int64_t v, char *p, int s) { return format_hex(v, p, s); }
