/* Engine `codec` (C10, C02): numeric formatters / parsers called directly, and
 * whole write -> read round trips through the real writers and readers.
 *
 * ops
 *   fmt <kind> <v> <s> [<max> [<strict>]]   -> r=<0|-1> b=<hex of the whole buffer, untouched bytes are '#'>
 *   atol <kind> <hex>                       -> v=<int64>
 *   paxrec <key hex> <value hex>            -> b=<hex of the pax record `len key=value\\n`>
 *   paxbody <hex of an extended-header body>  -> st=<st> [n=<k> x=<name:value,..>]   (the body is wrapped in an
 *        'x' header in front of a plain ustar header and read by the tar reader; SCHILY.xattr.* records surface
 *        as extended attributes, sorted)
 *   open f=<format> [bpb=<n>] [bilb=<n>] [filter=<name>] [opt=<write options>] [ropt=<read options>]
 *   ent k=v ...                             -> h=<st> w=<n>:<st> f=<st> len=<archive bytes so far, bpb=0 only>
 *        optional metadata: fflags=<text as archive_entry_copy_fflags_text takes it>, atime= ctime= btime= <sec>[.<nsec>], sparse=<off>:<len>,.. (the body is NUL
 *        outside the listed regions), acl=<T>:<tag>:<permset>:<id>:<name hex>,..  xattr=<name hex>:<value hex>,..
 *   close | abort                           -> c=<st> len= hash= [hex=] fmt=<detected code> n=<entries read> end=<st>
 *   rd <i>                                  -> the i-th entry read back
 *   rewrite f=<format> [bpb= bilb=]         -> o=<st> h=<st,..> c=<st> len= hash= fmt= n= end=   (write the read-back entries again)
 *   rd2 <i>                                 -> the i-th entry read back from the rewritten archive
 *   done                                    -> done   (the oracle engines answer here)
 */
#include "common.h"
#include <locale.h>
#include <archive.h>
#include <archive_entry.h>
#include "codec_inc.h"

#define SENT '#'

/* ---- direct calls ------------------------------------------------------ */
static void op_fmt(char **w, int n)
{
	const char *k = w[1];
	int64_t v = strtoll(w[2], NULL, 10);
	int s = atoi(w[3]), max = n > 4 ? atoi(w[4]) : s, strict = n > 5 ? atoi(w[5]) : 1;
	int sz = max > s ? max : s;
	if (sz <= 0 || sz > 64 || s <= 0) { printf("bad-op\n"); return; }
	char *b = malloc((size_t)sz);   /* exact size: ASan sees any out-of-field write */
	memset(b, SENT, (size_t)sz);
	int r;
	if (!strcmp(k, "ustar_octal")) r = vhx_ustar_format_octal(v, b, s);
	else if (!strcmp(k, "ustar_number")) r = vhx_ustar_format_number(v, b, s, max, strict);
	else if (!strcmp(k, "ustar_256")) r = vhx_ustar_format_256(v, b, s);
	else if (!strcmp(k, "v7tar_octal")) r = vhx_v7tar_format_octal(v, b, s);
	else if (!strcmp(k, "v7tar_number")) r = vhx_v7tar_format_number(v, b, s, max, strict);
	else if (!strcmp(k, "gnutar_octal")) r = vhx_gnutar_format_octal(v, b, s);
	else if (!strcmp(k, "gnutar_number")) r = vhx_gnutar_format_number(v, b, s, max);
	else if (!strcmp(k, "odc_octal")) r = vhx_odc_format_octal(v, b, s);
	else if (!strcmp(k, "newc_hex")) r = vhx_newc_format_hex(v, b, s);
	else if (!strcmp(k, "ar_octal")) r = vhx_ar_format_octal(v, b, s);
	else if (!strcmp(k, "ar_decimal")) r = vhx_ar_format_decimal(v, b, s);
	else { free(b); printf("bad-op\n"); return; }
	printf("r=%d b=", r); vh_puthex(b, (size_t)sz); putchar('\n');
	free(b);
}

static void op_atol(char **w)
{
	size_t n; unsigned char *raw = vh_unhex(w[2], &n);
	/* tar_atol_base_n evaluates *++p after the last counted byte (inside the 512-byte
	 * header for every real caller); give it one sentinel byte that is no digit. */
	char *b = malloc(n + 1); memcpy(b, raw, n); b[n] = 'X'; free(raw);
	int64_t v; const char *k = w[1];
	if (n == 0) { free(b); printf("bad-op\n"); return; }
	if (!strcmp(k, "tar")) v = vhx_tar_atol(b, n);
	else if (!strcmp(k, "tar8")) v = vhx_tar_atol8(b, n);
	else if (!strcmp(k, "tar10")) v = vhx_tar_atol10(b, n);
	else if (!strcmp(k, "tar256")) v = vhx_tar_atol256(b, n);
	else if (!strcmp(k, "cpio8")) v = vhx_cpio_atol8(b, (unsigned)n);
	else if (!strcmp(k, "cpio16")) v = vhx_cpio_atol16(b, (unsigned)n);
	else { free(b); printf("bad-op\n"); return; }
	printf("v=%lld\n", (long long)v);
	free(b);
}

/* paxrec <key hex> <value hex>  ->  b=<hex of the record> */
static void op_paxrec(char **w)
{
	size_t kn, vn; unsigned char *k = vh_unhex(w[1], &kn), *v = vh_unhex(w[2], &vn);
	char *key = malloc(kn + 1); memcpy(key, k, kn); key[kn] = 0;
	size_t cap = kn + vn + 64; char *out = malloc(cap);
	size_t n = vhx_pax_record(key, (const char *)v, vn, out, cap);
	printf("b="); vh_puthex(out, n); putchar('\n');
	free(out); free(key); free(k); free(v);
}

/* ---- pax record parser, observed through SCHILY.xattr.* attributes ---- */
static void tar_hdr(unsigned char *h, const char *name, char type, size_t size)
{
	memset(h, 0, 512);
	snprintf((char *)h, 100, "%s", name);
	memcpy(h + 100, "0000644", 8); memcpy(h + 108, "0000000", 8); memcpy(h + 116, "0000000", 8);
	snprintf((char *)h + 124, 12, "%011lo", (unsigned long)size);
	memcpy(h + 136, "00000000000", 12);
	h[156] = (unsigned char)type;
	memcpy(h + 257, "ustar", 6); memcpy(h + 263, "00", 2);
	memset(h + 148, ' ', 8);
	unsigned sum = 0; for (int i = 0; i < 512; i++) sum += h[i];
	snprintf((char *)h + 148, 8, "%06o", sum); h[155] = ' ';
}

static int cmp_str(const void *a, const void *b);

static void op_paxbody(char **w)
{
	size_t n = 0; unsigned char *body = strcmp(w[1], "-") ? vh_unhex(w[1], &n) : NULL;
	size_t pad = (512 - n % 512) % 512, total = 512 + n + pad + 512 + 1024;
	unsigned char *ar = calloc(total, 1);
	tar_hdr(ar, "x", 'x', n);
	if (n) memcpy(ar + 512, body, n);
	tar_hdr(ar + 512 + n + pad, "f", '0', 0);
	struct archive *r = archive_read_new();
	archive_read_support_format_tar(r);
	struct archive_entry *e;
	int st = archive_read_open_memory(r, ar, total);
	if (st == ARCHIVE_OK) st = archive_read_next_header(r, &e);
	printf("st=%s", vh_st(st));
	if (st == ARCHIVE_OK) {
		int nx = archive_entry_xattr_reset(e);
		char **items = calloc((size_t)nx + 1, sizeof *items); int k = 0;
		const char *name; const void *val; size_t vl;
		while (k < nx && archive_entry_xattr_next(e, &name, &val, &vl) == ARCHIVE_OK) {
			size_t nl = strlen(name);
			char *it = malloc(2 * nl + 2 * vl + 8), *q = it;
			if (nl == 0) q += sprintf(q, "-");
			for (size_t i = 0; i < nl; i++) q += sprintf(q, "%02x", (unsigned char)name[i]);
			q += sprintf(q, ":");
			if (vl == 0) q += sprintf(q, "-"); else for (size_t i = 0; i < vl; i++) q += sprintf(q, "%02x", ((const unsigned char *)val)[i]);
			items[k++] = it;
		}
		qsort(items, (size_t)k, sizeof *items, cmp_str);
		printf(" n=%d x=", k);
		for (int i = 0; i < k; i++) { printf("%s%s", i ? "," : "", items[i]); free(items[i]); }
		if (k == 0) printf("-");
		free(items);
	}
	putchar('\n');
	archive_read_free(r); free(ar); free(body);
}

/* ---- write side -------------------------------------------------------- */
static struct archive *wa;
static unsigned char *sink; static size_t sink_len, sink_cap;
static int w_bpb;

static int sink_fail;   /* abort mode: every further write fails, so close gives up at once */

static la_ssize_t sink_write(struct archive *a, void *d, const void *b, size_t n)
{
	(void)a; (void)d;
	if (sink_fail) { archive_set_error(a, 5, "sink closed"); return -1; }
	if (sink_len + n > (64u << 20)) return -1;
	if (sink_len + n > sink_cap) {
		sink_cap = (sink_len + n) * 2 + 4096; sink = realloc(sink, sink_cap);
	}
	memcpy(sink + sink_len, b, n); sink_len += n;
	return (la_ssize_t)n;
}

static const char *kv(char **w, int n, const char *key)
{
	size_t l = strlen(key);
	for (int i = 1; i < n; i++)
		if (strncmp(w[i], key, l) == 0 && w[i][l] == '=') return w[i] + l + 1;
	return NULL;
}

static int set_format(struct archive *a, const char *f)
{
	if (!strcmp(f, "ustar")) return archive_write_set_format_ustar(a);
	if (!strcmp(f, "pax")) return archive_write_set_format_pax(a);
	if (!strcmp(f, "paxr")) return archive_write_set_format_pax_restricted(a);
	if (!strcmp(f, "gnutar")) return archive_write_set_format_gnutar(a);
	if (!strcmp(f, "v7tar")) return archive_write_set_format_v7tar(a);
	if (!strcmp(f, "odc")) return archive_write_set_format_cpio_odc(a);
	if (!strcmp(f, "newc")) return archive_write_set_format_cpio_newc(a);
	if (!strcmp(f, "bin")) return archive_write_set_format_cpio_bin(a);
	if (!strcmp(f, "pwb")) return archive_write_set_format_cpio_pwb(a);
	if (!strcmp(f, "arbsd")) return archive_write_set_format_ar_bsd(a);
	if (!strcmp(f, "arsvr4")) return archive_write_set_format_ar_svr4(a);
	if (!strcmp(f, "zip")) return archive_write_set_format_zip(a);
	if (!strcmp(f, "7zip")) return archive_write_set_format_7zip(a);
	if (!strcmp(f, "xar")) return archive_write_set_format_xar(a);
	if (!strcmp(f, "iso9660")) return archive_write_set_format_iso9660(a);
	if (!strcmp(f, "mtree")) return archive_write_set_format_mtree(a);
	if (!strcmp(f, "warc")) return archive_write_set_format_warc(a);
	if (!strcmp(f, "shar")) return archive_write_set_format_shar(a);
	return -99;
}

static int set_filter(struct archive *a, const char *f)
{
	if (!strcmp(f, "none")) return ARCHIVE_OK;
	if (!strcmp(f, "gzip")) return archive_write_add_filter_gzip(a);
	if (!strcmp(f, "bzip2")) return archive_write_add_filter_bzip2(a);
	if (!strcmp(f, "xz")) return archive_write_add_filter_xz(a);
	if (!strcmp(f, "zstd")) return archive_write_add_filter_zstd(a);
	if (!strcmp(f, "lz4")) return archive_write_add_filter_lz4(a);
	if (!strcmp(f, "compress")) return archive_write_add_filter_compress(a);
	if (!strcmp(f, "uuencode")) return archive_write_add_filter_uuencode(a);
	if (!strcmp(f, "b64encode")) return archive_write_add_filter_b64encode(a);
	return -99;
}

static unsigned body_byte(unsigned seed, size_t i) { return (seed * 31u + (unsigned)i * 7u + (unsigned)(i >> 8)) & 0xffu; }

static void set_str(struct archive_entry *e, const char *hex, void (*set)(struct archive_entry *, const char *))
{
	if (hex == NULL || !strcmp(hex, "-")) return;
	if (!strcmp(hex, "\"\"")) { set(e, ""); return; }     /* the empty string (as opposed to no string) */
	size_t n; unsigned char *b = vh_unhex(hex, &n);
	char *s = malloc(n + 1); memcpy(s, b, n); s[n] = 0; free(b);
	set(e, s); free(s);
}

static unsigned ftype_of(const char *t)
{
	if (!t || !strcmp(t, "reg")) return AE_IFREG;
	if (!strcmp(t, "dir")) return AE_IFDIR; if (!strcmp(t, "lnk")) return AE_IFLNK;
	if (!strcmp(t, "chr")) return AE_IFCHR; if (!strcmp(t, "blk")) return AE_IFBLK;
	if (!strcmp(t, "fifo")) return AE_IFIFO; if (!strcmp(t, "sock")) return AE_IFSOCK;
	return 0;
}

/* time "<sec>[.<nsec>]" */
static void set_time(struct archive_entry *e, const char *v, void (*set)(struct archive_entry *, time_t, long))
{
	if (v == NULL || !strcmp(v, "-")) return;
	const char *d = strchr(v, '.');
	set(e, (time_t)strtoll(v, NULL, 10), d ? atol(d + 1) : 0);
}

/* is byte i of the body inside one of the data regions "off:len,off:len,.." (no list: everything is data) */
static int in_data(const char *sp, size_t i)
{
	if (sp == NULL || !strcmp(sp, "-")) return 1;
	while (*sp) {
		unsigned long long o = strtoull(sp, NULL, 10); const char *c = strchr(sp, ':');
		unsigned long long l = c ? strtoull(c + 1, NULL, 10) : 0;
		if (i >= o && i < o + l) return 1;
		sp = strchr(sp, ','); if (!sp) break; sp++;
	}
	return 0;
}

static int acl_type_of(char c)
{
	switch (c) {
	case 'a': return ARCHIVE_ENTRY_ACL_TYPE_ACCESS; case 'd': return ARCHIVE_ENTRY_ACL_TYPE_DEFAULT;
	case 'A': return ARCHIVE_ENTRY_ACL_TYPE_ALLOW; case 'D': return ARCHIVE_ENTRY_ACL_TYPE_DENY;
	case 'U': return ARCHIVE_ENTRY_ACL_TYPE_AUDIT; case 'L': return ARCHIVE_ENTRY_ACL_TYPE_ALARM;
	}
	return 0;
}
static char acl_type_ch(int t)
{
	switch (t) {
	case ARCHIVE_ENTRY_ACL_TYPE_ACCESS: return 'a'; case ARCHIVE_ENTRY_ACL_TYPE_DEFAULT: return 'd';
	case ARCHIVE_ENTRY_ACL_TYPE_ALLOW: return 'A'; case ARCHIVE_ENTRY_ACL_TYPE_DENY: return 'D';
	case ARCHIVE_ENTRY_ACL_TYPE_AUDIT: return 'U'; case ARCHIVE_ENTRY_ACL_TYPE_ALARM: return 'L';
	}
	return '?';
}
static const struct { const char *n; int tag; } acl_tags[] = {
	{ "u", ARCHIVE_ENTRY_ACL_USER }, { "uo", ARCHIVE_ENTRY_ACL_USER_OBJ }, { "g", ARCHIVE_ENTRY_ACL_GROUP },
	{ "go", ARCHIVE_ENTRY_ACL_GROUP_OBJ }, { "m", ARCHIVE_ENTRY_ACL_MASK }, { "o", ARCHIVE_ENTRY_ACL_OTHER },
	{ "e", ARCHIVE_ENTRY_ACL_EVERYONE }, { NULL, 0 } };

static char *unhex_str(const char *hex, size_t *len)
{
	size_t n = 0; unsigned char *b = (hex && strcmp(hex, "-")) ? vh_unhex(hex, &n) : NULL;
	char *s = malloc(n + 1); if (n) memcpy(s, b, n); s[n] = 0; free(b);
	if (len) *len = n;
	return s;
}

/* atime/ctime/btime, sparse map, ACL entries, extended attributes of an `ent` line */
static void set_extras(struct archive_entry *e, char **w, int n)
{
	const char *s;
	if ((s = kv(w, n, "fflags")) && strcmp(s, "-")) archive_entry_copy_fflags_text(e, s);
	set_time(e, kv(w, n, "atime"), archive_entry_set_atime);
	set_time(e, kv(w, n, "ctime"), archive_entry_set_ctime);
	set_time(e, kv(w, n, "btime"), archive_entry_set_birthtime);
	if ((s = kv(w, n, "sparse")) && strcmp(s, "-")) {
		while (*s) {
			long long o = strtoll(s, NULL, 10); const char *c = strchr(s, ':');
			long long l = c ? strtoll(c + 1, NULL, 10) : 0;
			archive_entry_sparse_add_entry(e, o, l);
			s = strchr(s, ','); if (!s) break; s++;
		}
	}
	if ((s = kv(w, n, "acl")) && strcmp(s, "-")) {
		char *copy = strdup(s), *save = NULL;
		for (char *it = strtok_r(copy, ",", &save); it; it = strtok_r(NULL, ",", &save)) {
			char *f[5]; int k = 0; char *q = it;
			while (k < 5) { f[k++] = q; q = strchr(q, ':'); if (!q) break; *q++ = 0; }
			if (k < 5) continue;
			int tag = 0; for (int j = 0; acl_tags[j].n; j++) if (!strcmp(acl_tags[j].n, f[1])) tag = acl_tags[j].tag;
			char *name = unhex_str(f[4], NULL);
			archive_entry_acl_add_entry(e, acl_type_of(f[0][0]), atoi(f[2]), tag, atoi(f[3]), *name ? name : NULL);
			free(name);
		}
		free(copy);
	}
	if ((s = kv(w, n, "xattr")) && strcmp(s, "-")) {
		char *copy = strdup(s), *save = NULL;
		for (char *it = strtok_r(copy, ",", &save); it; it = strtok_r(NULL, ",", &save)) {
			char *c = strchr(it, ':'); if (!c) continue; *c++ = 0;
			size_t vl; char *name = unhex_str(it, NULL), *val = unhex_str(c, &vl);
			archive_entry_xattr_add_entry(e, name, val, vl);
			free(name); free(val);
		}
		free(copy);
	}
}

static char w_ropt[256];

static void op_open(char **w, int n)
{
	const char *f = kv(w, n, "f"), *bpb = kv(w, n, "bpb"), *bilb = kv(w, n, "bilb"), *fl = kv(w, n, "filter"), *opt = kv(w, n, "opt");
	wa = archive_write_new();
	sink_len = 0;
	int r = f ? set_format(wa, f) : -99;
	if (r == -99) { printf("bad-op\n"); return; }
	int r2 = set_filter(wa, fl ? fl : "none");
	if (r2 == -99) { printf("bad-op\n"); return; }
	if (r2 < r) r = r2;
	w_bpb = bpb ? atoi(bpb) : 10240;
	archive_write_set_bytes_per_block(wa, w_bpb);
	if (bilb) archive_write_set_bytes_in_last_block(wa, atoi(bilb));
	if (opt && strcmp(opt, "-")) { r2 = archive_write_set_options(wa, opt); if (r2 < r) r = r2; }
	const char *ropt = kv(w, n, "ropt");
	snprintf(w_ropt, sizeof w_ropt, "%s", ropt && strcmp(ropt, "-") ? ropt : "");
	r2 = archive_write_open2(wa, NULL, NULL, sink_write, NULL, NULL);
	if (r2 < r) r = r2;
	printf("o=%s\n", vh_st(r));
}

static void op_ent(char **w, int n)
{
	if (!wa) { printf("bad-op\n"); return; }
	struct archive_entry *e = archive_entry_new();
	const char *s;
	set_str(e, kv(w, n, "path"), archive_entry_copy_pathname);
	unsigned ft = ftype_of(kv(w, n, "type"));
	unsigned perm = (s = kv(w, n, "perm")) ? (unsigned)strtoul(s, NULL, 8) : 0644;
	archive_entry_set_mode(e, ft | perm);
	if ((s = kv(w, n, "uid"))) archive_entry_set_uid(e, strtoll(s, NULL, 10));
	if ((s = kv(w, n, "gid"))) archive_entry_set_gid(e, strtoll(s, NULL, 10));
	if ((s = kv(w, n, "size")) && strcmp(s, "-")) archive_entry_set_size(e, strtoll(s, NULL, 10));
	if ((s = kv(w, n, "mtime")) && strcmp(s, "-")) {
		const char *ns = kv(w, n, "mtimens");
		archive_entry_set_mtime(e, strtoll(s, NULL, 10), ns ? atol(ns) : 0);
	}
	set_str(e, kv(w, n, "uname"), archive_entry_copy_uname);
	set_str(e, kv(w, n, "gname"), archive_entry_copy_gname);
	set_str(e, kv(w, n, "sym"), archive_entry_copy_symlink);
	set_str(e, kv(w, n, "hard"), archive_entry_copy_hardlink);
	if ((s = kv(w, n, "rdevmajor"))) archive_entry_set_rdevmajor(e, (dev_t)strtoll(s, NULL, 10));
	if ((s = kv(w, n, "rdevminor"))) archive_entry_set_rdevminor(e, (dev_t)strtoll(s, NULL, 10));
	if ((s = kv(w, n, "dev"))) archive_entry_set_dev(e, (dev_t)strtoll(s, NULL, 10));
	if ((s = kv(w, n, "ino"))) archive_entry_set_ino64(e, strtoll(s, NULL, 10));
	if ((s = kv(w, n, "nlink"))) archive_entry_set_nlink(e, (unsigned)strtoul(s, NULL, 10));
	set_extras(e, w, n);
	int h = archive_write_header(wa, e);
	printf("h=%s", vh_st(h));
	/* body: seed:len written in the given chunk sizes (cyclic) */
	long long wrote = 0; int wst = 0;
	const char *body = kv(w, n, "body"), *chunks = kv(w, n, "chunks");
	if (h >= ARCHIVE_WARN && body && strcmp(body, "-")) {
		unsigned seed = (unsigned)strtoul(body, NULL, 10);
		const char *c = strchr(body, ':'); size_t len = c ? (size_t)strtoull(c + 1, NULL, 10) : 0;
		unsigned char *buf = malloc(len ? len : 1);
		const char *sp = kv(w, n, "sparse");
		for (size_t i = 0; i < len; i++) buf[i] = (unsigned char)(in_data(sp, i) ? body_byte(seed, i) : 0);
		size_t pos = 0; const char *cp = chunks;
		while (pos < len) {
			size_t k = len - pos;
			if (cp && *cp) { size_t q = (size_t)strtoull(cp, NULL, 10); cp = strchr(cp, ','); cp = cp ? cp + 1 : chunks; if (q > 0 && q < k) k = q; }
			la_ssize_t r = archive_write_data(wa, buf + pos, k);
			if (r < 0) { wst = (int)r; break; }
			wrote += r; pos += k;
		}
		free(buf);
	}
	printf(" w=%lld:%s", wrote, vh_st(wst));
	int f = 0;
	if (h >= ARCHIVE_WARN && !kv(w, n, "nofinish")) { f = archive_write_finish_entry(wa); printf(" f=%s", vh_st(f)); }
	else printf(" f=-");
	if (w_bpb == 0) printf(" len=%zu", sink_len); else printf(" len=-");
	putchar('\n');
	archive_entry_free(e);
}

/* ---- read side --------------------------------------------------------- */
#define MAXENT 64
static char *rb[MAXENT]; static int nrb;
/* what the first read returned, kept for `rewrite`: entry objects and bodies */
static struct archive_entry *rbe[MAXENT]; static unsigned char *rbbody[MAXENT]; static size_t rbblen[MAXENT]; static int nrbe;
static char *rb2[MAXENT]; static int nrb2;

static void hexs(char **o, const char *k, const char *s)
{
	*o += sprintf(*o, " %s=", k);
	if (s == NULL || !*s) { *o += sprintf(*o, "-"); return; }
	for (; *s; s++) *o += sprintf(*o, "%02x", (unsigned char)*s);
}

static int cmp_str(const void *a, const void *b) { return strcmp(*(char *const *)a, *(char *const *)b); }

static void put_time(char **o, const char *k, int set, long long s, long ns)
{
	if (set) *o += sprintf(*o, " %s=%lld.%ld", k, s, ns);
}

/* metadata beyond the classic stat fields, printed only when the entry has it: times, sparse map, ACL
 * entries (the three access entries that live in the mode are left out), extended attributes; lists sorted */
static void put_extras(char **o, struct archive_entry *e)
{
	put_time(o, "atime", archive_entry_atime_is_set(e), (long long)archive_entry_atime(e), archive_entry_atime_nsec(e));
	put_time(o, "ctime", archive_entry_ctime_is_set(e), (long long)archive_entry_ctime(e), archive_entry_ctime_nsec(e));
	put_time(o, "btime", archive_entry_birthtime_is_set(e), (long long)archive_entry_birthtime(e), archive_entry_birthtime_nsec(e));
	{ const char *ff = archive_entry_fflags_text(e); if (ff && *ff) *o += sprintf(*o, " fflags=%s", ff); }
	int ns = archive_entry_sparse_reset(e);
	if (ns > 0) {
		*o += sprintf(*o, " sparse=");
		la_int64_t so, sl; int first = 1;
		while (archive_entry_sparse_next(e, &so, &sl) == ARCHIVE_OK) { *o += sprintf(*o, "%s%lld:%lld", first ? "" : ",", (long long)so, (long long)sl); first = 0; }
	}
	int all = ARCHIVE_ENTRY_ACL_TYPE_ACCESS | ARCHIVE_ENTRY_ACL_TYPE_DEFAULT | ARCHIVE_ENTRY_ACL_TYPE_NFS4;
	int na = archive_entry_acl_reset(e, all);
	if (na > 0) {
		char **items = calloc((size_t)na + 1, sizeof *items); int k = 0;
		int type, perm, tag, id; const char *name;
		while (k < na && archive_entry_acl_next(e, all, &type, &perm, &tag, &id, &name) == ARCHIVE_OK) {
			if (type == ARCHIVE_ENTRY_ACL_TYPE_ACCESS && (tag == ARCHIVE_ENTRY_ACL_USER_OBJ || tag == ARCHIVE_ENTRY_ACL_GROUP_OBJ || tag == ARCHIVE_ENTRY_ACL_OTHER))
				continue;
			const char *tn = "?"; for (int j = 0; acl_tags[j].n; j++) if (acl_tags[j].tag == tag) tn = acl_tags[j].n;
			size_t nl = name ? strlen(name) : 0;
			char *it = malloc(64 + 2 * nl), *q = it;
			q += sprintf(q, "%c:%s:%d:%d:", acl_type_ch(type), tn, perm, id);
			if (nl == 0) q += sprintf(q, "-"); else for (size_t i = 0; i < nl; i++) q += sprintf(q, "%02x", (unsigned char)name[i]);
			items[k++] = it;
		}
		qsort(items, (size_t)k, sizeof *items, cmp_str);
		if (k) *o += sprintf(*o, " acl=");
		for (int i = 0; i < k; i++) { *o += sprintf(*o, "%s%s", i ? "," : "", items[i]); free(items[i]); }
		free(items);
	}
	int nx = archive_entry_xattr_reset(e);
	if (nx > 0) {
		char **items = calloc((size_t)nx, sizeof *items); int k = 0;
		const char *name; const void *val; size_t vl;
		while (k < nx && archive_entry_xattr_next(e, &name, &val, &vl) == ARCHIVE_OK) {
			size_t nl = strlen(name);
			char *it = malloc(2 * nl + 2 * vl + 8), *q = it;
			for (size_t i = 0; i < nl; i++) q += sprintf(q, "%02x", (unsigned char)name[i]);
			q += sprintf(q, ":");
			if (vl == 0) q += sprintf(q, "-"); else for (size_t i = 0; i < vl; i++) q += sprintf(q, "%02x", ((const unsigned char *)val)[i]);
			items[k++] = it;
		}
		qsort(items, (size_t)k, sizeof *items, cmp_str);
		*o += sprintf(*o, " xattr=");
		for (int i = 0; i < k; i++) { *o += sprintf(*o, "%s%s", i ? "," : "", items[i]); free(items[i]); }
		free(items);
	}
}

static size_t extras_room(struct archive_entry *e)
{
	size_t room = 512 + 48 * (size_t)(archive_entry_sparse_count(e) + 1);
	int all = ARCHIVE_ENTRY_ACL_TYPE_ACCESS | ARCHIVE_ENTRY_ACL_TYPE_DEFAULT | ARCHIVE_ENTRY_ACL_TYPE_NFS4;
	int type, perm, tag, id; const char *name;
	if (archive_entry_acl_reset(e, all) > 0)
		while (archive_entry_acl_next(e, all, &type, &perm, &tag, &id, &name) == ARCHIVE_OK) room += 80 + 2 * (name ? strlen(name) : 0);
	const void *val; size_t vl;
	if (archive_entry_xattr_reset(e) > 0)
		while (archive_entry_xattr_next(e, &name, &val, &vl) == ARCHIVE_OK) room += 16 + 2 * strlen(name) + 2 * vl;
	return room;
}

static void read_back(int partial, int *fmt, int *end, int keep, char **out, int *nout)
{
	struct archive *r = archive_read_new();
	archive_read_support_filter_all(r); archive_read_support_format_all(r);
	*nout = 0; *fmt = 0;
	if (w_ropt[0] && archive_read_set_options(r, w_ropt) < ARCHIVE_WARN) { *end = ARCHIVE_FAILED; archive_read_free(r); return; }
	int st = archive_read_open_memory(r, sink, sink_len);
	if (st < ARCHIVE_WARN) { *end = st; archive_read_free(r); return; }
	for (;;) {
		struct archive_entry *e;
		st = archive_read_next_header(r, &e);
		if (*fmt == 0 || st >= ARCHIVE_WARN) *fmt = archive_format(r);
		if (st < ARCHIVE_WARN || st == ARCHIVE_EOF || st == ARCHIVE_RETRY) break;
		if (*nout >= MAXENT) { st = -99; break; }
		const char *p = archive_entry_pathname(e);
		size_t cap = 2 * ((p ? strlen(p) : 0) + 4096 * 3) + 1024 + extras_room(e);
		char *line = malloc(cap), *o = line;
		o += sprintf(o, "st=%s", vh_st(st));
		hexs(&o, "path", p);
		o += sprintf(o, " type=%o perm=%o uid=%lld gid=%lld", (unsigned)archive_entry_filetype(e),
		    (unsigned)archive_entry_perm(e), (long long)archive_entry_uid(e), (long long)archive_entry_gid(e));
		if (archive_entry_size_is_set(e)) o += sprintf(o, " size=%lld", (long long)archive_entry_size(e)); else o += sprintf(o, " size=-");
		if (archive_entry_mtime_is_set(e)) o += sprintf(o, " mtime=%lld.%ld", (long long)archive_entry_mtime(e), archive_entry_mtime_nsec(e));
		else o += sprintf(o, " mtime=-");
		hexs(&o, "uname", archive_entry_uname(e)); hexs(&o, "gname", archive_entry_gname(e));
		hexs(&o, "sym", archive_entry_symlink(e)); hexs(&o, "hard", archive_entry_hardlink(e));
		o += sprintf(o, " rdev=%lld,%lld dev=%lld ino=%lld nlink=%u", (long long)archive_entry_rdevmajor(e), (long long)archive_entry_rdevminor(e),
		    (long long)archive_entry_dev(e), (long long)archive_entry_ino64(e), archive_entry_nlink(e));
		long long sz = archive_entry_size(e);
		if (partial && sz > (1 << 20)) { o += sprintf(o, " body=skipped"); put_extras(&o, e); out[(*nout)++] = line; st = 0; break; }
		unsigned char *keepbuf = NULL; size_t keeplen = 0, keepcap = 0;
		uint64_t hsh = 14695981039346656037ULL; long long tot = 0; int dst;
		const void *b; size_t bl; la_int64_t off; long long expect = 0;
		while ((dst = archive_read_data_block(r, &b, &bl, &off)) == ARCHIVE_OK || dst == ARCHIVE_WARN) {
			/* holes are zero bytes for the digest */
			for (; expect < off; expect++) { hsh ^= 0; hsh *= 1099511628211ULL; tot++; }
			const unsigned char *ub = b;
			for (size_t i = 0; i < bl; i++) { hsh ^= ub[i]; hsh *= 1099511628211ULL; }
			if (keep && bl > 0 && off >= 0 && (size_t)off + bl <= (4u << 20)) {
				if ((size_t)off + bl > keepcap) { keepcap = ((size_t)off + bl) * 2 + 64; keepbuf = realloc(keepbuf, keepcap); }
				if ((size_t)off > keeplen) memset(keepbuf + keeplen, 0, (size_t)off - keeplen);
				memcpy(keepbuf + off, ub, bl); if ((size_t)off + bl > keeplen) keeplen = (size_t)off + bl;
			}
			tot += (long long)bl; expect = off + (long long)bl;
		}
		/* a sparse file whose map ends before the file does: the hole at the end is implied by the
		 * size (no reader call announces it); any other shortfall stays visible */
		if (dst == ARCHIVE_EOF && archive_entry_size_is_set(e) && tot < archive_entry_size(e) && archive_entry_sparse_reset(e) > 0) {
			la_int64_t so, sl, last = 0;
			while (archive_entry_sparse_next(e, &so, &sl) == ARCHIVE_OK) if (sl > 0 && so + sl > last) last = so + sl;
			if (last <= tot && archive_entry_size(e) <= (64 << 20))
				for (; tot < archive_entry_size(e); tot++) { hsh ^= 0; hsh *= 1099511628211ULL; }
		}
		o += sprintf(o, " body=%lld:%016llx:%s", tot, (unsigned long long)hsh, vh_st(dst));
		put_extras(&o, e);
		if (keep && nrbe < MAXENT) { rbe[nrbe] = archive_entry_clone(e); rbbody[nrbe] = keepbuf; rbblen[nrbe] = keeplen; nrbe++; }
		else free(keepbuf);
		out[(*nout)++] = line;
	}
	*end = st;
	archive_read_free(r);
}

static void op_close(int abort_)
{
	if (!wa) { printf("bad-op\n"); return; }
	int c;
	/* abort: keep exactly the bytes produced so far (a declared 8 GiB body is never written):
	 * the sink refuses everything from now on, close fails fast and still releases the filters */
	if (abort_) { sink_fail = 1; (void)archive_write_close(wa); sink_fail = 0; c = 0; }
	else c = archive_write_close(wa);
	archive_write_free(wa); wa = NULL;
	int fmt, end;
	/* a case may hold several archives: `rd` / `rewrite` refer to the latest */
	for (int i = 0; i < nrb; i++) free(rb[i]);
	for (int i = 0; i < nrbe; i++) { archive_entry_free(rbe[i]); free(rbbody[i]); }
	nrb = nrbe = 0;
	read_back(abort_, &fmt, &end, 1, rb, &nrb);
	printf("c=%s len=%zu hash=%016llx", vh_st(c), sink_len, (unsigned long long)vh_fnv(sink, sink_len));
	printf(" hex=");
	if (sink_len <= 1536) vh_puthex(sink, sink_len); else printf("+");
	printf(" fmt=%x n=%d end=%s\n", fmt, nrb, end == -99 ? "toomany" : vh_st(end));
}

/* rewrite f=<fmt> [bpb= bilb=]: feed the entries obtained from the first read, unchanged, into the
 * writer of <fmt>, read the result again (C02: the read-back form is a fixed point) */
static void op_rewrite(char **w, int n)
{
	const char *f = kv(w, n, "f"), *bpb = kv(w, n, "bpb"), *bilb = kv(w, n, "bilb");
	struct archive *a = archive_write_new();
	/* the first archive is no longer needed: reuse the sink */
	sink_len = 0;
	int r = f ? set_format(a, f) : -99;
	if (r == -99) { printf("bad-op\n"); archive_write_free(a); return; }
	archive_write_set_bytes_per_block(a, bpb ? atoi(bpb) : 10240);
	if (bilb) archive_write_set_bytes_in_last_block(a, atoi(bilb));
	int o = archive_write_open2(a, NULL, NULL, sink_write, NULL, NULL);
	printf("o=%s h=", vh_st(o < r ? o : r));
	for (int i = 0; i < nrbe; i++) {
		int h = archive_write_header(a, rbe[i]);
		printf("%s%s", i ? "," : "", vh_st(h));
		if (h >= ARCHIVE_WARN) {
			if (rbblen[i]) archive_write_data(a, rbbody[i], rbblen[i]);
			archive_write_finish_entry(a);
		}
	}
	if (nrbe == 0) printf("-");
	int c = archive_write_close(a);
	archive_write_free(a);
	for (int i = 0; i < nrb2; i++) free(rb2[i]);
	int fmt, end;
	read_back(0, &fmt, &end, 0, rb2, &nrb2);
	printf(" c=%s len=%zu hash=%016llx fmt=%x n=%d end=%s\n", vh_st(c), sink_len, (unsigned long long)vh_fnv(sink, sink_len),
	    fmt, nrb2, end == -99 ? "toomany" : vh_st(end));
}

static void c_begin(void) { w_ropt[0] = 0; wa = NULL; nrb = 0; nrb2 = 0; nrbe = 0; sink_len = 0; sink_fail = 0; }

static void c_op(char *line)
{
	static char *w[64]; int n = vh_split(line, w, 64);
	if (n == 0) { printf("bad-op\n"); return; }
	if (!strcmp(w[0], "fmt") && n >= 4) op_fmt(w, n);
	else if (!strcmp(w[0], "atol") && n == 3) op_atol(w);
	else if (!strcmp(w[0], "paxrec") && n == 3) op_paxrec(w);
	else if (!strcmp(w[0], "paxbody") && n == 2) op_paxbody(w);
	else if (!strcmp(w[0], "open")) op_open(w, n);
	else if (!strcmp(w[0], "ent")) op_ent(w, n);
	else if (!strcmp(w[0], "close")) op_close(0);
	else if (!strcmp(w[0], "abort")) op_close(1);
	else if (!strcmp(w[0], "done")) printf("done\n");
	else if (!strcmp(w[0], "rewrite")) op_rewrite(w, n);
	else if (!strcmp(w[0], "rd2") && n == 2) { int i = atoi(w[1]); if (i >= 0 && i < nrb2) printf("%s\n", rb2[i]); else printf("none\n"); }
	else if (!strcmp(w[0], "rd") && n == 2) { int i = atoi(w[1]); if (i >= 0 && i < nrb) printf("%s\n", rb[i]); else printf("none\n"); }
	else printf("bad-op\n");
}

static void c_end(void)
{
	if (wa) { sink_fail = 1; archive_write_free(wa); wa = NULL; sink_fail = 0; }
	for (int i = 0; i < nrb; i++) free(rb[i]);
	for (int i = 0; i < nrb2; i++) free(rb2[i]);
	for (int i = 0; i < nrbe; i++) { archive_entry_free(rbe[i]); free(rbbody[i]); }
	nrb = nrb2 = nrbe = 0; free(sink); sink = NULL; sink_cap = sink_len = 0;
}

int main(int argc, char **argv)
{
	struct vh_engine e = { c_begin, c_op, c_end };
	setlocale(LC_ALL, "");   /* C.UTF-8 from the environment: writers that convert names need it */
	return vh_main(argc, argv, &e);
}
