#include "archive_write_set_format_v7tar.c"
#include "codec_inc.h"
int vhx_v7tar_format_octal(int64_t v, char *p, int s) { return format_octal(v, p, s); }
int vhx_v7tar_format_number(int64_t v, char *p, int s, int max, int strict) { return format_number(v, p, s, max, strict); }
