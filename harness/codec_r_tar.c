#include "archive_read_support_format_tar.c"
#include "codec_inc.h"
int64_t vhx_tar_atol(const char *p, size_t n) { return tar_atol(p, n); }
int64_t vhx_tar_atol8(const char *p, size_t n) { return tar_atol8(p, n); }
int64_t vhx_tar_atol10(const char *p, size_t n) { return tar_atol10(p, n); }
int64_t vhx_tar_atol256(const char *p, size_t n) { return tar_atol256(p, n); }
