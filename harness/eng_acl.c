/* Engine `acl` (C15): drives the real ACL text generator and parser.
 *
 *   variant n|w                 narrow (char) or wide (wchar_t) API for the whole case
 *   mode <octal>                archive_entry_set_mode
 *   add <type> <permset> <tag> <id> <name>   archive_entry_acl_add_entry(_w)
 *   clear                       archive_entry_acl_clear
 *   totext <flags>              archive_entry_acl_to_text(_w)
 *   rt <flags> <want>           to_text, then from_text(_w) into a fresh entry, dump of that entry
 *   parse <want> <text>         archive_entry_acl_from_text(_w) on a NUL-terminated exact-size block
 *   parsenl <want> <text>       archive_acl_from_text_nl on an exact-size block WITHOUT terminator
 *   dump                        archive_entry_acl_reset + _next over all types, plus mode and types
 *   paxtrunc <text>             the tar reader on a pax header whose SCHILY.acl.access value is <text> and
 *                               whose file ends right after the value (exact-size heap block): status of next_header
 *   paxcolon <text>             the same with a ':' in place of the newline that ends the pax record, followed by
 *                               a complete archive: status of next_header
 *
 * Text operands: narrow = hex bytes, wide = dot-separated hex code points, "-" = empty.
 */
#include "common.h"
#include <wchar.h>
#include <locale.h>
#include <archive.h>
#include <archive_entry.h>
#include "archive_acl_private.h"

static struct archive_entry *ent;
static int wide;

#define ALL_TYPES (ARCHIVE_ENTRY_ACL_TYPE_POSIX1E | ARCHIVE_ENTRY_ACL_TYPE_NFS4)

/* wide text operand -> exact-size block of n+1 wchar_t (terminated) */
static wchar_t *unwide(const char *s, size_t *n)
{
	size_t cnt = 0;
	if (strcmp(s, "-") != 0) { cnt = 1; for (const char *p = s; *p; p++) if (*p == '.') cnt++; }
	wchar_t *w = malloc((cnt + 1) * sizeof *w);
	const char *p = s;
	for (size_t i = 0; i < cnt; i++) {
		w[i] = (wchar_t)strtoul(p, (char **)&p, 16);
		if (*p == '.') p++;
	}
	w[cnt] = 0; *n = cnt;
	return w;
}

static void putwide(const wchar_t *w, size_t n)
{
	if (n == 0) { putchar('-'); return; }
	for (size_t i = 0; i < n; i++) printf("%s%x", i ? "." : "", (unsigned)w[i]);
}

static void dump(struct archive_entry *e)
{
	int type, permset, tag, id, n = 0; const char *name;
	static char buf[1 << 20]; size_t off = 0;
	archive_entry_acl_reset(e, ALL_TYPES);
	buf[0] = 0;
	while (archive_entry_acl_next(e, ALL_TYPES, &type, &permset, &tag, &id, &name) == ARCHIVE_OK) {
		n++;
		off += snprintf(buf + off, sizeof buf - off, " %d/%d/%d/%d/", type, tag, permset, id);
		if (name == NULL || *name == 0) off += snprintf(buf + off, sizeof buf - off, "-");
		else if (!wide) {
			for (const unsigned char *p = (const unsigned char *)name; *p; p++)
				off += snprintf(buf + off, sizeof buf - off, "%02x", *p);
		} else {
			size_t l = strlen(name); wchar_t *w = malloc((l + 1) * sizeof *w);
			size_t k = mbstowcs(w, name, l + 1);
			if (k == (size_t)-1) off += snprintf(buf + off, sizeof buf - off, "?");
			else for (size_t i = 0; i < k; i++)
				off += snprintf(buf + off, sizeof buf - off, "%s%x", i ? "." : "", (unsigned)w[i]);
			free(w);
		}
		if (off > sizeof buf - 4096) break;
	}
	printf("mode=%o types=%d n=%d%s", (unsigned)archive_entry_mode(e), archive_entry_acl_types(e), n, buf);
}

/* ustar header block */
static void tar_hdr(unsigned char *h, const char *name, size_t size, char typeflag)
{
	memset(h, 0, 512);
	strcpy((char *)h, name);
	memcpy(h + 100, "0000644", 8); memcpy(h + 108, "0000000", 8); memcpy(h + 116, "0000000", 8);
	snprintf((char *)h + 124, 12, "%011lo", (unsigned long)size);
	memcpy(h + 136, "00000000000", 12);
	memset(h + 148, ' ', 8);
	h[156] = (unsigned char)typeflag;
	memcpy(h + 257, "ustar", 6); memcpy(h + 263, "00", 2);
	unsigned sum = 0; for (int i = 0; i < 512; i++) sum += h[i];
	snprintf((char *)h + 148, 8, "%06o", sum); h[155] = ' ';
}

/* Feed a pax archive with one SCHILY.acl.access record to the tar reader from an exact-size block. */
static void pax_case(const unsigned char *val, size_t vl, int colon)
{
	const char *key = "SCHILY.acl.access";
	size_t body = 1 + strlen(key) + 1 + vl + 1, n = body + 1;        /* " key=value<end>" */
	for (;;) { char t[32]; size_t d = (size_t)snprintf(t, sizeof t, "%zu", n); if (d + body == n) break; n = d + body; }
	size_t pad = (512 - n % 512) % 512;
	size_t total = colon ? 512 + n + pad + 512 + 1024 : 512 + n - 1;
	unsigned char *b = malloc(total), *p = b;
	tar_hdr(p, "PaxHeader/f", n, 'x'); p += 512;
	p += sprintf((char *)p, "%zu %s=", n, key);
	memcpy(p, val, vl); p += vl;
	if (colon) {
		*p++ = ':';
		memset(p, 0, pad); p += pad;
		tar_hdr(p, "f", 0, '0'); p += 512;
		memset(p, 0, 1024); p += 1024;
	}
	struct archive *a = archive_read_new();
	archive_read_support_format_tar(a);
	archive_read_open_memory(a, b, total);
	struct archive_entry *e;
	int r = archive_read_next_header(a, &e);
	printf("%s\n", vh_st(r));
	archive_read_free(a);
	free(b);
}

static void a_begin(void) { ent = archive_entry_new(); wide = 0; }

static void a_op(char *line)
{
	char *w[8]; int n = vh_split(line, w, 8);
	if (n == 2 && !strcmp(w[0], "variant")) {
		wide = !strcmp(w[1], "w");
		archive_entry_free(ent); ent = archive_entry_new();
		printf("ok\n");
	} else if (n == 2 && !strcmp(w[0], "mode")) {
		archive_entry_set_mode(ent, (mode_t)strtoul(w[1], NULL, 8));
		printf("ok\n");
	} else if (n == 1 && !strcmp(w[0], "clear")) {
		archive_entry_acl_clear(ent);
		printf("ok\n");
	} else if (n == 6 && !strcmp(w[0], "add")) {
		int type = atoi(w[1]), permset = atoi(w[2]), tag = atoi(w[3]), id = atoi(w[4]), r;
		size_t l;
		if (wide) {
			wchar_t *nm = unwide(w[5], &l);
			r = archive_entry_acl_add_entry_w(ent, type, permset, tag, id, nm);
			free(nm);
		} else if (!strcmp(w[5], "-")) {
			r = archive_entry_acl_add_entry(ent, type, permset, tag, id, NULL);
		} else {
			unsigned char *b = vh_unhex(w[5], &l);
			char *nm = malloc(l + 1); memcpy(nm, b, l); nm[l] = 0; free(b);
			r = archive_entry_acl_add_entry(ent, type, permset, tag, id, nm);
			free(nm);
		}
		printf("%s\n", vh_st(r));
	} else if ((n == 2 && !strcmp(w[0], "totext")) || (n == 3 && !strcmp(w[0], "rt"))) {
		int flags = atoi(w[1]), isrt = w[0][0] == 'r';
		la_ssize_t len = -7;
		if (wide) {
			wchar_t *t = archive_entry_acl_to_text_w(ent, &len, flags);
			if (t == NULL) { printf("null\n"); return; }
			if ((size_t)len != wcslen(t)) { printf("!len-mismatch\n"); free(t); return; }
			if (!isrt) { printf("len=%zd t=", (ssize_t)len); putwide(t, len); putchar('\n'); free(t); return; }
			/* parse back from an exact-size copy */
			wchar_t *c = malloc((len + 1) * sizeof *c); memcpy(c, t, (len + 1) * sizeof *c);
			struct archive_entry *e2 = archive_entry_new();
			int r = archive_entry_acl_from_text_w(e2, c, atoi(w[2]));
			printf("t="); putwide(t, len); printf(" st=%s ", vh_st(r)); dump(e2); putchar('\n');
			archive_entry_free(e2); free(c); free(t);
		} else {
			char *t = archive_entry_acl_to_text(ent, &len, flags);
			if (t == NULL) { printf("null\n"); return; }
			if ((size_t)len != strlen(t)) { printf("!len-mismatch\n"); free(t); return; }
			if (!isrt) { printf("len=%zd t=", (ssize_t)len); vh_puthex(t, len); putchar('\n'); free(t); return; }
			char *c = malloc(len + 1); memcpy(c, t, len + 1);
			struct archive_entry *e2 = archive_entry_new();
			int r = archive_entry_acl_from_text(e2, c, atoi(w[2]));
			printf("t="); vh_puthex(t, len); printf(" st=%s ", vh_st(r)); dump(e2); putchar('\n');
			archive_entry_free(e2); free(c); free(t);
		}
	} else if (n == 3 && !strcmp(w[0], "parse")) {
		int want = atoi(w[1]), r; size_t l;
		if (wide) {
			wchar_t *t = unwide(w[2], &l);
			r = archive_entry_acl_from_text_w(ent, t, want);
			free(t);
		} else {
			unsigned char *b = vh_unhex(w[2], &l);
			char *t = malloc(l + 1); memcpy(t, b, l); t[l] = 0; free(b);
			r = archive_entry_acl_from_text(ent, t, want);
			free(t);
		}
		printf("st=%s\n", vh_st(r));
	} else if (n == 3 && !strcmp(w[0], "parsenl")) {
		size_t l; unsigned char *b = vh_unhex(w[2], &l);
		/* vh_unhex gives malloc(1) for the empty text: make a read of text[0] visible as well */
		if (l == 0) { free(b); b = malloc(0); }
		int r = archive_acl_from_text_nl(archive_entry_acl(ent), (const char *)b, l, atoi(w[1]), NULL);
		free(b);
		printf("st=%s\n", vh_st(r));
	} else if (n == 2 && (!strcmp(w[0], "paxtrunc") || !strcmp(w[0], "paxcolon"))) {
		size_t l; unsigned char *b = vh_unhex(w[1], &l);
		pax_case(b, l, w[0][3] == 'c');
		free(b);
	} else if (n == 1 && !strcmp(w[0], "dump")) {
		dump(ent); putchar('\n');
	} else printf("bad-op\n");
}

static void a_end(void) { archive_entry_free(ent); }

int main(int argc, char **argv)
{
	setlocale(LC_ALL, "");
	struct vh_engine e = { a_begin, a_op, a_end };
	return vh_main(argc, argv, &e);
}
