/* Writer's copy of the traditional PKWARE functions (static in
 * archive_write_set_format_zip.c), exported for harness/eng_trad.c. */
#include "archive_write_set_format_zip.c"

void vw_update_keys(uint32_t *k, uint8_t c) { trad_enc_update_keys((struct trad_enc_ctx *)k, c); }
uint8_t vw_decrypt_byte(uint32_t *k) { return trad_enc_decrypt_byte((struct trad_enc_ctx *)k); }
unsigned vw_encrypt_update(uint32_t *k, const uint8_t *in, size_t in_len, uint8_t *out, size_t out_len)
{ return trad_enc_encrypt_update((struct trad_enc_ctx *)k, in, in_len, out, out_len); }
int vw_init(uint32_t *k, const char *pw, size_t pw_len) { return trad_enc_init((struct trad_enc_ctx *)k, pw, pw_len); }
size_t vw_ctx_size(void) { return sizeof(struct trad_enc_ctx); }
