/* Wrappers around the static numeric formatters / parsers of libarchive, one
 * translation unit per included .c file (their static names collide). */
#ifndef VERIF_CODEC_INC_H
#define VERIF_CODEC_INC_H
#include <stdint.h>
#include <stddef.h>
int vhx_ustar_format_octal(int64_t v, char *p, int s);
int vhx_ustar_format_number(int64_t v, char *p, int s, int max, int strict);
int vhx_ustar_format_256(int64_t v, char *p, int s);
int vhx_v7tar_format_octal(int64_t v, char *p, int s);
int vhx_v7tar_format_number(int64_t v, char *p, int s, int max, int strict);
int vhx_gnutar_format_octal(int64_t v, char *p, int s);
int vhx_gnutar_format_number(int64_t v, char *p, int s, int max);
int vhx_odc_format_octal(int64_t v, char *p, int s);
int vhx_newc_format_hex(int64_t v, char *p, int s);
int vhx_ar_format_octal(int64_t v, char *p, int s);
int vhx_ar_format_decimal(int64_t v, char *p, int s);
int64_t vhx_tar_atol(const char *p, size_t n);
int64_t vhx_tar_atol8(const char *p, size_t n);
int64_t vhx_tar_atol10(const char *p, size_t n);
int64_t vhx_tar_atol256(const char *p, size_t n);
int64_t vhx_cpio_atol8(const char *p, unsigned n);
int64_t vhx_cpio_atol16(const char *p, unsigned n);
size_t vhx_pax_record(const char *key, const char *value, size_t value_len, char *out, size_t cap);
#endif
