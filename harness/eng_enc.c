/*
 * Engine `enc` (C20): drives the real AES-CTR layer of archive_cryptor.c through
 * the `__archive_cryptor` function table (encrypto_* and decrypto_* entries).
 *
 *   init e|d <keyhex> <start>   *_aes_ctr_init; when start != 0 the 64-bit counter in
 *                               ctx.nonce[0..8) is preset (little-endian) so that the
 *                               carry borders are reachable
 *   upd <hex> <cap>             *_aes_ctr_update with an output buffer of exactly cap bytes
 *   init e|d <keyhex> <start> keep   as init; everything output so far becomes the pending input
 *   updp <n> <cap>              as upd, the input being the next n pending bytes
 *   rel                         *_aes_ctr_release
 *
 * The AES block function is a parameter of the Lean model.  For every `upd` the
 * harness prints, besides what libarchive returned, the blocks E(counter) it computed
 * on its own with OpenSSL EVP AES-ECB for the counters around the current stream
 * position (counter arithmetic done here on a uint64_t, not by libarchive); the model
 * uses them as its oracle for E.
 */
#include "archive_platform.h"
#include "common.h"
#include <archive.h>
#include "archive_cryptor_private.h"
#include <openssl/evp.h>

static archive_crypto_ctx ctx; static int inited, dir;
static unsigned char key[64]; static size_t keylen;
static uint64_t start, nbytes;
static unsigned char *acc, *pend; static size_t nacc, capacc, npend, ppos;

static void acc_add(const unsigned char *p, size_t n)
{
	if (n == 0) return;
	if (nacc + n > capacc) { capacc = (nacc + n) * 2 + 64; acc = realloc(acc, capacc); }
	memcpy(acc + nacc, p, n); nacc += n;
}

static void ecb(uint64_t counter, unsigned char in[16], unsigned char out[16])
{
	memset(in, 0, 16);
	for (int j = 0; j < 8; j++) in[j] = (unsigned char)(counter >> (8 * j));
	EVP_CIPHER_CTX *c = EVP_CIPHER_CTX_new(); int outl = 0;
	const EVP_CIPHER *t = keylen == 16 ? EVP_aes_128_ecb() : keylen == 24 ? EVP_aes_192_ecb() : EVP_aes_256_ecb();
	EVP_EncryptInit_ex(c, t, NULL, key, NULL);
	EVP_CIPHER_CTX_set_padding(c, 0);
	EVP_EncryptUpdate(c, out, &outl, in, 16);
	EVP_CIPHER_CTX_free(c);
}

static void e_begin(void) { inited = 0; nacc = npend = ppos = 0; }

static void e_op(char *line)
{
	char *w[8]; int n = vh_split(line, w, 8);
	if ((n == 4 || n == 5) && strcmp(w[0], "init") == 0) {
		if (n == 5) { free(pend); pend = acc; npend = nacc; ppos = 0; acc = NULL; nacc = capacc = 0; }
		if (inited) { if (dir) __archive_cryptor.decrypto_aes_ctr_release(&ctx); else __archive_cryptor.encrypto_aes_ctr_release(&ctx); inited = 0; }
		unsigned char *k = vh_unhex(w[2], &keylen);
		if (keylen > sizeof key) keylen = sizeof key;
		memcpy(key, k, keylen); free(k);
		dir = w[1][0] == 'd';
		start = strtoull(w[3], NULL, 10); nbytes = 0;
		memset(&ctx, 0, sizeof ctx);
		int r = dir ? __archive_cryptor.decrypto_aes_ctr_init(&ctx, key, keylen)
		            : __archive_cryptor.encrypto_aes_ctr_init(&ctx, key, keylen);
		if (r == 0) {
			inited = 1;
			if (start) for (int j = 0; j < 8; j++) ctx.nonce[j] = (uint8_t)(start >> (8 * j));
		} else {
			/* aes_ctr_init allocates the EVP context before it looks at key_len */
			if (dir) __archive_cryptor.decrypto_aes_ctr_release(&ctx); else __archive_cryptor.encrypto_aes_ctr_release(&ctx);
		}
		printf("r=%d\n", r);
	} else if (n == 3 && (strcmp(w[0], "upd") == 0 || strcmp(w[0], "updp") == 0)) {
		if (!inited) { printf("not-inited\n"); return; }
		size_t len; unsigned char *in;
		if (w[0][3] == 'p') {
			len = strtoul(w[1], NULL, 10); if (len > npend - ppos) len = npend - ppos;
			in = malloc(len ? len : 1); if (len) memcpy(in, pend + ppos, len); ppos += len;
		} else in = vh_unhex(w[1], &len);
		size_t cap = strtoul(w[2], NULL, 10), outl = cap;
		unsigned char *out = malloc(cap ? cap : 1);
		int r = dir ? __archive_cryptor.decrypto_aes_ctr_update(&ctx, in, len, out, &outl)
		            : __archive_cryptor.encrypto_aes_ctr_update(&ctx, in, len, out, &outl);
		printf("r=%d n=%zu out=", r, outl);
		if (outl <= cap) vh_puthex(out, outl); else printf("OVERRUN");
		printf(" E=");
		uint64_t lo = nbytes / 16, hi = (nbytes + len) / 16 + 2;
		for (uint64_t k = lo; k <= hi; k++) {
			unsigned char bi[16], bo[16];
			ecb(start + k, bi, bo);
			if (k != lo) putchar(',');
			vh_puthex(bi, 16); putchar(':'); vh_puthex(bo, 16);
		}
		putchar('\n');
		if (r == 0 && outl <= cap) { nbytes += outl; acc_add(out, outl); }
		free(in); free(out);
	} else if (n == 1 && strcmp(w[0], "rel") == 0) {
		if (!inited) { printf("not-inited\n"); return; }
		int r = dir ? __archive_cryptor.decrypto_aes_ctr_release(&ctx) : __archive_cryptor.encrypto_aes_ctr_release(&ctx);
		inited = 0;
		printf("r=%d\n", r);
	} else printf("bad-op\n");
}

static void e_end(void)
{
	if (inited) { if (dir) __archive_cryptor.decrypto_aes_ctr_release(&ctx); else __archive_cryptor.encrypto_aes_ctr_release(&ctx); }
	inited = 0;
	free(acc); free(pend); acc = pend = NULL; nacc = capacc = npend = ppos = 0;
}

int main(int argc, char **argv)
{
	struct vh_engine e = { e_begin, e_op, e_end };
	return vh_main(argc, argv, &e);
}
