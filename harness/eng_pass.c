/*
 * Engine `pass` (C20): the reader's passphrase list, archive_read_add_passphrase.c.
 *
 *   add <hex> | add null          archive_read_add_passphrase ("-" is the empty string)
 *   cb <a,b,...> | cb n | cb -    archive_read_set_passphrase_callback with scripted answers
 *                                 (an item "null" answers NULL), always-NULL, or no callback
 *   reset                         __archive_read_reset_passphrase
 *   next                          __archive_read_next_passphrase
 * Every answer shows the result, `candidate`, the list from `first` and the number of
 * callback invocations so far.
 */
#include "archive_platform.h"
#include "common.h"
#include <archive.h>
#include "archive_read_private.h"

static struct archive *a;
static char *ans[128]; static int nans, ians, calls;

static const char *cb(struct archive *x, void *d)
{
	(void)x; (void)d; calls++;
	if (ians < nans) return ans[ians++];
	return NULL;
}

static char *hex2str(const char *h)
{
	size_t n; unsigned char *b = vh_unhex(h, &n);
	char *s = malloc(n + 1); memcpy(s, b, n); s[n] = 0; free(b); return s;
}

static void clear_ans(void) { for (int i = 0; i < nans; i++) free(ans[i]); nans = ians = 0; }

static void dump(void)
{
	struct archive_read *r = (struct archive_read *)a;
	printf(" cand=%d list=", r->passphrases.candidate);
	int i = 0; struct archive_read_passphrase *p, *lastnode = NULL;
	for (p = r->passphrases.first; p != NULL && i < 1000; p = p->next, i++) {
		if (i) putchar(',');
		vh_puthex(p->passphrase, strlen(p->passphrase));
		lastnode = p;
	}
	if (i == 0) printf("empty");
	/* `last` must point at the `next` field of the final node (or at `first`) */
	int lastok = lastnode ? (r->passphrases.last == &lastnode->next) : (r->passphrases.last == &r->passphrases.first);
	printf(" last=%d calls=%d\n", lastok, calls);
}

static void p_begin(void) { a = archive_read_new(); nans = ians = calls = 0; }

static void p_op(char *line)
{
	char *w[4]; int n = vh_split(line, w, 4);
	struct archive_read *r = (struct archive_read *)a;
	if (n == 2 && strcmp(w[0], "add") == 0) {
		int st;
		if (strcmp(w[1], "null") == 0) st = archive_read_add_passphrase(a, NULL);
		else { char *s = hex2str(w[1]); st = archive_read_add_passphrase(a, s); free(s); }
		printf("st=%s", vh_st(st)); dump();
	} else if (n == 2 && strcmp(w[0], "cb") == 0) {
		clear_ans();
		int st;
		if (strcmp(w[1], "-") == 0) st = archive_read_set_passphrase_callback(a, NULL, NULL);
		else {
			if (strcmp(w[1], "n") != 0) {
				char *c = strdup(w[1]), *sv = NULL;
				for (char *t = strtok_r(c, ",", &sv); t && nans < 128; t = strtok_r(NULL, ",", &sv))
					ans[nans++] = strcmp(t, "null") == 0 ? NULL : hex2str(t);
				free(c);
			}
			st = archive_read_set_passphrase_callback(a, NULL, cb);
		}
		printf("st=%s", vh_st(st)); dump();
	} else if (n == 1 && strcmp(w[0], "reset") == 0) {
		__archive_read_reset_passphrase(r);
		printf("ok"); dump();
	} else if (n == 1 && strcmp(w[0], "next") == 0) {
		const char *p = __archive_read_next_passphrase(r);
		printf("p=");
		if (p == NULL) printf("null"); else vh_puthex(p, strlen(p));
		dump();
	} else printf("bad-op\n");
}

static void p_end(void) { archive_read_free(a); clear_ans(); }

int main(int argc, char **argv)
{
	struct vh_engine e = { p_begin, p_op, p_end };
	return vh_main(argc, argv, &e);
}
