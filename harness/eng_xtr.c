/* Engine `xtr` (C04): entry sequences through the REAL archive_write_disk API
 * (and through `bsdtar -x` built from the same tree) inside a canary tree.
 *
 * Scratch layout, created per case under $VERIF_SCRATCH/xtr.<pid>/ :
 *   R/                 "the root" (the model calls it /R)
 *   R/a/ R/a/b/ R/a/b/f R/a/a R/b R/f R/d/ R/l->b      canary objects, all OUTSIDE
 *   R/target/          directory in which extraction starts (cwd of the process)
 * Every canary object has known content, mode and mtime 500000000; the canary
 * digest covers lstat type/mode/nlink/size/mtime/ctime(ns)/content/link target of
 * everything under R except what is below R/target.
 *
 * ops (paths and link targets are hex; "/R" at the start of a link target stands
 * for the absolute name of R):
 *   mode api|tar
 *   opts [unlink] [nooverwrite] [safewrites] [perm] [time]   (the three SECURE_* flags are always on)
 *   pre dir|file|symlink|fifo|hardlink <path> <target|content|-> <mode>   pre-existing content of the target
 *   ent file|dir|symlink|hardlink|fifo <path> <link|-> <mode> <mtime> <content|->
 *        api mode: header / data / finish_entry  -> "h=<st> d=<st|-> f=<st> env=<ok|cwd|umask>"
 *        tar mode: queued                        -> "q"
 *   close     api: archive_write_close + free   -> "c=<st> fr=<st> env=…"
 *             tar: write the queued entries with the real pax writer, run bsdtar -x -> "tar=<exit class>"
 *   snap      -> "T <sorted snapshot of the target> | canary=<ok|CHANGED:path>"
 */
#include "common.h"
#include <archive.h>
#include <archive_entry.h>
#include "xtr_tree.h"

static int tarmode, flags;
static struct archive *aw;
struct qent { char kind[16]; char *path, *link; unsigned mode; long mtime; unsigned char *data; size_t dlen; };
static struct qent q[64]; static int nq;
static char optline[256];

static void x_begin(void)
{
	tree_begin("xtr");
	tarmode = 0; flags = 0; aw = NULL; nq = 0; optline[0] = 0;
}

static void ensure_started(void)
{
	if (canary0) return;
	canary0 = canary_digest();
	if (!tarmode) {
		aw = archive_write_disk_new();
		archive_write_disk_set_options(aw, flags | ARCHIVE_EXTRACT_SECURE_SYMLINKS |
		    ARCHIVE_EXTRACT_SECURE_NODOTDOT | ARCHIVE_EXTRACT_SECURE_NOABSOLUTEPATHS);
	}
}

static struct archive_entry *mkentry(const struct qent *e, int for_tar)
{
	struct archive_entry *ae = archive_entry_new();
	archive_entry_copy_pathname(ae, e->path);
	archive_entry_set_mtime(ae, e->mtime, 0);
	archive_entry_set_uid(ae, getuid()); archive_entry_set_gid(ae, getgid());
	if (!strcmp(e->kind, "file")) { archive_entry_set_filetype(ae, AE_IFREG); archive_entry_set_size(ae, (int64_t)e->dlen); }
	else if (!strcmp(e->kind, "dir")) { archive_entry_set_filetype(ae, AE_IFDIR); archive_entry_set_size(ae, 0); }
	else if (!strcmp(e->kind, "fifo")) { archive_entry_set_filetype(ae, AE_IFIFO); archive_entry_set_size(ae, 0); }
	else if (!strcmp(e->kind, "symlink")) {
		char *l = maplink(e->link);
		archive_entry_set_filetype(ae, AE_IFLNK); archive_entry_copy_symlink(ae, l); archive_entry_set_size(ae, 0); free(l);
	} else {   /* hardlink */
		archive_entry_set_filetype(ae, AE_IFREG); archive_entry_copy_hardlink(ae, e->link);
		archive_entry_set_size(ae, for_tar ? 0 : (int64_t)e->dlen);
	}
	archive_entry_set_perm(ae, e->mode);
	return ae;
}

static void do_ent(char **w)
{
	struct qent e; memset(&e, 0, sizeof e);
	snprintf(e.kind, sizeof e.kind, "%s", w[1]);
	e.path = unhexs(w[2]); e.link = unhexs(w[3]); e.mode = (unsigned)strtoul(w[4], NULL, 8); e.mtime = strtol(w[5], NULL, 10);
	e.data = vh_unhex(w[6], &e.dlen);
	ensure_started();
	if (tarmode) { if (nq < 64) q[nq++] = e; printf("q\n"); return; }
	struct archive_entry *ae = mkentry(&e, 0);
	int h = archive_write_header(aw, ae);
	const char *env1 = envcheck();
	int d = 1;  /* 1 = not attempted */
	if (h == ARCHIVE_OK && e.dlen > 0 && archive_entry_size(ae) > 0) {
		la_ssize_t k = archive_write_data(aw, e.data, e.dlen);
		d = k < 0 ? (int)k : 0;
	}
	const char *env2 = envcheck();
	int f = archive_write_finish_entry(aw);
	const char *env3 = envcheck();
	const char *env = strcmp(env1, "ok") ? env1 : strcmp(env2, "ok") ? env2 : env3;
	printf("h=%s d=%s f=%s env=%s\n", vh_st(h), d == 1 ? "-" : vh_st(d), vh_st(f), env);
	archive_entry_free(ae); free(e.path); free(e.link); free(e.data);
}

static void do_close(void)
{
	ensure_started();
	if (!tarmode) {
		int c = archive_write_close(aw); const char *e1 = envcheck();
		int fr = archive_write_free(aw); const char *e2 = envcheck(); aw = NULL;
		printf("c=%s fr=%s env=%s\n", vh_st(c), vh_st(fr), strcmp(e1, "ok") ? e1 : e2);
		return;
	}
	/* write the queued entries with the real pax writer, then run bsdtar -x */
	char arch[700]; snprintf(arch, sizeof arch, "%s/in.tar", base);
	struct archive *a = archive_write_new();
	archive_write_set_format_pax_restricted(a);
	if (archive_write_open_filename(a, arch) != ARCHIVE_OK) { printf("tar=openfail\n"); return; }
	int wr = 0;
	for (int i = 0; i < nq; i++) {
		struct archive_entry *ae = mkentry(&q[i], 1);
		int r = archive_write_header(a, ae);
		if (r < ARCHIVE_WARN) wr++;
		else if (!strcmp(q[i].kind, "file") && q[i].dlen) archive_write_data(a, q[i].data, q[i].dlen);
		archive_entry_free(ae);
	}
	archive_write_close(a); archive_write_free(a);
	const char *bt = getenv("VERIF_BSDTAR");
	if (!bt) { printf("tar=nobsdtar\n"); return; }
	char *argv[16]; int n = 0; char ol[256]; snprintf(ol, sizeof ol, "%s", optline);
	argv[n++] = (char *)bt; argv[n++] = "-x"; argv[n++] = "-f"; argv[n++] = arch;
	char *ow[8]; int no = vh_split(ol, ow, 8);
	int perm = 0;
	for (int i = 0; i < no; i++) {
		if (!strcmp(ow[i], "unlink")) argv[n++] = "-U";
		else if (!strcmp(ow[i], "nooverwrite")) argv[n++] = "-k";
		else if (!strcmp(ow[i], "safewrites")) argv[n++] = "--safe-writes";
		else if (!strcmp(ow[i], "perm")) perm = 1;
	}
	argv[n++] = perm ? "-p" : "--no-same-permissions";
	argv[n] = NULL;
	fflush(stdout);
	pid_t pid = fork();
	if (pid == 0) {
		int dn = open("/dev/null", O_WRONLY); if (dn >= 0) { dup2(dn, 2); dup2(dn, 1); }
		execv(bt, argv); _exit(127);
	}
	int st = 0; waitpid(pid, &st, 0);
	if (WIFSIGNALED(st)) printf("tar=signal%d wr=%d\n", WTERMSIG(st), wr);
	else printf("tar=%s wr=%d\n", WEXITSTATUS(st) == 0 ? "ok" : WEXITSTATUS(st) == 1 ? "warn" : WEXITSTATUS(st) == 99 ? "sanitizer" : "other", wr);
}

static void do_snap(void)
{
	ensure_started();
	tree_snapshot_line("");
}

static void x_op(char *line)
{
	char *w[10]; char copy[256]; snprintf(copy, sizeof copy, "%s", line);
	int n = vh_split(line, w, 10);
	if (n == 2 && !strcmp(w[0], "mode")) { tarmode = !strcmp(w[1], "tar"); printf("ok\n"); }
	else if (n >= 1 && !strcmp(w[0], "opts")) {
		flags = 0; snprintf(optline, sizeof optline, "%s", strlen(copy) > 5 ? copy + 5 : "");
		for (int i = 1; i < n; i++) {
			if (!strcmp(w[i], "unlink")) flags |= ARCHIVE_EXTRACT_UNLINK;
			else if (!strcmp(w[i], "nooverwrite")) flags |= ARCHIVE_EXTRACT_NO_OVERWRITE;
			else if (!strcmp(w[i], "safewrites")) flags |= ARCHIVE_EXTRACT_SAFE_WRITES;
			else if (!strcmp(w[i], "perm")) flags |= ARCHIVE_EXTRACT_PERM;
			else if (!strcmp(w[i], "time")) flags |= ARCHIVE_EXTRACT_TIME;
		}
		printf("ok flags=%d\n", flags | ARCHIVE_EXTRACT_SECURE_SYMLINKS |
		    ARCHIVE_EXTRACT_SECURE_NODOTDOT | ARCHIVE_EXTRACT_SECURE_NOABSOLUTEPATHS);
	}
	else if (n == 5 && !strcmp(w[0], "pre")) do_pre(w);
	else if (n == 7 && !strcmp(w[0], "ent")) do_ent(w);
	else if (n == 1 && !strcmp(w[0], "close")) do_close();
	else if (n == 1 && !strcmp(w[0], "snap")) do_snap();
	else printf("bad-op\n");
}

static void x_end(void)
{
	if (aw) archive_write_free(aw);
	tree_end();
}

int main(int argc, char **argv)
{
	struct vh_engine e = { x_begin, x_op, x_end };
	return vh_main(argc, argv, &e);
}
