/* Engine `xtr` (C04): entry sequences through the REAL archive_write_disk API
 * (and through `bsdtar -x` built from the same tree) inside a canary tree.
 *
 * Scratch layout, created per case under $VERIF_SCRATCH/xtr.<pid>/ :
 *   R/                 "the root" (the model calls it /R)
 *   R/a/ R/a/b/ R/a/b/f R/a/a R/b R/f R/d/ R/l->b      canary objects, all OUTSIDE
 *   R/target/          directory in which extraction starts (cwd of the process)
 * Every canary object has known content, mode and mtime 500000000; the canary
 * digest covers lstat type/mode/nlink/size/mtime/ctime(ns)/content/link target of
 * everything under R except what is below R/target.
 *
 * ops (paths and link targets are hex; "/R" at the start of a link target stands
 * for the absolute name of R):
 *   mode api|tar
 *   opts [unlink] [nooverwrite] [safewrites] [perm] [time]   (the three SECURE_* flags are always on)
 *   pre dir|file|symlink|fifo|hardlink <path> <target|content|-> <mode>   pre-existing content of the target
 *   ent file|dir|symlink|hardlink|fifo <path> <link|-> <mode> <mtime> <content|->
 *        api mode: header / data / finish_entry  -> "h=<st> d=<st|-> f=<st> env=<ok|cwd|umask>"
 *        tar mode: queued                        -> "q"
 *   close     api: archive_write_close + free   -> "c=<st> fr=<st> env=…"
 *             tar: write the queued entries with the real pax writer, run bsdtar -x -> "tar=<exit class>"
 *   snap      -> "T <sorted snapshot of the target> | canary=<ok|CHANGED:path>"
 */
#include "common.h"
#include <fcntl.h>
#include <dirent.h>
#include <stdarg.h>
#include <sys/stat.h>
#include <sys/time.h>
#include <archive.h>
#include <archive_entry.h>

static char base[512], rootd[600], targetd[700], cwd0[800];
static mode_t umask0;
static int tarmode, flags;
static struct archive *aw;
static char *canary0;
static const long CT = 500000000;

struct qent { char kind[16]; char *path, *link; unsigned mode; long mtime; unsigned char *data; size_t dlen; };
static struct qent q[64]; static int nq;
static char optline[256];

static void die(const char *m) { perror(m); printf("!harness %s\n", m); fflush(stdout); _exit(4); }

static char *unhexs(const char *h)
{
	size_t n; unsigned char *b = vh_unhex(h, &n);
	char *s = malloc(n + 1); memcpy(s, b, n); s[n] = 0; free(b); return s;
}

/* "/R..." -> absolute name of R */
static char *maplink(const char *l)
{
	if (strncmp(l, "/R", 2) == 0 && (l[2] == '/' || l[2] == 0)) {
		char *s = malloc(strlen(rootd) + strlen(l) + 1);
		sprintf(s, "%s%s", rootd, l + 2); return s;
	}
	return strdup(l);
}

static void wfile(const char *p, const char *content, mode_t m)
{
	int fd = open(p, O_WRONLY | O_CREAT | O_TRUNC, 0600);
	if (fd < 0) die("wfile");
	if (write(fd, content, strlen(content)) < 0) die("write");
	close(fd); chmod(p, m);
}

static void settime(const char *p, long t)
{
	struct timespec ts[2] = { { t, 0 }, { t, 0 } };
	utimensat(AT_FDCWD, p, ts, AT_SYMLINK_NOFOLLOW);
}

/* ---- snapshots ---- */
struct sbuf { char *s; size_t n, cap; };
static void sb_add(struct sbuf *b, const char *fmt, ...)
{
	char tmp[4096]; va_list ap; va_start(ap, fmt);
	int k = vsnprintf(tmp, sizeof tmp, fmt, ap); va_end(ap);
	if (k < 0) return;
	if ((size_t)k >= sizeof tmp) k = sizeof tmp - 1;
	if (b->n + (size_t)k + 1 > b->cap) { b->cap = (b->cap + k + 1) * 2; b->s = realloc(b->s, b->cap); }
	memcpy(b->s + b->n, tmp, (size_t)k + 1); b->n += (size_t)k;
}

static uint64_t filehash(const char *p, long long *len)
{
	uint64_t h = 14695981039346656037ULL; *len = 0;
	int fd = open(p, O_RDONLY | O_NOFOLLOW | O_NONBLOCK);
	if (fd < 0) return 0;
	unsigned char buf[4096]; ssize_t k;
	while ((k = read(fd, buf, sizeof buf)) > 0) { for (ssize_t i = 0; i < k; i++) { h ^= buf[i]; h *= 1099511628211ULL; } *len += k; }
	close(fd); return h;
}

static int cmpstr(const void *a, const void *b) { return strcmp(*(char *const *)a, *(char *const *)b); }

static void hexs(struct sbuf *b, const char *s)
{
	if (!*s) { sb_add(b, "-"); return; }
	for (; *s; s++) sb_add(b, "%02x", (unsigned char)*s);
}

static void mt(struct sbuf *b, const struct stat *st)
{
	if (st->st_mtime < 1500000000) sb_add(b, "%ld", (long)st->st_mtime); else sb_add(b, "now");
}

/* one object; canary = 1 adds ctime/mtime ns so that any touch shows */
static void descr(struct sbuf *b, const char *full, const char *rel, int canary)
{
	struct stat st;
	if (lstat(full, &st) != 0) { sb_add(b, " "); hexs(b, rel); sb_add(b, ":?"); return; }
	sb_add(b, " "); hexs(b, rel); sb_add(b, ":");
	if (S_ISDIR(st.st_mode)) { sb_add(b, "d:%o:", (unsigned)(st.st_mode & 07777)); mt(b, &st); }
	else if (S_ISREG(st.st_mode)) {
		long long len; uint64_t h = filehash(full, &len);
		sb_add(b, "f:%o:%u:%lld:%016llx:", (unsigned)(st.st_mode & 07777), (unsigned)st.st_nlink, len, (unsigned long long)h); mt(b, &st);
	} else if (S_ISLNK(st.st_mode)) {
		char t[4096]; ssize_t k = readlink(full, t, sizeof t - 1); if (k < 0) k = 0; t[k] = 0;
		sb_add(b, "l:");
		if (strncmp(t, rootd, strlen(rootd)) == 0) { char u[4200]; snprintf(u, sizeof u, "/R%s", t + strlen(rootd)); hexs(b, u); }
		else hexs(b, t);
	} else if (S_ISFIFO(st.st_mode)) { sb_add(b, "p:%o:", (unsigned)(st.st_mode & 07777)); mt(b, &st); }
	else sb_add(b, "o:%o", (unsigned)st.st_mode);
	if (canary)
		sb_add(b, ":n%u:c%lld.%09ld:m%lld.%09ld", (unsigned)st.st_nlink, (long long)st.st_ctim.tv_sec, st.st_ctim.tv_nsec,
		    (long long)st.st_mtim.tv_sec, st.st_mtim.tv_nsec);
}

static void walk(struct sbuf *b, const char *full, const char *rel, int canary, int depth)
{
	DIR *d = opendir(full); if (!d) return;
	char *names[512]; int n = 0; struct dirent *de;
	while ((de = readdir(d)) && n < 512) {
		if (!strcmp(de->d_name, ".") || !strcmp(de->d_name, "..")) continue;
		if (canary && depth == 0 && !strcmp(de->d_name, "target")) continue;
		names[n++] = strdup(de->d_name);
	}
	closedir(d);
	qsort(names, (size_t)n, sizeof names[0], cmpstr);
	for (int i = 0; i < n; i++) {
		char f2[8192], r2[8192];
		snprintf(f2, sizeof f2, "%s/%s", full, names[i]);
		snprintf(r2, sizeof r2, "%s%s%s", rel, *rel ? "/" : "", names[i]);
		descr(b, f2, r2, canary);
		struct stat st;
		if (lstat(f2, &st) == 0 && S_ISDIR(st.st_mode) && depth < 12) walk(b, f2, r2, canary, depth + 1);
		free(names[i]);
	}
}

static char *canary_digest(void)
{
	struct sbuf b = { 0 }; sb_add(&b, "C");
	descr(&b, rootd, ".", 1);
	walk(&b, rootd, "", 1, 0);
	return b.s;
}

static const char *envcheck(void)
{
	char c[800];
	if (!getcwd(c, sizeof c) || strcmp(c, cwd0) != 0) return "cwd";
	mode_t m = umask(0); umask(m);
	if (m != umask0) return "umask";
	return "ok";
}

/* ---- case life cycle ---- */
static void rmrf(const char *p)
{
	struct stat st; if (lstat(p, &st) != 0) return;
	if (S_ISDIR(st.st_mode)) {
		chmod(p, 0700);
		DIR *d = opendir(p); struct dirent *de;
		if (d) { while ((de = readdir(d))) { if (!strcmp(de->d_name, ".") || !strcmp(de->d_name, "..")) continue;
			char f[8192]; snprintf(f, sizeof f, "%s/%s", p, de->d_name); rmrf(f); } closedir(d); }
		rmdir(p);
	} else unlink(p);
}

static void x_begin(void)
{
	const char *s = getenv("VERIF_SCRATCH"); if (!s) s = "/tmp";
	snprintf(base, sizeof base, "%s/xtr.%d", s, (int)getpid());
	rmrf(base);
	if (mkdir(base, 0755) != 0) die("mkdir base");
	char *rp = realpath(base, NULL); if (!rp) die("realpath");
	snprintf(rootd, sizeof rootd, "%s/R", rp); free(rp);
	snprintf(targetd, sizeof targetd, "%s/target", rootd);
	umask(022);
	char p[900];
#define P(x) (snprintf(p, sizeof p, "%s/%s", rootd, x), p)
	mkdir(rootd, 0755); mkdir(P("a"), 0755); mkdir(P("a/b"), 0755); mkdir(P("d"), 0700); mkdir(targetd, 0755);
	wfile(P("a/b/f"), "cabf", 0644); wfile(P("a/a"), "caa", 0644); wfile(P("b"), "cb", 0644); wfile(P("f"), "cf", 0600);
	if (symlink("b", P("l")) != 0) die("symlink");
	const char *all[] = { "a/b/f", "a/a", "a/b", "a", "b", "f", "d", "l", "target", "" };
	for (size_t i = 0; i < sizeof all / sizeof all[0]; i++) settime(P(all[i]), CT);
#undef P
	if (chdir(targetd) != 0) die("chdir");
	if (!getcwd(cwd0, sizeof cwd0)) die("getcwd");
	umask0 = 022; tarmode = 0; flags = 0; aw = NULL; nq = 0; optline[0] = 0;
	canary0 = NULL;
}

static void ensure_started(void)
{
	if (canary0) return;
	canary0 = canary_digest();
	if (!tarmode) {
		aw = archive_write_disk_new();
		archive_write_disk_set_options(aw, flags | ARCHIVE_EXTRACT_SECURE_SYMLINKS |
		    ARCHIVE_EXTRACT_SECURE_NODOTDOT | ARCHIVE_EXTRACT_SECURE_NOABSOLUTEPATHS);
	}
}

/* Pre-existing content is planted without ever following a symlink: every
 * leading component must be a real directory (created 0755 when missing). */
static int safe_parents(const char *rel, int create)
{
	char p[4096]; snprintf(p, sizeof p, "%s", rel);
	for (char *s = p + 1; *s; s++) if (*s == '/') {
		struct stat st; *s = 0;
		if (lstat(p, &st) != 0) { if (!create || mkdir(p, 0755) != 0) return -1; }
		else if (!S_ISDIR(st.st_mode)) return -1;
		*s = '/';
	}
	return 0;
}

static void do_pre(char **w)
{
	char *path = unhexs(w[2]), *arg = unhexs(w[3]); unsigned mode = (unsigned)strtoul(w[4], NULL, 8);
	int r = 0; struct stat st;
	if (!strcmp(w[1], "hardlink") && (safe_parents(arg, 0) != 0 || lstat(arg, &st) != 0 || S_ISDIR(st.st_mode))) r = -1;
	else if (!strcmp(w[1], "symlink") && !*arg) r = -1;
	else if (safe_parents(path, 1) != 0 || lstat(path, &st) == 0) r = -1;
	else if (!strcmp(w[1], "dir")) { r = mkdir(path, mode); if (r == 0) chmod(path, mode); }
	else if (!strcmp(w[1], "file")) { wfile(path, arg, mode); }
	else if (!strcmp(w[1], "symlink")) { char *l = maplink(arg); r = symlink(l, path); free(l); }
	else if (!strcmp(w[1], "fifo")) { r = mkfifo(path, mode); if (r == 0) chmod(path, mode); }
	else if (!strcmp(w[1], "hardlink")) {
		if (safe_parents(arg, 0) != 0 || lstat(arg, &st) != 0 || S_ISDIR(st.st_mode)) r = -1;
		else r = link(arg, path);
	}
	else r = -1;
	printf(r == 0 ? "ok\n" : "err\n");
	free(path); free(arg);
}

static struct archive_entry *mkentry(const struct qent *e, int for_tar)
{
	struct archive_entry *ae = archive_entry_new();
	archive_entry_copy_pathname(ae, e->path);
	archive_entry_set_mtime(ae, e->mtime, 0);
	archive_entry_set_uid(ae, getuid()); archive_entry_set_gid(ae, getgid());
	if (!strcmp(e->kind, "file")) { archive_entry_set_filetype(ae, AE_IFREG); archive_entry_set_size(ae, (int64_t)e->dlen); }
	else if (!strcmp(e->kind, "dir")) { archive_entry_set_filetype(ae, AE_IFDIR); archive_entry_set_size(ae, 0); }
	else if (!strcmp(e->kind, "fifo")) { archive_entry_set_filetype(ae, AE_IFIFO); archive_entry_set_size(ae, 0); }
	else if (!strcmp(e->kind, "symlink")) {
		char *l = maplink(e->link);
		archive_entry_set_filetype(ae, AE_IFLNK); archive_entry_copy_symlink(ae, l); archive_entry_set_size(ae, 0); free(l);
	} else {   /* hardlink */
		archive_entry_set_filetype(ae, AE_IFREG); archive_entry_copy_hardlink(ae, e->link);
		archive_entry_set_size(ae, for_tar ? 0 : (int64_t)e->dlen);
	}
	archive_entry_set_perm(ae, e->mode);
	return ae;
}

static void do_ent(char **w)
{
	struct qent e; memset(&e, 0, sizeof e);
	snprintf(e.kind, sizeof e.kind, "%s", w[1]);
	e.path = unhexs(w[2]); e.link = unhexs(w[3]); e.mode = (unsigned)strtoul(w[4], NULL, 8); e.mtime = strtol(w[5], NULL, 10);
	e.data = vh_unhex(w[6], &e.dlen);
	ensure_started();
	if (tarmode) { if (nq < 64) q[nq++] = e; printf("q\n"); return; }
	struct archive_entry *ae = mkentry(&e, 0);
	int h = archive_write_header(aw, ae);
	const char *env1 = envcheck();
	int d = 1;  /* 1 = not attempted */
	if (h == ARCHIVE_OK && e.dlen > 0 && archive_entry_size(ae) > 0) {
		la_ssize_t k = archive_write_data(aw, e.data, e.dlen);
		d = k < 0 ? (int)k : 0;
	}
	const char *env2 = envcheck();
	int f = archive_write_finish_entry(aw);
	const char *env3 = envcheck();
	const char *env = strcmp(env1, "ok") ? env1 : strcmp(env2, "ok") ? env2 : env3;
	printf("h=%s d=%s f=%s env=%s\n", vh_st(h), d == 1 ? "-" : vh_st(d), vh_st(f), env);
	archive_entry_free(ae); free(e.path); free(e.link); free(e.data);
}

static void do_close(void)
{
	ensure_started();
	if (!tarmode) {
		int c = archive_write_close(aw); const char *e1 = envcheck();
		int fr = archive_write_free(aw); const char *e2 = envcheck(); aw = NULL;
		printf("c=%s fr=%s env=%s\n", vh_st(c), vh_st(fr), strcmp(e1, "ok") ? e1 : e2);
		return;
	}
	/* write the queued entries with the real pax writer, then run bsdtar -x */
	char arch[700]; snprintf(arch, sizeof arch, "%s/in.tar", base);
	struct archive *a = archive_write_new();
	archive_write_set_format_pax_restricted(a);
	if (archive_write_open_filename(a, arch) != ARCHIVE_OK) { printf("tar=openfail\n"); return; }
	int wr = 0;
	for (int i = 0; i < nq; i++) {
		struct archive_entry *ae = mkentry(&q[i], 1);
		int r = archive_write_header(a, ae);
		if (r < ARCHIVE_WARN) wr++;
		else if (!strcmp(q[i].kind, "file") && q[i].dlen) archive_write_data(a, q[i].data, q[i].dlen);
		archive_entry_free(ae);
	}
	archive_write_close(a); archive_write_free(a);
	const char *bt = getenv("VERIF_BSDTAR");
	if (!bt) { printf("tar=nobsdtar\n"); return; }
	char *argv[16]; int n = 0; char ol[256]; snprintf(ol, sizeof ol, "%s", optline);
	argv[n++] = (char *)bt; argv[n++] = "-x"; argv[n++] = "-f"; argv[n++] = arch;
	char *ow[8]; int no = vh_split(ol, ow, 8);
	int perm = 0;
	for (int i = 0; i < no; i++) {
		if (!strcmp(ow[i], "unlink")) argv[n++] = "-U";
		else if (!strcmp(ow[i], "nooverwrite")) argv[n++] = "-k";
		else if (!strcmp(ow[i], "safewrites")) argv[n++] = "--safe-writes";
		else if (!strcmp(ow[i], "perm")) perm = 1;
	}
	argv[n++] = perm ? "-p" : "--no-same-permissions";
	argv[n] = NULL;
	fflush(stdout);
	pid_t pid = fork();
	if (pid == 0) {
		int dn = open("/dev/null", O_WRONLY); if (dn >= 0) { dup2(dn, 2); dup2(dn, 1); }
		execv(bt, argv); _exit(127);
	}
	int st = 0; waitpid(pid, &st, 0);
	if (WIFSIGNALED(st)) printf("tar=signal%d wr=%d\n", WTERMSIG(st), wr);
	else printf("tar=%s wr=%d\n", WEXITSTATUS(st) == 0 ? "ok" : WEXITSTATUS(st) == 1 ? "warn" : WEXITSTATUS(st) == 99 ? "sanitizer" : "other", wr);
}

static void do_snap(void)
{
	ensure_started();
	struct sbuf b = { 0 }; sb_add(&b, "T");
	descr(&b, targetd, ".", 0);
	walk(&b, targetd, "", 0, 0);
	char *c1 = canary_digest();
	if (strcmp(c1, canary0) == 0) printf("%s | canary=ok\n", b.s);
	else {
		/* first differing token */
		size_t i = 0; while (c1[i] && canary0[i] && c1[i] == canary0[i]) i++;
		while (i > 0 && c1[i - 1] != ' ') i--;
		char tok[200]; size_t k = 0; while (c1[i + k] && c1[i + k] != ':' && c1[i + k] != ' ' && k < sizeof tok - 1) { tok[k] = c1[i + k]; k++; } tok[k] = 0;
		printf("%s | canary=CHANGED:%s\n", b.s, tok);
	}
	free(c1); free(b.s);
}

static void x_op(char *line)
{
	char *w[10]; char copy[256]; snprintf(copy, sizeof copy, "%s", line);
	int n = vh_split(line, w, 10);
	if (n == 2 && !strcmp(w[0], "mode")) { tarmode = !strcmp(w[1], "tar"); printf("ok\n"); }
	else if (n >= 1 && !strcmp(w[0], "opts")) {
		flags = 0; snprintf(optline, sizeof optline, "%s", strlen(copy) > 5 ? copy + 5 : "");
		for (int i = 1; i < n; i++) {
			if (!strcmp(w[i], "unlink")) flags |= ARCHIVE_EXTRACT_UNLINK;
			else if (!strcmp(w[i], "nooverwrite")) flags |= ARCHIVE_EXTRACT_NO_OVERWRITE;
			else if (!strcmp(w[i], "safewrites")) flags |= ARCHIVE_EXTRACT_SAFE_WRITES;
			else if (!strcmp(w[i], "perm")) flags |= ARCHIVE_EXTRACT_PERM;
			else if (!strcmp(w[i], "time")) flags |= ARCHIVE_EXTRACT_TIME;
		}
		printf("ok flags=%d\n", flags | ARCHIVE_EXTRACT_SECURE_SYMLINKS |
		    ARCHIVE_EXTRACT_SECURE_NODOTDOT | ARCHIVE_EXTRACT_SECURE_NOABSOLUTEPATHS);
	}
	else if (n == 5 && !strcmp(w[0], "pre")) do_pre(w);
	else if (n == 7 && !strcmp(w[0], "ent")) do_ent(w);
	else if (n == 1 && !strcmp(w[0], "close")) do_close();
	else if (n == 1 && !strcmp(w[0], "snap")) do_snap();
	else printf("bad-op\n");
}

static void x_end(void)
{
	if (aw) archive_write_free(aw);
	if (chdir("/") != 0) {}
	rmrf(base);
	free(canary0);
}

int main(int argc, char **argv)
{
	struct vh_engine e = { x_begin, x_op, x_end };
	return vh_main(argc, argv, &e);
}
