/* Engine `thr` (C13): independent handles in different threads.
 *
 * A case declares k workloads, each on a handle of its own, and then asks for
 * them to be run (a) each alone in a fresh process, (b) one after the other in
 * one fresh process, (c) concurrently, one thread each, released together by a
 * barrier, in a fresh process per attempt (the lazily initialised statics of
 * the library are pristine in every attempt: the process that forks never
 * calls into libarchive).  Each workload yields a digest of everything the
 * caller can observe: statuses, entry metadata incl. dev/ino, times, flags, sparse
 * map and xattr values, data, and after every header and every body what the handle
 * reports about itself (format code and name, filter codes and names, byte and file
 * counters); for writers also the archive bytes.
 *
 * ops:
 *   wl rd <path>                         read an archive file (all formats/filters) -> "ok"
 *        ("@refs/<name>" = $VERIF_REFS/<name>)
 *   wl wr <format> <filter> <seed> <n>   write n generated entries to memory          -> "ok"
 *   wl dw <seed> <n>                     extract n generated entries to a private dir -> "ok"
 *   wl dr                                archive_read_disk over a private, pre-made tree -> "ok"
 *   wl ver                               archive_version_details() (handle-less; known racy first call) -> "ok"
 *   solo                                 -> "d <digest>..."      (each workload in its own process)
 *   seq                                  -> "d <digest>..."      (one process, one after the other)
 *   par <attempts>                       -> "d <digest>... races=<sym,sym|-> heap=<n> other=<n> crashes=<n> ext=<n>"
 *        digest of a workload whose attempts disagree: MIXED
 *        races: static objects ThreadSanitizer named in a data-race report ("Location is global ...")
 *        heap: number of reports whose location is a heap block (two handles sharing heap state)
 *        other: other reports attributed to libarchive; ext: reports inside external libraries (not compared)
 *
 * Built with -fsanitize=thread (flavour tsan).  time() and arc4random_buf() are pinned.
 */
#include "common.h"
#include <sys/time.h>
#include <fcntl.h>
#include <pthread.h>
#include <dirent.h>
#include <sys/stat.h>
#include <time.h>
#include <archive.h>
#include <archive_entry.h>

time_t time(time_t *t) { if (t) *t = 1000000000; return 1000000000; }
/* the platform generator behind archive_random() (WARC record ids): pinned, stateless */
void arc4random_buf(void *b, size_t n) { memset(b, 0x5a, n); }

#define MAXWL 16
struct wl { char kind[4]; char a1[512], a2[32]; long seed, n; };
static struct wl W[MAXWL]; static int nwl;
static char scratch[400];
static int case_id;

struct dg { uint64_t h; };
static void dg_s(struct dg *d, const char *s) { if (!s) s = "\x01"; d->h = vh_fnv(s, strlen(s)) ^ (d->h * 1099511628211ULL); d->h *= 1099511628211ULL; }
static void dg_b(struct dg *d, const void *p, size_t n) { d->h = vh_fnv(p, n) ^ (d->h * 1099511628211ULL); d->h *= 1099511628211ULL; }
static void dg_i(struct dg *d, long long v) { dg_b(d, &v, sizeof v); }

static void dg_entry(struct dg *d, struct archive_entry *e, int with_ino)
{
	dg_s(d, archive_entry_pathname(e));
	dg_i(d, archive_entry_filetype(e)); dg_i(d, archive_entry_perm(e));
	dg_i(d, archive_entry_size_is_set(e) ? archive_entry_size(e) : -1);
	dg_i(d, archive_entry_mtime_is_set(e) ? archive_entry_mtime(e) : -1);
	dg_i(d, archive_entry_mtime_is_set(e) ? archive_entry_mtime_nsec(e) : -1);
	dg_i(d, archive_entry_uid(e)); dg_i(d, archive_entry_gid(e));
	dg_s(d, archive_entry_uname(e)); dg_s(d, archive_entry_gname(e));
	dg_s(d, archive_entry_hardlink(e)); dg_s(d, archive_entry_symlink(e));
	dg_i(d, archive_entry_nlink(e)); dg_i(d, archive_entry_rdev(e));
	if (with_ino) { dg_i(d, archive_entry_dev_is_set(e) ? (long long)archive_entry_dev(e) : -1);
		dg_i(d, archive_entry_ino_is_set(e) ? (long long)archive_entry_ino64(e) : -1); }
	dg_i(d, archive_entry_atime_is_set(e) ? archive_entry_atime(e) : -1);
	dg_i(d, archive_entry_ctime_is_set(e) ? archive_entry_ctime(e) : -1);
	dg_i(d, archive_entry_birthtime_is_set(e) ? archive_entry_birthtime(e) : -1);
	dg_s(d, archive_entry_fflags_text(e));
	dg_i(d, archive_entry_is_data_encrypted(e)); dg_i(d, archive_entry_is_metadata_encrypted(e));
	dg_i(d, archive_entry_acl_count(e, ARCHIVE_ENTRY_ACL_TYPE_ACCESS | ARCHIVE_ENTRY_ACL_TYPE_DEFAULT | ARCHIVE_ENTRY_ACL_TYPE_NFS4));
	int ns = archive_entry_sparse_reset(e); dg_i(d, ns);
	{ la_int64_t so, sl; while (archive_entry_sparse_next(e, &so, &sl) == ARCHIVE_OK) { dg_i(d, so); dg_i(d, sl); } }
	int nx = archive_entry_xattr_reset(e); dg_i(d, nx);
	const char *xn; const void *xv; size_t xl;
	while (archive_entry_xattr_next(e, &xn, &xv, &xl) == ARCHIVE_OK) { dg_s(d, xn); dg_b(d, xv, xl); }
}

/* Everything the API reports about the handle itself (not the entry): format code and name (per-entry
 * for lha/zip/rar/...: "lha -lh5-", "ZIP 2.0 (deflation)"), the filter stack by code and name, counters. */
static void dg_handle(struct dg *d, struct archive *a, int reader)
{
	dg_i(d, archive_format(a)); dg_s(d, archive_format_name(a));
	int nf = archive_filter_count(a); dg_i(d, nf);
	for (int i = 0; i < nf && i < 32; i++) { dg_i(d, archive_filter_code(a, i)); dg_s(d, archive_filter_name(a, i)); dg_i(d, archive_filter_bytes(a, i)); }
	dg_i(d, archive_filter_bytes(a, -1));
	dg_i(d, archive_file_count(a));
	if (reader) { dg_i(d, archive_read_header_position(a)); dg_i(d, archive_read_has_encrypted_entries(a)); }
}

/* ---- workloads ---- */

static uint64_t wl_read(struct wl *w)
{
	struct dg d = { 14695981039346656037ULL };
	struct archive *a = archive_read_new();
	archive_read_support_filter_all(a); archive_read_support_format_all(a);
	archive_read_support_format_raw(a);
	int r = archive_read_open_filename(a, w->a1, 10240);
	dg_s(&d, vh_st(r));
	if (r == ARCHIVE_OK || r == ARCHIVE_WARN) {
		struct archive_entry *e; int n = 0;
		while (n++ < 2000) {
			r = archive_read_next_header(a, &e);
			dg_s(&d, vh_st(r));
			if (r != ARCHIVE_OK && r != ARCHIVE_WARN) break;
			dg_entry(&d, e, 1);
			dg_handle(&d, a, 1);
			const void *b; size_t l; int64_t off; long long total = 0; int rr;
			while ((rr = archive_read_data_block(a, &b, &l, &off)) == ARCHIVE_OK || rr == ARCHIVE_WARN) {
				dg_i(&d, off); dg_b(&d, b, l); total += (long long)l;
				if (total > (64 << 20)) break;
			}
			dg_s(&d, vh_st(rr));
			dg_handle(&d, a, 1);      /* again: nothing was done on this handle that could change its format */
			if (rr == ARCHIVE_FATAL) break;
		}
		dg_handle(&d, a, 1);
	}
	dg_s(&d, vh_st(archive_read_free(a)));
	return d.h;
}

static uint64_t xr(uint64_t *s) { *s ^= *s << 13; *s ^= *s >> 7; *s ^= *s << 17; return *s; }

/* the i-th generated entry of a workload (deterministic in seed, i) */
static struct archive_entry *gen_entry(uint64_t *rng, long i, unsigned char *body, size_t *blen, int for_disk)
{
	struct archive_entry *e = archive_entry_new();
	char name[96];
	unsigned k = (unsigned)(xr(rng) % 10);
	snprintf(name, sizeof name, "d%ld/f%ld_%u.dat", i % 3, i, k);
	archive_entry_copy_pathname(e, name);
	archive_entry_set_mode(e, AE_IFREG | (k & 1 ? 0644 : 0600));
	archive_entry_set_uid(e, for_disk ? (long)getuid() : 1000 + k); archive_entry_set_gid(e, for_disk ? (long)getgid() : 100 + k);
	if (!for_disk) { archive_entry_copy_uname(e, "user"); archive_entry_copy_gname(e, "grp"); }
	/* dates around the DOS range borders too */
	static const long long mt[] = { 1000000000LL, 315532800LL, 0LL, 4354819199LL, 1234567890LL, 86400LL * 365 * 30 };
	archive_entry_set_mtime(e, (time_t)mt[xr(rng) % 6], 0);
	size_t n = (size_t)(xr(rng) % 5000);
	if (k == 7) n = 0;
	for (size_t j = 0; j < n; j++) body[j] = (unsigned char)((j * 7 + (size_t)i + (j >> 8)) & 0xff);
	*blen = n;
	archive_entry_set_size(e, (la_int64_t)n);
	if (!for_disk && (k % 3) == 0) { char v[40]; int l = snprintf(v, sizeof v, "value-%ld-\xc3\xa9\x01\xff", i); archive_entry_xattr_add_entry(e, "user.verif", v, (size_t)l); }
	return e;
}

struct membuf { unsigned char *p; size_t n, cap; };
static la_ssize_t mem_write(struct archive *a, void *c, const void *b, size_t l)
{
	struct membuf *m = c; (void)a;
	if (m->n + l > m->cap) { m->cap = (m->n + l) * 2 + 4096; m->p = realloc(m->p, m->cap); }
	memcpy(m->p + m->n, b, l); m->n += l; return (la_ssize_t)l;
}

static uint64_t wl_write(struct wl *w)
{
	struct dg d = { 14695981039346656037ULL };
	struct membuf m = { 0, 0, 0 };
	struct archive *a = archive_write_new();
	dg_s(&d, vh_st(archive_write_set_format_by_name(a, w->a1)));
	if (strcmp(w->a2, "none") != 0) dg_s(&d, vh_st(archive_write_add_filter_by_name(a, w->a2)));
	archive_write_set_bytes_per_block(a, 512);
	int r = archive_write_open(a, &m, NULL, mem_write, NULL);
	dg_s(&d, vh_st(r));
	dg_handle(&d, a, 0);
	uint64_t rng = (uint64_t)w->seed * 2654435761ULL + 88172645463325252ULL;
	unsigned char *body = malloc(5000);
	for (long i = 0; r != ARCHIVE_FATAL && i < w->n; i++) {
		size_t bl; struct archive_entry *e = gen_entry(&rng, i, body, &bl, 0);
		r = archive_write_header(a, e);
		dg_s(&d, vh_st(r));
		if (r != ARCHIVE_FATAL && r != ARCHIVE_FAILED && bl) { la_ssize_t k = archive_write_data(a, body, bl); dg_i(&d, (long long)k); }
		dg_handle(&d, a, 0);
		archive_entry_free(e);
	}
	free(body);
	dg_s(&d, vh_st(archive_write_close(a)));
	dg_handle(&d, a, 0);
	dg_s(&d, vh_st(archive_write_free(a)));
	dg_b(&d, m.p ? m.p : (unsigned char *)"", m.n);
	free(m.p);
	return d.h;
}

static void dg_tree(struct dg *d, const char *dir, int depth)
{
	struct dirent **nl; int n = scandir(dir, &nl, NULL, alphasort);
	if (n < 0) { dg_s(d, "scandir-failed"); return; }
	for (int i = 0; i < n; i++) {
		if (strcmp(nl[i]->d_name, ".") && strcmp(nl[i]->d_name, "..")) {
			char p[1024]; struct stat st; snprintf(p, sizeof p, "%s/%s", dir, nl[i]->d_name);
			dg_s(d, nl[i]->d_name);
			if (lstat(p, &st) == 0) {
				dg_i(d, st.st_mode & S_IFMT);
				if (S_ISREG(st.st_mode)) {   /* directory modes depend on the umask: documented exception */
					dg_i(d, st.st_mode & 07777); dg_i(d, st.st_size); dg_i(d, st.st_mtime);
					FILE *f = fopen(p, "rb"); unsigned char b[4096]; size_t k;
					if (f) { while ((k = fread(b, 1, sizeof b, f)) > 0) dg_b(d, b, k); fclose(f); }
				} else if (S_ISDIR(st.st_mode) && depth < 8) dg_tree(d, p, depth + 1);
			}
		}
		free(nl[i]);
	}
	free(nl);
}

static void rm_tree(const char *dir)
{
	char cmd[600]; snprintf(cmd, sizeof cmd, "rm -rf '%s'", dir);
	if (system(cmd) != 0) { /* ignore */ }
}

static uint64_t wl_diskwrite(struct wl *w, int idx)
{
	struct dg d = { 14695981039346656037ULL };
	char dir[512]; snprintf(dir, sizeof dir, "%s/dw%d", scratch, idx);
	mkdir(dir, 0755);
	struct archive *a = archive_write_disk_new();
	archive_write_disk_set_options(a, ARCHIVE_EXTRACT_PERM | ARCHIVE_EXTRACT_TIME | ARCHIVE_EXTRACT_SECURE_NODOTDOT);
	archive_write_disk_set_standard_lookup(a);
	uint64_t rng = (uint64_t)w->seed * 2654435761ULL + 362436069ULL;
	unsigned char *body = malloc(5000);
	for (long i = 0; i < w->n; i++) {
		size_t bl; struct archive_entry *e = gen_entry(&rng, i, body, &bl, 1);
		char p[700]; snprintf(p, sizeof p, "%s/%s", dir, archive_entry_pathname(e));
		archive_entry_copy_pathname(e, p);
		int r = archive_write_header(a, e);
		dg_s(&d, vh_st(r));
		if (r >= ARCHIVE_WARN && bl) dg_i(&d, (long long)archive_write_data(a, body, bl));
		dg_s(&d, vh_st(archive_write_finish_entry(a)));
		archive_entry_free(e);
	}
	free(body);
	dg_s(&d, vh_st(archive_write_close(a)));
	dg_s(&d, vh_st(archive_write_free(a)));
	dg_tree(&d, dir, 0);
	return d.h;
}

static uint64_t wl_diskread(struct wl *w, int idx)
{
	(void)w; (void)idx;
	struct dg d = { 14695981039346656037ULL };
	char dir[512]; snprintf(dir, sizeof dir, "%s/tree", scratch);
	struct archive *a = archive_read_disk_new();
	archive_read_disk_set_standard_lookup(a);
	archive_read_disk_set_behavior(a, ARCHIVE_READDISK_NO_ACL | ARCHIVE_READDISK_NO_FFLAGS);
	int r = archive_read_disk_open(a, dir);
	dg_s(&d, vh_st(r));
	/* readdir order is the file system's: collect per-entry digests and combine order-independently */
	uint64_t acc = 0; int n = 0;
	struct archive_entry *e = archive_entry_new();
	while (r == ARCHIVE_OK && n++ < 5000) {
		r = archive_read_next_header2(a, e);
		if (r != ARCHIVE_OK && r != ARCHIVE_WARN) { dg_s(&d, vh_st(r)); break; }
		struct dg x = { 14695981039346656037ULL };
		dg_s(&x, vh_st(r));
		dg_s(&x, archive_entry_pathname(e) + strlen(scratch));
		dg_i(&x, archive_entry_filetype(e)); dg_i(&x, archive_entry_size(e)); dg_s(&x, archive_entry_symlink(e));
		if (archive_entry_filetype(e) == AE_IFREG) {
			dg_i(&x, archive_entry_perm(e));
			const void *b; size_t l; int64_t off; int rr;
			while ((rr = archive_read_data_block(a, &b, &l, &off)) == ARCHIVE_OK) { dg_i(&x, off); dg_b(&x, b, l); }
			dg_s(&x, vh_st(rr));
		}
		acc += x.h;
		archive_read_disk_descend(a);
		r = ARCHIVE_OK;
	}
	archive_entry_free(e);
	dg_i(&d, (long long)acc); dg_i(&d, n);
	dg_s(&d, vh_st(archive_read_close(a)));
	dg_s(&d, vh_st(archive_read_free(a)));
	return d.h;
}

static uint64_t run_wl(int i)
{
	struct wl *w = &W[i];
	if (!strcmp(w->kind, "rd")) return wl_read(w);
	if (!strcmp(w->kind, "wr")) return wl_write(w);
	if (!strcmp(w->kind, "dw")) return wl_diskwrite(w, i);
	if (!strcmp(w->kind, "dr")) return wl_diskread(w, i);
	if (!strcmp(w->kind, "ver")) { const char *v = archive_version_details(); return v ? vh_fnv(v, strlen(v)) : 1; }
	return 0;
}

/* ---- fresh-process runs ---- */

static pthread_barrier_t bar;
struct targ { int i; int delay; uint64_t out; };

static void *thr_main(void *p)
{
	struct targ *t = p;
	pthread_barrier_wait(&bar);
	for (volatile int k = 0; k < t->delay * 2000; k++) { }
	t->out = run_wl(t->i);
	return NULL;
}

static void make_tree(void)
{
	char p[600];
	snprintf(p, sizeof p, "%s/tree", scratch); mkdir(p, 0755);
	for (int i = 0; i < 4; i++) {
		snprintf(p, sizeof p, "%s/tree/s%d", scratch, i); mkdir(p, 0755);
		for (int j = 0; j < 6; j++) {
			snprintf(p, sizeof p, "%s/tree/s%d/f%d", scratch, i, j);
			FILE *f = fopen(p, "wb"); if (f) { for (int k = 0; k < 300 * (j + 1); k++) fputc((k * 31 + j) & 0xff, f); fclose(f); }
		}
		snprintf(p, sizeof p, "%s/tree/s%d/lnk", scratch, i);
		if (symlink("f0", p) != 0) { /* ignore */ }
	}
}

static void prepare(void)
{
	rm_tree(scratch); mkdir(scratch, 0755);
	for (int i = 0; i < nwl; i++) if (!strcmp(W[i].kind, "dr")) { make_tree(); break; }
}

/* mode 0: only workload `only`; 1: all sequentially; 2: all concurrently.
 * Returns 0 on success; out[] digests; the child's stderr (TSan reports) goes to `errpath`. */
static int fresh(int mode, int only, int attempt, uint64_t *out, const char *errpath)
{
	int pfd[2]; if (pipe(pfd) != 0) return -1;
	fflush(stdout);
	prepare();
	pid_t pid = fork();
	if (pid == 0) {
		close(pfd[0]);
		{	/* watchdog in CPU time (machine load must not trip it); wall-clock alarm only as a backstop */
			struct itimerval it = { {0, 0}, {300, 0} };
			setitimer(ITIMER_PROF, &it, NULL);
			alarm(1500);
		}
		int efd = open(errpath, O_WRONLY | O_CREAT | O_TRUNC, 0644);
		if (efd >= 0) { dup2(efd, 2); close(efd); }
		uint64_t res[MAXWL] = {0};
		if (mode == 0) res[only] = run_wl(only);
		else if (mode == 1) { for (int i = 0; i < nwl; i++) res[i] = run_wl(i); }
		else {
			pthread_t th[MAXWL]; struct targ ta[MAXWL];
			pthread_barrier_init(&bar, NULL, (unsigned)nwl);
			for (int i = 0; i < nwl; i++) {
				ta[i].i = i; ta[i].out = 0;
				/* attempt 0: all together; later attempts stagger the starts so that a first use
				 * also races with later uses */
				ta[i].delay = attempt == 0 ? 0 : ((attempt * 7 + i * 13) % 5) * (i % 2 ? attempt : 1);
				pthread_create(&th[i], NULL, thr_main, &ta[i]);
			}
			for (int i = 0; i < nwl; i++) { pthread_join(th[i], NULL); res[i] = ta[i].out; }
		}
		if (write(pfd[1], res, sizeof res) != (ssize_t)sizeof res) _exit(4);
		_exit(0);   /* no atexit: TSan has already printed its reports */
	}
	close(pfd[1]);
	uint64_t res[MAXWL]; size_t got = 0; ssize_t k;
	while ((k = read(pfd[0], (char *)res + got, sizeof res - got)) > 0) got += (size_t)k;
	close(pfd[0]);
	int st = 0; waitpid(pid, &st, 0);
	if (got != sizeof res || !WIFEXITED(st) || WEXITSTATUS(st) != 0) {
		fprintf(stderr, "thr: workload process failed (mode %d attempt %d): %s %d, %zu result bytes\n", mode, attempt,
		    WIFSIGNALED(st) ? "signal" : "exit", WIFSIGNALED(st) ? WTERMSIG(st) : WEXITSTATUS(st), got);
		return -1;
	}
	memcpy(out, res, sizeof res);
	return 0;
}

/* collect "Location is global 'sym'" / heap locations from a TSan log */
static char races[64][80]; static int nraces; static int nheap, nother, next_;
static void add_race(const char *s)
{
	char sym[80]; snprintf(sym, sizeof sym, "%s", s);
	char *dot = strrchr(sym, '.');
	if (dot && dot[1] >= '0' && dot[1] <= '9') { char *q = dot + 1; while (*q >= '0' && *q <= '9') q++; if (!*q) *dot = 0; }
	for (int i = 0; i < nraces; i++) if (!strcmp(races[i], sym)) return;
	if (nraces < 64) snprintf(races[nraces++], 80, "%s", sym);
}
/* A report is attributed to libarchive when its SUMMARY line (the innermost frame outside the
 * sanitizer run-time) names a source file under libarchive/; races whose innermost frame is in an
 * external library (libc's tzset: TSan cannot see libc's internal lock) are counted apart. */
static void scan_tsan(const char *path)
{
	FILE *f = fopen(path, "r"); if (!f) return;
	char line[2048], sym[80]; int in_rep = 0, kind = 0;   /* kind: 1 global, 2 heap, 3 other location */
	while (fgets(line, sizeof line, f)) {
		if (strstr(line, "WARNING: ThreadSanitizer:")) { in_rep = strstr(line, "data race") ? 1 : 2; kind = 0; sym[0] = 0; continue; }
		if (!in_rep) continue;
		char *p = strstr(line, "Location is global '");
		if (p) { p += 20; char *q = strchr(p, '\''); if (q) { *q = 0; snprintf(sym, sizeof sym, "%s", p); kind = 1; } }
		else if (strstr(line, "Location is heap block")) kind = 2;
		else if (strstr(line, "Location is ")) kind = 3;
		if (strstr(line, "SUMMARY:")) {
			if (!strstr(line, "/libarchive/")) next_++;
			else if (in_rep == 2) nother++;
			else if (kind == 1) add_race(sym);
			else if (kind == 2) nheap++;
			else nother++;
			in_rep = 0;
		}
	}
	fclose(f);
	if (getenv("VERIF_KEEP_TSAN") == NULL) unlink(path);
}

static int cmpstr(const void *a, const void *b) { return strcmp(a, b); }

static void t_begin(void)
{
	nwl = 0;
	const char *s = getenv("VERIF_SCRATCH");
	snprintf(scratch, sizeof scratch, "%s/thr.%d.%d", s ? s : "/tmp", (int)getpid(), case_id++);
}

static void t_op(char *line)
{
	char *w[8]; int n = vh_split(line, w, 8);
	if (n >= 2 && !strcmp(w[0], "wl") && nwl < MAXWL) {
		struct wl *x = &W[nwl]; memset(x, 0, sizeof *x);
		snprintf(x->kind, sizeof x->kind, "%s", w[1]);
		if (!strcmp(w[1], "rd") && n == 3) {
			/* "@refs/<name>": a decoded reference archive of libarchive's own test suite */
			if (!strncmp(w[2], "@refs/", 6)) snprintf(x->a1, sizeof x->a1, "%s/%s", getenv("VERIF_REFS") ? getenv("VERIF_REFS") : ".", w[2] + 6);
			else snprintf(x->a1, sizeof x->a1, "%s", w[2]);
		}
		else if (!strcmp(w[1], "wr") && n == 6) { snprintf(x->a1, sizeof x->a1, "%s", w[2]); snprintf(x->a2, sizeof x->a2, "%s", w[3]); x->seed = atol(w[4]); x->n = atol(w[5]); }
		else if (!strcmp(w[1], "dw") && n == 4) { x->seed = atol(w[2]); x->n = atol(w[3]); }
		else if (!strcmp(w[1], "dr") && n == 2) { }
		else if (!strcmp(w[1], "ver") && n == 2) { }
		else { printf("bad-op\n"); return; }
		nwl++; printf("ok\n"); return;
	}
	char errp[512]; snprintf(errp, sizeof errp, "%s.tsan", scratch);
	if (n == 1 && (!strcmp(w[0], "solo") || !strcmp(w[0], "seq"))) {
		uint64_t out[MAXWL] = {0}; int bad = 0;
		if (!strcmp(w[0], "seq")) bad = fresh(1, 0, 0, out, errp) != 0;
		else for (int i = 0; i < nwl; i++) { uint64_t o[MAXWL]; if (fresh(0, i, 0, o, errp) != 0) bad = 1; else out[i] = o[i]; }
		unlink(errp);
		if (bad) { printf("!crash child\n"); return; }
		printf("d");
		for (int i = 0; i < nwl; i++) printf(" %016llx", (unsigned long long)out[i]);
		printf("\n");
		rm_tree(scratch);
		return;
	}
	if (n == 2 && !strcmp(w[0], "par")) {
		int att = atoi(w[1]), crashes = 0, have = 0;
		uint64_t first[MAXWL] = {0}; int mixed[MAXWL] = {0};
		nraces = nheap = nother = next_ = 0;
		for (int a = 0; a < att; a++) {
			uint64_t out[MAXWL];
			if (fresh(2, 0, a, out, errp) != 0) { crashes++; scan_tsan(errp); continue; }
			scan_tsan(errp);
			if (!have) { memcpy(first, out, sizeof out); have = 1; }
			else for (int i = 0; i < nwl; i++) if (out[i] != first[i]) mixed[i] = 1;
		}
		printf("d");
		for (int i = 0; i < nwl; i++) { if (mixed[i] || !have) printf(" MIXED"); else printf(" %016llx", (unsigned long long)first[i]); }
		qsort(races, (size_t)nraces, sizeof races[0], cmpstr);
		printf(" races=");
		if (!nraces) printf("-");
		for (int i = 0; i < nraces; i++) printf("%s%s", i ? "," : "", races[i]);
		printf(" heap=%d other=%d crashes=%d ext=%d\n", nheap, nother, crashes, next_);
		rm_tree(scratch);
		return;
	}
	printf("bad-op\n");
}

static void t_end(void) { }

int main(int argc, char **argv)
{
	struct vh_engine e = { t_begin, t_op, t_end };
	return vh_main(argc, argv, &e);
}
