/* Engine `pathclean` (C04): the static path functions of the disk writer and of
 * bsdtar called directly.
 *
 *   clean <nodotdot 0|1> <noabs 0|1> <hexpath>
 *        cleanup_pathname_fsobj() on an exact-size heap copy (ASan sees any byte
 *        outside strlen+1)                      -> "ok <hex result>" | "failed"
 *   strip <hexpath>
 *        bsdtar's strip_absolute_path() on an exact-size heap copy -> offset of the result
 *   pre … (as in eng_xtr.c)                     plants content in the scratch target
 *   symcheck <secure 0|1> <unlink 0|1> <linkname 0|1> <hexpath>
 *        cleanup (NODOTDOT|NOABSOLUTEPATHS) then check_symlinks_fsobj() in the scratch
 *        target                                 -> "<st> env=<ok|cwd> T … | canary=…" | "rejected"
 */
#include "common.h"
#include "archive_write_disk_posix.c"
#include "xtr_tree.h"

/* tar/util.c: only strip_absolute_path and the two warning helpers it calls */
struct bsdtar { int warned_lead_slash; int flags; };
static int lafe_warn_count;
static void lafe_warnc(int code, const char *fmt, ...) { (void)code; (void)fmt; lafe_warn_count++; }
#define BSDTAR_H_INCLUDED
#include "strip_absolute_path.inc"

static int started;
static void p_begin(void) { started = 0; }
static void need_tree(void) { if (!started) { tree_begin("pc"); started = 1; } }
static void need_canary(void) { need_tree(); if (!canary0) canary0 = canary_digest(); }

static void p_op(char *line)
{
	char *w[8]; int n = vh_split(line, w, 8);
	if (n == 4 && !strcmp(w[0], "clean")) {
		size_t len; unsigned char *b = vh_unhex(w[3], &len);
		char *path = malloc(len + 1); memcpy(path, b, len); path[len] = 0; free(b);
		int fl = (atoi(w[1]) ? ARCHIVE_EXTRACT_SECURE_NODOTDOT : 0) | (atoi(w[2]) ? ARCHIVE_EXTRACT_SECURE_NOABSOLUTEPATHS : 0);
		struct archive_string es; int en = 0; archive_string_init(&es);
		int r = cleanup_pathname_fsobj(path, &en, &es, fl);
		archive_string_free(&es);
		if (r == ARCHIVE_OK) { printf("ok "); vh_puthex(path, strlen(path)); putchar('\n'); }
		else printf("%s\n", vh_st(r));
		free(path);
	} else if (n == 2 && !strcmp(w[0], "strip")) {
		size_t len; unsigned char *b = vh_unhex(w[1], &len);
		char *path = malloc(len + 1); memcpy(path, b, len); path[len] = 0; free(b);
		struct bsdtar bt; memset(&bt, 0, sizeof bt);
		const char *r = strip_absolute_path(&bt, path);
		printf("%ld\n", (long)(r - path));
		free(path);
	} else if (n == 5 && !strcmp(w[0], "pre")) { need_tree(); do_pre(w); }
	else if (n == 5 && !strcmp(w[0], "symcheck")) {
		need_canary();
		size_t len; unsigned char *b = vh_unhex(w[4], &len);
		char *path = malloc(len + 1); memcpy(path, b, len); path[len] = 0; free(b);
		struct archive_string es; int en = 0; archive_string_init(&es);
		int r = cleanup_pathname_fsobj(path, &en, &es, ARCHIVE_EXTRACT_SECURE_NODOTDOT | ARCHIVE_EXTRACT_SECURE_NOABSOLUTEPATHS);
		if (r != ARCHIVE_OK) printf("rejected\n");
		else {
			/* exact-size block for the cleaned string */
			char *q = strdup(path);
			int fl = (atoi(w[1]) ? ARCHIVE_EXTRACT_SECURE_SYMLINKS : 0) | (atoi(w[2]) ? ARCHIVE_EXTRACT_UNLINK : 0);
			r = check_symlinks_fsobj(q, &en, &es, fl, atoi(w[3]));
			char pre[64]; snprintf(pre, sizeof pre, "%s env=%s ", vh_st(r), envcheck());
			tree_snapshot_line(pre);
			free(q);
		}
		archive_string_free(&es); free(path);
	} else printf("bad-op\n");
}

static void p_end(void) { if (started) tree_end(); }

int main(int argc, char **argv)
{
	struct vh_engine e = { p_begin, p_op, p_end };
	return vh_main(argc, argv, &e);
}
