#include "archive_read_support_format_cpio.c"
#include "codec_inc.h"
int64_t vhx_cpio_atol8(const char *p, unsigned n) { return atol8(p, n); }
int64_t vhx_cpio_atol16(const char *p, unsigned n) { return atol16(p, n); }
