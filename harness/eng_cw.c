/* Engine `cw` (C09/C11): a real archive_write handle with a scripted client write
 * callback (or the memory sink of archive_write_open_memory with the caller block
 * in an exact-size heap allocation).  Every callback invocation is recorded
 * (size, FNV-1a of the bytes offered, value returned); after each API call one
 * line is printed: status class, number of invocations, run-length encoded offer
 * sizes, a digest of the (hash, size, return) triples, whether an invocation
 * returned <= 0 during the call, and length:hash of everything accepted so far. */
#include "common.h"
#include <archive.h>
#include <archive_entry.h>
#include "archive_write_private.h"
#include <sys/stat.h>
#include <sys/syscall.h>
#include <fcntl.h>
#include <dlfcn.h>
#if defined(__SANITIZE_ADDRESS__)
#include <sanitizer/lsan_interface.h>
#define HAVE_LSAN 1
#endif

#define MAXANS 65536
static struct archive *a;
static long long ans[MAXANS]; static int nans, curans;   /* >0 accept k, 0 zero, -1 error */
static int opener_ret;
static int freed;
static int leaked;   /* a `leakcheck` op already reported a leak: skip LSan's at-exit report */

/* per-call event log */
static size_t ev_n; static uint64_t ev_h; static int ev_bad;
static size_t *ev_sz; static size_t ev_cap;

/* memory sink */
static unsigned char *mem_block; static size_t mem_block_size, mem_used; static int mem_mode;
static archive_write_callback *orig_writer;

/* The clock, the process id and the random source are inputs of the writers (C11): pin them.
 * These definitions in the executable take precedence over libc's / libarchive's. */
#include <time.h>
time_t time(time_t *t) { if (t) *t = 1700000000; return 1700000000; }
pid_t getpid(void) { return 4242; }
int archive_random(void *buf, size_t nbytes);
int archive_random(void *buf, size_t nbytes) { memset(buf, 0x5A, nbytes); return ARCHIVE_OK; }

/* Scribble over the stack below the current frame so that an uninitialised local of the
 * library reads this pattern (chosen per run by VERIF_STACK_POISON) and not stale zeros. */
static int stack_pat = -1;
static void __attribute__((noinline, no_sanitize("address"), no_sanitize("undefined"))) scribble(void)
{
	volatile unsigned char big[192 * 1024];
	if (stack_pat < 0) { const char *e = getenv("VERIF_STACK_POISON"); stack_pat = e ? atoi(e) & 0xff : 0; }
	memset((void *)big, stack_pat, sizeof big);
	__asm__ volatile("" : : "r"(big) : "memory");
}

/* raw format without filters: the intended output stream is the data itself (then zero padding) */
static int is_raw, has_filter, ever_bad; static unsigned char *rawbuf; static size_t rawlen, rawcap;

static uint64_t mix(uint64_t h, uint64_t x) { return (h ^ x) * 1099511628211ULL; }

/* Library-provided sinks (archive_write_open_fd / _filename / _FILE): the system call underneath
 * is scripted.  k > 0: accept at most k bytes; 0: return 0; -1: fail with EIO; -2: fail with EINTR.
 * What the "kernel" accepted is really stored in the file and is the accepted stream (acc). */
static int sys_mode;            /* 0 none, 1 fd, 2 filename, 3 FILE */
static int sys_kind;            /* what is behind it: 0 regular file, 1 FIFO, 2 /dev/null, 3 pipe, 4 socket */
static int sys_keep = -1;       /* the other end (reader of the FIFO/pipe, peer socket) */
#include <sys/socket.h>
static int sys_fd = -1; static FILE *sys_FILE; static char sys_path[300];
static long long sysans[MAXANS]; static int nsys, cursys;
static size_t sys_n, sys_short, sys_eintr; static uint64_t sys_h = 14695981039346656037ULL;
static uint64_t acc_h; static size_t acc_len;
static size_t (*real_fwrite)(const void *, size_t, size_t, FILE *);

static long long sys_answer(int fd, const void *buf, size_t len)
{
	long long r, code; int e = 0;
	if (cursys >= nsys) r = (long long)len;
	else {
		long long k = sysans[cursys++];
		if (k > 0) r = (size_t)k < len ? k : (long long)len;
		else if (k == 0) r = 0;
		else if (k == -1) { r = -1; e = EIO; }
		else { r = -1; e = EINTR; sys_eintr++; }
	}
	code = (e == EINTR) ? -2 : r;
	if (r > 0 && (size_t)r < len) sys_short++;
	sys_n++;
	sys_h = (((sys_h ^ vh_fnv(buf, len)) * 1099511628211ULL ^ (uint64_t)len) * 1099511628211ULL ^ (uint64_t)(code + 1000)) * 1099511628211ULL;
	if (r > 0) {
		const unsigned char *b = buf;
		for (long long i = 0; i < r; i++) { acc_h ^= b[i]; acc_h *= 1099511628211ULL; }
		acc_len += (size_t)r;
		if (fd < 0) { if (real_fwrite) real_fwrite(buf, 1, (size_t)r, sys_FILE); }
		else if (sys_kind == 0 && syscall(SYS_write, fd, buf, (size_t)r) != r) r = -1, e = EIO;
		/* non-regular sinks: the scripted call is the device; nothing is forwarded */
	}
	errno = e;
	return r;
}

static int sys_target(int fd)
{
	struct stat a1, a2;
	if (sys_mode == 1) return fd == sys_fd;
	if (sys_mode == 2) return fstat(fd, &a1) == 0 && stat(sys_path, &a2) == 0 && a1.st_dev == a2.st_dev && a1.st_ino == a2.st_ino;
	return 0;
}

ssize_t write(int fd, const void *buf, size_t n)
{
	if (sys_mode && sys_target(fd))
		return (ssize_t)sys_answer(fd, buf, n);
	return (ssize_t)syscall(SYS_write, fd, buf, n);
}

size_t fwrite(const void *p, size_t sz, size_t n, FILE *f)
{
	if (!real_fwrite) real_fwrite = (size_t (*)(const void *, size_t, size_t, FILE *))dlsym(RTLD_NEXT, "fwrite");
	if (sys_mode == 3 && f == sys_FILE && sz == 1) {
		long long r = sys_answer(-1, p, n);
		return r > 0 ? (size_t)r : 0;
	}
	return real_fwrite(p, sz, n, f);
}

static void ev_reset(void) { ev_n = 0; ev_h = 14695981039346656037ULL; ev_bad = 0; }

static void ev_record(const void *buf, size_t len, long long ret)
{
	if (ev_n == ev_cap) { ev_cap = ev_cap ? ev_cap * 2 : 256; ev_sz = realloc(ev_sz, ev_cap * sizeof *ev_sz); }
	ev_sz[ev_n++] = len;
	ev_h = mix(mix(mix(ev_h, vh_fnv(buf, len)), (uint64_t)len), (uint64_t)(ret + 1000));
	if (ret <= 0) ev_bad = 1;
	if (ret > 0 && !sys_mode) {
		const unsigned char *b = buf;
		for (long long i = 0; i < ret; i++) { acc_h ^= b[i]; acc_h *= 1099511628211ULL; }
		acc_len += (size_t)ret;
	}
}

static int open_cb(struct archive *x, void *d) { (void)x; (void)d; return opener_ret; }
static int close_cb(struct archive *x, void *d) { (void)x; (void)d; return ARCHIVE_OK; }

static la_ssize_t write_cb(struct archive *x, void *d, const void *buf, size_t len)
{
	(void)d;
	long long r;
	if (curans >= nans) r = (long long)len;
	else {
		long long k = ans[curans++];
		if (k > 0) r = (size_t)k < len ? k : (long long)len;
		else r = k;
	}
	if (r < 0) archive_set_error(x, 5, "scripted write error");
	ev_record(buf, len, r);
	return (la_ssize_t)r;
}

/* wrapper around libarchive's own memory_write so that its invocations are observed */
static la_ssize_t mem_wrap_cb(struct archive *x, void *d, const void *buf, size_t len)
{
	la_ssize_t r = orig_writer(x, d, buf, len);
	ev_record(buf, len, (long long)r);
	return r;
}

static const char *tail_extra = "";
static void tail(void)
{
	printf(" ev=%zu sz=", ev_n);
	if (ev_n == 0) putchar('-');
	for (size_t i = 0; i < ev_n; ) {
		size_t j = i; while (j < ev_n && ev_sz[j] == ev_sz[i]) j++;
		printf("%s%zu*%zu", i ? "," : "", ev_sz[i], j - i);
		i = j;
	}
	printf(" h=%llu bad=%d acc=%zu:%llu", (unsigned long long)ev_h, ev_bad, acc_len, (unsigned long long)acc_h);
	if (is_raw && !has_filter && !ever_bad) {
		/* C09 predicate (up to and including the first call that reports a failure; what a
		 * caller does to the stream by writing on after a fatal error is its own business) on the real bytes: what the callback accepted so far is a prefix of
		 * (data written so far ++ zeros) */
		uint64_t hh = 14695981039346656037ULL;
		for (size_t i = 0; i < acc_len; i++) { hh ^= (i < rawlen ? rawbuf[i] : 0); hh *= 1099511628211ULL; }
		printf(" stream=%s", hh == acc_h ? "ok" : "BAD");
	}
	if (ev_bad) ever_bad = 1;
	if (sys_mode)
		printf(" sys=%zu short=%zu eintr=%zu sh=%llu", sys_n, sys_short, sys_eintr, (unsigned long long)sys_h);
	if (mem_mode) {
		/* nothing may be stored at or beyond `used` */
		int clean = 1;
		for (size_t i = mem_used; i < mem_block_size; i++) if (mem_block[i] != 0xA5) clean = 0;
		printf(" used=%zu%s", mem_used, clean ? "" : " TAIL-CLOBBERED");
	}
	fputs(tail_extra, stdout); tail_extra = "";
	putchar('\n');
}

static void c_drop(void);
static void c_begin(void)
{
	a = NULL; nans = curans = 0; opener_ret = 0; freed = 0; leaked = 0; mem_mode = 0; mem_block = NULL; mem_used = 0;
	acc_h = 14695981039346656037ULL; acc_len = 0; ev_reset();
	is_raw = has_filter = ever_bad = 0; rawlen = 0;
	sys_mode = 0; sys_kind = 0; sys_keep = -1; sys_fd = -1; sys_FILE = NULL; nsys = cursys = 0; sys_n = sys_short = sys_eintr = 0; sys_h = 14695981039346656037ULL;
}

static unsigned filetype_of(const char *s)
{
	if (!strcmp(s, "reg") || !strcmp(s, "hard")) return AE_IFREG;
	if (!strcmp(s, "dir")) return AE_IFDIR;
	if (!strcmp(s, "lnk")) return AE_IFLNK;
	if (!strcmp(s, "chr")) return AE_IFCHR;
	if (!strcmp(s, "blk")) return AE_IFBLK;
	if (!strcmp(s, "fifo")) return AE_IFIFO;
	if (!strcmp(s, "sock")) return AE_IFSOCK;
	return 0;
}

static char *cstr(const char *hex)
{
	size_t n; unsigned char *b = vh_unhex(hex, &n);
	char *s = malloc(n + 1); memcpy(s, b, n); s[n] = 0; free(b); return s;
}

static void c_op(char *line)
{
	static char *w[MAXANS + 8];
	int n = vh_split(line, w, MAXANS + 8);
	ev_reset();
	scribble();
	if (n == 1 && !strcmp(w[0], "new")) {
		/* a case may hold several archives one after the other: everything starts afresh */
		int lk = leaked;
		c_drop(); c_begin(); leaked = lk;
		a = archive_write_new(); freed = 0;
		printf("ok\n");
	} else if (n >= 1 && !strcmp(w[0], "script")) {
		nans = curans = 0;
		for (int i = 1; i < n && nans < MAXANS; i++) {
			if (w[i][0] == 'a') ans[nans++] = strtoll(w[i] + 1, NULL, 10);
			else if (w[i][0] == 'A') ans[nans++] = 1000000000LL;
			else if (w[i][0] == 'z') ans[nans++] = 0;
			else if (w[i][0] == 'e') ans[nans++] = -1;
			else { printf("bad-op\n"); return; }
		}
		printf("ok\n");
	} else if (n == 1 && !strcmp(w[0], "leakcheck")) {
		/* everything the handle owned must be gone after free */
		int l = 0;
#ifdef HAVE_LSAN
		if (a == NULL || freed) { a = NULL; l = __lsan_do_recoverable_leak_check(); }
#endif
		if (l) leaked = 1;
		printf("leaks=%d\n", l ? 1 : 0);
	} else if (a == NULL || freed) {
		printf("bad-op\n");
	} else if (n == 2 && !strcmp(w[0], "fmt")) {
		int r;
		is_raw = !strcmp(w[1], "raw");
		if (!strcmp(w[1], "raw")) r = archive_write_set_format_raw(a);
		else if (!strcmp(w[1], "ustar")) r = archive_write_set_format_ustar(a);
		else r = archive_write_set_format_by_name(a, w[1]);
		printf("fmt %s\n", vh_st(r));
	} else if (n == 2 && !strcmp(w[0], "filter")) {
		int r;
		has_filter = 1;
		if (!strcmp(w[1], "b64")) r = archive_write_add_filter_b64encode(a);
		else if (!strcmp(w[1], "uu")) r = archive_write_add_filter_uuencode(a);
		else r = archive_write_add_filter_by_name(a, w[1]);
		printf("filter %s\n", vh_st(r));
	} else if (n == 2 && !strcmp(w[0], "opt")) {
		printf("opt %s\n", vh_st(archive_write_set_options(a, w[1])));
	} else if (n == 2 && !strcmp(w[0], "opener")) {
		opener_ret = atoi(w[1]); printf("ok\n");
	} else if (n == 2 && !strcmp(w[0], "bpb")) {
		printf("bpb %s\n", vh_st(archive_write_set_bytes_per_block(a, atoi(w[1]))));
	} else if (n == 2 && !strcmp(w[0], "bil")) {
		printf("bil %s\n", vh_st(archive_write_set_bytes_in_last_block(a, atoi(w[1]))));
	} else if (n == 1 && !strcmp(w[0], "open")) {
		scribble();
		int r = archive_write_open(a, NULL, open_cb, write_cb, close_cb);
		printf("open %s", vh_st(r)); tail();
	} else if (n == 3 && !strcmp(w[0], "openmem")) {
		mem_block_size = (size_t)strtoull(w[1], NULL, 10);
		size_t sz = (size_t)strtoull(w[2], NULL, 10);
		mem_block = malloc(mem_block_size);            /* exact size: ASan sees any overrun */
		memset(mem_block, 0xA5, mem_block_size);
		mem_mode = 1; mem_used = 0;
		scribble();
		int r = archive_write_open_memory(a, mem_block, sz, &mem_used);
		struct archive_write *aw = (struct archive_write *)a;
		if (aw->client_writer != NULL && aw->client_writer != mem_wrap_cb) { orig_writer = aw->client_writer; aw->client_writer = mem_wrap_cb; }
		printf("open %s", vh_st(r)); tail();
	} else if (n >= 1 && !strcmp(w[0], "sys")) {
		nsys = cursys = 0;
		for (int i = 1; i < n && nsys < MAXANS; i++) {
			if (w[i][0] == 'a') sysans[nsys++] = strtoll(w[i] + 1, NULL, 10);
			else if (w[i][0] == 'A') sysans[nsys++] = 1000000000LL;
			else if (w[i][0] == 'z') sysans[nsys++] = 0;
			else if (w[i][0] == 'e') sysans[nsys++] = -1;
			else if (w[i][0] == 'i') sysans[nsys++] = -2;
			else { printf("bad-op\n"); return; }
		}
		printf("ok\n");
	} else if ((n == 1 || n == 2) && (!strcmp(w[0], "openfd") || !strcmp(w[0], "openfile") || !strcmp(w[0], "openFILE"))) {
		/* the library's own sinks over a scripted write(2)/fwrite; behind them a regular temporary
		 * file, a FIFO, /dev/null, a pipe or a socket (the last-block default depends on which) */
		const char *kind = n == 2 ? w[1] : "reg";
		const char *td = getenv("TMPDIR");
		int fd = -1, r, sv[2];
		snprintf(sys_path, sizeof sys_path, "%s/verif_cw_XXXXXX", td && *td ? td : "/tmp");
		sys_kind = 0;
		if (!strcmp(kind, "reg")) fd = mkstemp(sys_path);
		else if (!strcmp(kind, "fifo")) {
			sys_kind = 1; fd = mkstemp(sys_path); if (fd >= 0) { close(fd); unlink(sys_path); }
			if (fd < 0 || mkfifo(sys_path, 0600) != 0) { printf("bad-op\n"); return; }
			sys_keep = open(sys_path, O_RDWR | O_NONBLOCK);       /* a reader, so that opening for writing does not block */
			fd = open(sys_path, O_WRONLY | O_NONBLOCK);
		} else if (!strcmp(kind, "null")) { sys_kind = 2; snprintf(sys_path, sizeof sys_path, "/dev/null"); fd = open("/dev/null", O_WRONLY); }
		else if (!strcmp(kind, "pipe")) { sys_kind = 3; if (pipe(sv) == 0) { sys_keep = sv[0]; fd = sv[1]; } }
		else if (!strcmp(kind, "sock")) { sys_kind = 4; if (socketpair(AF_UNIX, SOCK_STREAM, 0, sv) == 0) { sys_keep = sv[0]; fd = sv[1]; } }
		if (fd < 0) { printf("bad-op\n"); return; }
		scribble();
		if (!strcmp(w[0], "openfd")) { sys_mode = 1; sys_fd = fd; if (sys_kind <= 1) unlink(sys_path); r = archive_write_open_fd(a, fd); }
		else if (!strcmp(w[0], "openfile")) {
			if (sys_kind > 2) { close(fd); printf("bad-op\n"); return; }
			close(fd); sys_mode = 2; r = archive_write_open_filename(a, sys_path);
		} else {
			if (sys_kind != 0) { close(fd); printf("bad-op\n"); return; }
			sys_mode = 3; sys_fd = fd; sys_FILE = fdopen(fd, "w+"); unlink(sys_path); r = archive_write_open_FILE(a, sys_FILE);
		}
		struct archive_write *aw = (struct archive_write *)a;
		if (aw->client_writer != NULL && aw->client_writer != mem_wrap_cb) { orig_writer = aw->client_writer; aw->client_writer = mem_wrap_cb; }
		printf("open %s", vh_st(r)); tail();
	} else if (n == 2 && !strcmp(w[0], "pass")) {
		char *p = cstr(w[1]);
		printf("pass %s\n", vh_st(archive_write_set_passphrase(a, p))); free(p);
	} else if (n == 13 && !strcmp(w[0], "header")) {
		struct archive_entry *e = archive_entry_new();
		char *p = cstr(w[2]); archive_entry_copy_pathname(e, p); free(p);
		archive_entry_set_size(e, strtoll(w[3], NULL, 10));
		archive_entry_set_filetype(e, filetype_of(w[1]));
		archive_entry_set_perm(e, (mode_t)strtoul(w[4], NULL, 10));
		archive_entry_set_uid(e, strtoll(w[5], NULL, 10));
		archive_entry_set_gid(e, strtoll(w[6], NULL, 10));
		archive_entry_set_mtime(e, strtoll(w[7], NULL, 10), 0);
		if (strcmp(w[8], "-")) { p = cstr(w[8]); archive_entry_copy_uname(e, p); free(p); }
		if (strcmp(w[9], "-")) { p = cstr(w[9]); archive_entry_copy_gname(e, p); free(p); }
		if (strcmp(w[10], "-")) {
			p = cstr(w[10]);
			if (!strcmp(w[1], "hard")) archive_entry_copy_hardlink(e, p);
			else if (!strcmp(w[1], "lnk")) archive_entry_copy_symlink(e, p);
			free(p);
		}
		if (!strcmp(w[1], "chr") || !strcmp(w[1], "blk")) {
			archive_entry_set_rdevmajor(e, (dev_t)strtoll(w[11], NULL, 10));
			archive_entry_set_rdevminor(e, (dev_t)strtoll(w[12], NULL, 10));
		}
		scribble();
		int r = archive_write_header(a, e);
		archive_entry_free(e);
		printf("header %s", vh_st(r)); tail();
	} else if ((n == 2 && !strcmp(w[0], "data")) || (n == 3 && (!strcmp(w[0], "fill") || !strcmp(w[0], "rand")))) {
		size_t len; unsigned char *b;
		if (w[0][0] == 'd') b = vh_unhex(w[1], &len);
		else if (w[0][0] == 'r') {
			/* incompressible bytes: x' = (1103515245 x + 12345) mod 2^31, byte = x >> 16 */
			len = (size_t)strtoull(w[1], NULL, 10); uint64_t x = strtoull(w[2], NULL, 10) & 0x7fffffff;
			b = malloc(len ? len : 1);
			for (size_t i = 0; i < len; i++) { x = (x * 1103515245ULL + 12345ULL) & 0x7fffffffULL; b[i] = (unsigned char)(x >> 16); }
		} else {
			len = (size_t)strtoull(w[1], NULL, 10); size_t seed = (size_t)strtoull(w[2], NULL, 10);
			b = malloc(len ? len : 1);
			for (size_t i = 0; i < len; i++) b[i] = (unsigned char)((seed + i * 7 + i / 256) & 0xff);
		}
		if (is_raw && ((struct archive_write *)a)->archive.state == ARCHIVE_STATE_DATA) {
			if (rawlen + len > rawcap) { rawcap = (rawlen + len) * 2 + 64; rawbuf = realloc(rawbuf, rawcap); }
			if (len) memcpy(rawbuf + rawlen, b, len);
			rawlen += len;
		}
		scribble();
		la_ssize_t r = archive_write_data(a, b, len);
		free(b);
		if (r >= 0) printf("data %lld", (long long)r); else printf("data %s", vh_st((int)r));
		tail();
	} else if (n == 1 && !strcmp(w[0], "finish")) {
		scribble();
		int r = archive_write_finish_entry(a);
		printf("finish %s", vh_st(r)); tail();
	} else if (n == 1 && !strcmp(w[0], "close")) {
		scribble();
		int r = archive_write_close(a);
		printf("close %s", vh_st(r)); tail();
	} else if (n == 1 && !strcmp(w[0], "free")) {
		scribble();
		int r = archive_write_free(a); freed = 1;
		printf("free %s", vh_st(r));
		if (sys_mode && sys_kind == 0) {
			/* what is in the file is what the scripted system call accepted */
			int fd = sys_mode == 2 ? open(sys_path, O_RDONLY) : sys_fd;
			if (sys_mode == 3) fflush(sys_FILE);
			uint64_t hh = 14695981039346656037ULL; size_t tot = 0; unsigned char blk[4096]; ssize_t k; off_t off = 0;
			while (fd >= 0 && (k = pread(fd, blk, sizeof blk, off)) > 0) { for (ssize_t i = 0; i < k; i++) { hh ^= blk[i]; hh *= 1099511628211ULL; } tot += (size_t)k; off += k; }
			tail_extra = (tot == acc_len && hh == acc_h) ? " file=ok" : " file=BAD";
			if (sys_mode == 2) { if (fd >= 0) close(fd); unlink(sys_path); }
		}
		tail();
	} else printf("bad-op\n");
}

/* drop the current archive and everything the harness holds for it */
static void c_drop(void)
{
	if (a && !freed) archive_write_free(a);
	a = NULL;
	if (sys_mode == 3 && sys_FILE) fclose(sys_FILE); else if (sys_mode == 1 && sys_fd >= 0) close(sys_fd);
	if (sys_mode == 2 && sys_kind <= 1) unlink(sys_path);
	if (sys_keep >= 0) { close(sys_keep); sys_keep = -1; }
	free(mem_block); mem_block = NULL;
}

static void c_end(void)
{
	c_drop();
	free(ev_sz); ev_sz = NULL; ev_cap = 0; free(rawbuf); rawbuf = NULL; rawcap = 0;
	if (leaked && !vh_nofork) { fflush(stdout); _exit(0); }
}

int main(int argc, char **argv)
{
	/* some writers look at the time zone */
	setenv("TZ", "UTC", 1);
	struct vh_engine e = { c_begin, c_op, c_end };
	return vh_main(argc, argv, &e);
}
