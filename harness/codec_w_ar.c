#include "archive_write_set_format_ar.c"
#include "codec_inc.h"
int vhx_ar_format_octal(int64_t v, char *p, int s) { return format_octal(v, p, s); }
int vhx_ar_format_decimal(int64_t v, char *p, int s) { return format_decimal(v, p, s); }
