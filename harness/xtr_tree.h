/* Shared by eng_xtr.c and eng_pathclean.c: the scratch tree (canary objects
 * around the target directory), snapshots, and planting of pre-existing content. */
#ifndef XTR_TREE_H
#define XTR_TREE_H
#include <fcntl.h>
#include <dirent.h>
#include <stdarg.h>
#include <sys/stat.h>
#include <sys/time.h>

static char base[512], rootd[600], targetd[700], cwd0[800];
static mode_t umask0;
static char *canary0;
static const long CT = 500000000;


static void die(const char *m) { perror(m); printf("!harness %s\n", m); fflush(stdout); _exit(4); }

static char *unhexs(const char *h)
{
	size_t n; unsigned char *b = vh_unhex(h, &n);
	char *s = malloc(n + 1); memcpy(s, b, n); s[n] = 0; free(b); return s;
}

/* "/R..." -> absolute name of R */
static char *maplink(const char *l)
{
	if (strncmp(l, "/R", 2) == 0 && (l[2] == '/' || l[2] == 0)) {
		char *s = malloc(strlen(rootd) + strlen(l) + 1);
		sprintf(s, "%s%s", rootd, l + 2); return s;
	}
	return strdup(l);
}

static void wfile(const char *p, const char *content, mode_t m)
{
	int fd = open(p, O_WRONLY | O_CREAT | O_TRUNC, 0600);
	if (fd < 0) die("wfile");
	if (write(fd, content, strlen(content)) < 0) die("write");
	close(fd); chmod(p, m);
}

static void settime(const char *p, long t)
{
	struct timespec ts[2] = { { t, 0 }, { t, 0 } };
	utimensat(AT_FDCWD, p, ts, AT_SYMLINK_NOFOLLOW);
}

/* ---- snapshots ---- */
struct sbuf { char *s; size_t n, cap; };
static void sb_add(struct sbuf *b, const char *fmt, ...)
{
	char tmp[4096]; va_list ap; va_start(ap, fmt);
	int k = vsnprintf(tmp, sizeof tmp, fmt, ap); va_end(ap);
	if (k < 0) return;
	if ((size_t)k >= sizeof tmp) k = sizeof tmp - 1;
	if (b->n + (size_t)k + 1 > b->cap) { b->cap = (b->cap + k + 1) * 2; b->s = realloc(b->s, b->cap); }
	memcpy(b->s + b->n, tmp, (size_t)k + 1); b->n += (size_t)k;
}

static uint64_t filehash_at(int dfd, const char *p, long long *len)
{
	uint64_t h = 14695981039346656037ULL; *len = 0;
	int fd = openat(dfd, p, O_RDONLY | O_NOFOLLOW | O_NONBLOCK);
	if (fd < 0) return 0;
	unsigned char buf[4096]; ssize_t k;
	while ((k = read(fd, buf, sizeof buf)) > 0) { for (ssize_t i = 0; i < k; i++) { h ^= buf[i]; h *= 1099511628211ULL; } *len += k; }
	close(fd); return h;
}

static int cmpstr(const void *a, const void *b) { return strcmp(*(char *const *)a, *(char *const *)b); }

static void hexs(struct sbuf *b, const char *s)
{
	if (!*s) { sb_add(b, "-"); return; }
	for (; *s; s++) sb_add(b, "%02x", (unsigned char)*s);
}

/* a path in a snapshot: hex, or "#<length>.<fnv>" when it is longer than 200 bytes */
static void hexpath(struct sbuf *b, const char *s)
{
	size_t n = strlen(s);
	if (n > 200) sb_add(b, "#%zu.%016llx", n, (unsigned long long)vh_fnv(s, n));
	else hexs(b, s);
}

static void mt(struct sbuf *b, const struct stat *st)
{
	if (st->st_mtime < 1500000000) sb_add(b, "%ld", (long)st->st_mtime); else sb_add(b, "now");
}

/* one object, named relative to the directory descriptor dfd (paths below the
 * target can be much longer than PATH_MAX); canary = 1 adds ctime/mtime ns so
 * that any touch shows */
static void descr_at(struct sbuf *b, int dfd, const char *name, const char *rel, int canary)
{
	struct stat st;
	if (fstatat(dfd, name, &st, AT_SYMLINK_NOFOLLOW) != 0) { sb_add(b, " "); hexpath(b, rel); sb_add(b, ":?"); return; }
	sb_add(b, " "); hexpath(b, rel); sb_add(b, ":");
	if (S_ISDIR(st.st_mode)) { sb_add(b, "d:%o:", (unsigned)(st.st_mode & 07777)); mt(b, &st); }
	else if (S_ISREG(st.st_mode)) {
		long long len; uint64_t h = filehash_at(dfd, name, &len);
		sb_add(b, "f:%o:%u:%lld:%016llx:", (unsigned)(st.st_mode & 07777), (unsigned)st.st_nlink, len, (unsigned long long)h); mt(b, &st);
	} else if (S_ISLNK(st.st_mode)) {
		char t[4096]; ssize_t k = readlinkat(dfd, name, t, sizeof t - 1); if (k < 0) k = 0; t[k] = 0;
		sb_add(b, "l:");
		if (strncmp(t, rootd, strlen(rootd)) == 0) { char u[4200]; snprintf(u, sizeof u, "/R%s", t + strlen(rootd)); hexs(b, u); }
		else hexs(b, t);
	} else if (S_ISFIFO(st.st_mode)) { sb_add(b, "p:%o:", (unsigned)(st.st_mode & 07777)); mt(b, &st); }
	else sb_add(b, "o:%o", (unsigned)st.st_mode);
	if (canary)
		sb_add(b, ":n%u:c%lld.%09ld:m%lld.%09ld", (unsigned)st.st_nlink, (long long)st.st_ctim.tv_sec, st.st_ctim.tv_nsec,
		    (long long)st.st_mtim.tv_sec, st.st_mtim.tv_nsec);
}

static void descr(struct sbuf *b, const char *full, const char *rel, int canary)
{
	descr_at(b, AT_FDCWD, full, rel, canary);
}

/* dfd: an open directory (consumed) */
static void walk_at(struct sbuf *b, int dfd, const char *rel, int canary, int depth)
{
	int d2 = dup(dfd); DIR *d = d2 >= 0 ? fdopendir(d2) : NULL;
	if (!d) { if (d2 >= 0) close(d2); close(dfd); return; }
	char *names[512]; int n = 0; struct dirent *de;
	while ((de = readdir(d)) && n < 512) {
		if (!strcmp(de->d_name, ".") || !strcmp(de->d_name, "..")) continue;
		if (canary && depth == 0 && !strcmp(de->d_name, "target")) continue;
		names[n++] = strdup(de->d_name);
	}
	closedir(d);
	qsort(names, (size_t)n, sizeof names[0], cmpstr);
	for (int i = 0; i < n; i++) {
		size_t l = strlen(rel) + strlen(names[i]) + 2;
		char *r2 = malloc(l);
		snprintf(r2, l, "%s%s%s", rel, *rel ? "/" : "", names[i]);
		descr_at(b, dfd, names[i], r2, canary);
		struct stat st;
		if (fstatat(dfd, names[i], &st, AT_SYMLINK_NOFOLLOW) == 0 && S_ISDIR(st.st_mode) && depth < 400) {
			int fd = openat(dfd, names[i], O_RDONLY | O_DIRECTORY | O_NOFOLLOW);
			if (fd >= 0) walk_at(b, fd, r2, canary, depth + 1);
		}
		free(r2); free(names[i]);
	}
	close(dfd);
}

static void walk(struct sbuf *b, const char *full, const char *rel, int canary, int depth)
{
	int fd = open(full, O_RDONLY | O_DIRECTORY | O_NOFOLLOW);
	if (fd >= 0) walk_at(b, fd, rel, canary, depth);
}

static char *canary_digest(void)
{
	struct sbuf b = { 0 }; sb_add(&b, "C");
	descr(&b, rootd, ".", 1);
	walk(&b, rootd, "", 1, 0);
	return b.s;
}

static dev_t cwd_dev; static ino_t cwd_ino;

/* The working directory is identified by device/inode of "." (getcwd() fails
 * once the process sits deeper than PATH_MAX, which is one of the things looked for). */
static const char *envcheck(void)
{
	char c[800]; struct stat st;
	if (stat(".", &st) != 0 || st.st_dev != cwd_dev || st.st_ino != cwd_ino) return "cwd";
	if (!getcwd(c, sizeof c) || strcmp(c, cwd0) != 0) return "cwd";
	mode_t m = umask(0); umask(m);
	if (m != umask0) return "umask";
	return "ok";
}

/* ---- case life cycle ---- */
static void rmrf_at(int dfd, const char *name)
{
	struct stat st; if (fstatat(dfd, name, &st, AT_SYMLINK_NOFOLLOW) != 0) return;
	if (S_ISDIR(st.st_mode)) {
		fchmodat(dfd, name, 0700, 0);
		int fd = openat(dfd, name, O_RDONLY | O_DIRECTORY | O_NOFOLLOW);
		if (fd >= 0) {
			int d2 = dup(fd); DIR *d = d2 >= 0 ? fdopendir(d2) : NULL; struct dirent *de;
			if (d) {
				char *names[512]; int n = 0;
				while ((de = readdir(d)) && n < 512) { if (!strcmp(de->d_name, ".") || !strcmp(de->d_name, "..")) continue; names[n++] = strdup(de->d_name); }
				closedir(d);
				for (int i = 0; i < n; i++) { rmrf_at(fd, names[i]); free(names[i]); }
			}
			close(fd);
		}
		unlinkat(dfd, name, AT_REMOVEDIR);
	} else unlinkat(dfd, name, 0);
}

static void rmrf(const char *p) { rmrf_at(AT_FDCWD, p); }

static void tree_begin(const char *tag)
{
	const char *s = getenv("VERIF_SCRATCH"); if (!s) s = "/tmp";
	snprintf(base, sizeof base, "%s/%s.%d", s, tag, (int)getpid());
	rmrf(base);
	if (mkdir(base, 0755) != 0) die("mkdir base");
	char *rp = realpath(base, NULL); if (!rp) die("realpath");
	snprintf(rootd, sizeof rootd, "%s/R", rp); free(rp);
	snprintf(targetd, sizeof targetd, "%s/target", rootd);
	umask(022);
	char p[900];
#define P(x) (snprintf(p, sizeof p, "%s/%s", rootd, x), p)
	mkdir(rootd, 0755); mkdir(P("a"), 0755); mkdir(P("a/b"), 0755); mkdir(P("d"), 0700); mkdir(targetd, 0755);
	wfile(P("a/b/f"), "cabf", 0644); wfile(P("a/a"), "caa", 0644); wfile(P("b"), "cb", 0644); wfile(P("f"), "cf", 0600);
	if (symlink("b", P("l")) != 0) die("symlink");
	const char *all[] = { "a/b/f", "a/a", "a/b", "a", "b", "f", "d", "l", "target", "" };
	for (size_t i = 0; i < sizeof all / sizeof all[0]; i++) settime(P(all[i]), CT);
#undef P
	if (chdir(targetd) != 0) die("chdir");
	if (!getcwd(cwd0, sizeof cwd0)) die("getcwd");
	{ struct stat st; if (stat(".", &st) != 0) die("stat ."); cwd_dev = st.st_dev; cwd_ino = st.st_ino; }
	umask0 = 022; canary0 = NULL;
}


/* Pre-existing content is planted without ever following a symlink: every
 * leading component must be a real directory (created 0755 when missing). */
static int safe_parents(const char *rel, int create)
{
	char p[4096]; snprintf(p, sizeof p, "%s", rel);
	for (char *s = p + 1; *s; s++) if (*s == '/') {
		struct stat st; *s = 0;
		if (lstat(p, &st) != 0) { if (!create || mkdir(p, 0755) != 0) return -1; }
		else if (!S_ISDIR(st.st_mode)) return -1;
		*s = '/';
	}
	return 0;
}

static void do_pre(char **w)
{
	char *path = unhexs(w[2]), *arg = unhexs(w[3]); unsigned mode = (unsigned)strtoul(w[4], NULL, 8);
	int r = 0; struct stat st;
	if (!strcmp(w[1], "hardlink") && (safe_parents(arg, 0) != 0 || lstat(arg, &st) != 0 || S_ISDIR(st.st_mode))) r = -1;
	else if (!strcmp(w[1], "symlink") && !*arg) r = -1;
	else if (safe_parents(path, 1) != 0 || lstat(path, &st) == 0) r = -1;
	else if (!strcmp(w[1], "dir")) { r = mkdir(path, mode); if (r == 0) chmod(path, mode); }
	else if (!strcmp(w[1], "file")) { wfile(path, arg, mode); }
	else if (!strcmp(w[1], "symlink")) { char *l = maplink(arg); r = symlink(l, path); free(l); }
	else if (!strcmp(w[1], "fifo")) { r = mkfifo(path, mode); if (r == 0) chmod(path, mode); }
	else if (!strcmp(w[1], "hardlink")) {
		if (safe_parents(arg, 0) != 0 || lstat(arg, &st) != 0 || S_ISDIR(st.st_mode)) r = -1;
		else r = link(arg, path);
	}
	else r = -1;
	printf(r == 0 ? "ok\n" : "err\n");
	free(path); free(arg);
}


static void tree_snapshot_line(const char *prefix)
{
	struct sbuf b = { 0 }; sb_add(&b, "T");
	descr(&b, targetd, ".", 0);
	walk(&b, targetd, "", 0, 0);
	char *c1 = canary_digest();
	if (strcmp(c1, canary0) == 0) printf("%s%s | canary=ok\n", prefix, b.s);
	else {
		/* first differing token */
		size_t i = 0; while (c1[i] && canary0[i] && c1[i] == canary0[i]) i++;
		while (i > 0 && c1[i - 1] != ' ') i--;
		char tok[200]; size_t k = 0; while (c1[i + k] && c1[i + k] != ':' && c1[i + k] != ' ' && k < sizeof tok - 1) { tok[k] = c1[i + k]; k++; } tok[k] = 0;
		printf("%s%s | canary=CHANGED:%s\n", prefix, b.s, tok);
	}
	free(c1); free(b.s);
}

static void tree_end(void)
{
	if (chdir("/") != 0) {}
	rmrf(base);
	free(canary0); canary0 = NULL;
}
#endif
