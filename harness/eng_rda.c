/* Engine `rda` (C01/C05/C08): the peek/consume window of archive_read.c driven
 * directly on a->filter of a real archive_read with scripted callbacks. */
#include "common.h"
#include <archive.h>
#include <archive_entry.h>
#include "archive_read_private.h"

#define MAXB 4096
#define MAXN 8
struct node { unsigned char *blk[MAXB]; size_t blen[MAXB]; int nblk, cur; int last; };
static struct node nodes[MAXN]; static int nnodes, term_err;
static unsigned char *truth; static size_t tlen;
static long long skips[256]; static int nskips, curskip, use_skip;
static struct archive *a; static int opened;

static ssize_t rd_cb(struct archive *x, void *d, const void **buf)
{
	(void)x; struct node *nd = d;
	if (nd->cur >= nd->nblk) {
		if (nd->last && term_err) { archive_set_error(a, 5, "scripted read error"); return -1; }
		return 0;     /* end of this data node */
	}
	*buf = nd->blk[nd->cur]; ssize_t n = (ssize_t)nd->blen[nd->cur]; nd->cur++;
	return n;
}

/* drop k bytes from the blocks of this node that were not delivered yet */
static void drop_bytes(struct node *nd, long long k)
{
	while (k > 0 && nd->cur < nd->nblk) {
		if ((size_t)k < nd->blen[nd->cur]) { nd->blk[nd->cur] += k; nd->blen[nd->cur] -= (size_t)k; return; }
		k -= (long long)nd->blen[nd->cur]; nd->cur++;
	}
}

static size_t src_left(struct node *nd) { size_t t = 0; for (int i = nd->cur; i < nd->nblk; i++) t += nd->blen[i]; return t; }

/* script entry g >= 0: well-behaved skipper, skips min(g, request, what is left in this node);
 * -999: answers more than asked; other negatives: error code */
static int64_t skip_cb(struct archive *x, void *d, int64_t request)
{
	(void)x; struct node *nd = d;
	if (curskip >= nskips) return 0;
	long long g = skips[curskip++];
	if (g == -999) return request + 1;
	if (g < 0) return g;
	if (g > request) g = request;
	if ((size_t)g > src_left(nd)) g = (long long)src_left(nd);
	drop_bytes(nd, g);
	return g;
}

static void add_truth(struct node *nd)
{
	size_t tot = 0; for (int i = 0; i < nd->nblk; i++) tot += nd->blen[i];
	truth = realloc(truth, tlen + tot + 1);
	for (int i = 0; i < nd->nblk; i++) { memcpy(truth + tlen, nd->blk[i], nd->blen[i]); tlen += nd->blen[i]; }
}

static void flags(void)
{
	struct archive_read *r = (struct archive_read *)a;
	if (!opened || r->filter == NULL) { printf(" pos=- eof=- fatal=-\n"); return; }
	printf(" pos=%lld eof=%d fatal=%d\n", (long long)r->filter->position, r->filter->end_of_file ? 1 : 0, r->filter->fatal ? 1 : 0);
}

static void r_begin(void) { memset(nodes, 0, sizeof nodes); nnodes = 0; term_err = 0; nskips = curskip = 0; use_skip = 0; a = NULL; opened = 0; truth = NULL; tlen = 0; }

static void r_op(char *line)
{
	static char *w[MAXB + 8];
	int n = vh_split(line, w, MAXB + 8);
	if (n >= 2 && !strcmp(w[0], "src")) {
		term_err = !strcmp(w[1], "err");
		struct node *nd = &nodes[0]; nnodes = 1; nd->last = 1;
		for (int i = 2; i < n && nd->nblk < MAXB; i++) { nd->blk[nd->nblk] = vh_unhex(w[i], &nd->blen[nd->nblk]); nd->nblk++; }
		add_truth(nd);
		printf("ok\n");
	} else if (n >= 1 && !strcmp(w[0], "node") && nnodes >= 1 && nnodes < MAXN) {
		/* a further data node of a multi-volume set */
		struct node *nd = &nodes[nnodes]; nodes[nnodes - 1].last = 0; nd->last = 1; nnodes++;
		for (int i = 1; i < n && nd->nblk < MAXB; i++) { nd->blk[nd->nblk] = vh_unhex(w[i], &nd->blen[nd->nblk]); nd->nblk++; }
		add_truth(nd);
		printf("ok\n");
	} else if (n >= 1 && !strcmp(w[0], "skips")) {
		use_skip = 1;
		for (int i = 1; i < n && nskips < 256; i++) skips[nskips++] = strtoll(w[i], NULL, 10);
		printf("ok\n");
	} else if (n == 1 && !strcmp(w[0], "open")) {
		a = archive_read_new();
		archive_read_support_format_raw(a);
		archive_read_support_format_empty(a);
		archive_read_set_callback_data(a, &nodes[0]);
		for (int i = 1; i < nnodes; i++) archive_read_append_callback_data(a, &nodes[i]);
		archive_read_set_read_callback(a, rd_cb);
		if (use_skip) archive_read_set_skip_callback(a, skip_cb);
		int r = archive_read_open1(a);
		opened = 1;
		printf("open %s", vh_st(r)); flags();
	} else if (opened && ((struct archive_read *)a)->filter == NULL) {
		printf("bad-op\n");   /* open failed: the filter chain is gone */
	} else if (n == 2 && !strcmp(w[0], "ahead") && opened) {
		struct archive_read *r = (struct archive_read *)a;
		size_t min = (size_t)strtoull(w[1], NULL, 10);
		ssize_t avail = -12345;
		const unsigned char *p = __archive_read_filter_ahead(r->filter, min, &avail);
		if (p != NULL) {
			/* every byte of the window must be the true stream at the current position */
			long long pos = r->filter->position; int good = 1;
			if (avail < 0 || (size_t)avail < min) good = 0;
			else if (avail == 0) good = 1;
			else if ((size_t)pos + (size_t)avail > tlen || memcmp(p, truth + pos, (size_t)avail) != 0) good = 0;
			printf("win %zd ", avail); vh_puthex(p, min <= (size_t)avail ? min : 0); printf(" truth=%s", good ? "ok" : "BAD");
		} else if (avail >= 0) printf("short %zd", avail);
		else printf("%s", vh_st((int)avail));
		flags();
	} else if (n == 2 && !strcmp(w[0], "consume") && opened) {
		struct archive_read *r = (struct archive_read *)a;
		int64_t k = __archive_read_filter_consume(r->filter, strtoll(w[1], NULL, 10));
		if (k >= 0) printf("consumed %lld", (long long)k); else printf("%s", vh_st((int)k));
		flags();
	} else printf("bad-op\n");
}

static void r_end(void) { if (a) archive_read_free(a); free(truth); }

int main(int argc, char **argv)
{
	struct vh_engine e = { r_begin, r_op, r_end };
	return vh_main(argc, argv, &e);
}
