/*
 * Engine `trad` (C20): the traditional PKWARE cipher, both copies (zip reader and zip
 * writer), reached through harness/c20_trad_r.c and harness/c20_trad_w.c.
 *
 *   winit <pwhex>                    writer's trad_enc_init
 *   rinit <pwhex> <hdrhex> <keylen>  reader's trad_enc_init (12-byte header, check byte)
 *   enc <hex> <cap>                  writer's trad_enc_encrypt_update
 *   dec <hex> <cap>                  reader's trad_enc_decrypt_update
 *   upd <byte>                       trad_enc_update_keys, both copies on the same state
 *   byte                             trad_enc_decrypt_byte, both copies
 * Every answer ends with the three keys.
 */
#include "common.h"

void vr_update_keys(uint32_t *k, uint8_t c); uint8_t vr_decrypt_byte(uint32_t *k);
void vr_decrypt_update(uint32_t *k, const uint8_t *in, size_t in_len, uint8_t *out, size_t out_len);
int vr_init(uint32_t *k, const char *pw, size_t pw_len, const uint8_t *key, size_t key_len, uint8_t *crcchk);
size_t vr_ctx_size(void);
void vw_update_keys(uint32_t *k, uint8_t c); uint8_t vw_decrypt_byte(uint32_t *k);
unsigned vw_encrypt_update(uint32_t *k, const uint8_t *in, size_t in_len, uint8_t *out, size_t out_len);
int vw_init(uint32_t *k, const char *pw, size_t pw_len);
size_t vw_ctx_size(void);

static uint32_t K[3];
static void keys(void) { printf(" k=%08x,%08x,%08x\n", K[0], K[1], K[2]); }

static void t_begin(void)
{
	K[0] = K[1] = K[2] = 0;
	if (vr_ctx_size() != sizeof K || vw_ctx_size() != sizeof K) { fprintf(stderr, "trad_enc_ctx layout changed\n"); abort(); }
}

static void t_op(char *line)
{
	char *w[8]; int n = vh_split(line, w, 8);
	if (n == 2 && strcmp(w[0], "winit") == 0) {
		size_t l; unsigned char *pw = vh_unhex(w[1], &l);
		int r = vw_init(K, (const char *)pw, l);
		printf("r=%d", r); keys(); free(pw);
	} else if (n == 4 && strcmp(w[0], "rinit") == 0) {
		size_t l, hl; unsigned char *pw = vh_unhex(w[1], &l), *h = vh_unhex(w[2], &hl);
		uint8_t chk = 0x77;
		int r = vr_init(K, (const char *)pw, l, h, strtoul(w[3], NULL, 10), &chk);
		printf("r=%d chk=%02x", r, chk); keys(); free(pw); free(h);
	} else if (n == 3 && (strcmp(w[0], "enc") == 0 || strcmp(w[0], "dec") == 0)) {
		size_t l; unsigned char *in = vh_unhex(w[1], &l);
		size_t cap = strtoul(w[2], NULL, 10), m = l < cap ? l : cap;
		unsigned char *out = malloc(cap ? cap : 1);
		if (w[0][0] == 'e') { unsigned k = vw_encrypt_update(K, in, l, out, cap); printf("n=%u out=", k); if (k <= cap) vh_puthex(out, k); else printf("OVERRUN"); }
		else { vr_decrypt_update(K, in, l, out, cap); printf("n=%zu out=", m); vh_puthex(out, m); }
		keys(); free(in); free(out);
	} else if (n == 2 && strcmp(w[0], "upd") == 0) {
		uint32_t K2[3] = { K[0], K[1], K[2] };
		uint8_t c = (uint8_t)strtoul(w[1], NULL, 10);
		vr_update_keys(K, c); vw_update_keys(K2, c);
		printf("same=%d", memcmp(K, K2, sizeof K) == 0); keys();
	} else if (n == 1 && strcmp(w[0], "byte") == 0) {
		printf("b=%02x/%02x", vr_decrypt_byte(K), vw_decrypt_byte(K)); keys();
	} else printf("bad-op\n");
}
static void t_end(void) { }

int main(int argc, char **argv)
{
	struct vh_engine e = { t_begin, t_op, t_end };
	return vh_main(argc, argv, &e);
}
