/* Engine `codecp`: the `codec` engine built without sanitizers (plain flavour) for the bulk of the
 * write -> read round trips; a forked ASan case costs ~20 ms, a plain one ~1 ms. */
#include "eng_codec.c"
