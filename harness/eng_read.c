/* Engine `read` (C01/C05/C06/C08): the real reader, all formats and filters
 * enabled, over one archive under a chosen block partition, byte source,
 * per-entry consumption vector, truncation point and callback fault.
 *
 * ops:
 *   load <path>              archive bytes from a file            -> "ok <len>"
 *   hex <hexbytes>           archive bytes inline                 -> "ok <len>"
 *   make fmt=<f> filt=<f> seed=<s> n=<k> [big=1] [opt=<options>]  archive written by libarchive -> "made <len> <st>"
 *   run blk=<b> src=<s> cons=<c> trunc=<n|e<k>|-> fault=<kind@idx|->   -> one record line
 *
 * blk:  w (whole) | <N> constant | r<seed> random small sizes | c<k> two blocks cut at k
 * src:  cb (read callback only) | cbs (+skip) | cbk (+skip+seek) | mem:<readsize> (open_memory2)
 *       file:<bs> | fd:<bs> | pipe:<bs> | FILE | multi:<k> (open_filenames, split at k)
 * cons: comma list cycled over entries: A read_data 64k buffers | a read_data odd small buffers
 *       | B read_data_block | P10 | P1000 prefix via read_data | S data_skip | N nothing
 * fault kinds (cb* sources): err@i (i-th read returns -1) | eof@i (returns 0)
 *       | skiperr@i | skipshort@i (skips one less) | seekerr@i
 *
 * record: entries joined by '|', then "|F <final status>":
 *   E <hdr st> <meta hash> <len> <hash> <h10> <h1000> <body st> <flags>
 */
#include "common.h"
#include <fcntl.h>
#include <sys/stat.h>
#include <archive.h>
#include <archive_entry.h>

static unsigned char *arc; static size_t arclen;
static char scratch[256];

/* ---- scripted callback source ---- */
struct cbsrc {
	const unsigned char *p; size_t len, pos;
	int mode;          /* 0 whole, 1 const, 2 random, 3 cut */
	size_t k; uint64_t rng;
	long nread, nskip, nseek;
	const char *fkind; long fidx;
	unsigned char *cur;
};
static struct cbsrc S;

static uint64_t xr(uint64_t *s) { *s ^= *s << 13; *s ^= *s >> 7; *s ^= *s << 17; return *s; }

static size_t next_block(struct cbsrc *c)
{
	size_t left = c->len - c->pos, n;
	static const size_t sz[] = {1, 1, 2, 3, 7, 16, 100, 511, 512, 513, 2000, 10240};
	switch (c->mode) {
	case 0: n = left; break;
	case 1: n = c->k; break;
	case 2: n = sz[xr(&c->rng) % (sizeof sz / sizeof sz[0])]; break;
	default: n = c->pos < c->k ? c->k - c->pos : left; break;
	}
	return n < left ? n : left;
}

static int fault_here(struct cbsrc *c, const char *kind, long n)
{ return c->fkind && strcmp(c->fkind, kind) == 0 && c->fidx == n; }

static ssize_t cb_read(struct archive *a, void *d, const void **buf)
{
	struct cbsrc *c = d; long n = c->nread++;
	if (fault_here(c, "err", n)) { archive_set_error(a, EIO, "scripted read error"); return -1; }
	if (fault_here(c, "eof", n)) return 0;
	size_t k = next_block(c);
	/* every block in its own exact-size allocation: a read past the end of the block that was
	 * handed out (or of a block already replaced) is an ASan report */
	free(c->cur); c->cur = malloc(k ? k : 1);
	memcpy(c->cur, c->p + c->pos, k);
	*buf = c->cur; c->pos += k;
	return (ssize_t)k;
}
static int64_t cb_skip(struct archive *a, void *d, int64_t req)
{
	struct cbsrc *c = d; long n = c->nskip++;
	if (fault_here(c, "skiperr", n)) { archive_set_error(a, EIO, "scripted skip error"); return -1; }
	int64_t left = (int64_t)(c->len - c->pos), k = req < left ? req : left;
	if (fault_here(c, "skipshort", n) && k > 0) k--;
	c->pos += (size_t)k; return k;
}
static int64_t cb_seek(struct archive *a, void *d, int64_t off, int whence)
{
	struct cbsrc *c = d; long n = c->nseek++;
	if (fault_here(c, "seekerr", n)) { archive_set_error(a, EIO, "scripted seek error"); return ARCHIVE_FATAL; }
	int64_t base = whence == SEEK_SET ? 0 : whence == SEEK_CUR ? (int64_t)c->pos : (int64_t)c->len;
	int64_t t = base + off;
	if (t < 0) return ARCHIVE_FATAL;
	if (t > (int64_t)c->len) t = (int64_t)c->len;
	c->pos = (size_t)t; return t;
}

/* ---- helpers ---- */
static uint64_t hs(uint64_t h, const char *s) { if (!s) s = "\x01"; while (*s) { h ^= (unsigned char)*s++; h *= 1099511628211ULL; } h ^= 0xff; h *= 1099511628211ULL; return h; }
static uint64_t hi(uint64_t h, long long v) { for (int i = 0; i < 8; i++) { h ^= (unsigned char)(v >> (8 * i)); h *= 1099511628211ULL; } return h; }

static uint64_t meta_hash(struct archive_entry *e)
{
	uint64_t h = 14695981039346656037ULL;
	h = hs(h, archive_entry_pathname(e));
	h = hi(h, archive_entry_filetype(e)); h = hi(h, archive_entry_perm(e));
	h = hi(h, archive_entry_size_is_set(e) ? archive_entry_size(e) : -1);
	h = hi(h, archive_entry_mtime_is_set(e) ? archive_entry_mtime(e) : -1);
	h = hi(h, archive_entry_mtime_is_set(e) ? archive_entry_mtime_nsec(e) : -1);
	h = hi(h, archive_entry_uid(e)); h = hi(h, archive_entry_gid(e));
	h = hs(h, archive_entry_uname(e)); h = hs(h, archive_entry_gname(e));
	h = hs(h, archive_entry_hardlink(e)); h = hs(h, archive_entry_symlink(e));
	h = hi(h, archive_entry_nlink(e)); h = hi(h, archive_entry_rdev(e));
	h = hi(h, archive_entry_sparse_count(e)); h = hi(h, archive_entry_xattr_count(e));
	return h;
}

struct dense { uint64_t h, h10, h1000; long long len; };
static void d_init(struct dense *d) { d->h = d->h10 = d->h1000 = 14695981039346656037ULL; d->len = 0; }
static void d_add(struct dense *d, const unsigned char *p, size_t n, int zero)
{
	for (size_t i = 0; i < n; i++) {
		unsigned char c = zero ? 0 : p[i];
		d->h ^= c; d->h *= 1099511628211ULL;
		if (d->len < 10) { d->h10 ^= c; d->h10 *= 1099511628211ULL; }
		if (d->len < 1000) { d->h1000 ^= c; d->h1000 *= 1099511628211ULL; }
		d->len++;
	}
}
static void d_zero(struct dense *d, long long n)
{
	/* long holes: hash a length marker instead of every zero byte beyond 1 MiB */
	while (n > 0 && (d->len < 1000 || n <= (1 << 20))) { d_add(d, NULL, 1, 1); n--; }
	if (n > 0) { d->h = hi(d->h ^ 0x5a, n); d->len += n; }
}

static char *mktmp(const char *name, const unsigned char *p, size_t n)
{
	static char path[4][320]; static int k; char *q = path[k++ & 3];
	snprintf(q, 320, "%s/%s", scratch, name);
	FILE *f = fopen(q, "wb"); if (!f) { perror(q); exit(2); }
	if (n) fwrite(p, 1, n, f);
	fclose(f); return q;
}

static const char *kv(char **w, int n, const char *key)
{
	size_t l = strlen(key);
	for (int i = 0; i < n; i++) if (strncmp(w[i], key, l) == 0 && w[i][l] == '=') return w[i] + l + 1;
	return "-";
}

static void do_run(char **w, int n)
{
	const char *blk = kv(w, n, "blk"), *src = kv(w, n, "src"), *cons = kv(w, n, "cons");
	const char *trunc = kv(w, n, "trunc"), *fault = kv(w, n, "fault");
	size_t len = arclen;
	if (trunc[0] == 'e') {	/* e<K>: cut K bytes before the end (trailers and central directories live there) */
		size_t k = (size_t)strtoull(trunc + 1, NULL, 10); len = k < len ? len - k : 0;
	} else if (strcmp(trunc, "-") != 0) { size_t t = (size_t)strtoull(trunc, NULL, 10); if (t < len) len = t; }
	/* exact-size copy so that any over-read of the archive buffer is an ASan report */
	unsigned char *buf = malloc(len ? len : 1); memcpy(buf, arc, len);
	{	/* poke=off:val,off:val — damage single bytes of this run's copy */
		const char *pk = kv(w, n, "poke");
		while (pk && *pk && *pk != '-') {
			char *end; unsigned long off = strtoul(pk, &end, 10);
			if (*end != ':') break;
			unsigned long val = strtoul(end + 1, &end, 10);
			if (off < len) buf[off] = (unsigned char)val;
			pk = (*end == ',') ? end + 1 : NULL;
		}
	}

	struct archive *a = archive_read_new();
	archive_read_support_filter_all(a);
	archive_read_add_passphrase(a, "verif-pass");	/* what `make` encrypts with; harmless otherwise */
	{	/* only=<format>: a single format reader, so that the read-ahead buffer is sized by that
		 * reader's own requests and not by the other bidders' */
		const char *only = kv(w, n, "only");
		static const struct { const char *n; int (*f)(struct archive *); } one[] = {
			{"lha", archive_read_support_format_lha}, {"cab", archive_read_support_format_cab},
			{"rar", archive_read_support_format_rar}, {"rar5", archive_read_support_format_rar5},
			{"zip", archive_read_support_format_zip}, {"7zip", archive_read_support_format_7zip},
			{"cpio", archive_read_support_format_cpio}, {"tar", archive_read_support_format_tar},
			{"ar", archive_read_support_format_ar}, {"iso9660", archive_read_support_format_iso9660},
			{"xar", archive_read_support_format_xar}, {"mtree", archive_read_support_format_mtree},
			{"warc", archive_read_support_format_warc}, {NULL, NULL} };
		int done = 0;
		for (int i = 0; one[i].n; i++) if (strcmp(only, one[i].n) == 0) { one[i].f(a); done = 1; }
		if (!done) archive_read_support_format_all(a);
	}
	if (strcmp(kv(w, n, "raw"), "1") == 0) archive_read_support_format_raw(a);   /* filter-only streams */
	int r = ARCHIVE_OK, fd = -1; FILE *fp = NULL; pid_t feeder = 0;
	memset(&S, 0, sizeof S);
	S.p = buf; S.len = len; S.rng = 88172645463325252ULL;
	if (strcmp(fault, "-") != 0) {
		static char fk[32]; snprintf(fk, sizeof fk, "%s", fault);
		char *at = strchr(fk, '@'); if (at) { *at = 0; S.fidx = strtol(at + 1, NULL, 10); } S.fkind = fk;
	}
	if (blk[0] == 'w') S.mode = 0;
	else if (blk[0] == 'r') { S.mode = 2; S.rng ^= strtoull(blk + 1, NULL, 10) * 0x9E3779B97F4A7C15ULL; if (!S.rng) S.rng = 1; }
	else if (blk[0] == 'c') { S.mode = 3; S.k = (size_t)strtoull(blk + 1, NULL, 10); }
	else { S.mode = 1; S.k = (size_t)strtoull(blk, NULL, 10); if (!S.k) S.k = 1; }

	if (strncmp(src, "cb", 2) == 0) {
		archive_read_set_callback_data(a, &S);
		archive_read_set_read_callback(a, cb_read);
		if (src[2] == 's' || src[2] == 'k') archive_read_set_skip_callback(a, cb_skip);
		if (src[2] == 'k') archive_read_set_seek_callback(a, cb_seek);
		r = archive_read_open1(a);
	} else if (strncmp(src, "mem:", 4) == 0) {
		r = archive_read_open_memory2(a, buf, len, (size_t)strtoull(src + 4, NULL, 10));
	} else if (strncmp(src, "file:", 5) == 0) {
		r = archive_read_open_filename(a, mktmp("a.bin", buf, len), (size_t)strtoull(src + 5, NULL, 10));
	} else if (strncmp(src, "fd:", 3) == 0) {
		fd = open(mktmp("a.bin", buf, len), O_RDONLY);
		r = archive_read_open_fd(a, fd, (size_t)strtoull(src + 3, NULL, 10));
	} else if (strncmp(src, "pipe:", 5) == 0) {
		int pf[2]; if (pipe(pf) != 0) exit(2);
		feeder = fork();
		if (feeder == 0) {
			close(pf[0]); signal(SIGPIPE, SIG_IGN);
			size_t o = 0; while (o < len) { ssize_t k = write(pf[1], buf + o, len - o > 4096 ? 4096 : len - o); if (k <= 0) break; o += (size_t)k; }
			_exit(0);
		}
		close(pf[1]); fd = pf[0];
		r = archive_read_open_fd(a, fd, (size_t)strtoull(src + 5, NULL, 10));
	} else if (strcmp(src, "FILE") == 0) {
		fp = fopen(mktmp("a.bin", buf, len), "rb");
		r = archive_read_open_FILE(a, fp);
	} else if (strncmp(src, "multi:", 6) == 0) {
		size_t k = src[6] == 'p' ? (size_t)((double)len * (double)strtoull(src + 7, NULL, 10) / 100.0)
		    : (size_t)strtoull(src + 6, NULL, 10);
		if (k > len) k = len;
		const char *names[3]; names[0] = mktmp("a1.bin", buf, k); names[1] = mktmp("a2.bin", buf + k, len - k); names[2] = NULL;
		r = archive_read_open_filenames(a, names, 10240);
	} else { printf("bad-op"); archive_read_free(a); free(buf); return; }

	printf("O %s", vh_st(r));
	/* consumption vector */
	char cv[64][8]; int ncv = 0;
	{ char tmp[512]; snprintf(tmp, sizeof tmp, "%s", cons); for (char *t = strtok(tmp, ","); t && ncv < 64; t = strtok(NULL, ",")) snprintf(cv[ncv++], 8, "%s", t); }
	if (ncv == 0) { strcpy(cv[0], "A"); ncv = 1; }

	int nent = 0, final = r, after_end = 0;
	static unsigned char rb[65536];
	while (r >= ARCHIVE_WARN && nent < 3000) {
		struct archive_entry *e = NULL;
		int hr = archive_read_next_header(a, &e);
		if (hr == ARCHIVE_EOF || hr == ARCHIVE_FATAL) {
			final = hr;
			/* C01/C07: nothing may follow end-of-archive or a fatal header error */
			int again = archive_read_next_header(a, &e);
			if (again == ARCHIVE_OK || again == ARCHIVE_WARN) after_end = 1;
			break;
		}
		if (hr == ARCHIVE_RETRY) { printf("|E retry"); nent++; final = hr; continue; }
		if (hr == ARCHIVE_FAILED) { printf("|E failed"); nent++; final = hr; continue; }
		if (hr != ARCHIVE_OK && hr != ARCHIVE_WARN) { printf("|E undocumented=%d", hr); final = hr; break; }
		const char *c = cv[nent % ncv];
		long long esize = archive_entry_size_is_set(e) ? archive_entry_size(e) : -1;
		printf("|E %s %016llx", vh_st(hr), (unsigned long long)meta_hash(e));
		struct dense d; d_init(&d); int bst = ARCHIVE_OK; int over = 0, ord = 0, beyond = 0;
		if (c[0] == 'A' || c[0] == 'a' || c[0] == 'P' || c[0] == 'R') {
			long long want = c[0] == 'P' ? atoll(c + 1) : -1; int t = 0;
			size_t fixed = c[0] == 'R' ? (size_t)atoll(c + 1) : 0; if (fixed > sizeof rb) fixed = sizeof rb;
			for (;;) {
				size_t ask = c[0] == 'A' ? sizeof rb : c[0] == 'R' ? (fixed ? fixed : 1) : (size_t)((t++ % 3 == 0) ? 7 : (t % 3 == 1) ? 1000 : 13);
				if (want >= 0) { if (d.len >= want) break; if ((long long)ask > want - d.len) ask = (size_t)(want - d.len); }
				la_ssize_t k = archive_read_data(a, rb, ask);
				if (k < 0) { bst = (int)k; break; }
				if (k == 0) { bst = ARCHIVE_EOF; break; }
				if ((size_t)k > ask) { over = 1; break; }
				d_add(&d, rb, (size_t)k, 0);
				if (d.len > (64LL << 20)) { bst = 80; break; }   /* cap: hostile sizes */
			}
			if (want >= 0 && bst == ARCHIVE_OK) bst = 77;   /* stopped early on purpose */
		} else if (c[0] == 'B') {
			long long expect = 0;
			for (;;) {
				const void *p; size_t sz; la_int64_t off = expect;
				int k = archive_read_data_block(a, &p, &sz, &off);
				if (k == ARCHIVE_EOF) {
					/* the offset reported with end-of-data closes a trailing hole (C06) */
					if (esize >= 0 && off > esize) beyond = 1;
					if (off > expect) d_zero(&d, off - expect);
					bst = ARCHIVE_EOF; break;
				}
				if (k < ARCHIVE_OK && k != ARCHIVE_WARN) { bst = k; break; }
				if (off < expect) { ord = 1; bst = 78; break; }
				if (esize >= 0 && off + (long long)sz > esize) beyond = 1;
				d_zero(&d, off - expect); d_add(&d, p, sz, 0); expect = off + (long long)sz;
				if (d.len > (64LL << 20)) { bst = 80; break; }
			}
		} else if (c[0] == 'S') {
			bst = archive_read_data_skip(a);
		} else bst = 79; /* nothing */
		if (c[0] == 'A' || c[0] == 'a' || c[0] == 'B' || c[0] == 'R')
			printf(" %lld %016llx %016llx %016llx", d.len, (unsigned long long)d.h, (unsigned long long)d.h10, (unsigned long long)d.h1000);
		else if (c[0] == 'P')
			printf(" %lld %016llx - -", d.len, (unsigned long long)d.h);
		else printf(" - - - -");
		printf(" %s", bst == 77 ? "part" : bst == 78 ? "disorder" : bst == 79 ? "none" : bst == 80 ? "cap" : vh_st(bst));
		printf(" %s%s%s%s", over ? "OVER" : "", ord ? "ORD" : "", beyond ? "BEYOND" : "",
		    (esize >= 0 && (c[0] == 'A' || c[0] == 'a' || c[0] == 'R') && d.len > esize) ? "LONG" : "");
		if (!over && !ord && !beyond) printf("-");
		nent++;
		if (bst == ARCHIVE_FATAL) { final = ARCHIVE_FATAL; break; }   /* stop at the first fatal data error */
	}
	printf("|F %s%s", vh_st(final), after_end ? " ENTRY-AFTER-END" : "");
	int cr = archive_read_close(a), fr = archive_read_free(a);
	printf(" close=%s free=%s", vh_st(cr), vh_st(fr));
	free(S.cur); S.cur = NULL;
	if (fp) fclose(fp);
	if (fd >= 0) close(fd);
	if (feeder > 0) { int st; waitpid(feeder, &st, 0); }
	free(buf);
}


/* ---- archive generator: the real writers, deterministic content ---- */
struct sink { unsigned char *p; size_t len, cap; };
static ssize_t sink_write(struct archive *a, void *d, const void *b, size_t n)
{
	(void)a; struct sink *s = d;
	if (s->len + n > s->cap) { s->cap = (s->len + n) * 2 + 65536; s->p = realloc(s->p, s->cap); }
	memcpy(s->p + s->len, b, n); s->len += n; return (ssize_t)n;
}

static void do_make(char **w, int n)
{
	const char *fmt = kv(w, n, "fmt"), *filt = kv(w, n, "filt");
	uint64_t rng = strtoull(kv(w, n, "seed"), NULL, 10) * 0x9E3779B97F4A7C15ULL + 1;
	int cnt = atoi(kv(w, n, "n")); if (cnt <= 0) cnt = 5;
	struct sink sk = {0};
	struct archive *a = archive_write_new();
	int r = archive_write_set_format_by_name(a, fmt);
	if (r == ARCHIVE_OK && strcmp(filt, "-") != 0 && strcmp(filt, "none") != 0) r = archive_write_add_filter_by_name(a, filt);
	if (r != ARCHIVE_OK) { printf("bad-op"); archive_write_free(a); return; }
	archive_write_set_bytes_per_block(a, 10240);
	archive_write_set_bytes_in_last_block(a, 1);
	if (strcmp(fmt, "raw") == 0 && strcmp(filt, "bzip2") == 0)
		archive_write_set_filter_option(a, "bzip2", "compression-level", "1");   /* several 100k blocks */
	{	/* opt=<option string>: writer/filter options ("lz4:!stream-checksum,lz4:block-size=4", "7zip:compression=store") */
		const char *opt = kv(w, n, "opt");
		if (opt[0] && strcmp(opt, "-") != 0 && archive_write_set_options(a, opt) < ARCHIVE_WARN) { printf("bad-opt"); archive_write_free(a); return; }
		if (strstr(opt, "encryption")) archive_write_set_passphrase(a, "verif-pass");
	}
	r = archive_write_open(a, &sk, NULL, sink_write, NULL);
	static const long sizes[] = {0, 1, 10, 511, 512, 513, 1000, 4095, 5000, 10240, 70001, 200001};
	int tarlike = strstr(fmt, "tar") || strstr(fmt, "pax") || strstr(fmt, "ustar") || strstr(fmt, "cpio") || strstr(fmt, "newc") || strstr(fmt, "odc");
	int longnames = strstr(fmt, "pax") || strstr(fmt, "gnutar") || strstr(fmt, "zip") || strstr(fmt, "7zip") || strstr(fmt, "xar") || strstr(fmt, "newc");
	int isar = strncmp(fmt, "ar", 2) == 0, israw = strcmp(fmt, "raw") == 0;
	char first[64] = "";
	for (int i = 0; i < cnt && r >= ARCHIVE_WARN; i++) {
		struct archive_entry *e = archive_entry_new();
		char name[700]; int nl;
		unsigned kind = (unsigned)(xr(&rng) % 10);
		if ((strcmp(kv(w, n, "big"), "1") == 0 || strcmp(kv(w, n, "big"), "2") == 0) && i % 2 == 0) kind = 9;   /* a large regular file */
		if (longnames && xr(&rng) % 4 == 0) {
			static const int lens[] = {99, 100, 101, 154, 155, 156, 255, 256, 300};
			nl = lens[xr(&rng) % 9];
			int k = snprintf(name, sizeof name, "d%d/", i);
			while (k < nl) { name[k] = (k % 50 == 49) ? '/' : (char)('a' + (k * 7 + i) % 26); k++; }
			if (name[k-1] == '/') name[k-1] = 'z';
			name[k] = 0;
		} else snprintf(name, sizeof name, isar ? "f%d.o" : "dir%d/file_%d.dat", isar ? i : i % 3, i);
		long sz = sizes[xr(&rng) % (sizeof sizes / sizeof sizes[0])];
		if (israw) sz = 200000 + (long)(xr(&rng) % 150000);    /* multi-block streams */
		else if (strcmp(kv(w, n, "big"), "2") == 0 && i % 2 == 0) sz = 600000 + (long)(xr(&rng) % 400000);   /* larger than a 256 KiB window even when compressed */
		else if (strcmp(kv(w, n, "big"), "1") == 0 && i % 2 == 0) sz = 66000 + (long)(xr(&rng) % 400000);   /* beyond one 256 KiB decompression window now and then */
		archive_entry_set_pathname(e, name);
		archive_entry_set_mtime(e, 1000000000 + i * 3600, 0);
		archive_entry_set_uid(e, 1000 + i % 3); archive_entry_set_gid(e, 100);
		archive_entry_set_uname(e, "user"); archive_entry_set_gname(e, "grp");
		if (israw && i > 0) { archive_entry_free(e); break; }
		if (!isar && !israw && kind == 0) { archive_entry_set_filetype(e, AE_IFDIR); archive_entry_set_perm(e, 0755); sz = 0; }
		else if (!isar && !israw && kind == 1) { archive_entry_set_filetype(e, AE_IFLNK); archive_entry_set_perm(e, 0777); archive_entry_set_symlink(e, "target/of/link"); sz = 0; }
		else if (tarlike && kind == 2 && first[0]) { archive_entry_set_filetype(e, AE_IFREG); archive_entry_set_perm(e, 0644); archive_entry_set_hardlink(e, first); sz = 0; }
		else { archive_entry_set_filetype(e, AE_IFREG); archive_entry_set_perm(e, 0644 | (i % 2 ? 0111 : 0)); if (!first[0] && strlen(name) < 60) snprintf(first, sizeof first, "%s", name); }
		archive_entry_set_size(e, sz);
		if (strstr(fmt, "pax") && xr(&rng) % 3 == 0) {
			/* extended header body larger than one tar block */
			static char big[700]; for (int k = 0; k < 700; k++) big[k] = (char)('a' + (k + i) % 26);
			archive_entry_xattr_add_entry(e, "user.verif.big", big, sizeof big);
			archive_entry_xattr_add_entry(e, "user.verif.small", "v", 1);
		}
		int sparse = (strstr(fmt, "pax") || strstr(fmt, "gnutar")) && sz >= 4095 && xr(&rng) % 2 == 0;
		if (sparse) { archive_entry_sparse_add_entry(e, 512, 1024); archive_entry_sparse_add_entry(e, sz - 600, 100); }
		r = archive_write_header(a, e);
		if (r >= ARCHIVE_WARN && sz > 0) {
			unsigned char *body = malloc((size_t)sz); uint64_t br = rng ^ (uint64_t)i;
			for (long k = 0; k < sz; k++) body[k] = (k / 64 % 3 == 0) ? (unsigned char)xr(&br) : (unsigned char)('A' + k % 23);
			if (sparse) { for (long k = 0; k < sz; k++) if (!((k >= 512 && k < 1536) || (k >= sz - 600 && k < sz - 500))) body[k] = 0; }
			long off = 0; while (off < sz) { long c = 1 + (long)(xr(&rng) % 9000); if (c > sz - off) c = sz - off; if (archive_write_data(a, body + off, (size_t)c) < 0) break; off += c; }
			free(body);
		}
		if (r == ARCHIVE_FAILED) r = ARCHIVE_OK;   /* entry refused by the format: go on */
		archive_entry_free(e);
	}
	int cr = archive_write_close(a); archive_write_free(a);
	free(arc); arc = sk.p ? sk.p : malloc(1); arclen = sk.len;
	printf("made %zu %s", arclen, vh_st(cr));
}

static int count_fds(void)
{
	int n = 0; char p[64];
	for (int i = 0; i < 256; i++) { snprintf(p, sizeof p, "/proc/self/fd/%d", i); if (access(p, F_OK) == 0) n++; }
	return n;
}

static void e_begin(void)
{
	const char *base = getenv("VERIF_SCRATCH"); if (!base) base = "/tmp";
	snprintf(scratch, sizeof scratch, "%s/rd.%d", base, (int)getpid());
	mkdir(scratch, 0700);
}
static void e_op(char *line)
{
	static char *w[16]; int n;
	alarm(90);	/* watchdog per operation: a reader that does not terminate is a C01 finding */
	if (strncmp(line, "load ", 5) == 0) {
		FILE *f = fopen(line + 5, "rb"); if (!f) { printf("bad-op\n"); return; }
		fseek(f, 0, SEEK_END); long l = ftell(f); fseek(f, 0, SEEK_SET);
		free(arc); arc = malloc(l ? l : 1); arclen = fread(arc, 1, (size_t)l, f); fclose(f);
		printf("ok %zu\n", arclen); return;
	}
	if (strncmp(line, "hex ", 4) == 0) { free(arc); arc = vh_unhex(line + 4, &arclen); printf("ok %zu\n", arclen); return; }
	n = vh_split(line, w, 16);
	if (n >= 1 && strcmp(w[0], "make") == 0) { do_make(w + 1, n - 1); printf("\n"); return; }
	if (n >= 1 && strcmp(w[0], "run") == 0) { int before = count_fds(); do_run(w + 1, n - 1); int after = count_fds(); printf(" fds=%d\n", after - before); return; }
	printf("bad-op\n");
}
static void e_end(void)
{
	alarm(0);	/* teardown (leak check at exit) is not an operation */
	char cmd[400]; snprintf(cmd, sizeof cmd, "rm -rf '%s'", scratch);
	if (system(cmd) != 0) { /* ignore */ }
	free(arc); arc = NULL;
}

int main(int argc, char **argv)
{
	struct vh_engine e = { e_begin, e_op, e_end };
	return vh_main(argc, argv, &e);
}
