/* Engine `flt` (C03): real write-filter stacks into memory (format raw), then the
 * real reader over the produced bytes.
 *
 * ops (one output line each):
 *   rt <filters> <opts> <payload> <wchunk> <bpb> <rblock> <mode>
 *   mm <filter> <optsA> <payloadA> <optsB> <payloadB> <rblock> <mode>
 *
 *   filters  gzip,uuencode,...      (order of archive_write_add_filter_* calls)
 *   opts     "-" or  mod:key=value;mod:key;mod:!key   (archive_write_set_filter_option;
 *            "mod:key" passes value "1", "mod:!key" passes NULL)
 *   payload  hex:<hex|->   or   gen:<kind>:<len>:<seed>[:<prefix hex>]   or   segs:<seed>:<seg>,<seg>,…
 *            kinds: rnd (LCG bytes), rep (period-7 pattern), zero, text
 *   wchunk   all | c<N> | a+b+c (sizes cycled); a zero-size entry is a zero-length write
 *   bpb      <bytes_per_block>/<bytes_in_last_block>, "-" = library default for that one
 *   rblock   read block size handed to archive_read_open_memory2
 *   mode     exact (reader enables exactly the written filters) | all
 */
#include "common.h"
#include <archive.h>
#include <archive_entry.h>
#include <zlib.h>

struct sink { unsigned char *b; size_t n, cap; };

static int sink_open(struct archive *a, void *d) { (void)a; (void)d; return ARCHIVE_OK; }
static la_ssize_t sink_write(struct archive *a, void *d, const void *p, size_t n)
{
	(void)a; struct sink *s = d;
	if (n == 0) return 0;
	if (s->n + n > s->cap) { s->cap = (s->n + n) * 2 + 4096; s->b = realloc(s->b, s->cap); }
	memcpy(s->b + s->n, p, n); s->n += n;
	return (la_ssize_t)n;
}

static const struct { const char *w; int (*add)(struct archive *); int (*sup)(struct archive *); } FT[] = {
	{ "gzip", archive_write_add_filter_gzip, archive_read_support_filter_gzip },
	{ "bzip2", archive_write_add_filter_bzip2, archive_read_support_filter_bzip2 },
	{ "xz", archive_write_add_filter_xz, archive_read_support_filter_xz },
	{ "lzma", archive_write_add_filter_lzma, archive_read_support_filter_lzma },
	{ "lzip", archive_write_add_filter_lzip, archive_read_support_filter_lzip },
	{ "zstd", archive_write_add_filter_zstd, archive_read_support_filter_zstd },
	{ "lz4", archive_write_add_filter_lz4, archive_read_support_filter_lz4 },
	{ "compress", archive_write_add_filter_compress, archive_read_support_filter_compress },
	{ "uuencode", archive_write_add_filter_uuencode, archive_read_support_filter_uu },
	{ "b64encode", archive_write_add_filter_b64encode, archive_read_support_filter_uu },
	{ NULL, NULL, NULL }
};

static int ft_find(const char *w) { for (int i = 0; FT[i].w; i++) if (!strcmp(FT[i].w, w)) return i; return -1; }

/* payload generators shared with the model (LA.Flt.genPayload) */
static unsigned char *mk_payload(const char *spec, size_t *n)
{
	if (strncmp(spec, "hex:", 4) == 0) return vh_unhex(spec + 4, n);
	if (strncmp(spec, "segs:", 5) == 0) {
		/* segs:<seed>:<seg>,<seg>,...  seg = t<len> text | r<len> LCG bytes | z<len> zeros |
		 * c<dist>x<len> copy <len> bytes from <dist> bytes back (overlapping, LZ77 style) */
		char *tmp = strdup(spec + 5), *save = NULL;
		char *t = strtok_r(tmp, ":", &save);
		uint64_t s = t ? strtoull(t, NULL, 10) : 0;
		char *list = strtok_r(NULL, ":", &save);
		size_t cap = 1 << 16, len = 0; unsigned char *b = malloc(cap);
		static const char txt[] = "the quick brown fox jumps over the lazy dog\n";
		for (char *g = list ? strtok_r(list, ",", &save) : NULL; g; g = strtok_r(NULL, ",", &save)) {
			char k = g[0]; size_t dist = 0, l;
			if (k == 'c') { dist = strtoull(g + 1, NULL, 10); char *x = strchr(g, 'x'); l = x ? strtoull(x + 1, NULL, 10) : 0; }
			else l = strtoull(g + 1, NULL, 10);
			if (len + l + 1 > cap) { cap = (len + l) * 2 + 16; b = realloc(b, cap); }
			for (size_t i = 0; i < l; i++, len++) {
				if (k == 'r') { s = s * 6364136223846793005ULL + 1442695040888963407ULL; b[len] = (unsigned char)(s >> 56); }
				else if (k == 't') b[len] = (unsigned char)txt[len % (sizeof txt - 1)];
				else if (k == 'c') b[len] = (dist >= 1 && dist <= len) ? b[len - dist] : 0;
				else b[len] = 0;
			}
		}
		free(tmp); *n = len; return b;
	}
	if (strncmp(spec, "gen:", 4) != 0) return NULL;
	char kind[16] = ""; unsigned long long len = 0, seed = 0; char *pre = NULL;
	char *tmp = strdup(spec + 4), *save = NULL;
	char *t = strtok_r(tmp, ":", &save); if (t) snprintf(kind, sizeof kind, "%s", t);
	t = strtok_r(NULL, ":", &save); if (t) len = strtoull(t, NULL, 10);
	t = strtok_r(NULL, ":", &save); if (t) seed = strtoull(t, NULL, 10);
	t = strtok_r(NULL, ":", &save); if (t) pre = t;
	size_t pn = 0; unsigned char *pb = pre ? vh_unhex(pre, &pn) : NULL;
	unsigned char *b = malloc(pn + len + 1);
	if (pn) memcpy(b, pb, pn);
	free(pb);
	unsigned char *q = b + pn;
	uint64_t s = seed;
	static const char txt[] = "the quick brown fox jumps over the lazy dog\n";
	for (size_t i = 0; i < len; i++) {
		if (!strcmp(kind, "rnd")) { s = s * 6364136223846793005ULL + 1442695040888963407ULL; q[i] = (unsigned char)(s >> 56); }
		else if (!strcmp(kind, "rep")) q[i] = (unsigned char)((seed + i % 7) & 0xff);
		else if (!strcmp(kind, "text")) q[i] = (unsigned char)txt[(i + seed) % (sizeof txt - 1)];
		else q[i] = 0;
	}
	free(tmp);
	*n = pn + len;
	return b;
}

static char stbuf[256];
static void st_add(int r) { size_t l = strlen(stbuf); snprintf(stbuf + l, sizeof stbuf - l, "%s%s", l ? "," : "", vh_st(r)); }

/* Apply "mod:key=value;..." ; statuses appended to stbuf. */
static void set_opts(struct archive *a, const char *opts)
{
	stbuf[0] = 0;
	if (!strcmp(opts, "-")) { snprintf(stbuf, sizeof stbuf, "-"); return; }
	char *tmp = strdup(opts), *save = NULL;
	for (char *t = strtok_r(tmp, ";", &save); t; t = strtok_r(NULL, ";", &save)) {
		char *colon = strchr(t, ':'); if (!colon) { st_add(-99); continue; }
		*colon = 0; char *key = colon + 1; const char *val = "1";
		char *eq = strchr(key, '=');
		if (eq) { *eq = 0; val = eq + 1; }
		else if (key[0] == '!') { key++; val = NULL; }
		/* %XX escapes in the value (names with arbitrary bytes) */
		char vbuf[1024]; if (val) { size_t o = 0; for (const char *c = val; *c && o + 1 < sizeof vbuf; c++) {
			if (*c == '%' && vh_hexval(c[1]) >= 0 && vh_hexval(c[2]) >= 0) { vbuf[o++] = (char)(vh_hexval(c[1]) * 16 + vh_hexval(c[2])); c += 2; }
			else vbuf[o++] = *c; } vbuf[o] = 0; val = vbuf; }
		st_add(archive_write_set_filter_option(a, t, key, val));
	}
	free(tmp);
}

/* Encode payload through the stack. Returns worst status; fills sink, wcodes string. */
static int encode(int *fl, int nf, const char *opts, const unsigned char *p, size_t n,
    const char *wchunk, const char *bpb, struct sink *sk, char *wcodes, size_t wcl, char *optst, size_t osl)
{
	int worst = ARCHIVE_OK, r;
#define W(x) do { r = (x); if (r < worst) worst = r; } while (0)
	struct archive *a = archive_write_new();
	W(archive_write_set_format_raw(a));
	for (int i = 0; i < nf; i++) W(FT[fl[i]].add(a));
	set_opts(a, opts);
	snprintf(optst, osl, "%s", stbuf);
	/* bpb = "<bytes_per_block>/<bytes_in_last_block>", "-" = leave the library default */
	{ char tmpb[64]; snprintf(tmpb, sizeof tmpb, "%s", bpb); char *sl = strchr(tmpb, '/');
	  if (sl) { *sl = 0; if (strcmp(sl + 1, "-")) W(archive_write_set_bytes_in_last_block(a, atoi(sl + 1))); }
	  if (strcmp(tmpb, "-")) W(archive_write_set_bytes_per_block(a, atoi(tmpb))); }
	W(archive_write_open2(a, sk, sink_open, sink_write, NULL, NULL));
	wcodes[0] = 0;
	int fc = archive_filter_count(a);
	for (int i = 0; i < fc; i++) { size_t l = strlen(wcodes); snprintf(wcodes + l, wcl - l, "%s%d", l ? "," : "", archive_filter_code(a, i)); }
	if (fc == 0) snprintf(wcodes, wcl, "-");
	if (worst > ARCHIVE_FATAL) {
		struct archive_entry *e = archive_entry_new();
		archive_entry_set_pathname(e, "data");
		archive_entry_set_filetype(e, AE_IFREG);
		archive_entry_set_perm(e, 0644);
		W(archive_write_header(a, e));
		archive_entry_free(e);
		/* chunked writes */
		size_t sizes[64]; int ns = 0;
		if (!strcmp(wchunk, "all")) { sizes[0] = n; ns = 1; if (n == 0) ns = 0; }
		else if (wchunk[0] == 'c') { sizes[0] = strtoul(wchunk + 1, NULL, 10); ns = 1; }
		else { char *tmp = strdup(wchunk), *save = NULL;
			for (char *t = strtok_r(tmp, "+", &save); t && ns < 64; t = strtok_r(NULL, "+", &save)) sizes[ns++] = strtoul(t, NULL, 10);
			free(tmp); }
		int allzero = 1; for (int i = 0; i < ns; i++) if (sizes[i]) allzero = 0;
		if (ns > 0 && allzero) { sizes[0] = n ? n : 1; ns = 1; }
		/* sizes are cycled until the payload is exhausted; with an empty payload and a
		 * chunk list this is exactly one zero-length write, with "all" no write at all */
		size_t off = 0; int k = 0;
		while (ns > 0 && worst > ARCHIVE_FATAL) {
			size_t want = sizes[k % ns]; k++;
			if (want > n - off) want = n - off;
			/* exact-size heap copy so that an over-read of the caller's buffer is caught */
			unsigned char *c = malloc(want ? want : 1); memcpy(c, p + off, want);
			la_ssize_t wr = archive_write_data(a, c, want);
			free(c);
			if (wr < 0) { W((int)wr); break; }
			if ((size_t)wr != want) { worst = -98; break; }
			off += want;
			if (off == n) break;
		}
	}
	W(archive_write_close(a));
	W(archive_write_free(a));
	return worst;
#undef W
}

/* Does some read bidder claim the plain payload?  (C03's documented exception: with all
 * filters enabled the reader keeps unwrapping a payload that begins with a signature.) */
static int payload_claimed(const unsigned char *p, size_t n)
{
	struct archive *a = archive_read_new();
	archive_read_support_filter_all(a);
	archive_read_support_format_raw(a);
	archive_read_support_format_empty(a);
	unsigned char *src = malloc(n ? n : 1); if (n) memcpy(src, p, n);
	int r = archive_read_open_memory(a, src, n);
	int claimed = (r != ARCHIVE_OK) || archive_filter_count(a) > 1;
	archive_read_free(a); free(src);
	return claimed;
}

/* Decode `enc`; prints the reader half of the line. */
static void decode(int *fl, int nf, int all, const unsigned char *enc, size_t en, size_t rblock,
    const unsigned char *want, size_t wn)
{
	struct archive *a = archive_read_new();
	if (all) archive_read_support_filter_all(a);
	else for (int i = 0; i < nf; i++) FT[fl[i]].sup(a);
	archive_read_support_format_raw(a);
	archive_read_support_format_empty(a);
	/* exact-size heap copy: an over-read past the encoded bytes is an ASan report */
	unsigned char *src = malloc(en ? en : 1); memcpy(src, enc, en);
	int r = archive_read_open_memory2(a, src, en, rblock);
	printf(" r=%s", vh_st(r));
	struct sink out = { NULL, 0, 0 };
	char codes[256] = "", names[512] = "";
	int hdr = -99, dst = 0, endst = -99;
	long long ub = -1;
	if (r >= ARCHIVE_WARN) {
		struct archive_entry *e;
		hdr = archive_read_next_header(a, &e);
		int fc = archive_filter_count(a);
		for (int i = 0; i < fc; i++) {
			size_t l = strlen(codes); snprintf(codes + l, sizeof codes - l, "%s%d", l ? "," : "", archive_filter_code(a, i));
			l = strlen(names); const char *nm = archive_filter_name(a, i);
			snprintf(names + l, sizeof names - l, "%s%s", l ? "," : "", nm ? nm : "?");
		}
		for (char *c = names; *c; c++) if (*c == ' ') *c = '_';
		if (hdr == ARCHIVE_OK || hdr == ARCHIVE_WARN) {
			static unsigned char buf[70001];
			for (;;) {
				la_ssize_t k = archive_read_data(a, buf, sizeof buf);
				if (k < 0) { dst = (int)k; break; }
				if (k == 0) break;
				sink_write(NULL, &out, buf, (size_t)k);
			}
			ub = (long long)archive_filter_bytes(a, 0);
			if (dst == 0) endst = archive_read_next_header(a, &e);
		}
	}
	int eq = (out.n == wn && (wn == 0 || memcmp(out.b, want, wn) == 0));
	size_t fd = 0; while (fd < out.n && fd < wn && out.b[fd] == want[fd]) fd++;
	printf(" hdr=%s data=%s dec=%zu:%016llx eq=%d", hdr == -99 ? "-" : vh_st(hdr), vh_st(dst), out.n,
	    (unsigned long long)vh_fnv(out.b, out.n), eq);
	if (!eq) printf("@%zu", fd);
	printf(" ubytes=%lld rcodes=%s rnames=%s end=%s", ub, codes[0] ? codes : "-", names[0] ? names : "-",
	    endst == -99 ? "-" : vh_st(endst));
	int c = archive_read_close(a); int f = archive_read_free(a);
	printf(" close=%s\n", vh_st(c < f ? c : f));
	free(out.b); free(src);
}

static int parse_stack(char *s, int *fl)
{
	int nf = 0; char *save = NULL;
	if (!strcmp(s, "-")) return 0;
	for (char *t = strtok_r(s, ",", &save); t && nf < 8; t = strtok_r(NULL, ",", &save)) {
		int k = ft_find(t); if (k < 0) return -1; fl[nf++] = k;
	}
	return nf;
}

static int only_text(int *fl, int nf) { for (int i = 0; i < nf; i++) if (fl[i] < 8) return 0; return nf > 0; }

static void f_begin(void) {}
static void f_end(void) {}

static void f_op(char *line)
{
	char *w[16]; int n = vh_split(line, w, 16);
	int fl[8];
	if (n == 8 && !strcmp(w[0], "rt")) {
		int nf = parse_stack(w[1], fl);
		size_t pn = 0; unsigned char *p = mk_payload(w[3], &pn);
		if (nf < 0 || p == NULL) { printf("bad-op\n"); return; }
		struct sink sk = { NULL, 0, 0 }; char wcodes[128], optst[256];
		int ws = encode(fl, nf, w[2], p, pn, w[4], w[5], &sk, wcodes, sizeof wcodes, optst, sizeof optst);
		printf("w=%s opts=%s wcodes=%s enc=%zu:%016llx", vh_st(ws), optst, wcodes, sk.n, (unsigned long long)vh_fnv(sk.b, sk.n));
		if (only_text(fl, nf) && sk.n <= 400) { printf(" hex="); vh_puthex(sk.b, sk.n); }
		if (nf == 1 && !strcmp(FT[fl[0]].w, "gzip") && sk.n >= 18 && strstr(w[5], "/1")) {
			printf(" gz="); vh_puthex(sk.b, 10); putchar(':'); vh_puthex(sk.b + sk.n - 8, 8);
		}
		printf(" psig=%d", payload_claimed(p, pn));
		decode(fl, nf, !strcmp(w[7], "all"), sk.b, sk.n, strtoul(w[6], NULL, 10), p, pn);
		free(sk.b); free(p);
	} else if (n == 8 && !strcmp(w[0], "mm")) {
		int nf = parse_stack(w[1], fl);
		size_t an = 0, bn = 0; unsigned char *pa = mk_payload(w[3], &an), *pb = mk_payload(w[5], &bn);
		if (nf < 0 || !pa || !pb) { printf("bad-op\n"); return; }
		struct sink sa = { NULL, 0, 0 }, sb = { NULL, 0, 0 }; char wcodes[128], optst[256];
		int wa = encode(fl, nf, w[2], pa, an, "all", "-/1", &sa, wcodes, sizeof wcodes, optst, sizeof optst);
		int wb = encode(fl, nf, w[4], pb, bn, "c4097", "-/1", &sb, wcodes, sizeof wcodes, optst, sizeof optst);
		unsigned char *cat = malloc(sa.n + sb.n + 1), *both = malloc(an + bn + 1);
		if (sa.n) memcpy(cat, sa.b, sa.n);
		if (sb.n) memcpy(cat + sa.n, sb.b, sb.n);
		if (an) memcpy(both, pa, an);
		if (bn) memcpy(both + an, pb, bn);
		printf("wa=%s wb=%s wcodes=%s encA=%zu encB=%zu psig=%d", vh_st(wa), vh_st(wb), wcodes, sa.n, sb.n, payload_claimed(both, an + bn));
		decode(fl, nf, !strcmp(w[7], "all"), cat, sa.n + sb.n, strtoul(w[6], NULL, 10), both, an + bn);
		free(sa.b); free(sb.b); free(cat); free(both); free(pa); free(pb);
	} else if (n >= 8 && n % 2 == 0 && !strcmp(w[0], "mmn")) {
		/* mmn <filter> <rblock> <mode> <opts1> <payload1> <opts2> <payload2> [...]: members written
		 * separately, each with its own options, concatenated and read back as one stream */
		int nf = parse_stack(w[1], fl);
		if (nf < 0) { printf("bad-op\n"); return; }
		struct sink cat = { NULL, 0, 0 }, both = { NULL, 0, 0 }; char wcodes[128] = "", optst[256];
		int worst = ARCHIVE_OK; char sizes[128] = "";
		for (int i = 4; i + 1 < n; i += 2) {
			size_t pn = 0; unsigned char *p = mk_payload(w[i + 1], &pn);
			if (!p) { printf("bad-op\n"); return; }
			struct sink sk = { NULL, 0, 0 };
			int r = encode(fl, nf, w[i], p, pn, (i / 2) % 2 ? "c4097" : "all", "-/1", &sk, wcodes, sizeof wcodes, optst, sizeof optst);
			if (r < worst) worst = r;
			size_t l = strlen(sizes); snprintf(sizes + l, sizeof sizes - l, "%s%zu", l ? "," : "", sk.n);
			sink_write(NULL, &cat, sk.b, sk.n); sink_write(NULL, &both, p, pn);
			free(sk.b); free(p);
		}
		printf("w=%s wcodes=%s encs=%s psig=%d", vh_st(worst), wcodes, sizes, payload_claimed(both.b, both.n));
		decode(fl, nf, !strcmp(w[3], "all"), cat.b, cat.n, strtoul(w[2], NULL, 10), both.b, both.n);
		free(cat.b); free(both.b);
	} else if (n == 6 && !strcmp(w[0], "tr")) {
		/* tr <text stack> <opts> <payload> <cut> <rblock>: encode, keep only a prefix of the encoded
		 * bytes ("-k": drop the last k bytes, "pN": keep N/1000 of them, "lJ": begin line + J lines), read with exactly those filters.
		 * st = ok (clean end) | fatal (any failure); on ok also whether the bytes read equal the payload */
		int nf = parse_stack(w[1], fl);
		size_t pn = 0; unsigned char *p = mk_payload(w[3], &pn);
		if (nf <= 0 || p == NULL || !only_text(fl, nf)) { printf("bad-op\n"); return; }
		struct sink sk = { NULL, 0, 0 }; char wcodes[128], optst[256];
		int ws = encode(fl, nf, w[2], p, pn, "all", "-/1", &sk, wcodes, sizeof wcodes, optst, sizeof optst);
		size_t lkeep = 0;
		if (w[4][0] == 'l') {   /* "lJ": keep the first line (begin) and J more complete lines */
			unsigned long want = strtoul(w[4] + 1, NULL, 10) + 1, seen = 0;
			for (size_t i = 0; i < sk.n && seen < want; i++) if (sk.b[i] == '\n') { seen++; lkeep = i + 1; }
		}
		size_t keep = w[4][0] == 'l' ? lkeep : w[4][0] == '-' ? (sk.n >= strtoul(w[4] + 1, NULL, 10) ? sk.n - strtoul(w[4] + 1, NULL, 10) : 0)
		    : (size_t)((unsigned long long)sk.n * strtoul(w[4] + 1, NULL, 10) / 1000);
		struct archive *a = archive_read_new();
		for (int i = 0; i < nf; i++) FT[fl[i]].sup(a);
		archive_read_support_format_raw(a); archive_read_support_format_empty(a);
		unsigned char *src = malloc(keep ? keep : 1); memcpy(src, sk.b, keep);
		int bad = archive_read_open_memory2(a, src, keep, strtoul(w[5], NULL, 10)) != ARCHIVE_OK;
		struct sink out = { NULL, 0, 0 }; struct archive_entry *e; int fc = 0;
		if (!bad) {
			int h = archive_read_next_header(a, &e);
			fc = archive_filter_count(a) - 1;
			if (h == ARCHIVE_OK) {
				static unsigned char buf[70001];
				for (;;) { la_ssize_t k = archive_read_data(a, buf, sizeof buf); if (k < 0) { bad = 1; break; } if (k == 0) break;
					sink_write(NULL, &out, buf, (size_t)k); }
			} else if (h != ARCHIVE_EOF) bad = 1;
		}
		printf("w=%s enc=%zu keep=%zu filters=%d st=%s", vh_st(ws), sk.n, keep, bad ? -1 : fc, bad ? "fatal" : "ok");
		if (!bad) printf(" dec=%zu:%016llx full=%d", out.n, (unsigned long long)vh_fnv(out.b, out.n),
		    out.n == pn && (pn == 0 || memcmp(out.b, p, pn) == 0));
		printf("\n");
		archive_read_free(a); free(src); free(out.b); free(sk.b); free(p);
	} else if (n == 5 && !strcmp(w[0], "gz")) {
		/* gz <header hex> <payload> <trailer hex (8 bytes, arbitrary)> <rblock>:
		 * a hand-made gzip member (header with optional fields as given, raw deflate of the
		 * payload by zlib, the given trailer) through the real gzip read filter */
		size_t hn = 0, tn = 0, pn = 0;
		unsigned char *h = vh_unhex(w[1], &hn), *p = mk_payload(w[2], &pn), *t = vh_unhex(w[3], &tn);
		if (!p) { printf("bad-op\n"); return; }
		z_stream z; memset(&z, 0, sizeof z);
		deflateInit2(&z, 6, Z_DEFLATED, -15, 8, Z_DEFAULT_STRATEGY);
		size_t cap = deflateBound(&z, pn) + 64;
		unsigned char *m = malloc(hn + cap + tn + 1);
		memcpy(m, h, hn);
		z.next_in = p; z.avail_in = (uInt)pn; z.next_out = m + hn; z.avail_out = (uInt)cap;
		deflate(&z, Z_FINISH);
		size_t dn = cap - z.avail_out; deflateEnd(&z);
		memcpy(m + hn + dn, t, tn);
		int gz = ft_find("gzip");
		printf("member=%zu", hn + dn + tn);
		decode(&gz, 1, 0, m, hn + dn + tn, strtoul(w[4], NULL, 10), p, pn);
		free(m); free(h); free(p); free(t);
	} else printf("bad-op\n");
}

int main(int argc, char **argv)
{
	struct vh_engine e = { f_begin, f_op, f_end };
	return vh_main(argc, argv, &e);
}
