#include "archive_write_set_format_cpio_odc.c"
#include "codec_inc.h"
int vhx_odc_format_octal(int64_t v, char *p, int s) { return format_octal(v, p, s); }
