#include "archive_write_set_format_pax.c"
#include "codec_inc.h"
/* one pax extended-header record `len key=value\n` as add_pax_attr_binary builds it */
size_t vhx_pax_record(const char *key, const char *value, size_t value_len, char *out, size_t cap)
{
	struct archive_string as;
	archive_string_init(&as);
	add_pax_attr_binary(&as, key, value, value_len);
	size_t n = archive_strlen(&as);
	if (n > cap) n = cap;
	memcpy(out, as.s, n);
	archive_string_free(&as);
	return n;
}
