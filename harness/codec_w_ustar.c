#include "archive_write_set_format_ustar.c"
#include "codec_inc.h"
int vhx_ustar_format_octal(int64_t v, char *p, int s) { return format_octal(v, p, s); }
int vhx_ustar_format_number(int64_t v, char *p, int s, int max, int strict) { return format_number(v, p, s, max, strict); }
int vhx_ustar_format_256(int64_t v, char *p, int s) { return format_256(v, p, s); }
