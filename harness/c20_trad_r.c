/* Reader's copy of the traditional PKWARE functions (static in
 * archive_read_support_format_zip.c), exported for harness/eng_trad.c. */
#include "archive_read_support_format_zip.c"

void vr_update_keys(uint32_t *k, uint8_t c) { trad_enc_update_keys((struct trad_enc_ctx *)k, c); }
uint8_t vr_decrypt_byte(uint32_t *k) { return trad_enc_decrypt_byte((struct trad_enc_ctx *)k); }
void vr_decrypt_update(uint32_t *k, const uint8_t *in, size_t in_len, uint8_t *out, size_t out_len)
{ trad_enc_decrypt_update((struct trad_enc_ctx *)k, in, in_len, out, out_len); }
int vr_init(uint32_t *k, const char *pw, size_t pw_len, const uint8_t *key, size_t key_len, uint8_t *crcchk)
{ return trad_enc_init((struct trad_enc_ctx *)k, pw, pw_len, key, key_len, crcchk); }
size_t vr_ctx_size(void) { return sizeof(struct trad_enc_ctx); }
