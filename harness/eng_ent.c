/* Engine `ent` (C14): drives a real struct archive_entry (and a clone of it) with
 * setter / unsetter / copy_stat / clear / clone operations and prints, after every
 * operation, what every covered getter returns for the original and for the clone.
 *
 * Line protocol:  [c:]<op> <args...>      ("c:" = apply to the clone instead)
 *                 clone | drop_clone | reset  (reset = release both, start over with a new entry)
 * Output:         r=<return value> <dump of original>[ || <dump of clone>]
 *
 * Strings travel as hex of their bytes, "~" = NULL, "-" = empty.  A string getter is
 * printed once when its multibyte, UTF-8 and wide views agree (the wide view is
 * re-encoded to UTF-8 by this file, not by libarchive) and as mbs|utf8|wcs otherwise.
 *
 * The sparse and xattr lists are dumped by walking the private lists (the public
 * iterator API changes state: sparse_reset()/count() may drop the list, both reset
 * the cursor); the public iterator functions are separate operations.
 */
#include "common.h"
#include <wchar.h>
#include <locale.h>
#include <sys/stat.h>
#include <archive.h>
#include <archive_entry.h>
#include "archive_entry_private.h"

static struct archive_entry *E, *C;

/* ---- string helpers ------------------------------------------------------ */

/* hex | "~" | "-"  ->  malloc'd NUL-terminated string or NULL */
static char *arg_str(const char *s)
{
	if (strcmp(s, "~") == 0) return NULL;
	size_t n; unsigned char *b = vh_unhex(s, &n);
	char *r = malloc(n + 1); memcpy(r, b, n); r[n] = 0; free(b);
	return r;
}

/* strict UTF-8 -> wchar_t (our own decoder; invalid bytes become U+FFFD) */
static wchar_t *utf8_to_w(const char *s)
{
	if (s == NULL) return NULL;
	size_t n = strlen(s); wchar_t *w = malloc((n + 1) * sizeof *w); size_t k = 0;
	const unsigned char *p = (const unsigned char *)s;
	while (*p) {
		unsigned c = *p, len = c < 0x80 ? 1 : (c & 0xe0) == 0xc0 ? 2 : (c & 0xf0) == 0xe0 ? 3 : (c & 0xf8) == 0xf0 ? 4 : 0;
		if (len == 0) { w[k++] = 0xfffd; p++; continue; }
		unsigned cp = len == 1 ? c : c & (0xff >> (len + 1)); unsigned i;
		for (i = 1; i < len; i++) { if ((p[i] & 0xc0) != 0x80) break; cp = (cp << 6) | (p[i] & 0x3f); }
		if (i < len) { w[k++] = 0xfffd; p++; continue; }
		w[k++] = (wchar_t)cp; p += len;
	}
	w[k] = 0; return w;
}

static void put_w_as_utf8(const wchar_t *w)
{
	if (w == NULL) { putchar('~'); return; }
	if (*w == 0) { putchar('-'); return; }
	for (; *w; w++) {
		unsigned long c = (unsigned long)*w; unsigned char b[4]; int n;
		if (c < 0x80) { b[0] = c; n = 1; }
		else if (c < 0x800) { b[0] = 0xc0 | (c >> 6); b[1] = 0x80 | (c & 0x3f); n = 2; }
		else if (c < 0x10000) { b[0] = 0xe0 | (c >> 12); b[1] = 0x80 | ((c >> 6) & 0x3f); b[2] = 0x80 | (c & 0x3f); n = 3; }
		else { b[0] = 0xf0 | ((c >> 18) & 7); b[1] = 0x80 | ((c >> 12) & 0x3f); b[2] = 0x80 | ((c >> 6) & 0x3f); b[3] = 0x80 | (c & 0x3f); n = 4; }
		for (int i = 0; i < n; i++) printf("%02x", b[i]);
	}
}

static void put_s(const char *s)
{
	if (s == NULL) putchar('~'); else vh_puthex(s, strlen(s));
}

static int same_w(const char *m, const wchar_t *w)
{
	if (m == NULL || w == NULL) return m == NULL && w == NULL;
	wchar_t *x = utf8_to_w(m); int r = wcscmp(x, w) == 0; free(x); return r;
}

static void put_views(const char *k, const char *m, const char *u, const wchar_t *w, int have_u, int have_w)
{
	int agree = 1;
	if (have_u && !((m == NULL && u == NULL) || (m && u && strcmp(m, u) == 0))) agree = 0;
	if (have_w && !same_w(m, w)) agree = 0;
	printf(" %s=", k);
	put_s(m);
	if (!agree) {
		putchar('|'); if (have_u) put_s(u); else putchar('.');
		putchar('|'); if (have_w) put_w_as_utf8(w); else putchar('.');
	}
}

/* ---- dump ------------------------------------------------------------------ */

static void dump(struct archive_entry *e)
{
	printf("at=%lld,%ld,%d", (long long)archive_entry_atime(e), archive_entry_atime_nsec(e), archive_entry_atime_is_set(e) != 0);
	printf(" bt=%lld,%ld,%d", (long long)archive_entry_birthtime(e), archive_entry_birthtime_nsec(e), archive_entry_birthtime_is_set(e) != 0);
	printf(" ct=%lld,%ld,%d", (long long)archive_entry_ctime(e), archive_entry_ctime_nsec(e), archive_entry_ctime_is_set(e) != 0);
	printf(" mt=%lld,%ld,%d", (long long)archive_entry_mtime(e), archive_entry_mtime_nsec(e), archive_entry_mtime_is_set(e) != 0);
	printf(" dev=%llu,%llu,%llu,%d", (unsigned long long)archive_entry_dev(e), (unsigned long long)archive_entry_devmajor(e),
	    (unsigned long long)archive_entry_devminor(e), archive_entry_dev_is_set(e) != 0);
	printf(" rdev=%llu,%llu,%llu,%d", (unsigned long long)archive_entry_rdev(e), (unsigned long long)archive_entry_rdevmajor(e),
	    (unsigned long long)archive_entry_rdevminor(e), archive_entry_rdev_is_set(e) != 0);
	printf(" ino=%lld,%lld,%d", (long long)archive_entry_ino(e), (long long)archive_entry_ino64(e), archive_entry_ino_is_set(e) != 0);
	printf(" nl=%u", archive_entry_nlink(e));
	printf(" uid=%lld,%d gid=%lld,%d", (long long)archive_entry_uid(e), archive_entry_uid_is_set(e) != 0,
	    (long long)archive_entry_gid(e), archive_entry_gid_is_set(e) != 0);
	printf(" sz=%lld,%d", (long long)archive_entry_size(e), archive_entry_size_is_set(e) != 0);
	printf(" mode=%o ft=%o,%d perm=%o,%d", (unsigned)archive_entry_mode(e), (unsigned)archive_entry_filetype(e),
	    archive_entry_filetype_is_set(e) != 0, (unsigned)archive_entry_perm(e), archive_entry_perm_is_set(e) != 0);
	{
		char sm[16]; snprintf(sm, sizeof sm, "%s", archive_entry_strmode(e));
		for (char *p = sm; *p; p++) if (*p == ' ') *p = '_';
		printf(" sm=%s", sm);
	}
	put_views("p", archive_entry_pathname(e), archive_entry_pathname_utf8(e), archive_entry_pathname_w(e), 1, 1);
	put_views("un", archive_entry_uname(e), archive_entry_uname_utf8(e), archive_entry_uname_w(e), 1, 1);
	put_views("gn", archive_entry_gname(e), archive_entry_gname_utf8(e), archive_entry_gname_w(e), 1, 1);
	put_views("sp", archive_entry_sourcepath(e), NULL, archive_entry_sourcepath_w(e), 0, 1);
	put_views("hl", archive_entry_hardlink(e), archive_entry_hardlink_utf8(e), archive_entry_hardlink_w(e), 1, 1);
	printf(",%d", archive_entry_hardlink_is_set(e));
	put_views("sl", archive_entry_symlink(e), archive_entry_symlink_utf8(e), archive_entry_symlink_w(e), 1, 1);
	{
		unsigned long s, c; archive_entry_fflags(e, &s, &c);
		printf(" ff=%lu,%lu", s, c);
		printf(" fft="); put_s(archive_entry_fflags_text(e));
	}
	printf(" slt=%d", archive_entry_symlink_type(e));
	printf(" enc=%d,%d,%d", archive_entry_is_data_encrypted(e), archive_entry_is_metadata_encrypted(e), archive_entry_is_encrypted(e));
	printf(" sps=");
	if (e->sparse_head == NULL) putchar('-');
	for (struct ae_sparse *sp = e->sparse_head; sp != NULL; sp = sp->next)
		printf("%lld:%lld;", (long long)sp->offset, (long long)sp->length);
	printf(" xa=");
	if (e->xattr_head == NULL) putchar('-');
	for (struct ae_xattr *xp = e->xattr_head; xp != NULL; xp = xp->next) {
		vh_puthex(xp->name, strlen(xp->name)); putchar(':'); vh_puthex(xp->value, xp->size); putchar(';');
	}
	{
		size_t n; const void *p = archive_entry_mac_metadata(e, &n);
		printf(" mac="); if (p == NULL) printf("~"); else vh_puthex(p, n);
		printf(",%zu", n);
	}
	printf(" dg=");
	for (int t = 1; t <= 6; t++) {
		static const int sz[7] = { 0, 16, 20, 20, 32, 48, 64 };
		const unsigned char *d = archive_entry_digest(e, t);
		int z = 1; for (int i = 0; i < sz[t]; i++) if (d[i]) z = 0;
		if (z) putchar('0'); else vh_puthex(d, sz[t]);
		putchar(t == 6 ? ' ' : ',');
	}
	printf("dgx=%d", archive_entry_digest(e, 7) == NULL && archive_entry_digest(e, 0) == NULL);
}

/* ---- operations ------------------------------------------------------------ */

#define IS(s) (strcmp(w[0], s) == 0)
#define LL(i) strtoll(w[i], NULL, 10)
#define ULL(i) strtoull(w[i], NULL, 10)

static void e_begin(void) { setlocale(LC_ALL, ""); E = archive_entry_new(); C = NULL; }

static void e_op(char *line)
{
	char *w[20]; int n = vh_split(line, w, 20);
	struct archive_entry *e = E;
	char ret[64] = "-";
	if (n >= 1 && strncmp(w[0], "c:", 2) == 0) {
		w[0] += 2; e = C;
		if (e == NULL) { printf("noclone\n"); return; }
	}
	if (n == 0) { printf("bad-op\n"); return; }

	if (n == 3 && IS("set_atime")) archive_entry_set_atime(e, (time_t)LL(1), (long)LL(2));
	else if (n == 3 && IS("set_birthtime")) archive_entry_set_birthtime(e, (time_t)LL(1), (long)LL(2));
	else if (n == 3 && IS("set_ctime")) archive_entry_set_ctime(e, (time_t)LL(1), (long)LL(2));
	else if (n == 3 && IS("set_mtime")) archive_entry_set_mtime(e, (time_t)LL(1), (long)LL(2));
	else if (n == 1 && IS("unset_atime")) archive_entry_unset_atime(e);
	else if (n == 1 && IS("unset_birthtime")) archive_entry_unset_birthtime(e);
	else if (n == 1 && IS("unset_ctime")) archive_entry_unset_ctime(e);
	else if (n == 1 && IS("unset_mtime")) archive_entry_unset_mtime(e);
	else if (n == 2 && IS("set_size")) archive_entry_set_size(e, LL(1));
	else if (n == 1 && IS("unset_size")) archive_entry_unset_size(e);
	else if (n == 2 && IS("set_dev")) archive_entry_set_dev(e, (dev_t)ULL(1));
	else if (n == 2 && IS("set_devmajor")) archive_entry_set_devmajor(e, (dev_t)ULL(1));
	else if (n == 2 && IS("set_devminor")) archive_entry_set_devminor(e, (dev_t)ULL(1));
	else if (n == 2 && IS("set_rdev")) archive_entry_set_rdev(e, (dev_t)ULL(1));
	else if (n == 2 && IS("set_rdevmajor")) archive_entry_set_rdevmajor(e, (dev_t)ULL(1));
	else if (n == 2 && IS("set_rdevminor")) archive_entry_set_rdevminor(e, (dev_t)ULL(1));
	else if (n == 2 && IS("set_ino")) archive_entry_set_ino(e, LL(1));
	else if (n == 2 && IS("set_ino64")) archive_entry_set_ino64(e, LL(1));
	else if (n == 2 && IS("set_nlink")) archive_entry_set_nlink(e, (unsigned)ULL(1));
	else if (n == 2 && IS("set_uid")) archive_entry_set_uid(e, LL(1));
	else if (n == 2 && IS("set_gid")) archive_entry_set_gid(e, LL(1));
	else if (n == 2 && IS("set_mode")) archive_entry_set_mode(e, (mode_t)ULL(1));
	else if (n == 2 && IS("set_perm")) archive_entry_set_perm(e, (mode_t)ULL(1));
	else if (n == 2 && IS("set_filetype")) archive_entry_set_filetype(e, (unsigned)ULL(1));
	else if (n == 3 && IS("set_fflags")) archive_entry_set_fflags(e, ULL(1), ULL(2));
	else if (n == 2 && IS("copy_fflags_text") && strcmp(w[1], "~") != 0) {
		char *s = arg_str(w[1]); const char *f = archive_entry_copy_fflags_text(e, s);
		if (f == NULL) snprintf(ret, sizeof ret, "null"); else snprintf(ret, sizeof ret, "%ld", (long)(f - s));
		free(s);
	}
	else if (n == 2 && IS("copy_fflags_text_w") && strcmp(w[1], "~") != 0) {
		char *s = arg_str(w[1]); wchar_t *ws = utf8_to_w(s); const wchar_t *f = archive_entry_copy_fflags_text_w(e, ws);
		if (f == NULL) snprintf(ret, sizeof ret, "null"); else snprintf(ret, sizeof ret, "%ld", (long)(f - ws));
		free(s); free(ws);
	}
	else if (n == 1 && IS("fflags_text")) {
		const char *t = archive_entry_fflags_text(e);
		printf("r="); put_s(t); ret[0] = 0;
	}
	else if (n == 2 && IS("set_symlink_type")) archive_entry_set_symlink_type(e, (int)LL(1));
	else if (n == 2 && IS("set_is_data_encrypted")) archive_entry_set_is_data_encrypted(e, (char)LL(1));
	else if (n == 2 && IS("set_is_metadata_encrypted")) archive_entry_set_is_metadata_encrypted(e, (char)LL(1));
	else if (n == 1 && IS("set_link_to_hardlink")) archive_entry_set_link_to_hardlink(e);
	else if (n == 1 && IS("set_link_to_symlink")) archive_entry_set_link_to_symlink(e);
	else if (n == 3 && IS("sparse_add")) archive_entry_sparse_add_entry(e, LL(1), LL(2));
	else if (n == 1 && IS("sparse_clear")) archive_entry_sparse_clear(e);
	else if (n == 1 && IS("sparse_count")) snprintf(ret, sizeof ret, "%d", archive_entry_sparse_count(e));
	else if (n == 1 && IS("sparse_reset")) snprintf(ret, sizeof ret, "%d", archive_entry_sparse_reset(e));
	else if (n == 1 && IS("sparse_next")) {
		la_int64_t o = 77, l = 77; int r = archive_entry_sparse_next(e, &o, &l);
		snprintf(ret, sizeof ret, "%s,%lld,%lld", vh_st(r), (long long)o, (long long)l);
	}
	else if (n == 3 && IS("xattr_add")) {
		char *nm = arg_str(w[1]); size_t vn; unsigned char *v = vh_unhex(w[2], &vn);
		if (nm != NULL) archive_entry_xattr_add_entry(e, nm, v, vn);
		free(nm); free(v);
	}
	else if (n == 1 && IS("xattr_clear")) archive_entry_xattr_clear(e);
	else if (n == 1 && IS("xattr_count")) snprintf(ret, sizeof ret, "%d", archive_entry_xattr_count(e));
	else if (n == 1 && IS("xattr_reset")) snprintf(ret, sizeof ret, "%d", archive_entry_xattr_reset(e));
	else if (n == 1 && IS("xattr_next")) {
		const char *nm = (const char *)1; const void *v = (const void *)1; size_t s = 77;
		int r = archive_entry_xattr_next(e, &nm, &v, &s);
		printf("r=%s,", vh_st(r)); put_s(nm); putchar(',');
		if (v == NULL) putchar('~'); else vh_puthex(v, s);
		printf(",%zu", s);
		ret[0] = 0;
	}
	else if (n == 2 && IS("copy_mac_metadata")) {
		if (strcmp(w[1], "~") == 0) archive_entry_copy_mac_metadata(e, NULL, 0);
		else { size_t vn; unsigned char *v = vh_unhex(w[1], &vn); archive_entry_copy_mac_metadata(e, v, vn); free(v); }
	}
	else if (n == 3 && IS("set_digest")) {
		size_t vn; unsigned char *v = vh_unhex(w[2], &vn);
		unsigned char buf[64]; memset(buf, 0, sizeof buf); memcpy(buf, v, vn < 64 ? vn : 64); free(v);
		snprintf(ret, sizeof ret, "%s", vh_st(archive_entry_set_digest(e, (int)LL(1), buf)));
	}
	else if (n == 15 && IS("copy_stat")) {
		struct stat st; memset(&st, 0, sizeof st);
		st.st_atime = (time_t)LL(1); st.st_atim.tv_nsec = (long)LL(2);
		st.st_ctime = (time_t)LL(3); st.st_ctim.tv_nsec = (long)LL(4);
		st.st_mtime = (time_t)LL(5); st.st_mtim.tv_nsec = (long)LL(6);
		st.st_dev = (dev_t)ULL(7); st.st_gid = (gid_t)ULL(8); st.st_uid = (uid_t)ULL(9);
		st.st_ino = (ino_t)ULL(10); st.st_nlink = (nlink_t)ULL(11); st.st_rdev = (dev_t)ULL(12);
		st.st_size = (off_t)LL(13); st.st_mode = (mode_t)ULL(14);
		archive_entry_copy_stat(e, &st);
	}
	else if (n == 1 && IS("stat")) {
		const struct stat *st = archive_entry_stat(e);
		printf("r=%lld,%ld,%lld,%ld,%lld,%ld,%llu,%u,%u,%llu,%llu,%llu,%lld,%o",
		    (long long)st->st_atime, (long)st->st_atim.tv_nsec, (long long)st->st_ctime, (long)st->st_ctim.tv_nsec,
		    (long long)st->st_mtime, (long)st->st_mtim.tv_nsec, (unsigned long long)st->st_dev,
		    (unsigned)st->st_gid, (unsigned)st->st_uid, (unsigned long long)st->st_ino,
		    (unsigned long long)st->st_nlink, (unsigned long long)st->st_rdev, (long long)st->st_size,
		    (unsigned)st->st_mode);
		ret[0] = 0;
	}
	else if (n == 1 && IS("clear")) archive_entry_clear(e);
	else if (n == 1 && IS("clone")) {
		/* always clones the original; a previous clone is released */
		if (C != NULL) archive_entry_free(C);
		C = archive_entry_clone(E);
	}
	else if (n == 1 && IS("drop_clone")) { if (C != NULL) archive_entry_free(C); C = NULL; }
	else if (n == 1 && IS("reset")) {
		/* start a new history inside the same process: fresh entry, no clone */
		archive_entry_free(E); if (C != NULL) archive_entry_free(C);
		E = archive_entry_new(); C = NULL;
	}
	else if (n == 2) {
		/* string setters: <api> <hex|~|-> */
		char *s = arg_str(w[1]); wchar_t *ws = NULL; int ok = 1;
#define S0(name, call) else if (IS(name)) { call; }
#define SW(name, call) else if (IS(name)) { ws = utf8_to_w(s); call; }
#define SR(name, call) else if (IS(name)) { snprintf(ret, sizeof ret, "%d", call); }
		if (0) ;
		S0("set_pathname", archive_entry_set_pathname(e, s))
		S0("set_pathname_utf8", archive_entry_set_pathname_utf8(e, s))
		S0("copy_pathname", archive_entry_copy_pathname(e, s))
		SW("copy_pathname_w", archive_entry_copy_pathname_w(e, ws))
		SR("update_pathname_utf8", archive_entry_update_pathname_utf8(e, s))
		S0("set_uname", archive_entry_set_uname(e, s))
		S0("set_uname_utf8", archive_entry_set_uname_utf8(e, s))
		S0("copy_uname", archive_entry_copy_uname(e, s))
		SW("copy_uname_w", archive_entry_copy_uname_w(e, ws))
		SR("update_uname_utf8", archive_entry_update_uname_utf8(e, s))
		S0("set_gname", archive_entry_set_gname(e, s))
		S0("set_gname_utf8", archive_entry_set_gname_utf8(e, s))
		S0("copy_gname", archive_entry_copy_gname(e, s))
		SW("copy_gname_w", archive_entry_copy_gname_w(e, ws))
		SR("update_gname_utf8", archive_entry_update_gname_utf8(e, s))
		S0("copy_sourcepath", archive_entry_copy_sourcepath(e, s))
		SW("copy_sourcepath_w", archive_entry_copy_sourcepath_w(e, ws))
		S0("set_hardlink", archive_entry_set_hardlink(e, s))
		S0("set_hardlink_utf8", archive_entry_set_hardlink_utf8(e, s))
		S0("copy_hardlink", archive_entry_copy_hardlink(e, s))
		SW("copy_hardlink_w", archive_entry_copy_hardlink_w(e, ws))
		SR("update_hardlink_utf8", archive_entry_update_hardlink_utf8(e, s))
		S0("set_symlink", archive_entry_set_symlink(e, s))
		S0("set_symlink_utf8", archive_entry_set_symlink_utf8(e, s))
		S0("copy_symlink", archive_entry_copy_symlink(e, s))
		SW("copy_symlink_w", archive_entry_copy_symlink_w(e, ws))
		SR("update_symlink_utf8", archive_entry_update_symlink_utf8(e, s))
		S0("set_link", archive_entry_set_link(e, s))
		S0("set_link_utf8", archive_entry_set_link_utf8(e, s))
		S0("copy_link", archive_entry_copy_link(e, s))
		SW("copy_link_w", archive_entry_copy_link_w(e, ws))
		SR("update_link_utf8", archive_entry_update_link_utf8(e, s))
		else ok = 0;
		free(s); free(ws);
		if (!ok) { printf("bad-op\n"); return; }
	}
	else { printf("bad-op\n"); return; }

	if (ret[0]) printf("r=%s", ret);
	putchar(' '); dump(E);
	if (C != NULL) { printf(" || "); dump(C); }
	putchar('\n');
}

static void e_end(void)
{
	archive_entry_free(E);
	if (C != NULL) archive_entry_free(C);
}

int main(int argc, char **argv)
{
	struct vh_engine e = { e_begin, e_op, e_end };
	return vh_main(argc, argv, &e);
}
