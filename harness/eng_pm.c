/*
 * Engine `pm` (C16): drives the real archive_pathmatch.c (static functions
 * reached by #include).
 *
 * Every string handed to the matcher is placed so that its terminator is the
 * last element before a PROT_NONE page: a read past the terminator faults and
 * is reported as the observation "oob".  When that run is clean the call is
 * repeated on exact-size malloc copies, where ASan also sees a read *before* the
 * start of either string (that one aborts the case: "!crash").
 *
 * ops (units are hex code units separated by ',', "-" = empty string, "null" = NULL):
 *   match <n|w> <flags> <pattern> <subject>   __archive_pathmatch / _w
 *   pm    <n|w> <flags> <pattern> <subject>   static pm() / pm_w()
 *   list  <n|w> <body> <c>                    pm_list("[" body "]" + 1, end, c, 0)
 *   skip  <n|w> <string>                      pm_slashskip(): offset returned
 *   enum  <n|w> <flags> <alphabet> <smax> <pattern>
 *                                             the pattern against every subject over
 *                                             the alphabet up to length smax
 * output: "r=<0|1>", "oob", "off=<n>", "yes=<n> oob=<n> d=<fnv of the result vector>"
 */
#include "common.h"
#include <sys/mman.h>
#include <setjmp.h>
#include <wchar.h>
#include "archive_platform.h"
#include "archive_pathmatch.c"

#define MAXU 4096
static long pagesz;
static sigjmp_buf jb;
static volatile sig_atomic_t armed;

static void on_segv(int sig)
{
	if (armed) { armed = 0; siglongjmp(jb, 1); }
	signal(sig, SIG_DFL); raise(sig);
}

struct guarded { unsigned char *base; size_t maplen; };
static struct guarded gp[2][2];   /* [narrow|wide][pattern|subject] */

static void g_init(struct guarded *g)
{
	g->maplen = (size_t)pagesz * 6;
	g->base = mmap(NULL, g->maplen, PROT_READ | PROT_WRITE, MAP_PRIVATE | MAP_ANONYMOUS, -1, 0);
	if (g->base == MAP_FAILED) { perror("mmap"); exit(2); }
	memset(g->base, 0x5a, g->maplen);
	if (mprotect(g->base + g->maplen - pagesz, (size_t)pagesz, PROT_NONE) != 0) { perror("mprotect"); exit(2); }
}

/* Copy n units + terminator so that the terminator is the last element before the guard page. */
static void *g_place(struct guarded *g, const uint32_t *u, size_t n, int wide)
{
	size_t w = wide ? sizeof(wchar_t) : 1;
	unsigned char *end = g->base + g->maplen - pagesz;
	unsigned char *at = end - (n + 1) * w;
	if (wide) { wchar_t *d = (wchar_t *)at; for (size_t i = 0; i < n; i++) d[i] = (wchar_t)u[i]; d[n] = 0; }
	else { for (size_t i = 0; i < n; i++) at[i] = (unsigned char)u[i]; at[n] = 0; }
	/* poison what is in front of the string with non-NUL, non-special filler */
	if (at > g->base) at[-1] = 0x5a;
	return at;
}

static void *m_place(const uint32_t *u, size_t n, int wide)
{
	if (wide) { wchar_t *d = malloc((n + 1) * sizeof *d); for (size_t i = 0; i < n; i++) d[i] = (wchar_t)u[i]; d[n] = 0; return d; }
	unsigned char *d = malloc(n + 1); for (size_t i = 0; i < n; i++) d[i] = (unsigned char)u[i]; d[n] = 0; return d;
}

/* parse units; returns -1 for "null" */
static long parse_units(const char *s, uint32_t *u)
{
	if (strcmp(s, "null") == 0) return -1;
	if (strcmp(s, "-") == 0) return 0;
	long n = 0;
	while (*s && n < MAXU) {
		char *e; u[n++] = (uint32_t)strtoul(s, &e, 16);
		s = (*e == ',') ? e + 1 : e;
		if (e == s && *e) break;
	}
	return n;
}

enum { F_MATCH, F_PM };

static int call(int fn, int wide, const void *p, const void *s, int flags)
{
	if (fn == F_MATCH)
		return wide ? __archive_pathmatch_w(p, s, flags) : __archive_pathmatch(p, s, flags);
	return wide ? pm_w(p, s, flags) : pm(p, s, flags);
}

/* 0/1 = result, 2 = read past a terminator */
static int guarded_call(int fn, int wide, const uint32_t *pu, long pn, const uint32_t *su, long sn, int flags)
{
	const void *p = pn < 0 ? NULL : g_place(&gp[wide][0], pu, (size_t)pn, wide);
	const void *s = sn < 0 ? NULL : g_place(&gp[wide][1], su, (size_t)sn, wide);
	int r;
	if (sigsetjmp(jb, 0) == 0) { armed = 1; r = call(fn, wide, p, s, flags) ? 1 : 0; armed = 0; }
	else r = 2;
	return r;
}

static void p_begin(void)
{
	if (!pagesz) {
		pagesz = sysconf(_SC_PAGESIZE);
		for (int w = 0; w < 2; w++) for (int k = 0; k < 2; k++) g_init(&gp[w][k]);
	}
	struct sigaction sa; memset(&sa, 0, sizeof sa);
	sa.sa_handler = on_segv; sa.sa_flags = SA_NODEFER;
	sigaction(SIGSEGV, &sa, NULL); sigaction(SIGBUS, &sa, NULL);
}

static uint32_t pu[MAXU + 8], su[MAXU + 8], au[MAXU + 8];

static void p_op(char *line)
{
	char *w[8]; int n = vh_split(line, w, 8);
	if (n == 5 && (!strcmp(w[0], "match") || !strcmp(w[0], "pm"))) {
		int fn = w[0][0] == 'm' ? F_MATCH : F_PM, wide = w[1][0] == 'w', flags = atoi(w[2]);
		long pn = parse_units(w[3], pu), sn = parse_units(w[4], su);
		if (fn == F_PM && (pn < 0 || sn < 0)) { printf("bad-op\n"); return; }
		int r = guarded_call(fn, wide, pu, pn, su, sn, flags);
		if (r == 2) { printf("oob\n"); return; }
		/* second run on exact-size heap copies: ASan sees reads before the start too */
		void *p = pn < 0 ? NULL : m_place(pu, (size_t)pn, wide), *s = sn < 0 ? NULL : m_place(su, (size_t)sn, wide);
		int r2 = call(fn, wide, p, s, flags) ? 1 : 0;
		free(p); free(s);
		if (r2 != r) printf("r=%d heap=%d\n", r, r2); else printf("r=%d\n", r);
	} else if (n == 4 && !strcmp(w[0], "list")) {
		int wide = w[1][0] == 'w';
		long bn = parse_units(w[2], pu + 1); uint32_t c[2];
		if (bn < 0 || parse_units(w[3], c) != 1) { printf("bad-op\n"); return; }
		pu[0] = '['; pu[bn + 1] = ']';
		void *p = g_place(&gp[wide][0], pu, (size_t)bn + 2, wide);
		int r;
		if (sigsetjmp(jb, 0) == 0) {
			armed = 1;
			if (wide) r = pm_list_w((wchar_t *)p + 1, (wchar_t *)p + 1 + bn, (wchar_t)c[0], 0) ? 1 : 0;
			else r = pm_list((char *)p + 1, (char *)p + 1 + bn, (char)c[0], 0) ? 1 : 0;
			armed = 0;
			printf("r=%d\n", r);
		} else printf("oob\n");
	} else if (n == 3 && !strcmp(w[0], "skip")) {
		int wide = w[1][0] == 'w';
		long sn = parse_units(w[2], su);
		if (sn < 0) { printf("bad-op\n"); return; }
		void *s = g_place(&gp[wide][1], su, (size_t)sn, wide);
		if (sigsetjmp(jb, 0) == 0) {
			armed = 1;
			long off = wide ? (long)(pm_slashskip_w(s) - (wchar_t *)s) : (long)(pm_slashskip(s) - (char *)s);
			armed = 0;
			printf("off=%ld\n", off);
		} else printf("oob\n");
	} else if (n == 6 && !strcmp(w[0], "enum")) {
		int wide = w[1][0] == 'w', flags = atoi(w[2]);
		long an = parse_units(w[3], au); int smax = atoi(w[4]);
		long pn = parse_units(w[5], pu);
		if (an <= 0 || an > 32 || smax < 0 || smax > 8 || pn < 0) { printf("bad-op\n"); return; }
		uint64_t h = 14695981039346656037ULL; unsigned long yes = 0, oob = 0;
		/* subjects in order of length, then lexicographic by alphabet index */
		for (int len = 0; len <= smax; len++) {
			int idx[8] = {0};
			for (;;) {
				for (int i = 0; i < len; i++) su[i] = au[idx[i]];
				int r = guarded_call(F_MATCH, wide, pu, pn, su, len, flags);
				h ^= (unsigned)r; h *= 1099511628211ULL;
				if (r == 1) yes++; else if (r == 2) oob++;
				int k = len - 1;
				while (k >= 0 && ++idx[k] == an) { idx[k] = 0; k--; }
				if (k < 0) break;
			}
		}
		printf("yes=%lu oob=%lu d=%016llx\n", yes, oob, (unsigned long long)h);
	} else printf("bad-op\n");
}

static void p_end(void) {}

int main(int argc, char **argv)
{
	struct vh_engine e = { p_begin, p_op, p_end };
	return vh_main(argc, argv, &e);
}
