/* Engine `det` (C11): the same harness as `cw`; the check runs it twice with different heap
 * poison (ASAN_OPTIONS=malloc_fill_byte) and stack poison (VERIF_STACK_POISON) and compares. */
#include "eng_cw.c"
