/* Engine `safe` (C19): one regular-file entry extracted by the real disk writer
 * over an existing regular file, with the file-system calls of the process
 * interposed INSIDE this executable (libarchive.a is linked statically, so its
 * calls to open/lstat/mkstemp/... bind to the definitions below; they forward
 * with dlsym(RTLD_NEXT)).
 *
 * For every interposed call that touches the scratch directory one token
 *      <op>@<class>[:<arg>...]=<R>|<T>|<D>
 * is recorded:
 *   class  name  = the target pathname "f"      tmp = "f.??????" (or an fd on it)
 *          other = anything else in the scratch directory
 *   R      0 ok / x failed on its own (e.g. EEXIST) / F failure injected by us
 *   T      what the target pathname resolves to AFTER the call (crash point):
 *          o = byte-identical to the old file, - = absent, h<fnv>:<size> otherwise
 *   D      directory listing after the call: number of temp files, ":<size>" of the
 *          temp file when there is exactly one, "+<k>" when k unexpected names exist
 * Faults: the i-th recorded call (0-based, counted over the whole case) fails
 * with the chosen errno when i is in the fail= list; the real call is not made
 * (close: the descriptor is really closed, the error is only reported).
 */
#include "common.h"
#include <dlfcn.h>
#include <fcntl.h>
#include <stdarg.h>
#include <dirent.h>
#include <sys/stat.h>
#include <sys/syscall.h>
#include <archive.h>
#include <archive_entry.h>

#define TNAME "f"
#define MAXFD 4096
enum { C_NONE = 0, C_NAME, C_TMP, C_OTHER };
static const char *cname[] = { "?", "name", "tmp", "other" };

static int armed;                 /* record + inject only while a libarchive call is running */
static int ncall;                 /* recorded calls so far in this case */
static int fails[16], nfails, fail_errno = ENOSPC;
static unsigned char fdclass[MAXFD];
static char tr[1 << 16]; static size_t trn;   /* tokens of the API call in flight */
static unsigned char *oldc; static size_t oldn;
static long fired_total;

/* ---- real functions ---------------------------------------------------- */
#define REAL(ret, name, ...) static ret (*real_##name)(__VA_ARGS__)
REAL(int, open, const char *, int, ...);
REAL(int, lstat, const char *, struct stat *);
REAL(int, fstat, int, struct stat *);
REAL(off_t, lseek, int, off_t, int);
REAL(ssize_t, write, int, const void *, size_t);
REAL(ssize_t, pwrite, int, const void *, size_t, off_t);
REAL(int, ftruncate, int, off_t);
REAL(int, fchmod, int, mode_t);
REAL(int, chmod, const char *, mode_t);
REAL(int, fchown, int, uid_t, gid_t);
REAL(int, lchown, const char *, uid_t, gid_t);
REAL(int, futimens, int, const struct timespec *);
REAL(int, utimensat, int, const char *, const struct timespec *, int);
REAL(int, close, int);
REAL(int, rename, const char *, const char *);
REAL(int, unlink, const char *);
REAL(int, mkstemp, char *);
#define R(name) do { if (!real_##name) *(void **)&real_##name = dlsym(RTLD_NEXT, #name); } while (0)

static int cls_path(const char *p)
{
	if (p == NULL || p[0] == '/') return C_NONE;
	if (strcmp(p, TNAME) == 0) return C_NAME;
	if (strncmp(p, TNAME ".", 2) == 0 && strlen(p) == 8) return C_TMP;
	return C_OTHER;
}
static int cls_fd(int fd) { return (fd >= 0 && fd < MAXFD) ? fdclass[fd] : C_NONE; }

/* ---- snapshots (real calls only, never recorded) ----------------------- */
static void snap_target(char *out, size_t cap)
{
	R(open); R(close);
	int fd = real_open(TNAME, O_RDONLY | O_NOFOLLOW);
	if (fd < 0) { snprintf(out, cap, "-"); return; }
	size_t n = 0, c = 1 << 16; unsigned char *b = malloc(c); ssize_t k;
	while ((k = read(fd, b + n, c - n)) > 0) { n += (size_t)k; if (n == c) { c *= 2; b = realloc(b, c); } }
	real_close(fd);
	if (n == oldn && memcmp(b, oldc, n) == 0) snprintf(out, cap, "o");
	else snprintf(out, cap, "h%016llx:%zu", (unsigned long long)vh_fnv(b, n), n);
	free(b);
}

static int listing(char *out, size_t cap)
{
	R(lstat);
	int ntmp = 0, nother = 0; long long tsz = -1;
	DIR *d = opendir(".");
	if (d) {
		struct dirent *e;
		while ((e = readdir(d)) != NULL) {
			if (!strcmp(e->d_name, ".") || !strcmp(e->d_name, "..") || !strcmp(e->d_name, TNAME)) continue;
			if (cls_path(e->d_name) == C_TMP) {
				struct stat st; ntmp++;
				if (real_lstat(e->d_name, &st) == 0) tsz = (long long)st.st_size;
			} else nother++;
		}
		closedir(d);
	}
	int k = snprintf(out, cap, "%d", ntmp);
	if (ntmp == 1) k += snprintf(out + k, cap - (size_t)k, ":%lld", tsz);
	if (nother) snprintf(out + k, cap - (size_t)k, "+%d", nother);
	return ntmp;
}

/* returns 1 when this call must fail */
static int inject(void)
{
	for (int i = 0; i < nfails; i++) if (fails[i] == ncall) return 1;
	return 0;
}

static void record(const char *what, char res)
{
	char t[64], l[64];
	int saved = errno;
	armed = 0;
	snap_target(t, sizeof t); listing(l, sizeof l);
	trn += (size_t)snprintf(tr + trn, sizeof tr - trn, " %s=%c|%s|%s", what, res, t, l);
	ncall++; fired_total++;
	armed = 1;
	errno = saved;
}

/* common shape: W = token text, CALL = real call expression, OKCOND on its value r */
#define HOOK(W, CALLEXPR, FAILVAL)                                             \
	if (inject()) { record(W, 'F'); errno = fail_errno; return FAILVAL; }    \
	r = CALLEXPR;                                                            \
	{ int e_ = errno; record(W, r == FAILVAL ? 'x' : '0'); errno = e_; }     \
	return r;

int open(const char *path, int flags, ...)
{
	mode_t mode = 0;
	if (flags & (O_CREAT | O_TMPFILE)) { va_list ap; va_start(ap, flags); mode = (mode_t)va_arg(ap, int); va_end(ap); }
	R(open);
	int c = armed ? cls_path(path) : C_NONE;
	if (c == C_NONE) return real_open(path, flags, mode);
	char w[64];
	snprintf(w, sizeof w, "open%s%s%s@%s", (flags & O_CREAT) ? "-creat" : "", (flags & O_EXCL) ? "-excl" : "",
	    (flags & O_TRUNC) ? "-trunc" : "", cname[c]);
	if (inject()) { record(w, 'F'); errno = fail_errno; return -1; }
	int fd = real_open(path, flags, mode);
	int e = errno;
	if (fd >= 0 && fd < MAXFD) fdclass[fd] = (unsigned char)c;
	record(w, fd < 0 ? 'x' : '0');
	errno = e;
	return fd;
}

int mkstemp(char *tmpl)
{
	R(mkstemp);
	size_t n = strlen(tmpl);
	/* class of the TEMPLATE: "f.XXXXXX" is the expected one */
	int c = armed ? (tmpl[0] == '/' ? C_NONE : (n == 8 && strncmp(tmpl, TNAME ".", 2) == 0 ? C_TMP : C_OTHER)) : C_NONE;
	if (c == C_NONE) return real_mkstemp(tmpl);
	char w[64]; snprintf(w, sizeof w, "mkstemp@%s", cname[c]);
	if (inject()) { record(w, 'F'); errno = fail_errno; return -1; }
	int fd = real_mkstemp(tmpl);
	int e = errno;
	if (fd >= 0 && fd < MAXFD) fdclass[fd] = (unsigned char)cls_path(tmpl);
	record(w, fd < 0 ? 'x' : '0');
	errno = e;
	return fd;
}

int lstat(const char *path, struct stat *st)
{
	int r; R(lstat);
	int c = armed ? cls_path(path) : C_NONE;
	if (c == C_NONE) return real_lstat(path, st);
	char w[64]; snprintf(w, sizeof w, "lstat@%s", cname[c]);
	HOOK(w, real_lstat(path, st), -1)
}

int fstat(int fd, struct stat *st)
{
	int r; R(fstat);
	int c = armed ? cls_fd(fd) : C_NONE;
	if (c == C_NONE) return real_fstat(fd, st);
	char w[64]; snprintf(w, sizeof w, "fstat@%s", cname[c]);
	HOOK(w, real_fstat(fd, st), -1)
}

off_t lseek(int fd, off_t off, int whence)
{
	off_t r; R(lseek);
	int c = armed ? cls_fd(fd) : C_NONE;
	if (c == C_NONE) return real_lseek(fd, off, whence);
	char w[64]; snprintf(w, sizeof w, "lseek@%s:%lld", cname[c], (long long)off);
	HOOK(w, real_lseek(fd, off, whence), (off_t)-1)
}

ssize_t write(int fd, const void *b, size_t n)
{
	R(write); R(lseek);
	int c = armed ? cls_fd(fd) : C_NONE;
	if (c == C_NONE) return real_write(fd, b, n);
	char w[96];
	snprintf(w, sizeof w, "write@%s:%lld:%zu", cname[c], (long long)real_lseek(fd, 0, SEEK_CUR), n);
	if (inject()) { record(w, 'F'); errno = fail_errno; return -1; }
	ssize_t r = real_write(fd, b, n);
	int e = errno;
	if (r >= 0 && (size_t)r != n) snprintf(w + strlen(w), sizeof w - strlen(w), ":short%zd", r);
	record(w, r < 0 ? 'x' : '0');
	errno = e;
	return r;
}

ssize_t pwrite(int fd, const void *b, size_t n, off_t off)
{
	ssize_t r; R(pwrite);
	int c = armed ? cls_fd(fd) : C_NONE;
	if (c == C_NONE) return real_pwrite(fd, b, n, off);
	char w[96]; snprintf(w, sizeof w, "pwrite@%s:%lld:%zu", cname[c], (long long)off, n);
	HOOK(w, real_pwrite(fd, b, n, off), -1)
}

int ftruncate(int fd, off_t len)
{
	int r; R(ftruncate);
	int c = armed ? cls_fd(fd) : C_NONE;
	if (c == C_NONE) return real_ftruncate(fd, len);
	char w[64]; snprintf(w, sizeof w, "ftruncate@%s:%lld", cname[c], (long long)len);
	HOOK(w, real_ftruncate(fd, len), -1)
}

int fchmod(int fd, mode_t m)
{
	int r; R(fchmod);
	int c = armed ? cls_fd(fd) : C_NONE;
	if (c == C_NONE) return real_fchmod(fd, m);
	char w[64]; snprintf(w, sizeof w, "fchmod@%s", cname[c]);
	HOOK(w, real_fchmod(fd, m), -1)
}

int chmod(const char *path, mode_t m)
{
	int r; R(chmod);
	int c = armed ? cls_path(path) : C_NONE;
	if (c == C_NONE) return real_chmod(path, m);
	char w[64]; snprintf(w, sizeof w, "chmod@%s", cname[c]);
	HOOK(w, real_chmod(path, m), -1)
}

int fchown(int fd, uid_t u, gid_t g)
{
	int r; R(fchown);
	int c = armed ? cls_fd(fd) : C_NONE;
	if (c == C_NONE) return real_fchown(fd, u, g);
	char w[64]; snprintf(w, sizeof w, "fchown@%s", cname[c]);
	HOOK(w, real_fchown(fd, u, g), -1)
}

int lchown(const char *path, uid_t u, gid_t g)
{
	int r; R(lchown);
	int c = armed ? cls_path(path) : C_NONE;
	if (c == C_NONE) return real_lchown(path, u, g);
	char w[64]; snprintf(w, sizeof w, "lchown@%s", cname[c]);
	HOOK(w, real_lchown(path, u, g), -1)
}

int futimens(int fd, const struct timespec ts[2])
{
	int r; R(futimens);
	int c = armed ? cls_fd(fd) : C_NONE;
	if (c == C_NONE) return real_futimens(fd, ts);
	char w[64]; snprintf(w, sizeof w, "futimens@%s", cname[c]);
	HOOK(w, real_futimens(fd, ts), -1)
}

int utimensat(int dfd, const char *path, const struct timespec ts[2], int fl)
{
	int r; R(utimensat);
	int c = (armed && dfd == AT_FDCWD) ? cls_path(path) : C_NONE;
	if (c == C_NONE) return real_utimensat(dfd, path, ts, fl);
	char w[64]; snprintf(w, sizeof w, "utimensat@%s", cname[c]);
	HOOK(w, real_utimensat(dfd, path, ts, fl), -1)
}

int close(int fd)
{
	R(close);
	int c = armed ? cls_fd(fd) : C_NONE;
	if (fd >= 0 && fd < MAXFD) fdclass[fd] = C_NONE;
	if (c == C_NONE) return real_close(fd);
	char w[64]; snprintf(w, sizeof w, "close@%s", cname[c]);
	if (inject()) { real_close(fd); record(w, 'F'); errno = EIO; return -1; }
	int r = real_close(fd);
	int e = errno; record(w, r < 0 ? 'x' : '0'); errno = e;
	return r;
}

int rename(const char *from, const char *to)
{
	int r; R(rename);
	int c1 = armed ? cls_path(from) : C_NONE, c2 = armed ? cls_path(to) : C_NONE;
	if (c1 == C_NONE && c2 == C_NONE) return real_rename(from, to);
	char w[64]; snprintf(w, sizeof w, "rename@%s>%s", cname[c1], cname[c2]);
	HOOK(w, real_rename(from, to), -1)
}

int unlink(const char *path)
{
	int r; R(unlink);
	int c = armed ? cls_path(path) : C_NONE;
	if (c == C_NONE) return real_unlink(path);
	char w[64]; snprintf(w, sizeof w, "unlink@%s", cname[c]);
	HOOK(w, real_unlink(path), -1)
}

/* ---- body descriptions --------------------------------------------------
 * spec = part{+part}, part = z<n> (n zero bytes) | p<n>:<seed> (n non-zero bytes
 * from s' = (s*1103515245+12345) mod 2^31, byte = (s' / 65536) mod 255 + 1); "-" = empty */
static unsigned char *expand(const char *spec, size_t *n)
{
	size_t cap = 64, len = 0; unsigned char *b = malloc(cap);
	const char *p = spec;
	if (strcmp(spec, "-") == 0) { *n = 0; return b; }
	while (*p) {
		char kind = *p++;
		size_t cnt = (size_t)strtoull(p, (char **)&p, 10);
		unsigned long long s = 0;
		if (kind == 'p' && *p == ':') s = strtoull(p + 1, (char **)&p, 10);
		if (len + cnt + 1 > cap) { cap = (len + cnt + 1) * 2; b = realloc(b, cap); }
		for (size_t i = 0; i < cnt; i++) {
			if (kind == 'z') b[len++] = 0;
			else { s = (s * 1103515245ULL + 12345ULL) % 2147483648ULL; b[len++] = (unsigned char)((s / 65536ULL) % 255ULL + 1ULL); }
		}
		if (*p == '+') p++;
	}
	*n = len; return b;
}

/* ---- the engine ---------------------------------------------------------- */
static struct archive *a;
static char scratch[512];
static int case_no;
static int hdr_ok;                /* the client skips the body when the header failed */

static void emit(const char *head)
{
	printf("%s |%s\n", head, trn ? tr : " -");
	trn = 0; tr[0] = 0;
}

static void s_begin(void)
{
	const char *base = getenv("VERIF_SCRATCH");
	a = NULL; armed = 0; ncall = 0; hdr_ok = 0; nfails = 0; trn = 0; tr[0] = 0; oldc = NULL; oldn = 0;
	memset(fdclass, 0, sizeof fdclass);
	snprintf(scratch, sizeof scratch, "%s/c19.%ld.%d", base ? base : "/tmp", (long)getpid(), case_no++);
	mkdir(scratch, 0700);
	if (chdir(scratch) != 0) { perror("chdir scratch"); exit(4); }
	umask(022);
}

static void cleanup_dir(void)
{
	DIR *d = opendir(".");
	if (d) {
		struct dirent *e;
		while ((e = readdir(d)) != NULL)
			if (strcmp(e->d_name, ".") && strcmp(e->d_name, "..")) unlink(e->d_name);
		closedir(d);
	}
	if (chdir("/") == 0) rmdir(scratch);
}

static void s_op(char *line)
{
	char *w[16]; int n = vh_split(line, w, 16);
	char head[128];
	if (n >= 2 && strcmp(w[0], "setup") == 0) {
		int flags = 0; int safe = 1;
		for (int i = 1; i < n; i++) {
			if (!strncmp(w[i], "old=", 4)) {
				oldc = expand(w[i] + 4, &oldn);
				int fd = open(TNAME, O_WRONLY | O_CREAT | O_TRUNC, 0644);
				if (fd < 0 || write(fd, oldc, oldn) != (ssize_t)oldn) { printf("setup-failed\n"); return; }
				close(fd);
			} else if (!strncmp(w[i], "flags=", 6)) {
				if (strstr(w[i], "perm")) flags |= ARCHIVE_EXTRACT_PERM;
				if (strstr(w[i], "owner")) flags |= ARCHIVE_EXTRACT_OWNER;
				if (strstr(w[i], "time")) flags |= ARCHIVE_EXTRACT_TIME;
				if (strstr(w[i], "sparse")) flags |= ARCHIVE_EXTRACT_SPARSE;
				if (strstr(w[i], "inplace")) safe = 0;
			} else if (!strncmp(w[i], "fail=", 5)) {
				char *p = w[i] + 5;
				while (*p && *p != '-' && nfails < 16) { fails[nfails++] = (int)strtol(p, &p, 10); if (*p == ',') p++; }
			} else if (!strncmp(w[i], "errno=", 6)) {
				fail_errno = !strcmp(w[i] + 6, "EACCES") ? EACCES : !strcmp(w[i] + 6, "EIO") ? EIO : ENOSPC;
			}
		}
		if (safe) flags |= ARCHIVE_EXTRACT_SAFE_WRITES;
		a = archive_write_disk_new();
		archive_write_disk_set_options(a, flags);
		struct stat st; long blk = 0;
		if (stat(".", &st) == 0) blk = (long)st.st_blksize;
		printf("ok blk=%ld\n", blk);
	} else if (a == NULL) {
		printf("bad-op\n");
	} else if (n >= 2 && strcmp(w[0], "header") == 0) {
		struct archive_entry *e = archive_entry_new();
		long long size = -1; unsigned mode = 0644;
		for (int i = 1; i < n; i++) {
			if (!strncmp(w[i], "size=", 5)) size = strtoll(w[i] + 5, NULL, 10);
			if (!strncmp(w[i], "mode=", 5)) mode = (unsigned)strtoul(w[i] + 5, NULL, 8);
		}
		archive_entry_copy_pathname(e, TNAME);
		archive_entry_set_filetype(e, AE_IFREG);
		archive_entry_set_perm(e, (mode_t)mode);
		if (size >= 0) archive_entry_set_size(e, size);
		archive_entry_set_mtime(e, 1000000000, 0);
		archive_entry_set_uid(e, (la_int64_t)geteuid());
		archive_entry_set_gid(e, (la_int64_t)getegid());
		armed = 1; int r = archive_write_header(a, e); armed = 0;
		archive_entry_free(e);
		hdr_ok = r >= ARCHIVE_WARN;
		snprintf(head, sizeof head, "st=%s", vh_st(r)); emit(head);
	} else if (!hdr_ok && (strcmp(w[0], "data") == 0 || strcmp(w[0], "block") == 0)) {
		emit("r=skipped");
	} else if (n == 2 && strcmp(w[0], "data") == 0) {
		size_t len; unsigned char *b = expand(w[1], &len);
		armed = 1; la_ssize_t r = archive_write_data(a, b, len); armed = 0;
		free(b);
		if (r >= 0) snprintf(head, sizeof head, "r=%lld", (long long)r);
		else snprintf(head, sizeof head, "r=%s", vh_st((int)r));
		emit(head);
	} else if (n == 3 && strcmp(w[0], "block") == 0) {
		size_t len; unsigned char *b = expand(w[2], &len);
		armed = 1; la_ssize_t r = archive_write_data_block(a, b, len, strtoll(w[1], NULL, 10)); armed = 0;
		free(b);
		snprintf(head, sizeof head, "r=%s", vh_st((int)r)); emit(head);
	} else if (n == 1 && strcmp(w[0], "finish") == 0) {
		armed = 1; int r = archive_write_finish_entry(a); armed = 0;
		snprintf(head, sizeof head, "st=%s", vh_st(r)); emit(head);
	} else if (n == 1 && (strcmp(w[0], "close") == 0 || strcmp(w[0], "free") == 0)) {
		int r;
		armed = 1;
		if (w[0][0] == 'c') r = archive_write_close(a); else { r = archive_write_free(a); a = NULL; }
		armed = 0;
		char t[64], l[64];
		snap_target(t, sizeof t); int left = listing(l, sizeof l);
		snprintf(head, sizeof head, "st=%s left=%d final=%s", vh_st(r), left, t); emit(head);
	} else printf("bad-op\n");
}

static void s_end(void)
{
	if (a) archive_write_free(a);
	free(oldc);
	cleanup_dir();
}

int main(int argc, char **argv)
{
	struct vh_engine e = { s_begin, s_op, s_end };
	return vh_main(argc, argv, &e);
}
