/*
 * Engine `zipenc` (C20): whole round trips through the real zip writer and the
 * real zip reader with passphrases, and the encrypted reference archives of
 * libarchive's own test suite.
 *
 * op  rt enc=E comp=C sz=S body=B wc=N wp=W rp=L rcb=L bs=N seek=0|1 tamper=T
 *     E  none|zipcrypt|aes128|aes256     C  store|deflate     S  set|unset
 *     B  h:<hex> | g:<len>:<seed> (LCG bytes) | z:<len>:<byte>
 *     wc write chunk size (0 = one call)
 *     W  v:<hex> passphrase by value | c:<hex> by callback | none
 *     rp passphrases added by value (comma separated hex, "-" none)
 *     rcb answers of the read callback in order, then NULL ("-" = no callback,
 *        "n" = callback registered that answers NULL at once)
 *     T  none | ct:<i> | mac:<i> | pwv | salt   (one byte of that region is flipped)
 *     a list item r<count>x<hex> stands for <count> copies of <hex>
 * op  ref file=<path of a decoded reference archive> rp=L bs=N seek=0|1
 *
 * Output (one line): everything the property observes, nothing else.
 */
#include "common.h"
#include <archive.h>
#include <archive_entry.h>
#include <openssl/evp.h>
#include <zlib.h>

static unsigned char *g_arch; static size_t g_alen, g_acap;

static int w_open(struct archive *a, void *d) { (void)a; (void)d; g_alen = 0; return ARCHIVE_OK; }
static la_ssize_t w_write(struct archive *a, void *d, const void *b, size_t n)
{
	(void)a; (void)d;
	if (g_alen + n > g_acap) { g_acap = (g_alen + n) * 2 + 4096; g_arch = realloc(g_arch, g_acap); }
	memcpy(g_arch + g_alen, b, n); g_alen += n; return (la_ssize_t)n;
}

struct rsrc { const unsigned char *p; size_t len, pos, bs; };
static la_ssize_t r_read(struct archive *a, void *d, const void **b)
{
	struct rsrc *s = d; (void)a;
	size_t n = s->len - s->pos; if (n > s->bs) n = s->bs;
	*b = s->p + s->pos; s->pos += n; return (la_ssize_t)n;
}

/* scripted passphrase callbacks */
#define MAXANS 20480
struct script { char **ans; int n, i, calls; };
static const char *pp_cb(struct archive *a, void *d)
{
	struct script *s = d; (void)a;
	s->calls++;
	if (s->i < s->n) return s->ans[s->i++];
	return NULL;
}

static char *hex2str(const char *h)
{
	size_t n; unsigned char *b = vh_unhex(h, &n);
	char *s = malloc(n + 1); memcpy(s, b, n); s[n] = 0; free(b); return s;
}

/* comma separated hex list -> strings; returns count */
static int parse_list(const char *l, char **out, int max)
{
	int n = 0;
	if (strcmp(l, "-") == 0 || strcmp(l, "n") == 0) return 0;
	char *c = strdup(l), *sv = NULL;
	for (char *t = strtok_r(c, ",", &sv); t && n < max; t = strtok_r(NULL, ",", &sv)) {
		if (t[0] == 'r') {	/* r<count>x<hex>: the same answer <count> times */
			char *x = strchr(t, 'x'); long cnt = strtol(t + 1, NULL, 10);
			for (long k = 0; x && k < cnt && n < max; k++) out[n++] = hex2str(x + 1);
		} else out[n++] = hex2str(t);
	}
	free(c);
	return n;
}

static unsigned char *make_body(const char *spec, size_t *len)
{
	if (spec[0] == 'h') return vh_unhex(spec + 2, len);
	unsigned long l = 0, s = 0;
	sscanf(spec + 2, "%lu:%lu", &l, &s);
	unsigned char *b = malloc(l ? l : 1);
	if (spec[0] == 'z') memset(b, (int)s, l);
	else {
		uint32_t x = (uint32_t)s;
		for (unsigned long i = 0; i < l; i++) { x = (x * 1103515245u + 12345u) & 0x7fffffffu; b[i] = (unsigned char)(x >> 16); }
	}
	*len = l; return b;
}

static const char *kv(char **w, int n, const char *k)
{
	size_t kl = strlen(k);
	for (int i = 0; i < n; i++) if (strncmp(w[i], k, kl) == 0 && w[i][kl] == '=') return w[i] + kl + 1;
	return "";
}

/* ---- independent re-computation of the per-candidate verification value -- */
static uint32_t crc1(uint32_t c, uint8_t b) { return (uint32_t)(crc32(c ^ 0xffffffffUL, &b, 1) ^ 0xffffffffUL); }
static int trad_check(const char *pw, const unsigned char *hdr12, unsigned char chk)
{
	uint32_t k0 = 305419896u, k1 = 591751049u, k2 = 878082192u; uint8_t last = 0;
	for (const unsigned char *p = (const unsigned char *)pw; *p; p++) {
		k0 = crc1(k0, *p); k1 = (k1 + (k0 & 0xff)) * 134775813u + 1; k2 = crc1(k2, (uint8_t)(k1 >> 24));
	}
	for (int i = 0; i < 12; i++) {
		uint32_t t = k2 | 2; uint8_t d = (uint8_t)((t * (t ^ 1)) >> 8);
		last = hdr12[i] ^ d;
		k0 = crc1(k0, last); k1 = (k1 + (k0 & 0xff)) * 134775813u + 1; k2 = crc1(k2, (uint8_t)(k1 >> 24));
	}
	return last == chk;
}
static int aes_check(const char *pw, const unsigned char *salt, int salt_len, int key_len, const unsigned char *pv)
{
	unsigned char dk[66];
	PKCS5_PBKDF2_HMAC_SHA1(pw, (int)strlen(pw), salt, salt_len, 1000, key_len * 2 + 2, dk);
	return dk[key_len * 2] == pv[0] && dk[key_len * 2 + 1] == pv[1];
}

/* layout of the first local entry of the image */
struct lay { int ok, flags, method, strength; size_t data, csize; };
static struct lay layout(void)
{
	struct lay L; memset(&L, 0, sizeof L);
	if (g_alen < 30 || memcmp(g_arch, "PK\003\004", 4) != 0) return L;
	L.flags = g_arch[6] | g_arch[7] << 8; L.method = g_arch[8] | g_arch[9] << 8;
	size_t nl = g_arch[26] | g_arch[27] << 8, el = g_arch[28] | g_arch[29] << 8;
	L.data = 30 + nl + el;
	for (size_t o = 30 + nl; o + 4 <= 30 + nl + el; ) {
		int id = g_arch[o] | g_arch[o+1] << 8, sz = g_arch[o+2] | g_arch[o+3] << 8;
		if (id == 0x9901 && sz >= 7) L.strength = g_arch[o + 4 + 4];
		o += 4 + sz;
	}
	/* compressed size from the central directory (first PK\1\2 after the data) */
	for (size_t o = L.data; o + 46 <= g_alen; o++)
		if (memcmp(g_arch + o, "PK\001\002", 4) == 0) {
			L.csize = g_arch[o+20] | g_arch[o+21] << 8 | g_arch[o+22] << 16 | (size_t)g_arch[o+23] << 24; break;
		}
	L.ok = 1; return L;
}

static void read_side(const unsigned char *img, size_t ilen, char **rp, int nrp, const char *rcbs,
    size_t bs, int seek, const unsigned char *body, size_t blen, int have_body)
{
	struct script rs; memset(&rs, 0, sizeof rs);
	rs.ans = calloc(MAXANS, sizeof *rs.ans);
	struct archive *r = archive_read_new();
	archive_read_support_format_all(r);
	archive_read_support_filter_all(r);
	printf(" add=");
	for (int i = 0; i < nrp; i++) printf("%s%s", i ? "," : "", vh_st(archive_read_add_passphrase(r, rp[i])));
	if (nrp == 0) printf("-");
	if (strcmp(rcbs, "-") != 0) {
		rs.n = parse_list(rcbs, rs.ans, MAXANS);
		archive_read_set_passphrase_callback(r, &rs, pp_cb);
	}
	struct rsrc src = { img, ilen, 0, bs ? bs : 1 };
	int st;
	if (seek) st = archive_read_open_memory2(r, img, ilen, bs ? bs : 1);
	else st = archive_read_open(r, &src, NULL, r_read, NULL);
	printf(" open=%s", vh_st(st));
	int nent = 0;
	for (;;) {
		struct archive_entry *ae;
		int he0 = archive_read_has_encrypted_entries(r);
		st = archive_read_next_header(r, &ae);
		if (st != ARCHIVE_OK && st != ARCHIVE_WARN) { printf(" end=%s he=%d", vh_st(st), archive_read_has_encrypted_entries(r)); break; }
		if (++nent > 8) { printf(" more"); break; }
		int he1 = archive_read_has_encrypted_entries(r);
		int de = archive_entry_is_data_encrypted(ae), me = archive_entry_is_metadata_encrypted(ae);
		long long esz = archive_entry_size_is_set(ae) ? (long long)archive_entry_size(ae) : -1;
		int isreg = archive_entry_filetype(ae) == AE_IFREG;
		/* data */
		unsigned char *got = NULL; size_t glen = 0, gcap = 0; int rst = ARCHIVE_OK; int sane = 1;
		for (;;) {
			const void *b; size_t n; la_int64_t off;
			rst = archive_read_data_block(r, &b, &n, &off);
			if (rst != ARCHIVE_OK) break;
			if ((size_t)off != glen) sane = 0;
			if (glen + n > gcap) { gcap = (glen + n) * 2 + 64; got = realloc(got, gcap); }
			if (n) memcpy(got + glen, b, n);
			glen += n;
			if (glen > (1u << 26)) { rst = -99; break; }
		}
		int he2 = archive_read_has_encrypted_entries(r);
		printf(" | h=%s he=%d/%d/%d de=%d me=%d r=%s n=%zu d=%016llx dense=%d", vh_st(st),
		    he0, he1, he2, de, me, vh_st(rst), glen, (unsigned long long)vh_fnv(got, glen), sane);
		if (have_body) printf(" eq=%d cb=%d", glen == blen && (glen == 0 || memcmp(got, body, glen) == 0), rs.calls);
		else {
			const char *nm = archive_entry_pathname(ae);
			printf(" reg=%d sz=%lld crc=%08lx name=", isreg, esz,
			    (unsigned long)crc32(0, got ? got : (const unsigned char *)"", (unsigned)glen));
			vh_puthex(nm ? nm : "", nm ? strlen(nm) : 0);
		}
		free(got);
	}
	archive_read_free(r);
	for (int i = 0; i < rs.n; i++) free(rs.ans[i]);
	free(rs.ans);
}

static void op_rt(char **w, int n)
{
	const char *enc = kv(w, n, "enc"), *comp = kv(w, n, "comp"), *sz = kv(w, n, "sz");
	const char *wp = kv(w, n, "wp"), *rps = kv(w, n, "rp"), *rcbs = kv(w, n, "rcb"), *tamper = kv(w, n, "tamper");
	size_t wc = strtoul(kv(w, n, "wc"), NULL, 10), bs = strtoul(kv(w, n, "bs"), NULL, 10);
	int seek = atoi(kv(w, n, "seek"));
	size_t blen = 0; unsigned char *body = make_body(kv(w, n, "body"), &blen);
	struct script ws; memset(&ws, 0, sizeof ws); char *wans[1] = { NULL }; ws.ans = wans;

	/* ---- write ---- */
	struct archive *a = archive_write_new();
	archive_write_set_format_zip(a);
	archive_write_add_filter_none(a);
	archive_write_set_bytes_per_block(a, 1);
	archive_write_set_bytes_in_last_block(a, 1);
	int st_opt = ARCHIVE_OK, st_pw = ARCHIVE_OK;
	char opt[128];
	snprintf(opt, sizeof opt, "zip:compression=%s", comp);
	st_opt = archive_write_set_options(a, opt);
	if (strcmp(enc, "none") != 0) {
		snprintf(opt, sizeof opt, "zip:encryption=%s", enc);
		int s2 = archive_write_set_options(a, opt); if (s2 < st_opt) st_opt = s2;
	}
	char *wps = NULL;
	if (wp[0] == 'v') { wps = hex2str(wp + 2); st_pw = archive_write_set_passphrase(a, wps); }
	else if (wp[0] == 'c') { ws.ans[0] = hex2str(wp + 2); ws.n = 1; st_pw = archive_write_set_passphrase_callback(a, &ws, pp_cb); }
	int st_open = archive_write_open(a, NULL, w_open, w_write, NULL);
	struct archive_entry *e = archive_entry_new();
	archive_entry_set_pathname(e, "f");
	archive_entry_set_mode(e, AE_IFREG | 0644);
	archive_entry_set_mtime(e, 1700000000, 0);
	if (strcmp(sz, "set") == 0) archive_entry_set_size(e, (la_int64_t)blen);
	int st_h = archive_write_header(a, e);
	int st_d = ARCHIVE_OK; size_t off = 0;
	while (st_h >= ARCHIVE_WARN && off < blen) {
		size_t c = wc ? wc : blen; if (c > blen - off) c = blen - off;
		la_ssize_t k = archive_write_data(a, body + off, c);
		if (k < 0) { st_d = (int)k; break; }
		if (k == 0) { st_d = -98; break; }
		off += (size_t)k;
	}
	int st_f = archive_write_finish_entry(a);
	archive_entry_free(e);
	int st_c = archive_write_close(a);
	archive_write_free(a);
	printf("w=%s/%s/%s/%s/%s/%s/%s len=%zu", vh_st(st_opt), vh_st(st_pw), vh_st(st_open), vh_st(st_h), vh_st(st_d), vh_st(st_f), vh_st(st_c), g_alen);

	/* ---- layout as written + independent verification flags ---- */
	struct lay L = layout();
	int salt_len = 0, key_len = 0, hdr = 0, trail = 0;
	if (L.ok && (L.flags & 1)) {
		if (L.method == 99) { salt_len = L.strength == 1 ? 8 : L.strength == 2 ? 12 : 16; key_len = salt_len * 2; hdr = salt_len + 2; trail = 10; }
		else hdr = 12;
	}
	printf(" lay=fl%d.m%d.s%d.cs%zu", L.ok ? (L.flags & 0x49) : -1, L.method, L.strength, L.csize);
	char *rp[64]; int nrp = parse_list(rps, rp, 64);
	char **ca = calloc(MAXANS, sizeof *ca); int nca = parse_list(rcbs, ca, MAXANS);
	/* ---- tamper ---- */
	if (strcmp(tamper, "none") != 0 && hdr && L.csize >= (size_t)(hdr + trail)) {
		size_t ctlen = L.csize - hdr - trail, pos = (size_t)-1, i = 0;
		const char *c = strchr(tamper, ':'); if (c) i = strtoul(c + 1, NULL, 10);
		if (strncmp(tamper, "ct", 2) == 0 && ctlen) pos = L.data + hdr + i % ctlen;
		else if (strncmp(tamper, "mac", 3) == 0 && trail) pos = L.data + hdr + ctlen + i % trail;
		else if (strcmp(tamper, "pwv") == 0 && L.method == 99) pos = L.data + salt_len;
		else if (strcmp(tamper, "salt") == 0 && L.method == 99) pos = L.data;
		if (pos != (size_t)-1 && pos < g_alen) { g_arch[pos] ^= 0x40; printf(" tampered=1"); } else printf(" tampered=0");
	} else printf(" tampered=0");

	/* ---- per-candidate verification flags, recomputed here on the image as the
	 * reader will see it: one flag per distinct candidate string, in order of first
	 * appearance (listed ones first, then the callback's answers) ---- */
	printf(" cand=");
	{
		static const char *seen[1024]; int nseen = 0;
		if (hdr && L.data + hdr <= g_alen)
			for (int i = 0; i < nrp + nca && nseen < 1024; i++) {
				const char *c = i < nrp ? rp[i] : ca[i - nrp];
				int dup = 0;
				for (int k = 0; k < nseen; k++) if (strcmp(seen[k], c) == 0) dup = 1;
				if (dup) continue;
				seen[nseen++] = c;
				int ok = (L.method == 99) ? aes_check(c, g_arch + L.data, salt_len, key_len, g_arch + L.data + salt_len)
				    : trad_check(c, g_arch + L.data, (L.flags & 8) ? g_arch[11] : g_arch[17]);
				putchar(ok ? '1' : '0');
			}
		if (nseen == 0) putchar('-');
	}

	/* ---- read ---- */
	read_side(g_arch, g_alen, rp, nrp, rcbs, bs, seek, body, blen, 1);
	putchar('\n');
	for (int i = 0; i < nrp; i++) free(rp[i]);
	for (int i = 0; i < nca; i++) free(ca[i]);
	free(ca);
	free(wps); free(ws.ans[0]); free(body);
}

static void op_ref(char **w, int n)
{
	const char *file = kv(w, n, "file"), *rps = kv(w, n, "rp"), *rcbs = kv(w, n, "rcb");
	size_t bs = strtoul(kv(w, n, "bs"), NULL, 10); int seek = atoi(kv(w, n, "seek"));
	FILE *f = fopen(file, "rb");
	if (!f) { printf("nofile\n"); return; }
	fseek(f, 0, SEEK_END); long l = ftell(f); fseek(f, 0, SEEK_SET);
	unsigned char *img = malloc(l ? l : 1);
	if (fread(img, 1, l, f) != (size_t)l) { fclose(f); free(img); printf("nofile\n"); return; }
	fclose(f);
	char *rp[64]; int nrp = parse_list(rps, rp, 64);
	printf("ref len=%ld", l);
	read_side(img, (size_t)l, rp, nrp, rcbs[0] ? rcbs : "-", bs, seek, NULL, 0, 0);
	putchar('\n');
	for (int i = 0; i < nrp; i++) free(rp[i]);
	free(img);
}

static void z_begin(void) { }
static void z_op(char *line)
{
	char *w[24]; int n = vh_split(line, w, 24);
	if (n >= 1 && strcmp(w[0], "rt") == 0) op_rt(w + 1, n - 1);
	else if (n >= 1 && strcmp(w[0], "ref") == 0) op_ref(w + 1, n - 1);
	else printf("bad-op\n");
}
static void z_end(void) { free(g_arch); g_arch = NULL; g_acap = g_alen = 0; }

int main(int argc, char **argv)
{
	struct vh_engine e = { z_begin, z_op, z_end };
	return vh_main(argc, argv, &e);
}
