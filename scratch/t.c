#include <stdio.h>
#include <stdlib.h>
#include <string.h>
#include <archive.h>
#include <archive_entry.h>
static void __attribute__((noinline, no_sanitize("address"), no_sanitize("undefined"))) scribble(int pat)
{
	volatile unsigned char big[192 * 1024];
	memset((void *)big, pat, sizeof big);
	__asm__ volatile("" : : "r"(big) : "memory");
}
int main(int argc, char **argv)
{
	unsigned char out[4096]; size_t used = 0;
	struct archive *a = archive_write_new();
	archive_write_set_format_by_name(a, "arbsd");
	archive_write_open_memory(a, out, sizeof out, &used);
	struct archive_entry *e = archive_entry_new();
	archive_entry_copy_pathname(e, "a.o"); archive_entry_set_size(e, 5); archive_entry_set_filetype(e, AE_IFREG);
	archive_entry_set_perm(e, 0644);
	scribble(atoi(argv[1]));
	archive_write_header(a, e);
	archive_write_data(a, "hello", 5);
	archive_write_close(a);
	for (size_t i = 0; i < used && i < 80; i++) printf("%02x", out[i]);
	printf("\n");
	return 0;
}
