import sys, random, re, collections
sys.path.insert(0,'tools')
from lib import core
from props._cw import Cw
e=Cw()
exe=e.build()
rng=random.Random(5)
cases=[c for c in e.gen(rng,'thorough') if c.meta['kind']=='monitor']
for c in cases: c.ops=[('bpb 0' if o=='bpb 512' else o) for o in c.ops]
print(len(cases))
impl,err=e.run_impl(exe,cases)
res=collections.defaultdict(list)
for c,im in zip(cases,impl):
    o=e.oracle(c,im)
    crashed=[l for l in im if l.startswith('!')]
    if o or crashed:
        res[(c.meta['fmt'],c.meta['filter'],(o or '')[:90]+' '.join(crashed))].append(c.label)
for k,v in sorted(res.items()): print(k,len(v),v[:4])
open('scratch/mon.err','w').write(err)
