#include <stdio.h>
#include <stdlib.h>
#include <string.h>
static void __attribute__((noinline, no_sanitize("address"), no_sanitize("undefined"))) scribble(int pat)
{
	volatile unsigned char big[192 * 1024];
	memset((void *)big, pat, sizeof big);
	__asm__ volatile("" : : "r"(big) : "memory");
}
static void __attribute__((noinline)) show(void)
{
	char buff[60];
	__asm__ volatile("" : : "r"(buff) : "memory");
	for (int i = 0; i < 60; i++) printf("%02x", (unsigned char)buff[i]);
	printf("\n");
}
int main(int argc, char **argv) { scribble(atoi(argv[1])); show(); return 0; }
