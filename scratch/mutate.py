#!/usr/bin/env python3
"""Apply one source mutation in the repo worktree, run a quick check, report, revert."""
import subprocess, sys, os, re, json, glob
REPO='/tmp/wk/c09/repo'
MUTS = {
 'M1-lastblock-rounding': ('C09', 'libarchive/archive_write.c', '( (block_length + a->bytes_in_last_block - 1) /', '( (block_length + a->bytes_in_last_block) /'),
 'M2-shortwrite-le0-flush': ('C09', 'libarchive/archive_write.c', '''				    a->client_data, p, to_write);
				if (bytes_written <= 0)
					return (ARCHIVE_FATAL);''', '''				    a->client_data, p, to_write);
				if (bytes_written < 0)
					return (ARCHIVE_FATAL);'''),
 'M2b-shortwrite-le0-direct': ('C09', 'libarchive/archive_write.c', '''		    a->client_data, buff, state->buffer_size);
		if (bytes_written <= 0)''', '''		    a->client_data, buff, state->buffer_size);
		if (bytes_written < 0)'''),
 'M3-memory-bound': ('C09', 'libarchive/archive_write_open_memory.c', 'if (mine->used + length > mine->size) {', 'if (mine->used + length >= mine->size) {'),
 'M3b-memory-bound-off': ('C09', 'libarchive/archive_write_open_memory.c', 'if (mine->used + length > mine->size) {', 'if (mine->used + length > mine->size + 1) {'),
 'M4-padding-memset': ('C09', 'libarchive/archive_write.c', '''			memset(state->next, 0,
			    target_block_length - block_length);
''', ''),
 'M4-padding-memset-C11': ('C11', 'libarchive/archive_write.c', '''			memset(state->next, 0,
			    target_block_length - block_length);
''', ''),
 'M5-unchecked-output': ('C09', 'libarchive/archive_write_set_format_cpio_newc.c', None, None),
 'M6-b64-fix-reverted': ('C09', 'libarchive/archive_write_add_filter_b64encode.c', '''		if (ret != ARCHIVE_OK)
			return (ret);
		memmove(''', '''		memmove('''),
 'M7-ustar-template-memcpy': ('C11', 'libarchive/archive_write_set_format_ustar.c', '	memcpy(h, &template_header, 512);\n', ''),
 'M7-ustar-template-memcpy-C09': ('C09', 'libarchive/archive_write_set_format_ustar.c', '	memcpy(h, &template_header, 512);\n', ''),
 'M8-newc-memset': ('C11', 'libarchive/archive_write_set_format_cpio_newc.c', '	memset(h, 0, c_header_size);\n', ''),
 'M8b-gnutar-template': ('C11', 'libarchive/archive_write_set_format_gnutar.c', '	memcpy(h, &template_header, 512);\n', ''),
 'M8c-ar-memset': ('C11', 'libarchive/archive_write_set_format_ar.c', "	memset(buff, ' ', 60);\n", ''),
 'M8d-odc-memset': ('C11', 'libarchive/archive_write_set_format_cpio_odc.c', '	memset(h, 0, sizeof(h));\n', ''),
 'M9-nulls-status': ('C09', 'libarchive/archive_write.c', '''		if (r < ARCHIVE_OK)
			return (r);
		length -= to_write;''', '''		length -= to_write;'''),
 'M10-fill-wrong-avail': ('C09', 'libarchive/archive_write.c', '''		to_copy = ((size_t)remaining > state->avail) ?
			state->avail : (size_t)remaining;''', '''		to_copy = ((size_t)remaining >= state->avail) ?
			state->avail - 1 : (size_t)remaining;'''),
}
def sh(cmd, **kw):
    return subprocess.run(cmd, shell=True, stdout=subprocess.PIPE, stderr=subprocess.STDOUT, text=True, **kw)
def main(name):
    prop, rel, old, new = MUTS[name]
    p = os.path.join(REPO, rel)
    t = open(p).read()
    if name == 'M5-unchecked-output':
        m = re.search(r'ret = __archive_write_output\(a, h, c_header_size\);', t)
        assert m, 'pattern'
        t2 = t.replace(m.group(0), '__archive_write_output(a, h, c_header_size); ret = ARCHIVE_OK;', 1)
    else:
        assert t.count(old) >= 1, 'pattern not found for ' + name
        t2 = t.replace(old, new, 1)
    open(p, 'w').write(t2)
    try:
        r = sh(f'cd /tmp/wk/c09/verif && rm -rf out/replays && VERIF_REPO={REPO} python3 tools/check.py {prop} --tier quick')
        viol = [l for l in r.stdout.split('\n') if l.startswith('VIOLATION')]
        print(f'== {name} [{prop}] exit={r.returncode} violations={len(viol)}')
        for f in sorted(glob.glob('/tmp/wk/c09/verif/out/replays/*.json'))[:3]:
            d = json.load(open(f))
            print('   ', d['kind'], 'found_input=', d['found_failing_input'], '|', str(d.get('what'))[:230].replace('\n', ' '))
            if d.get('ops'): print('      ops:', ' ; '.join(d['ops'])[:300])
    finally:
        sh(f'git -C {REPO} checkout -- .')
for n in sys.argv[1:]:
    main(n)
