#!/usr/bin/env python3
import json, glob, sys
def cut(s, n=160): 
    s = str(s); return s if len(s) <= n else s[:n] + f'...[{len(s)}]'
for f in sorted(glob.glob('/verif/out/replays/*.json'))[:int(sys.argv[1]) if len(sys.argv) > 1 else 3]:
    d = json.load(open(f)); print('==', f, d.get('label'), cut(d.get('what')))
    for k in ('ops', 'impl', 'model'):
        v = d.get(k) or []
        print(' ', k, len(v)); [print('     ', cut(x)) for x in v[:14]]
    if d.get('stderr_tail'): print('  stderr:', cut(d['stderr_tail'][-600:], 600))
    for k in ('theorems_not_checked','lake_errors','forbidden_tokens'):
        if d.get(k): print(' ', k, cut(d[k], 800))
