#!/usr/bin/env python3
"""Entry point: check.py Cxx [--tier quick|thorough]   |   check.py --setup"""
import argparse, importlib, os, sys
sys.path.insert(0, os.path.dirname(os.path.abspath(__file__)))
from lib import core


def setup():
    from lib import extract
    errs = extract.run()
    if errs:
        print('extract:', errs)
    core.ensure_lib('asan', ('archive_static',))
    ok, out, errs = core.lake_build([])
    if not ok:
        print(out[-4000:]); return 1
    import glob
    for f in sorted(glob.glob(os.path.join(os.path.dirname(__file__), 'props', 'C*.py'))):
        P = importlib.import_module('props.' + os.path.basename(f)[:-3])
        for e in P.ENGINES:
            try:
                e.build()
            except core.BuildError as ex:
                print(ex); return 1
    return 0


def main():
    # generators must be a function of VERIF_SEED alone: fix the string hash seed (iteration order of sets)
    if os.environ.get('PYTHONHASHSEED') != '0':
        os.environ['PYTHONHASHSEED'] = '0'
        os.execv(sys.executable, [sys.executable] + sys.argv)
    ap = argparse.ArgumentParser()
    ap.add_argument('prop', nargs='?')
    ap.add_argument('--tier', default=os.environ.get('VERIF_TIER', 'quick'))
    ap.add_argument('--setup', action='store_true')
    a = ap.parse_args()
    if a.setup:
        sys.exit(setup())
    seed = int(os.environ.get('VERIF_SEED', '1'))
    P = importlib.import_module('props.' + a.prop)
    rc = core.run_check(P, a.tier, seed)
    print(f'{a.prop}: ' + ('FAIL' if rc else 'ok'), file=sys.stderr)
    sys.exit(rc)


if __name__ == '__main__':
    main()
