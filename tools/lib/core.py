"""
Shared machinery for all property checks (see DESIGN.md section 1.1, 2).

  regenerate Gen/*.lean from /repo -> lake build -> audit
  build libarchive + harness from /repo's working tree -> corpus, then seeded cases
  model output != implementation output  -> shrink -> VIOLATION
"""
import fcntl, hashlib, json, os, random, re, shutil, subprocess, sys, time

ROOT = os.path.dirname(os.path.dirname(os.path.dirname(os.path.abspath(__file__))))
REPO = os.environ.get('VERIF_REPO', '/repo')
LEAN = os.path.join(ROOT, 'lean')
BUILD = os.path.join(ROOT, '.build')
OUT = os.path.join(ROOT, 'out')
HARNESS = os.path.join(ROOT, 'harness')
EVID = os.path.join(ROOT, 'evidence')
LIBS = '-lz -lbz2 -llzma -lb2 -llz4 -lzstd -lcrypto -lxml2 -lacl -lpthread -ldl'.split()
ALLOWED_AXIOMS = {'propext', 'Classical.choice', 'Quot.sound'}
GUARD = 'LIBARCHIVE_VERIF'

FLAVOURS = {
    'asan': '-O1 -g -fno-omit-frame-pointer -fsanitize=address,undefined '
            '-fno-sanitize-recover=undefined -Wno-error -D' + GUARD,
    'tsan': '-O1 -g -fno-omit-frame-pointer -fsanitize=thread -Wno-error -D' + GUARD,
    'plain': '-O1 -g -Wno-error -D' + GUARD,
}


def log(*a):
    print(*a, file=sys.stderr, flush=True)


def sh(cmd, **kw):
    kw.setdefault('stdout', subprocess.PIPE)
    kw.setdefault('stderr', subprocess.STDOUT)
    kw.setdefault('text', True)
    return subprocess.run(cmd, **kw)


class Lock:
    """Serialises builds so checks may run in parallel."""

    def __init__(self, name):
        os.makedirs(BUILD, exist_ok=True)
        self.path = os.path.join(BUILD, name + '.lock')

    def __enter__(self):
        self.f = open(self.path, 'w')
        fcntl.flock(self.f, fcntl.LOCK_EX)
        return self

    def __exit__(self, *a):
        fcntl.flock(self.f, fcntl.LOCK_UN)
        self.f.close()


# --------------------------------------------------------------------------
# libarchive + harness builds (always from /repo's current working tree)

def ensure_lib(flavour='asan', targets=('archive_static',)):
    d = os.path.join(BUILD, flavour)
    with Lock('cmake-' + flavour):
        if not os.path.exists(os.path.join(d, 'build.ninja')):
            log(f'[build] configuring {flavour} (about 45 s)')
            r = sh(['cmake', '-G', 'Ninja', '-S', REPO, '-B', d, '-DCMAKE_BUILD_TYPE=None',
                    '-DCMAKE_C_COMPILER=gcc', '-DCMAKE_C_FLAGS=' + FLAVOURS[flavour],
                    '-DENABLE_TEST=OFF', '-DENABLE_WERROR=OFF'])
            if r.returncode != 0:
                raise BuildError('cmake configure failed:\n' + r.stdout[-3000:])
        r = sh(['ninja', '-C', d] + list(targets))
        if r.returncode != 0:
            raise BuildError('libarchive build failed:\n' + r.stdout[-4000:])
    return d


class BuildError(Exception):
    pass


def build_engine(name, flavour='asan', extra=(), deps=()):
    """Compile harness/eng_<name>.c against the freshly built libarchive.a."""
    d = ensure_lib(flavour)
    lib = os.path.join(d, 'libarchive', 'libarchive.a')
    src = os.path.join(HARNESS, f'eng_{name}.c')
    bindir = os.path.join(BUILD, 'bin-' + flavour)
    os.makedirs(bindir, exist_ok=True)
    exe = os.path.join(bindir, 'eng_' + name)
    with Lock('eng-' + name + flavour):
        newest = max(os.path.getmtime(p) for p in
                     [src, os.path.join(HARNESS, 'common.h'), lib] +
                     [os.path.join(HARNESS, h) for h in os.listdir(HARNESS) if h.endswith('.h')] +
                     [os.path.join(REPO, x) for x in deps])
        if not os.path.exists(exe) or os.path.getmtime(exe) < newest:
            cmd = (['gcc'] + FLAVOURS[flavour].split() +
                   ['-D__LIBARCHIVE_BUILD', '-DHAVE_CONFIG_H', '-I', d, '-I', os.path.join(REPO, 'libarchive'),
                    '-I', HARNESS, '-Wl,--allow-multiple-definition',
                    '-o', exe + '.tmp', src] + list(extra) + [lib] + LIBS)
            r = sh(cmd)
            if r.returncode != 0:
                raise BuildError(f'harness engine {name} failed to build:\n' + r.stdout[-4000:])
            os.replace(exe + '.tmp', exe)
    return exe


# --------------------------------------------------------------------------
# Lean: build, audit

FORBIDDEN = re.compile(r'\b(sorry|admit|native_decide|bv_decide|implemented_by|unsafe)\b|^\s*axiom\s|maxHeartbeats\s+0')


def strip_comments(text):
    # remove /- ... -/ (nested) and -- ... comments
    out, i, depth = [], 0, 0
    while i < len(text):
        if text.startswith('/-', i):
            depth += 1; i += 2; continue
        if depth and text.startswith('-/', i):
            depth -= 1; i += 2; continue
        if depth:
            if text[i] == '\n':
                out.append('\n')
            i += 1; continue
        if text.startswith('--', i):
            j = text.find('\n', i)
            i = len(text) if j < 0 else j
            continue
        out.append(text[i]); i += 1
    return ''.join(out)


def lean_grep():
    hits = []
    for base, _, files in os.walk(os.path.join(LEAN, 'LA')):
        for f in files:
            if f.endswith('.lean'):
                p = os.path.join(base, f)
                for n, line in enumerate(strip_comments(open(p).read()).split('\n'), 1):
                    if FORBIDDEN.search(line):
                        hits.append(f'{os.path.relpath(p, LEAN)}:{n}: {line.strip()}')
    return hits


def lake_build(targets):
    with Lock('lake'):
        r = sh(['lake', 'build'] + list(targets), cwd=LEAN)
    errs = [l for l in r.stdout.split('\n') if l.startswith('error:')]
    return r.returncode == 0, r.stdout, errs


def theorems_of(module):
    """Fully qualified names of the theorems declared in a Props module."""
    path = os.path.join(LEAN, module.replace('.', '/') + '.lean')
    text = strip_comments(open(path).read())
    ns, names = [], []
    for line in text.split('\n'):
        m = re.match(r'\s*namespace\s+(\S+)', line)
        if m:
            ns.append(m.group(1)); continue
        m = re.match(r'\s*end\s+(\S+)', line)
        if m and ns and ns[-1] == m.group(1):
            ns.pop(); continue
        m = re.match(r'\s*(?:@\[[^\]]*\]\s*)?(?:private\s+|protected\s+)?theorem\s+([^\s:({\[]+)', line)
        if m:
            names.append('.'.join(ns + [m.group(1)]))
    return names


def audit(modules):
    """#print axioms for every theorem of the given Props modules.
    Returns (results: {name: [axioms] | None}, raw output)."""
    names = []
    for m in modules:
        names += theorems_of(m)
    d = os.path.join(LEAN, '.audit')
    os.makedirs(d, exist_ok=True)
    f = os.path.join(d, 'Audit_' + hashlib.md5(' '.join(modules).encode()).hexdigest()[:8] + '.lean')
    with open(f, 'w') as h:
        for m in modules:
            h.write(f'import {m}\n')
        for n in names:
            h.write(f'#print axioms {n}\n')
    r = sh(['lake', 'env', 'lean', f], cwd=LEAN)
    res = {n: None for n in names}
    txt = r.stdout.replace('\n  ', ' ')
    for m in re.finditer(r"'([^']+)' depends on axioms: \[([^\]]*)\]", txt):
        res[m.group(1)] = [a.strip() for a in m.group(2).split(',') if a.strip()]
    for m in re.finditer(r"'([^']+)' does not depend on any axioms", txt):
        res[m.group(1)] = []
    return res, r.stdout


# --------------------------------------------------------------------------
# cases, engines

class Case:
    __slots__ = ('label', 'ops', 'meta')

    def __init__(self, label, ops, meta=None):
        self.label = label
        self.ops = list(ops)
        self.meta = meta or {}

    def key(self):
        return hashlib.sha1('\n'.join(self.ops).encode()).hexdigest()


class Engine:
    """One correspondence engine: harness binary eng_<name> + Lean driver engine <name>."""
    name = None
    harness = None          # harness source eng_<harness>.c (default: name)
    model = None            # Lean driver engine (default: name)
    flavour = 'asan'
    extra_cflags = ()
    repo_deps = ()          # files under /repo that are #included by the harness TU
    env = {}
    timeout = 1800
    parallel = 1            # >1: the case list is split over this many harness/driver processes (engine must keep
                            # per-process scratch state only)

    def corpus(self, prop):
        d = os.path.join(ROOT, 'corpus', prop)
        out = []
        if os.path.isdir(d):
            for f in sorted(os.listdir(d)):
                if f.startswith(self.name + '.') and f.endswith('.ops'):
                    ops = [l.rstrip('\n') for l in open(os.path.join(d, f)) if l.strip() and not l.startswith('#')]
                    out.append(Case('corpus:' + f, ops))
        return out

    def gen(self, rng, tier):
        return []

    def oracle(self, case, impl):
        """Property predicate evaluated on the implementation's observed behaviour.
        Return None when it holds, else a short description."""
        return None

    def nontrivial(self, case, impl):
        return len(case.ops) > 1

    # -- running ----------------------------------------------------------
    def build(self):
        self.exe = build_engine(self.harness or self.name, self.flavour, self.extra_cflags, self.repo_deps)
        return self.exe

    def run_impl(self, exe, cases):
        if self.parallel > 1 and len(cases) >= 4 * self.parallel:
            return self._split(lambda cs: self._run_impl1(exe, cs), cases, joinerr=True)
        return self._run_impl1(exe, cases)

    def _split(self, fn, cases, joinerr=False, extra=None):
        from concurrent.futures import ThreadPoolExecutor
        k = self.parallel
        idx = [list(range(j, len(cases), k)) for j in range(k)]          # round-robin keeps the load even
        with ThreadPoolExecutor(k) as ex:
            if extra is None:
                res = list(ex.map(lambda ix: fn([cases[i] for i in ix]), idx))
            else:
                res = list(ex.map(lambda ix: fn([cases[i] for i in ix], [extra[i] if i < len(extra) else [] for i in ix]), idx))
        out = [[] for _ in cases]
        errs = []
        for ix, r in zip(idx, res):
            lines = r[0] if joinerr else r
            if joinerr:
                errs.append(r[1])
            for i, l in zip(ix, lines):
                out[i] = l
        return (out, '\n'.join(e for e in errs if e)) if joinerr else out

    def _run_impl1(self, exe, cases):
        text = ''.join(f'#case {i}\n' + ''.join(o + '\n' for o in c.ops) for i, c in enumerate(cases))
        env = dict(os.environ)
        env.setdefault('ASAN_OPTIONS', 'detect_leaks=1:abort_on_error=0:exitcode=99:allocator_may_return_null=1')
        env.setdefault('UBSAN_OPTIONS', 'print_stacktrace=1:halt_on_error=1')
        env['LC_ALL'] = env['LANG'] = 'C.UTF-8'
        env.setdefault('VERIF_SCRATCH', os.path.join(OUT, 'scratch'))
        os.makedirs(env['VERIF_SCRATCH'], exist_ok=True)
        env.update(self.env)
        import threading
        errf = os.path.join(OUT, f'{self.name}.{os.getpid()}.{threading.get_ident()}.stderr')
        os.makedirs(OUT, exist_ok=True)
        with open(errf, 'w') as eh:
            r = subprocess.run([exe], input=text, stdout=subprocess.PIPE, stderr=eh, text=True,
                               env=env, timeout=self.timeout, errors='replace')
        err = open(errf, errors='replace').read()
        os.unlink(errf)
        return split_cases(r.stdout, len(cases)), err

    def run_model(self, cases, impl):
        if self.parallel > 1 and len(cases) >= 4 * self.parallel:
            return self._split(self._run_model1, cases, extra=impl)
        return self._run_model1(cases, impl)

    def _run_model1(self, cases, impl):
        lines = []
        for i, c in enumerate(cases):
            lines.append(f'#case {i}')
            obs = impl[i] if i < len(impl) else []
            for j, o in enumerate(c.ops):
                lines.append(o + '\t' + (obs[j] if j < len(obs) else ''))
        drv = os.path.join(LEAN, '.lake', 'build', 'bin', 'driver')
        r = subprocess.run([drv, self.model or self.name], input='\n'.join(lines) + '\n', stdout=subprocess.PIPE,
                           stderr=subprocess.PIPE, text=True, timeout=self.timeout)
        if r.returncode != 0:
            raise BuildError('model driver failed: ' + r.stderr[-2000:])
        return split_cases(r.stdout, len(cases))


def split_cases(text, n):
    out = [[] for _ in range(n)]
    cur = None
    for line in text.split('\n'):
        if line.startswith('#case '):
            cur = int(line.split()[1]); continue
        if cur is not None and line != '' and cur < n:
            out[cur].append(line)
    return out


def first_diff(a, b):
    for i in range(max(len(a), len(b))):
        x = a[i] if i < len(a) else '<missing>'
        y = b[i] if i < len(b) else '<missing>'
        if x != y:
            return i
    return None


def ddmin(ops, fails, keep_prefix=0, budget=150):
    """Delta-debug the op list while `fails(ops)` stays true."""
    n = 2
    ops = list(ops)
    while len(ops) - keep_prefix >= 2 and budget > 0:
        body = ops[keep_prefix:]
        chunk = max(1, len(body) // n)
        reduced = False
        for i in range(0, len(body), chunk):
            cand = ops[:keep_prefix] + body[:i] + body[i + chunk:]
            budget -= 1
            if fails(cand):
                ops = cand; n = max(n - 1, 2); reduced = True
                break
            if budget <= 0:
                break
        if not reduced:
            if chunk == 1:
                break
            n = min(n * 2, len(body))
    return ops


# --------------------------------------------------------------------------
# the check itself

class Result:
    def __init__(self, prop, tier, seed):
        self.prop, self.tier, self.seed = prop, tier, seed
        self.t0 = time.time()
        self.violations = []      # (replay_path, found_input: bool)
        self.known_seen = []
        self.obligations = {}
        self.cov = {'evaluations': 0, 'distinct_nontrivial': 0, 'samples': [], 'engines': {}}
        self.notes = []

    def violation(self, kind, detail, found_input):
        os.makedirs(os.path.join(OUT, 'replays'), exist_ok=True)
        p = os.path.join(OUT, 'replays', f'{self.prop}_{kind}_{int(time.time()*1000)%10**10}.json')
        detail = dict(detail)
        detail.update(property=self.prop, kind=kind, found_failing_input=found_input, tier=self.tier, seed=self.seed)
        json.dump(detail, open(p, 'w'), indent=1)
        self.violations.append((p, found_input))
        print(f'VIOLATION property={self.prop} replay={p}' + ('' if found_input else ' no-failing-input-found'), flush=True)


def load_known():
    p = os.path.join(ROOT, 'known_findings.json')
    return json.load(open(p)) if os.path.exists(p) else {'findings': []}


def run_check(P, tier, seed):
    """P is a property module (tools/props/Cxx.py)."""
    res = Result(P.PROP, tier, seed)
    rng = random.Random(seed * 1000003 + int(hashlib.md5(P.PROP.encode()).hexdigest()[:6], 16))
    known = [f for f in load_known()['findings'] if f['property'] == P.PROP and f.get('status') == 'open']

    # 1. regenerate the extracted tables
    from . import extract
    ex_errors = extract.run(getattr(P, 'GEN', None))
    for e in ex_errors:
        res.violation('extract', {'what': 'extraction from /repo failed: ' + e,
                                  'unchecked': 'tables in lean/LA/Gen'}, False)

    # 2. build the driver (models only) and the property theorems
    ok_drv, out_drv, errs = lake_build(['driver'])
    if not ok_drv:
        res.violation('model-build', {'what': 'the executable model no longer builds against the regenerated tables',
                                      'errors': errs[:20], 'log': out_drv[-3000:]}, False)
    ok_props, out_props, errs = lake_build(P.PROPS_MODULES)
    broken_theorems = []
    if not ok_props:
        broken_theorems = errs[:30]
    # 3. audit
    hits = lean_grep()
    ax = {}
    if ok_props:
        ax, raw = audit(P.PROPS_MODULES)
    else:
        for m in P.PROPS_MODULES:
            for n in theorems_of(m):
                ax[n] = None
    bad = {n: a for n, a in ax.items() if a is None or not set(a) <= ALLOWED_AXIOMS}
    rechecked = None
    if tier == 'thorough' and ok_props:
        # independent re-check of the compiled theorem modules by the toolchain's leanchecker (kernel replay)
        rechecked = {}
        for m in P.PROPS_MODULES:
            with Lock('leanchecker'):
                r = sh(['lake', 'env', 'leanchecker', m], cwd=LEAN)
            rechecked[m] = (r.returncode == 0)
            if r.returncode != 0:
                bad['leanchecker:' + m] = None
                res.notes.append('leanchecker rejected ' + m + ': ' + r.stdout[-800:])
        res.notes.append('leanchecker re-checked: ' + ', '.join(f"{m}={'ok' if v else 'FAILED'}" for m, v in rechecked.items()))
    res.obligations = {'total': len(ax), 'discharged': len(ax) - len(bad), 'theorems': sorted(ax)}
    proof_broken = None
    if hits or bad or not ok_props:
        proof_broken = {'what': 'proof obligation broken', 'forbidden_tokens': hits,
                        'theorems_not_checked': sorted(bad), 'lake_errors': broken_theorems,
                        'log': (out_props[-3000:] if not ok_props else '')}

    # 4. correspondence
    found_any_input = False
    if ok_drv:
        for eng in P.ENGINES:
            try:
                exe = eng.build()
            except BuildError as e:
                res.violation('harness-build', {'engine': eng.name, 'what': str(e)[-3000:]}, False)
                continue
            found_any_input |= run_engine(P, eng, exe, res, rng, tier, known)
    else:
        res.notes.append('model driver did not build; correspondence not run')

    if proof_broken is not None:
        # search result: did any engine exhibit a failing input?  Either way the obligation is reported.
        proof_broken['correspondence_found_failing_input'] = found_any_input
        res.violation('proof', proof_broken, False)

    write_evidence(P, res)
    return 1 if res.violations else 0


def run_engine(P, eng, exe, res, rng, tier, known):
    t0 = time.time()
    cases = eng.corpus(P.PROP) + list(eng.gen(rng, tier))
    st = {'cases': len(cases), 'ops': sum(len(c.ops) for c in cases)}
    found_input = False
    if not cases:
        return False
    impl, err = eng.run_impl(exe, cases)
    model = eng.run_model(cases, impl)
    seen, nontriv, mism = set(), 0, []
    for i, c in enumerate(cases):
        k = c.key()
        if k not in seen:
            seen.add(k)
            if eng.nontrivial(c, impl[i]):
                nontriv += 1
        d = first_diff(impl[i], model[i])
        o = None
        if d is None:
            o = eng.oracle(c, impl[i])
        if d is not None or o is not None:
            mism.append((i, d, o))
    st.update(distinct=len(seen), nontrivial=nontriv, mismatches=len(mism), wall_s=round(time.time() - t0, 2))
    if hasattr(eng, 'stats'):
        st['distribution'] = eng.stats(cases, impl)
    res.cov['engines'][eng.name] = st
    res.cov['evaluations'] += len(cases)
    res.cov['distinct_nontrivial'] += nontriv
    for i in sorted(rng.sample(range(len(cases)), min(2, len(cases)))):
        res.cov['samples'].append({'engine': eng.name, 'ops': cases[i].ops[:12], 'impl': impl[i][:12], 'model': model[i][:12]})

    # known findings: witnesses replayed on the implementation
    for f in known:
        if f.get('engine') != eng.name or 'case' not in f:
            continue
        w = Case('known:' + f['id'], f['case'])
        wi, _ = eng.run_impl(exe, [w])
        if wi[0] == f['impl_shows']:
            print(f"KNOWN-FINDING: property={P.PROP} {f['what']}", flush=True)
            res.known_seen.append(f['id'])
        wm = eng.run_model([w], wi)
        if first_diff(wi[0], wm[0]) is not None:
            mism.append(('known:' + f['id'], w, wi[0], wm[0]))

    reported = 0
    for item in mism:
        if reported >= 3:
            break
        if len(item) == 4:
            _, c, im, mo = item; d = first_diff(im, mo); o = None
        else:
            i, d, o = item
            c, im, mo = cases[i], impl[i], model[i]
        # a recorded defect class: identified by the input (first op = the archive / scenario) and,
        # optionally, by the diverging operation; anything else of the same property is still reported
        if d is not None:
            cls = [f for f in known if f.get('engine') == eng.name and f.get('case_regex')
                   and re.search(f['case_regex'], c.ops[0] if c.ops else '')
                   and (not f.get('op_regex') or (d < len(c.ops) and re.search(f['op_regex'], c.ops[d])))]
            if cls and any(f.get('stderr_regex') for f in cls):
                # the class is also identified by the sanitizer report of this very case
                _, cerr = eng.run_impl(exe, [c])
                cls = [f for f in cls if not f.get('stderr_regex') or re.search(f['stderr_regex'], cerr)]
            if cls:
                if cls[0]['id'] not in res.known_seen:
                    print(f"KNOWN-FINDING: property={P.PROP} {cls[0]['what']}", flush=True)
                    res.known_seen.append(cls[0]['id'])
                continue
        if d is None and o is not None:
            # model and implementation agree, property predicate false on the implementation
            matched = [f for f in known if f.get('engine') == eng.name and f.get('oracle_match') and re.search(f['oracle_match'], o)]
            if matched:
                if matched[0]['id'] not in res.known_seen:
                    print(f"KNOWN-FINDING: property={P.PROP} {matched[0]['what']}", flush=True)
                    res.known_seen.append(matched[0]['id'])
                continue
            res.violation('property', {'engine': eng.name, 'what': 'property predicate false on the implementation: ' + o,
                                       'ops': c.ops, 'impl': im, 'label': c.label}, True)
            found_input = True; reported += 1
            continue

        def fails(ops):
            a, _ = eng.run_impl(exe, [Case('s', ops)])
            b = eng.run_model([Case('s', ops)], a)
            return first_diff(a[0], b[0]) is not None
        small = ddmin(c.ops, fails, getattr(eng, 'keep_prefix', 0)) if len(c.ops) > 1 else c.ops
        a, serr = eng.run_impl(exe, [Case('s', small)])
        b = eng.run_model([Case('s', small)], a)
        o2 = eng.oracle(Case('s', small), a[0])
        crashed = any(l.startswith('!') for l in a[0])
        # engines whose model output IS the property's prediction from a reference run of the same
        # implementation (C05/C06/C08 reader engines): a disagreement is itself a failing input
        fi = bool(o2) or crashed or bool(getattr(eng, 'mismatch_is_failing_input', False))
        res.violation('correspondence', {
            'engine': eng.name, 'label': c.label,
            'what': 'model and implementation disagree' + ('; implementation crashed/aborted (sanitizer or signal)' if crashed else '')
                    + ('; property predicate false on the implementation: ' + o2 if o2 else ''),
            'correspondence': f'engine {eng.name}: lean/LA/Model vs harness/eng_{eng.name}.c',
            'ops': small, 'impl': a[0], 'model': b[0], 'first_diff_line': first_diff(a[0], b[0]),
            'original_ops': c.ops if len(c.ops) < 200 else c.ops[:200],
            'first_run_impl': im[:200], 'first_run_model': mo[:200],
            'stderr_tail': serr[-3000:]}, fi)
        found_input |= fi
        reported += 1
    return found_input


def write_evidence(P, res):
    os.makedirs(EVID, exist_ok=True)
    cov = dict(res.cov)
    cov.update({
        'obligations': res.obligations.get('total', 0),
        'discharged': res.obligations.get('discharged', 0),
        'theorems': res.obligations.get('theorems', []),
        'checker_cmd': 'cd lean && lake build driver ' + ' '.join(P.PROPS_MODULES) +
                       ' && lake env lean .audit/Audit_*.lean   # #print axioms for every theorem listed' +
                       (''.join(' && lake env leanchecker ' + m for m in P.PROPS_MODULES) if res.tier == 'thorough' else ''),
        'trusted_base': ['Lean 4.33.0 kernel', 'axioms: propext, Classical.choice, Quot.sound only',
                         'tools/lib/extract.py (tables regenerated from /repo)',
                         'correspondence harness + generators (differential execution against /repo build)'] +
                        list(getattr(P, 'TRUSTED', [])),
        'rule': getattr(P, 'RULE', 'cases are op streams; distinct by SHA-1 of the op text; non-trivial per engine rule'),
        'traces_validated_against_impl': res.cov['evaluations'],
        'known_findings_seen': res.known_seen,
    })
    if not cov['samples']:
        cov['samples'] = [{'theorems': res.obligations.get('theorems', [])[:5]}]
    ev = {'property_id': P.PROP, 'tier': res.tier, 'seed': res.seed, 'level': 'proof', 'coverage': cov,
          'assumptions': list(getattr(P, 'ASSUMPTIONS', [])), 'wall_s': round(time.time() - res.t0, 2),
          'violations': len(res.violations), 'notes': res.notes}
    json.dump(ev, open(os.path.join(EVID, P.PROP + '.json'), 'w'), indent=1)
