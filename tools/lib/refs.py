"""Reference archives of libarchive's own test suite (libarchive/test/*.uu), decoded
at run time into out/refs/ (never committed)."""
import binascii, glob, os
from . import core

REFDIR = os.path.join(core.OUT, 'refs')


def uudecode(text):
    out, inside = bytearray(), False
    for line in text.split(b'\n'):
        if not inside:
            if line.startswith(b'begin '):
                inside = True
            continue
        if line.strip() == b'end':
            break
        if not line:
            continue
        try:
            out += binascii.a2b_uu(line)
        except binascii.Error:
            n = (((line[0] - 32) & 63) * 4 + 5) // 3
            out += binascii.a2b_uu(line[:n])
    return bytes(out)


def decoded():
    """[(name, path)] of every decodable reference file; cached by source mtime."""
    os.makedirs(REFDIR, exist_ok=True)
    res = []
    for f in sorted(glob.glob(os.path.join(core.REPO, 'libarchive', 'test', '*.uu'))):
        name = os.path.basename(f)[:-3]
        dst = os.path.join(REFDIR, name)
        if not os.path.exists(dst) or os.path.getmtime(dst) < os.path.getmtime(f):
            try:
                data = uudecode(open(f, 'rb').read())
            except Exception:
                continue
            tmp = dst + '.tmp%d' % os.getpid()
            open(tmp, 'wb').write(data)
            os.replace(tmp, dst)
        res.append((name, dst))
    return res
