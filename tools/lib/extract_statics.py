"""
Extractor `Statics` (property C13): the inventory of mutable static-storage
objects of libarchive, regenerated on every run into lean/LA/Gen/Statics.lean.

  elf          every OBJECT symbol that the freshly compiled objects of the
               `plain` flavour place in a writable section (.bss*, .data*, COMMON;
               not .rodata*, not .data.rel.ro*), from `readelf -SW/-sW`
  alt          the same for code that this platform's configuration compiles
               out but other configurations use: archive_random.c without
               HAVE_ARC4RANDOM_BUF, archive_crc32.h (no zlib)
  src          every `static` variable declaration in libarchive/*.[ch] (regex over
               comment-stripped text), with a flag "the object itself is const"
  processWide  every import of a libc function that reads/writes process-wide
               state (umask, chdir, ...) per object file
  mutexFns     for archive_random.c: every function, whether it touches the
               arc4random state, whether its body takes and releases
               arc4random_mtx, and who calls it
  classified   tools/statics_classified.json (committed, hand-reviewed)

Fails loudly (ExtractError) when readelf output cannot be parsed.
"""
import glob, json, os, re, subprocess, time
from . import core

FLAVOUR = 'plain'
LAST_RUN = None      # set when gen_Statics completed in this process (tools/props/C13.py refuses to run without it)

# libc entry points whose effect or result is process-wide state
PROCESS_WIDE = {
    'umask', 'chdir', 'fchdir', 'chroot', 'setlocale', 'uselocale', 'setenv', 'putenv', 'unsetenv', 'clearenv',
    'tzset', 'signal', 'sigaction', 'sigprocmask', 'setuid', 'setgid', 'seteuid', 'setegid', 'setrlimit',
    'srand', 'rand', 'srandom', 'random', 'drand48', 'lrand48', 'srand48', 'strtok', 'localtime', 'gmtime',
    'ctime', 'asctime', 'getpwnam', 'getpwuid', 'getgrnam', 'getgrgid', 'getpwent', 'getgrent', 'setpwent',
    'setgrent', 'endpwent', 'endgrent', 'strerror', 'strsignal', 'getlogin', 'ttyname', 'tmpnam', 'mktemp',
    'tempnam', 'dirname', 'basename', 'readdir_r', 'fork', 'vfork', 'atexit', 'getopt', 'getopt_long',
    'wcstombs', 'mbstowcs', 'mbtowc', 'wctomb', 'mblen', 'mbrlen', 'ecvt', 'fcvt', 'gcvt', 'hcreate', 'hsearch',
    'getdate', 'crypt', 'encrypt', 'setkey', 'l64a', 'ptsname', 'inet_ntoa', 'gethostbyname', 'getservbyname',
}


def E(msg):
    from .extract import ExtractError
    return ExtractError(msg)


def run(cmd):
    r = subprocess.run(cmd, stdout=subprocess.PIPE, stderr=subprocess.PIPE, text=True, errors='replace')
    if r.returncode != 0:
        raise E(f'{cmd[0]} failed on {cmd[-1]}: {r.stderr[-300:]}')
    return r.stdout


def sections_of(obj):
    """section index -> (name, flags) from `readelf -SW`."""
    out = run(['readelf', '-SW', obj])
    secs = {}
    for line in out.split('\n'):
        m = re.match(r'\s*\[\s*(\d+)\]\s+(\S*)\s+(\S+)\s+[0-9a-f]+\s+[0-9a-f]+\s+[0-9a-f]+\s+[0-9a-f]+\s+(\S*)\s+\d+\s+\d+\s+\d+\s*$', line)
        if m:
            name, typ, flags = m.group(2), m.group(3), m.group(4)
            if re.fullmatch(r'[0-9a-f]{16}', typ):        # section [0]: empty name shifts the columns
                name, flags = '', ''
            if not re.fullmatch(r'[WAXMSILOGTCxoEDlp]*', flags):  # a numeric column landed here: no flags
                flags = ''
            secs[int(m.group(1))] = (name, flags)
    if 0 not in secs or len(secs) < 3:
        raise E(f'readelf -SW: cannot parse the section table of {obj}')
    return secs


def symbols_of(obj):
    """[(name, size, type, bind, ndx)] from `readelf -sW`."""
    out = run(['readelf', '-sW', obj])
    if 'Symbol table' not in out or not re.search(r'Num:\s+Value\s+Size\s+Type\s+Bind\s+Vis\s+Ndx\s+Name', out):
        raise E(f'readelf -sW: no symbol table header in the output for {obj}')
    syms = []
    for line in out.split('\n'):
        if not re.match(r'\s*\d+:', line):
            continue
        m = re.match(r'\s*\d+:\s+([0-9a-f]+)\s+(\d+|0x[0-9a-f]+)\s+(\S+)\s+(\S+)\s+(\S+)\s+(\S+)(?:\s+(\S+))?', line)
        if not m:
            raise E(f'readelf -sW: unparsable symbol line in {obj}: {line.strip()!r}')
        syms.append((m.group(7) or '', int(m.group(2), 0), m.group(3), m.group(4), m.group(6)))
    if not syms:
        raise E(f'readelf -sW: empty symbol table in {obj}')
    return syms


ARTEFACT = re.compile(r'^(__asan|__odr_asan|__ubsan|__tsan|__sanitizer|\.LASAN|\.LUBSAN|__gcov|__llvm|\.L)')


def norm_sym(s):
    """function-local statics are emitted as name.<n>; the number is not stable."""
    return re.sub(r'\.\d+$', '', s)


def writable_objects(obj, label):
    secs = sections_of(obj)
    res, imports = [], []
    for name, size, typ, bind, ndx in symbols_of(obj):
        if ndx == 'UND':
            if name:
                imports.append(name)
            continue
        if typ not in ('OBJECT', 'COMMON', 'TLS'):
            continue
        if ARTEFACT.match(name):
            continue
        if typ == 'TLS':
            continue                              # thread-local: not shared between threads
        if ndx == 'COM':
            sec, flags = '.bss', 'WA'
        elif ndx == 'ABS':
            continue
        else:
            if not ndx.isdigit() or int(ndx) not in secs:
                raise E(f'{obj}: symbol {name} lives in section index {ndx!r} which readelf -SW did not list')
            sec, flags = secs[int(ndx)]
        if 'W' not in flags:
            continue                              # .rodata*
        if sec.startswith('.data.rel.ro'):
            continue                              # written by the loader only, then mprotect-ed (RELRO)
        kind = '.bss' if sec.startswith(('.bss', '.tbss')) or ndx == 'COM' else \
               '.data' if sec.startswith('.data') else sec
        res.append((label, norm_sym(name), kind, size, bind == 'GLOBAL'))
    return res, imports


# ---------------------------------------------------------------------------
# source scan

def strip_c(text):
    """Remove comments, string and character literals (keeps line structure)."""
    out, i, n = [], 0, len(text)
    while i < n:
        c = text[i]
        if text.startswith('/*', i):
            j = text.find('*/', i + 2)
            j = n if j < 0 else j + 2
            out.append(re.sub(r'[^\n]', ' ', text[i:j])); i = j
        elif text.startswith('//', i):
            j = text.find('\n', i)
            i = n if j < 0 else j
        elif c == '"' or c == "'":
            j = i + 1
            while j < n and text[j] != c:
                j += 2 if text[j] == '\\' else 1
            out.append(c + c); i = j + 1
        else:
            out.append(c); i += 1
    return ''.join(out)


def split_top(s, sep):
    parts, depth, cur = [], 0, ''
    for ch in s:
        if ch in '{([':
            depth += 1
        elif ch in '})]':
            depth -= 1
        if ch == sep and depth == 0:
            parts.append(cur); cur = ''
        else:
            cur += ch
    return parts + [cur]


KEYWORDS = {'const', 'volatile', 'struct', 'union', 'enum', 'unsigned', 'signed', 'restrict', '__restrict',
            'int', 'char', 'long', 'short', 'float', 'double', 'void'}


def static_vars(text):
    """[(name, object_is_const)] for every `static` variable declaration."""
    t = strip_c(text)
    t = re.sub(r'^[ \t]*#.*(?:\\\n.*)*$', '', t, flags=re.M)     # preprocessor lines
    res = []
    for m in re.finditer(r'(?<![A-Za-z0-9_])static\s+(?!inline\b|__inline\b)([^;{}()=]*?)(\(|;|=|\{)', t):
        stop = m.group(2)
        if stop == '{':
            continue                                       # `static struct x {` definitions: not used by libarchive
        if stop == '(':
            # function prototype/definition unless it is a function-pointer variable: static T (*name)(...)
            fp = re.match(r'\s*(?:[A-Z_]+\s+)?\*\s*(?:const\s+)?([A-Za-z_]\w*)\s*\)', t[m.end():])
            if not fp:
                continue
            res.append((fp.group(1), False))
            continue
        # the whole statement, up to the ';' at nesting depth 0
        j, depth = m.start(1), 0
        while j < len(t) and not (t[j] == ';' and depth == 0):
            if t[j] in '{([':
                depth += 1
            elif t[j] in '})]':
                depth -= 1
            j += 1
        decls = [split_top(d, '=')[0] for d in split_top(t[m.start(1):j], ',')]
        spec_const = bool(re.search(r'\bconst\b', decls[0].split('*')[0]))
        for d in decls:
            d = re.sub(r'\[[^\]]*\]', '', d).strip()
            ids = [x for x in re.findall(r'[A-Za-z_]\w*', d) if x not in KEYWORDS]
            if not ids:
                continue
            if '*' in d:
                obj_const = bool(re.search(r'\*\s*const\b[^*]*$', d))
            else:
                obj_const = spec_const
            res.append((ids[-1], obj_const))
    return res


def functions_of(text):
    """{name: body} for top-level function definitions of preprocessed C text."""
    t = strip_c(text)
    fns, depth, i, start, head = {}, 0, 0, None, 0
    for i, ch in enumerate(t):
        if ch == '{':
            if depth == 0:
                start = i
                hd = t[head:i]
                m = re.search(r'([A-Za-z_]\w*)\s*\([^(){};]*\)\s*$', hd)
                cur = m.group(1) if m else None
            depth += 1
        elif ch == '}':
            depth -= 1
            if depth == 0:
                if cur:
                    fns[cur] = t[start:i + 1]
                head = i + 1
        elif ch == ';' and depth == 0:
            head = i + 1
    return fns


# ---------------------------------------------------------------------------

def lean_str(s):
    return '"' + s.replace('\\', '\\\\').replace('"', '\\"') + '"'


def lean_bool(b):
    return 'true' if b else 'false'


def gen_Statics():
    from .extract import write
    d = core.ensure_lib(FLAVOUR)
    objdir = os.path.join(d, 'libarchive', 'CMakeFiles', 'archive_static.dir')
    objs = sorted(glob.glob(os.path.join(objdir, '*.o')))
    if len(objs) < 50:
        raise E(f'only {len(objs)} object files under {objdir}')
    elf, pw = [], []
    for o in objs:
        label = os.path.basename(o)[:-2]
        w, imports = writable_objects(o, label)
        elf += w
        pw += [(label, f) for f in sorted(set(imports)) if f in PROCESS_WIDE]
    # every libarchive source of the build must have been seen (a stale object dir would hide statics)
    seen = {os.path.basename(o)[:-2] for o in objs}
    for need in ('archive_read_support_format_tar.c', 'archive_read_support_format_lha.c', 'archive_random.c',
                 'archive_time.c', 'archive_write_disk_posix.c'):
        if need not in seen:
            raise E(f'object for {need} not found under {objdir}')

    # alternate configurations, force-compiled
    altdir = os.path.join(d, 'alt')
    os.makedirs(altdir, exist_ok=True)
    cfg = open(os.path.join(d, 'config.h')).read()
    if not re.search(r'^#define HAVE_PTHREAD_H\b', cfg, re.M) and 'HAVE_PTHREAD_H' not in cfg:
        raise E('config.h does not mention HAVE_PTHREAD_H')
    have_pthread = bool(re.search(r'^#define HAVE_PTHREAD_H 1', cfg, re.M))
    cfg_alt = re.sub(r'^#define HAVE_ARC4RANDOM_BUF .*$', '/* alt: HAVE_ARC4RANDOM_BUF removed */', cfg, flags=re.M)
    p = os.path.join(altdir, 'config.h')
    if not os.path.exists(p) or open(p).read() != cfg_alt:
        open(p, 'w').write(cfg_alt)
    lib = os.path.join(core.REPO, 'libarchive')
    base = ['gcc'] + core.FLAVOURS[FLAVOUR].split() + ['-ffunction-sections', '-fdata-sections', '-D__LIBARCHIVE_BUILD',
                                                       '-DHAVE_CONFIG_H', '-I', altdir, '-I', lib]
    rnd_o = os.path.join(altdir, 'archive_random.o')
    run(base + ['-c', os.path.join(lib, 'archive_random.c'), '-o', rnd_o])
    crc_c = os.path.join(altdir, 'crc32_alt.c')
    open(crc_c, 'w').write('#include "archive_platform.h"\n#include "archive_crc32.h"\n'
                           'unsigned long la_alt_crc32(unsigned long c, const void *p, size_t n) { return crc32(c, p, n); }\n')
    crc_o = os.path.join(altdir, 'crc32_alt.o')
    run(base + ['-c', crc_c, '-o', crc_o])
    alt = writable_objects(rnd_o, 'archive_random.c')[0] + writable_objects(crc_o, 'archive_crc32.h')[0]
    if not any(s == 'rs' for _, s, _, _, _ in alt):
        raise E('alternate build of archive_random.c does not contain the arc4random state `rs`')
    if not any(s == 'crc_tbl' for _, s, _, _, _ in alt):
        raise E('alternate build of archive_crc32.h does not contain `crc_tbl`')

    # arc4random: lock discipline, from the preprocessed text of the alternate configuration
    pre = run(base + ['-E', '-P', os.path.join(lib, 'archive_random.c')])
    k = pre.find('struct arc4_stream')
    if k < 0:
        raise E('archive_random.c: struct arc4_stream not found after preprocessing')
    fns = functions_of(pre[k:])
    state = sorted({s for _, s, _, _, _ in writable_objects(rnd_o, 'x')[0] if s != 'arc4random_mtx'})
    if 'la_arc4random_buf' not in fns and 'arc4random_buf' not in fns:
        raise E('archive_random.c: arc4random_buf fallback not found')
    mfacts = []
    for name, body in sorted(fns.items()):
        touches = any(re.search(r'(?<![\w.>])' + re.escape(v) + r'\b', body) for v in state)
        lock = bool(re.search(r'pthread_mutex_lock\s*\(\s*&\s*arc4random_mtx\s*\)', body))
        unlock = bool(re.search(r'pthread_mutex_unlock\s*\(\s*&\s*arc4random_mtx\s*\)', body))
        # lock must come first and unlock last among the statements that touch state
        ordered = False
        if lock and unlock:
            lo = re.search(r'pthread_mutex_lock', body).start()
            hi = [m.start() for m in re.finditer(r'pthread_mutex_unlock', body)][-1]
            uses = [m.start() for v in state for m in re.finditer(r'(?<![\w.>])' + re.escape(v) + r'\b', body)]
            calls = [m.start() for f in fns if f != name for m in re.finditer(r'\b' + re.escape(f) + r'\s*\(', body)]
            ordered = all(lo < u < hi for u in uses + calls) and 'return' not in body[lo:hi]
        callers = sorted(f for f, b in fns.items() if f != name and re.search(r'\b' + re.escape(name) + r'\s*\(', b))
        mfacts.append((name, touches, lock and unlock and ordered, callers))

    # source scan
    src = []
    files = sorted(glob.glob(os.path.join(lib, '*.c')) + glob.glob(os.path.join(lib, '*.h')))
    if len(files) < 100:
        raise E('libarchive/*.c not found')
    for f in files:
        text = open(f, errors='replace').read()
        for name, oc in static_vars(text):
            if re.search(r'^' + re.escape(name) + r'\s*\(', text, re.M):
                continue          # `static pack_t pack_8_8;` declares a function through a typedef
            src.append((os.path.basename(f), name, oc))
    if not any(n == 'arc4random_mtx' for _, n, _ in src):
        raise E('source scan no longer finds arc4random_mtx in archive_random.c (pattern broken)')

    # the reviewed classification
    cp = os.path.join(core.ROOT, 'tools', 'statics_classified.json')
    try:
        cj = json.load(open(cp))
    except (OSError, ValueError) as e:
        raise E(f'tools/statics_classified.json: {e}')
    cls = [(e['file'], e['symbol'], e['class']) for e in cj['objects']]
    # fill-then-flag: for every reviewed `done` flag, the store of the flag must follow the last store to
    # each object it guards, inside the one function that contains them
    order = []
    for e in cj['objects']:
        if 'guards' not in e:
            continue
        text = strip_c(open(os.path.join(lib, e['file']), errors='replace').read())
        sets = [m.start() for m in re.finditer(r'(?<![\w.>])' + re.escape(e['symbol']) + r'\s*=(?!=)\s*[^;]*;', text)
                if not re.match(r'[^;]*\bstatic\b', text[text.rfind(';', 0, m.start()) + 1:m.start()])]
        if not sets:
            raise E(f"{e['file']}: no store to the flag {e['symbol']} found")
        ok = True
        for g in e['guards']:
            gs = [m.start() for m in re.finditer(r'(?<![\w.>])' + re.escape(g) + r'\s*(?:\[[^\]]*\]\s*)?=(?!=)', text)]
            if not gs:
                raise E(f"{e['file']}: no store to {g} (guarded by {e['symbol']}) found")
            ok = ok and max(gs) < min(sets)
        order.append((e['file'], e['symbol'], ok))
    pwc = [(e['file'], e['function'], e['class']) for e in cj['process_wide']]

    def lst(rows, fmt):
        return '[\n' + ',\n'.join('  ' + fmt(r) for r in rows) + ']' if rows else '[]'

    e5 = lambda r: f'({lean_str(r[0])}, {lean_str(r[1])}, {lean_str(r[2])}, {r[3]}, {lean_bool(r[4])})'
    body = ''
    body += '/-- (defining file, symbol, section kind, size in bytes, GLOBAL binding) of every object in a writable\n'
    body += f'section of the objects compiled from the current tree (flavour `{FLAVOUR}`). -/\n'
    body += 'def elf : List (String × String × String × Nat × Bool) := ' + lst(sorted(set(elf)), e5) + '\n\n'
    body += '/-- The same for code this configuration compiles out (archive_random.c without\nHAVE_ARC4RANDOM_BUF; archive_crc32.h). -/\n'
    body += 'def alt : List (String × String × String × Nat × Bool) := ' + lst(sorted(set(alt)), e5) + '\n\n'
    body += '/-- (file, name, the object itself is const) of every `static` variable declaration in libarchive/*.[ch]. -/\n'
    body += 'def src : List (String × String × Bool) := ' + lst(sorted(set(src)), lambda r: f'({lean_str(r[0])}, {lean_str(r[1])}, {lean_bool(r[2])})') + '\n\n'
    body += '/-- (object file, libc function) for every imported function that touches process-wide state. -/\n'
    body += 'def processWide : List (String × String) := ' + lst(sorted(set(pw)), lambda r: f'({lean_str(r[0])}, {lean_str(r[1])})') + '\n\n'
    body += '/-- HAVE_PTHREAD_H in the generated config.h: `_ARC4_LOCK` is a real pthread_mutex_lock. -/\n'
    body += f'def havePthreadH : Bool := {lean_bool(have_pthread)}\n\n'
    body += '/-- archive_random.c (fallback generator): (function, mentions the generator state, body is bracketed by\n'
    body += 'pthread_mutex_lock/unlock(&arc4random_mtx) around every use and call, callers inside the file). -/\n'
    body += 'def mutexFns : List (String × Bool × Bool × List String) := ' + lst(mfacts, lambda r: f'({lean_str(r[0])}, {lean_bool(r[1])}, {lean_bool(r[2])}, [{", ".join(lean_str(c) for c in r[3])}])') + '\n\n'
    body += '/-- tools/statics_classified.json: (file, symbol, class). -/\n'
    body += 'def classified : List (String × String × String) := ' + lst(cls, lambda r: f'({lean_str(r[0])}, {lean_str(r[1])}, {lean_str(r[2])})') + '\n\n'
    body += '/-- (file, `done` flag, the flag is stored after the last store to everything it guards). -/\n'
    body += 'def flagStoredLast : List (String × String × Bool) := ' + lst(order, lambda r: f'({lean_str(r[0])}, {lean_str(r[1])}, {lean_bool(r[2])})') + '\n\n'
    body += '/-- tools/statics_classified.json: (object file, libc function, class). -/\n'
    body += 'def processWideClassified : List (String × String × String) := ' + lst(pwc, lambda r: f'({lean_str(r[0])}, {lean_str(r[1])}, {lean_str(r[2])})') + '\n'
    write('Statics', body, f'readelf over .build/{FLAVOUR} objects, libarchive/*.[ch], tools/statics_classified.json')
    global LAST_RUN
    LAST_RUN = time.time()
    return {'elf': sorted(set(elf)), 'alt': sorted(set(alt)), 'src': sorted(set(src)), 'pw': sorted(set(pw)), 'mutex': mfacts}
