#!/usr/bin/env python3
"""Regenerates MANIFEST.json from tools/props/*.py (claimed checks) and tools/manifest_meta.json."""
import glob, importlib, json, os, sys
here = os.path.dirname(os.path.abspath(__file__))
sys.path.insert(0, here)
root = os.path.dirname(here)
meta = json.load(open(os.path.join(here, 'manifest_meta.json')))
props = [json.loads(l)['id'] for l in open(os.path.join(root, 'properties.jsonl'))]
checks, engines, na = [], [], []
for pid in props:
    f = os.path.join(here, 'props', pid + '.py')
    if not os.path.exists(f):
        na.append({'property_id': pid, 'reason': meta['not_claimed'].get(pid, 'check not built yet (see DESIGN.md section 8 build order)')})
        continue
    P = importlib.import_module('props.' + pid)
    m = P.MANIFEST
    checks.append({
        'property_id': pid,
        'quick_cmd': f'python3 tools/check.py {pid} --tier quick',
        'thorough_cmd': f'python3 tools/check.py {pid} --tier thorough',
        'evidence_file': f'/verif/evidence/{pid}.json',
        'replay_cmd_template': 'python3 tools/replay.py {path}',
        'engine': '+'.join(e.name for e in P.ENGINES) or 'lean',
        'level_claimed': {'category': 'proof', 'text': m['text'], 'design_ref': m.get('design_ref', 'DESIGN.md section 5 / ' + pid)},
        'level_note': m['note'],
        'technique': m.get('technique', 'Lean 4 theorems over an executable model + differential correspondence with the C built from /repo'),
    })
    for e in P.ENGINES:
        engines.append({'name': e.name, 'path': f'harness/eng_{e.name}.c + lean/LA/Drive', 'serves_properties': [pid],
                        'kind_free_text': 'differential correspondence: real C (ASan/UBSan build of /repo working tree) vs Lean model driver'})
man = {'version': 1, 'setup_cmd': 'python3 tools/check.py --setup',
       'hooks': meta['hooks'], 'engines': engines, 'checks': checks, 'notes': meta['notes'], 'not_applicable': na}
json.dump(man, open(os.path.join(root, 'MANIFEST.json'), 'w'), indent=1)
print(len(checks), 'checks,', len(na), 'not claimed')
