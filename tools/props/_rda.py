"""Engine `rda`: the peek/consume window of archive_read.c (shared by C01, C05, C08)."""
from lib.core import Engine, Case

SIZES = [1, 2, 3, 7, 511, 512, 513, 1024, 4096, 10240, 65536]


def hexb(bs):
    return bytes(bs).hex() if bs else '-'


def rand_stream(rng, n):
    # distinctive bytes so that a misplaced window is visible
    base = rng.randrange(256)
    return bytes((base + i * 7 + (i >> 8)) & 0xff for i in range(n))


def partition(rng, data, mode):
    out, i = [], 0
    while i < len(data):
        if mode == 'whole':
            k = len(data)
        elif mode == 'one':
            k = 1
        elif isinstance(mode, int):
            k = mode
        else:
            k = rng.choice([1, 1, 2, 3, 7, 16, 100, 511, 512, 513, 2000])
        out.append(data[i:i + k]); i += k
    return out


def tok_len(tok):
    if tok == '-':
        return 0
    if tok.startswith('g'):
        return int(tok[1:].split('x')[0])
    return len(tok) // 2


def seek_targets(rng, sizes):
    """Interesting absolute targets for a stream cut into nodes of these sizes."""
    total = sum(sizes)
    borders, b = [], 0
    for z in sizes:
        borders.append(b); b += z
    cand = [0, 0, total, total, total - 1, total + 1, -1, 1, total // 2, total + 100, -total]
    for b in borders:
        cand += [b, b - 1, b + 1]
    if total > 0:
        cand += [rng.randrange(total + 1) for _ in range(4)]
    return cand


class Rda(Engine):
    name = 'rda'
    keep_prefix = 1
    parallel = 8
    timeout = 3000

    def __init__(self, faults=True, nbase=600, nseek=450):
        self.faults = faults
        self.nbase = nbase
        self.nseek = nseek

    # -- seekable sources: mixed ahead / consume / seek histories ------------------------------------
    def gen_seek_case(self, rng, i):
        nn = rng.choice([1, 1, 2, 2, 3, 3, 4])
        sizes = [rng.choice([0, 0, 1, 1, 2, 3, 5, 17, 100, 600, 1500]) for _ in range(nn)]
        if rng.random() < 0.05:
            sizes = [0] * nn
        total = sum(sizes)
        data = rand_stream(rng, total)
        nodes, o = [], 0
        for z in sizes:
            nodes.append(data[o:o + z]); o += z
        clean = rng.random() < 0.65          # every seek that may fail is followed by one that cannot
        faulty = self.faults and not clean and rng.random() < 0.6
        term = 'err' if (self.faults and rng.random() < 0.15) else 'eof'
        ops = [f"snodes {term} {'strict' if clean else 'keep'}" + ''.join(' ' + hexb(n) for n in nodes)]
        if rng.random() < 0.85:
            ops.append('blocking ' + ' '.join(str(rng.choice([1, 1, 2, 3, 7, 16, 100, 511, 512, 513, 2000, 65536]))
                                              for _ in range(rng.choice([1, 1, 2, 3, 6]))))
        if faulty:
            ops.append('seeks ' + ' '.join(str(rng.choice([0, 0, 0, 0, -1, -30, -25, -20, 2, 3, 512]))
                                           for _ in range(rng.choice([1, 2, 3, 6, 10]))))
        elif self.faults and rng.random() < 0.1:
            ops.append('seeks ' + ' '.join(str(rng.choice([0, 2, 3, 7, 512])) for _ in range(rng.choice([2, 4, 8]))))
        r = rng.random()
        if r < 0.5:
            ops.append('skips ' + ' '.join(str(rng.choice([0, 1, 2, 10, 100, 512, 4096, 10 ** 6] +
                                                          ([-1, -30, -999] if self.faults and not clean else [])))
                                           for _ in range(rng.choice([1, 2, 4, 8]))))
        elif r < 0.6:
            ops.append('skips')
        noseeker = (not clean) and rng.random() < 0.08
        if noseeker:
            ops.append('noseeker')
        ops.append('open')
        tg = seek_targets(rng, sizes)

        def sure_seek():
            t = rng.choice([t for t in tg if 0 <= t <= total])
            return f'seek {t} set' if rng.random() < 0.7 else f'seek {t - total} end'

        for _ in range(rng.choice([4, 8, 14, 22])):
            r = rng.random()
            if r < 0.33:
                m = rng.choice([0, 1, 1, 2, 3, 4, 8, 16, 100, 500, 512, 513, 1024, 1025, 2048, 4097])
                ops.append(f'ahead {m}')
            elif r < 0.55:
                k = rng.choice([0, 1, 1, 2, 3, 7, 50, 512, 1000, 5000] + ([-1] if self.faults else []))
                ops.append(f'consume {k}')
            else:
                t = rng.choice(tg)
                w = rng.random()
                if w < 0.5:
                    ops.append(f'seek {t} set'); sure = 0 <= t <= total
                elif w < 0.75:
                    ops.append(f'seek {t - total} end'); sure = 0 <= t <= total
                elif w < 0.97:
                    ops.append(f'seek {rng.choice([0, 0, 1, -1, 2, -2, 5, -5, 17, -17, 100, -100, total, -total, t, -t])} cur')
                    sure = False
                elif w < 0.985 or noseeker:      # (can_seek is never set without a seek callback)
                    ops.append(f'seek {t} {rng.choice([3, 7, 99])}'); sure = True     # unknown whence: refused untouched
                else:
                    ops.append(f'canseek {rng.choice([0, 0, 1])}'); sure = True
                    if clean and ops[-1] == 'canseek 0':
                        ops.append('canseek 1')
                if clean and not sure:
                    ops.append(sure_seek())
        return Case(f'seek{i}', ops, {'mode': 'seek', 'term': term, 'total': total, 'nodes': nn,
                                      'clean': clean, 'faulty': faulty})

    def gen_seek_adversarial(self, rng, tier):
        """Every node split of a short stream x every target, each followed by a peek across the border."""
        data = rand_stream(rng, 6)
        cuts = [(a, b) for a in range(0, 7) for b in range(a, 7)]
        if tier == 'quick':
            cuts = rng.sample(cuts, 8)
        for a, b in cuts:
            nodes = [data[:a], data[a:b], data[b:]]
            hdr = ['snodes eof strict' + ''.join(' ' + hexb(n) for n in nodes), f'blocking {rng.choice([1, 2, 3, 100])}', 'open']
            ops = list(hdr)
            for t in range(-1, 8):
                ok = ['ahead 2'] if 0 <= t <= 6 else []      # strict client: no read between a refused seek and the next good one
                ops += [f'seek {t} set'] + ok + ['seek 0 set', f'seek {t - 6} end'] + ok + ['seek 6 set', 'ahead 1',
                        f'seek {t - 6} cur'] + ok + ['seek 3 set', 'ahead 4']
            yield Case(f'seekcut{a}-{b}', ops, {'mode': 'seekcut', 'term': 'eof', 'total': 6, 'nodes': 3})

    def gen(self, rng, tier):
        n = self.nbase if tier == 'quick' else self.nbase * 25
        for i in range(n):
            total = rng.choice([0, 1, 2, 5, 17, 100, 600, 1500, 5000])
            data = rand_stream(rng, total)
            mode = rng.choice(['whole', 'one', 'rand', 'rand', 'rand', 2, 3, 7, 511, 512, 513])
            if mode == 'one' and total > 1500:
                mode = 7
            blocks = partition(rng, data, mode)
            term = 'err' if (self.faults and rng.random() < 0.3) else 'eof'
            if self.faults and rng.random() < 0.2 and blocks:
                blocks = blocks[:rng.randrange(len(blocks) + 1)]   # error/eof at the n-th callback
            ops = ['src ' + term + ''.join(' ' + hexb(b) for b in blocks)]
            if rng.random() < 0.35 and len(blocks) >= 2:
                # the same bytes as a multi-volume set: volume borders at arbitrary block borders
                cuts = sorted(rng.sample(range(1, len(blocks)), min(len(blocks) - 1, rng.choice([1, 1, 2, 3]))))
                parts = [blocks[i:j] for i, j in zip([0] + cuts, cuts + [len(blocks)])]
                ops = ['src ' + term + ''.join(' ' + hexb(b) for b in parts[0])]
                ops += ['node' + ''.join(' ' + hexb(b) for b in pt) for pt in parts[1:]]
            r = rng.random()
            if r < 0.5:
                ks = []
                for _ in range(rng.choice([1, 2, 4])):
                    ks.append(rng.choice([0, 1, 2, 10, 100, 512, 4096, 10 ** 6] + ([-1, -30, -999] if self.faults else [])))
                ops.append('skips ' + ' '.join(map(str, ks)))
            elif r < 0.6:
                ops.append('skips')
            ops.append('open')
            for _ in range(rng.choice([3, 8, 20])):
                if rng.random() < 0.55:
                    m = rng.choice([0, 1, 1, 2, 3, 4, 8, 16, 100, 500, 512, 513, 1024, 1025, 2048, 4096, 4097, 70000])
                    ops.append(f'ahead {m}')
                else:
                    k = rng.choice([0, 1, 1, 2, 3, 7, 50, 512, 1000, 5000] + ([-1] if self.faults else []))
                    ops.append(f'consume {k}')
            yield Case(f'rda{i}', ops, {'mode': str(mode), 'term': term, 'total': total})
        # the seek histories draw from a copy of the generator, so that the engines that run after this one
        # (whole readers) keep the case streams they had before seeks were added
        import random as _random
        r2 = _random.Random(); r2.setstate(rng.getstate())
        nsk = self.nseek if tier == 'quick' else self.nseek * 25
        for i in range(nsk):
            yield self.gen_seek_case(r2, i)
        yield from self.gen_seek_adversarial(r2, tier)
        # adversarial: every two-cut partition of a short stream, peek straddling the cuts
        data = rand_stream(rng, 12)
        lim = 12 if tier == 'quick' else 12
        for c1 in range(0, lim + 1):
            for c2 in range(c1, lim + 1, 1 if tier != 'quick' else 3):
                blocks = [b for b in (data[:c1], data[c1:c2], data[c2:]) if b]
                ops = ['src eof' + ''.join(' ' + hexb(b) for b in blocks), 'open',
                       'ahead 3', 'consume 2', 'ahead 5', 'consume 1', 'ahead 9', 'consume 4', 'ahead 1', 'ahead 6', 'consume 5', 'ahead 1']
                yield Case(f'cut{c1}-{c2}', ops, {'mode': 'cut', 'term': 'eof', 'total': 12})

    def oracle(self, case, impl):
        """The property evaluated on the implementation's own output: every window holds the true bytes at the
        reported position; a short read-ahead is short only at the real end; a seek lands exactly on an in-range
        target and refuses every other one."""
        total, term, fault_script, align, seeker, canseek = None, 'eof', False, False, True, True
        seekable = False
        for op in case.ops:
            w = op.split()
            if not w:
                continue
            if w[0] == 'snodes':
                total = sum(tok_len(t) for t in w[3:]); term = w[1]; seekable = True
            elif w[0] == 'src':
                term = w[1]
            elif w[0] == 'seeks':
                fault_script = any(int(x) < 0 for x in w[1:]); align = any(int(x) > 0 for x in w[1:])
            elif w[0] == 'noseeker':
                seeker = False
        if not seekable:
            canseek = False
        unsure = False          # a seek failed and none has succeeded since: buffered data and client may disagree
        prev_pos, prev_fatal = 0, 0
        for op, o in zip(case.ops, impl):
            w, f = op.split(), o.split()
            pre = 'after-failed-seek: ' if unsure else ''
            if 'truth=BAD' in o:
                return pre + 'read-ahead window does not hold the true stream bytes at the current position: ' + op
            if f and f[0] == 'short' and 'end=no' in o and term == 'eof' and w[0] == 'ahead' and int(w[1]) > 0:
                zero_blocks = any(x.split()[0] in ('src', 'node') and '-' in x.split()[1:] for x in case.ops)
                if not zero_blocks:
                    return pre + 'read-ahead reports end of file although bytes remain: ' + op
            if w and w[0] == 'canseek' and o == 'ok':
                canseek = w[1] != '0'
            if w and w[0] == 'seek' and f and (f[0] == 'seeked' or f[0].startswith('seek-')):
                tgt = [x for x in f if x.startswith('tgt=')][0][4:]
                off = int(w[1])
                target = {'set': off, 'cur': prev_pos + off, 'end': (total or 0) + off}.get(w[2])
                if f[0] == 'seeked':
                    r = int(f[1])
                    if tgt != 'in':
                        return f'seek to a target outside the stream succeeded (position {r}): ' + op
                    if not align and r != target:
                        return f'seek landed on {r}, not on the target {target}: ' + op
                    if f'pos={r} eof=0' not in o:
                        return 'position / end-of-file flag after a successful seek: ' + op
                    unsure = False
                else:
                    if (tgt == 'in' and not fault_script and seeker and canseek and prev_fatal == 0 and seekable):
                        return f'seek to the in-range target {target} failed: ' + op
                    if f'pos={prev_pos}' not in o and prev_fatal == 0:
                        return 'a failed seek changed the position: ' + op
                    if canseek and prev_fatal == 0 and tgt != 'none':
                        unsure = True
            for x in f:
                if x.startswith('pos=') and x[4:].isdigit():
                    prev_pos = int(x[4:])
                if x.startswith('fatal=') and x[6:].isdigit():
                    prev_fatal = int(x[6:])
        return None

    def nontrivial(self, case, impl):
        return sum(1 for o in impl if o.startswith('win')) >= 1 and len(case.ops) > 3

    def stats(self, cases, impl):
        st = {'win': 0, 'short': 0, 'fatal': 0, 'consumed': 0, 'seeked': 0, 'seek-fatal': 0, 'seek-failed': 0,
              'seek-other': 0, 'seek-warn': 0, 'open_fatal': 0, 'modes': {}, 'terms': {}, 'nodes': {}}
        for c, im in zip(cases, impl):
            st['modes'][c.meta.get('mode')] = st['modes'].get(c.meta.get('mode'), 0) + 1
            st['terms'][c.meta.get('term')] = st['terms'].get(c.meta.get('term'), 0) + 1
            if 'nodes' in c.meta:
                st['nodes'][str(c.meta['nodes'])] = st['nodes'].get(str(c.meta['nodes']), 0) + 1
            for o in im:
                w = o.split()[0] if o else ''
                if w in st:
                    st[w] += 1
                if o.startswith('open fatal'):
                    st['open_fatal'] += 1
        return st
