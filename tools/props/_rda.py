"""Engine `rda`: the peek/consume window of archive_read.c (shared by C01, C05, C08)."""
from lib.core import Engine, Case

SIZES = [1, 2, 3, 7, 511, 512, 513, 1024, 4096, 10240, 65536]


def hexb(bs):
    return bytes(bs).hex() if bs else '-'


def rand_stream(rng, n):
    # distinctive bytes so that a misplaced window is visible
    base = rng.randrange(256)
    return bytes((base + i * 7 + (i >> 8)) & 0xff for i in range(n))


def partition(rng, data, mode):
    out, i = [], 0
    while i < len(data):
        if mode == 'whole':
            k = len(data)
        elif mode == 'one':
            k = 1
        elif isinstance(mode, int):
            k = mode
        else:
            k = rng.choice([1, 1, 2, 3, 7, 16, 100, 511, 512, 513, 2000])
        out.append(data[i:i + k]); i += k
    return out


class Rda(Engine):
    name = 'rda'
    keep_prefix = 1
    parallel = 8
    timeout = 3000

    def __init__(self, faults=True, nbase=600):
        self.faults = faults
        self.nbase = nbase

    def gen(self, rng, tier):
        n = self.nbase if tier == 'quick' else self.nbase * 25
        for i in range(n):
            total = rng.choice([0, 1, 2, 5, 17, 100, 600, 1500, 5000])
            data = rand_stream(rng, total)
            mode = rng.choice(['whole', 'one', 'rand', 'rand', 'rand', 2, 3, 7, 511, 512, 513])
            if mode == 'one' and total > 1500:
                mode = 7
            blocks = partition(rng, data, mode)
            term = 'err' if (self.faults and rng.random() < 0.3) else 'eof'
            if self.faults and rng.random() < 0.2 and blocks:
                blocks = blocks[:rng.randrange(len(blocks) + 1)]   # error/eof at the n-th callback
            ops = ['src ' + term + ''.join(' ' + hexb(b) for b in blocks)]
            if rng.random() < 0.35 and len(blocks) >= 2:
                # the same bytes as a multi-volume set: volume borders at arbitrary block borders
                cuts = sorted(rng.sample(range(1, len(blocks)), min(len(blocks) - 1, rng.choice([1, 1, 2, 3]))))
                parts = [blocks[i:j] for i, j in zip([0] + cuts, cuts + [len(blocks)])]
                ops = ['src ' + term + ''.join(' ' + hexb(b) for b in parts[0])]
                ops += ['node' + ''.join(' ' + hexb(b) for b in pt) for pt in parts[1:]]
            r = rng.random()
            if r < 0.5:
                ks = []
                for _ in range(rng.choice([1, 2, 4])):
                    ks.append(rng.choice([0, 1, 2, 10, 100, 512, 4096, 10 ** 6] + ([-1, -30, -999] if self.faults else [])))
                ops.append('skips ' + ' '.join(map(str, ks)))
            elif r < 0.6:
                ops.append('skips')
            ops.append('open')
            for _ in range(rng.choice([3, 8, 20])):
                if rng.random() < 0.55:
                    m = rng.choice([0, 1, 1, 2, 3, 4, 8, 16, 100, 500, 512, 513, 1024, 1025, 2048, 4096, 4097, 70000])
                    ops.append(f'ahead {m}')
                else:
                    k = rng.choice([0, 1, 1, 2, 3, 7, 50, 512, 1000, 5000] + ([-1] if self.faults else []))
                    ops.append(f'consume {k}')
            yield Case(f'rda{i}', ops, {'mode': str(mode), 'term': term, 'total': total})
        # adversarial: every two-cut partition of a short stream, peek straddling the cuts
        data = rand_stream(rng, 12)
        lim = 12 if tier == 'quick' else 12
        for c1 in range(0, lim + 1):
            for c2 in range(c1, lim + 1, 1 if tier != 'quick' else 3):
                blocks = [b for b in (data[:c1], data[c1:c2], data[c2:]) if b]
                ops = ['src eof' + ''.join(' ' + hexb(b) for b in blocks), 'open',
                       'ahead 3', 'consume 2', 'ahead 5', 'consume 1', 'ahead 9', 'consume 4', 'ahead 1', 'ahead 6', 'consume 5', 'ahead 1']
                yield Case(f'cut{c1}-{c2}', ops, {'mode': 'cut', 'term': 'eof', 'total': 12})

    def oracle(self, case, impl):
        for op, o in zip(case.ops, impl):
            if 'truth=BAD' in o:
                return 'read-ahead window does not hold the true stream bytes at the current position: ' + op
        return None

    def nontrivial(self, case, impl):
        return sum(1 for o in impl if o.startswith('win')) >= 1 and len(case.ops) > 3

    def stats(self, cases, impl):
        st = {'win': 0, 'short': 0, 'fatal': 0, 'consumed': 0, 'open_fatal': 0, 'modes': {}, 'terms': {}}
        for c, im in zip(cases, impl):
            st['modes'][c.meta.get('mode')] = st['modes'].get(c.meta.get('mode'), 0) + 1
            st['terms'][c.meta.get('term')] = st['terms'].get(c.meta.get('term'), 0) + 1
            for o in im:
                w = o.split()[0] if o else ''
                if w in st:
                    st[w] += 1
                if o.startswith('open fatal'):
                    st['open_fatal'] += 1
        return st
