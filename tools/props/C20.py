"""C20 — passphrase-protected entries decrypt only with the right passphrase."""
from lib.core import Engine, Case
from lib import core
import binascii, os, re, zlib

PROP = 'C20'
PROPS_MODULES = ['LA.Props.C20']
GEN = ['Crypt']
ASSUMPTIONS = [
    'AES block encryption, PBKDF2-HMAC-SHA1, HMAC-SHA1 and the zlib CRC-32 step are parameters of the model; '
    'the only laws used are "PBKDF2 returns the requested number of bytes" and "HMAC-SHA1 returns at least 10 bytes"',
    'incremental HMAC over chunks equals HMAC of the concatenation',
    'collision probabilities are out of scope: a wrong passphrase passes the 1-byte PKWARE header check with '
    'probability 1/256 and the 2-byte WinZip verification value with probability 2^-16; what then happens is '
    '"an error by the end of the entry" (CRC-32 for PKWARE, HMAC for AES), checked by the zipenc engine, not proved',
    'malloc never fails; OpenSSL calls do not fail',
]
TRUSTED = [
    'harness-side independent re-computation of E(counter) (OpenSSL EVP AES-ECB), of the PBKDF2 verification value '
    'and of the PKWARE check byte, used as the oracle for the parameters of the model',
    'Python re-implementation of the PKWARE cipher in tools/props/C20.py (generator and oracle of engine trad)',
]
MANIFEST = {
    'text': 'Lean theorems over models of (1) aes_ctr_update/aes_ctr_increase_counter of archive_cryptor.c with the AES block '
            'function as a parameter: key stream E(k0+1)||E(k0+2)||… for every input length, every chunking and every start '
            'counter (ctr_keystream), chunking independence, decrypt∘encrypt = id, 64-bit wrap; (2) the traditional PKWARE '
            'cipher of the zip reader and writer with the CRC step as a parameter: round trip for every key state, message and '
            'chunking, the 12-byte header check (which byte, against what) and acceptance of the writer\'s header; (3) '
            'archive_read_add_passphrase.c: after reset, next yields every listed candidate once in list order and then the '
            'callback\'s answers, the matching candidate ends at the head, a full miss restores the order, the linked-list '
            'operations are sound in every reachable state; the retry loops of the zip reader: no matching candidate ⇒ '
            'ARCHIVE_FAILED and no data (wrong_passphrase_rejected), at most cap+2 tries (retry_loop_bounded), first matching '
            'candidate found; (4) the WinZip-AES entry layout: writer lengths = reader offsets for every body length and both '
            'strengths (winzip_layout), MAC over the cipher text and mismatch ⇒ ARCHIVE_WARN (mac_mismatch_rejected). '
            'Tied to the C by four differential engines: enc (real __archive_cryptor table vs model, E supplied by an independent '
            'ECB computation), trad (both static copies of the PKWARE functions), pass (real passphrase list incl. the `last` '
            'pointer), zipenc (whole round trips through the real zip writer and reader: body lengths 0..48 and multi-block, '
            '{zipcrypt, aes128, aes256} × {store, deflate}, passphrase by value / callback / several candidates / wrong / none, '
            'block sizes, seekable and streaming, tampered images; plus the encrypted reference archives of libarchive\'s test '
            'suite with their known passwords).',
    'note': 'Partial: cryptographic primitives are parameters (no statement about secrecy or collision resistance); the reader model '
            'covers entries of known size (the streaming search for a data descriptor and the inflate interplay are only driven '
            'differentially); 7zip/rar decryption is unsupported by libarchive and only the indicators / "no bytes as valid data" '
            'are checked on reference archives; a MAC mismatch is reported as ARCHIVE_WARN after the bytes were handed out '
            '(as the C does). One defect found and repaired in /repo (fix: commit): encrypted zip entries that received no data '
            'were written without encryption header and could not be read back.',
    'technique': 'Lean 4 proof (invariants over the CTR loop, list-rotation induction, well-founded retry loop) + '
                 'model/C differential correspondence with independent oracles for the primitives',
}

M32 = 0xffffffff


def hx(b):
    return b.hex() if b else '-'


# ---- Python PKWARE (third implementation; generator + oracle of `trad`) -----------------

def _crc1(c, b):
    return zlib.crc32(bytes([b]), c ^ M32) ^ M32


class Pk:
    def __init__(self, pw=b''):
        self.k = [305419896, 591751049, 878082192]
        for c in pw:
            self.upd(c)

    def upd(self, c):
        k = self.k
        k[0] = _crc1(k[0], c)
        k[1] = ((k[1] + (k[0] & 0xff)) * 134775813 + 1) & M32
        k[2] = _crc1(k[2], (k[1] >> 24) & 0xff)

    def byte(self):
        t = self.k[2] | 2
        return ((t * (t ^ 1)) >> 8) & 0xff

    def enc(self, data):
        out = bytearray()
        for t in data:
            out.append(t ^ self.byte()); self.upd(t)
        return bytes(out)

    def dec(self, data):
        out = bytearray()
        for c in data:
            t = c ^ self.byte(); out.append(t); self.upd(t)
        return bytes(out)


PASSES = [b'pa', b'password', b'12345678', b'x', b'\xc3\xa9t\xc3\xa9', b'\xff\xfe\x80', b'p' * 300,
          b'correct horse battery staple', b' ', b'a\tb']


def rnd_bytes(rng, n):
    return bytes(rng.randrange(256) for _ in range(n))


# ---------------------------------------------------------------------------------------------
class Enc(Engine):
    """AES-CTR layer through the __archive_cryptor table."""
    name = 'enc'
    STARTS = [0, 0, 0, 0, 254, 255, 65535, 2**24 - 1, 2**32 - 1, 2**40 - 3, 2**56 - 1, 2**64 - 2, 2**64 - 1]
    SIZES = [0, 1, 2, 7, 15, 16, 17, 31, 32, 33, 47, 48, 49, 64, 100, 255, 256, 257, 1000]

    def one(self, rng, label, lens, caps=None, roundtrip=True, keylen=None, start=None):
        keylen = keylen if keylen is not None else rng.choice([16, 24, 32])
        key = rnd_bytes(rng, keylen)
        start = rng.choice(self.STARTS) if start is None else start
        d = rng.choice('ed')
        ops = [f'init {d} {hx(key)} {start}']
        for i, l in enumerate(lens):
            cap = l if caps is None else caps[i]
            ops.append(f'upd {hx(rnd_bytes(rng, l))} {cap}')
        if roundtrip:
            ops.append(f"init {'d' if d == 'e' else 'e'} {hx(key)} {start} keep")
            total = sum(min(l, l if caps is None else caps[i]) for i, l in enumerate(lens))
            left = total
            while left > 0:
                n = min(left, rng.choice([1, 3, 16, 17, 32, 100, 5000]))
                ops.append(f'updp {n} {n}')
                left -= n
        if rng.random() < 0.5:
            ops.append('rel')
        return Case(label, ops, {'roundtrip': roundtrip, 'start': start})

    def gen(self, rng, tier):
        # every length mod 16 (0..48), alone and split in two at every point of a block
        for L in range(0, 49):
            yield self.one(rng, f'len{L}', [L])
        for L in (17, 32, 33, 48):
            for a in range(0, L + 1, 1 if tier != 'quick' else 3):
                yield self.one(rng, f'split{L}.{a}', [a, L - a])
        # carry borders of the counter, long inputs across many blocks
        for st in self.STARTS:
            yield self.one(rng, f'start{st}', [40, 1, 16, 23], start=st)
        yield self.one(rng, 'wrap', [16 * 300 + 5], start=2**64 - 5)
        yield self.one(rng, 'carry2', [16 * 300 + 5], start=65535 - 100)
        # short output buffers
        for L, c in ((10, 3), (16, 16), (40, 17), (33, 0), (100, 64)):
            yield self.one(rng, f'cap{L}.{c}', [L, 20], caps=[c, 20])
        # bad key lengths, operations without a context
        for kl in (0, 5, 15, 17, 33):
            yield Case(f'badkey{kl}', [f'init e {hx(rnd_bytes(rng, kl))} 0', 'upd 00 1', 'rel'])
        n = 150 if tier == 'quick' else 1500
        for i in range(n):
            k = rng.choice([1, 2, 3, 5, 9])
            lens = [rng.choice(self.SIZES) if rng.random() < 0.8 else rng.randrange(0, 6000) for _ in range(k)]
            caps = None
            if rng.random() < 0.2:
                caps = [rng.choice([l, l, max(0, l - 1), l // 2, l + 5]) for l in lens]
            yield self.one(rng, f'rand{i}', lens, caps)

    @staticmethod
    def parse(line):
        m = re.match(r'r=(-?\d+) n=(\d+) out=(\S+) E=(\S+)$', line)
        if not m:
            return None
        tbl = {}
        for pair in m.group(4).split(','):
            a, b = pair.split(':')
            tbl[a] = bytes.fromhex(b)
        out = b'' if m.group(3) == '-' else bytes.fromhex(m.group(3))
        return int(m.group(1)), int(m.group(2)), out, tbl

    def oracle(self, case, impl):
        """cipher text = input XOR E(start+1)||E(start+2)||… per the independently computed blocks;
        decrypt(encrypt(x)) = x."""
        start, pos, plain, produced, pend, back = 0, 0, b'', b'', b'', b''
        inited = False
        for op, line in zip(case.ops, impl):
            w = op.split()
            if w[0] == 'init':
                if len(w) == 5:
                    pend, produced, back = produced, b'', b''
                    want_back = plain
                inited = line == 'r=0'
                start, pos = int(w[3]), 0
                if (len(bytes.fromhex(w[2])) if w[2] != '-' else 0) in (16, 24, 32) and not inited:
                    return 'init refused a valid key length'
                continue
            if w[0] in ('upd', 'updp') and inited:
                p = self.parse(line)
                if p is None:
                    return 'unparsable answer: ' + line[:60]
                r, n, out, tbl = p
                if w[0] == 'upd':
                    data = b'' if w[1] == '-' else bytes.fromhex(w[1])
                else:
                    data, pend = pend[:int(w[1])], pend[int(w[1]):]
                cap = int(w[2])
                if r != 0 or n != min(len(data), cap) or len(out) != n:
                    return f'update returned r={r} n={n} for {len(data)} bytes, capacity {cap}'
                for i in range(n):
                    ctr = (start + (pos + i) // 16 + 1) % 2**64
                    blk = tbl.get((ctr.to_bytes(8, 'little') + bytes(8)).hex())
                    if blk is None:
                        return 'harness table misses a counter block'
                    if out[i] != data[i] ^ blk[(pos + i) % 16]:
                        return f'byte {pos + i} is not input XOR E(counter {ctr})[{(pos + i) % 16}]'
                pos += n
                produced += out
                if w[0] == 'upd':
                    plain += data[:n]
        if any(o.endswith(' keep') for o in case.ops) and any(o.startswith('updp') for o in case.ops) and not pend and produced != plain:
            return 'decrypt(encrypt(x)) != x'
        return None

    def nontrivial(self, case, impl):
        return any(o.startswith('upd') and ' out=' in l and ' out=- ' not in l for o, l in zip(case.ops, impl))

    def stats(self, cases, impl):
        st = {'ops': {}, 'bytes_mod16': {}, 'starts': {}, 'short_capacity': 0}
        for c in cases:
            for o in c.ops:
                w = o.split()
                st['ops'][w[0]] = st['ops'].get(w[0], 0) + 1
                if w[0] == 'upd':
                    l = 0 if w[1] == '-' else len(w[1]) // 2
                    st['bytes_mod16'][l % 16] = st['bytes_mod16'].get(l % 16, 0) + 1
                    if int(w[2]) < l:
                        st['short_capacity'] += 1
                if w[0] == 'init':
                    k = 'zero' if w[3] == '0' else 'carry-border/other'
                    st['starts'][k] = st['starts'].get(k, 0) + 1
        return st


# ---------------------------------------------------------------------------------------------
class Trad(Engine):
    """Traditional PKWARE functions, both copies."""
    name = 'trad'
    extra_cflags = (os.path.join(core.HARNESS, 'c20_trad_r.c'), os.path.join(core.HARNESS, 'c20_trad_w.c'))
    repo_deps = ('libarchive/archive_read_support_format_zip.c', 'libarchive/archive_write_set_format_zip.c',
                 os.path.join(core.HARNESS, 'c20_trad_r.c'), os.path.join(core.HARNESS, 'c20_trad_w.c'))

    def gen(self, rng, tier):
        n = 300 if tier == 'quick' else 1800
        for i in range(n):
            pw = rng.choice(PASSES + [b'', rnd_bytes(rng, rng.choice([1, 3, 8, 40]))])
            chk = rng.randrange(256)
            hdr = rnd_bytes(rng, 11) + bytes([chk])
            body = rnd_bytes(rng, rng.choice([0, 1, 2, 11, 12, 13, 48, 100, 1000]))
            pk = Pk(pw)
            hc = pk.enc(hdr)
            ops = [f'winit {hx(pw)}', f'enc {hx(hdr)} 12']
            # body in chunks, sometimes a short output buffer
            cipher = b''
            off = 0
            while off < len(body):
                c = min(len(body) - off, rng.choice([1, 5, 16, 100, 4096]))
                cap = c if rng.random() < 0.8 else rng.choice([0, c // 2, c + 3])
                ops.append(f'enc {hx(body[off:off + c])} {cap}')
                k = min(c, cap)
                cipher += pk.enc(body[off:off + k])
                off += k if k else c      # capacity 0: the caller drops the chunk
                if not k:
                    body = body[:off - c] + body[off:]
                    off -= c
            # read side
            r = rng.random()
            if r < 0.6:
                ops.append(f'rinit {hx(pw)} {hx(hc)} 12')
            elif r < 0.8:
                ops.append(f'rinit {hx(rng.choice(PASSES))} {hx(hc)} 12')
            elif r < 0.9:
                ops.append(f'rinit {hx(pw)} {hx(hc + rnd_bytes(rng, 4))} {rng.choice([12, 13, 16])}')
            else:
                ops.append(f'rinit {hx(pw)} {hx(hc[:rng.choice([0, 5, 11])] or b"")} {rng.choice([0, 5, 11])}')
            off = 0
            while off < len(cipher):
                c = min(len(cipher) - off, rng.choice([1, 7, 16, 333, 4096]))
                ops.append(f'dec {hx(cipher[off:off + c])} {c}')
                off += c
            for _ in range(rng.choice([0, 0, 2, 5])):
                ops.append(rng.choice([f'upd {rng.randrange(256)}', 'byte']))
            yield Case(f'rand{i}', ops, {'pw': pw, 'chk': chk})

    def oracle(self, case, impl):
        """encrypt agrees with an independent implementation; decrypt(encrypt(m)) = m; the check byte
        comes back for the right passphrase; both copies agree."""
        pk = None
        plain, back = b'', b''
        right = False
        chk = None
        for op, line in zip(case.ops, impl):
            w = op.split()
            arg = (lambda s: b'' if s == '-' else bytes.fromhex(s))
            if w[0] == 'winit':
                pk = Pk(arg(w[1]))
                pw = arg(w[1])
            elif w[0] == 'enc':
                data, cap = arg(w[1]), int(w[2])
                k = min(len(data), cap)
                want = pk.enc(data[:k])
                m = re.match(r'n=(\d+) out=(\S+) ', line)
                if not m or int(m.group(1)) != k or arg(m.group(2)) != want:
                    return 'trad_enc_encrypt_update differs from the reference cipher'
                if chk is None:
                    chk = data[-1] if len(data) == 12 else -1     # the 12-byte header comes first
                else:
                    plain += data[:k]
            elif w[0] == 'rinit':
                klen = int(w[3])
                m = re.match(r'r=(-?\d+) chk=([0-9a-f]{2}) ', line)
                if not m:
                    return 'unparsable rinit answer'
                if klen < 12:
                    if m.group(1) != '-1' or m.group(2) != 'ff':
                        return 'short header not refused'
                    right = False
                else:
                    right = arg(w[1]) == pw
                    if m.group(1) != '0':
                        return 'trad_enc_init failed on a 12-byte header'
                    if right and int(m.group(2), 16) != chk:
                        return 'right passphrase: check byte not recovered'
            elif w[0] == 'dec' and right:
                m = re.match(r'n=(\d+) out=(\S+) ', line)
                if not m:
                    return 'unparsable dec answer'
                back += arg(m.group(2))
            elif w[0] == 'upd' and not line.startswith('same=1'):
                return 'the two copies of trad_enc_update_keys disagree'
            elif w[0] == 'byte':
                m = re.match(r'b=(..)/(..) ', line)
                if not m or m.group(1) != m.group(2):
                    return 'the two copies of trad_enc_decrypt_byte disagree'
        if right and back != plain:
            return 'decrypt(encrypt(m)) != m'
        return None

    def nontrivial(self, case, impl):
        return any(o.startswith('dec') for o in case.ops)


    def stats(self, cases, impl):
        st = {'ops': {}, 'rinit': {'ok': 0, 'short': 0}}
        for c, im in zip(cases, impl):
            for o, l in zip(c.ops, im):
                k = o.split()[0]
                st['ops'][k] = st['ops'].get(k, 0) + 1
                if k == 'rinit':
                    st['rinit']['short' if l.startswith('r=-1') else 'ok'] += 1
        return st


# ---------------------------------------------------------------------------------------------
class Pass(Engine):
    """archive_read_add_passphrase.c"""
    name = 'pass'

    def gen(self, rng, tier):
        n = 400 if tier == 'quick' else 3000
        for i in range(n):
            ops = []
            tag = 0
            nlist = rng.choice([0, 0, 1, 1, 2, 2, 3, 5, 9])
            for _ in range(nlist):
                tag += 1
                ops.append(f'add {hx(b"p%d" % tag)}')
                if rng.random() < 0.1:
                    ops.append(rng.choice(['add -', 'add null']))
            r = rng.random()
            if r < 0.35:
                pass
            elif r < 0.5:
                ops.append('cb n')
            else:
                ans = []
                for _ in range(rng.choice([1, 2, 3, 6])):
                    tag += 1
                    ans.append('null' if rng.random() < 0.2 else hx(b'c%d' % tag) if rng.random() < 0.9 else '-')
                ops.append('cb ' + ','.join(ans))
            for _ in range(rng.choice([1, 1, 2, 3])):
                if rng.random() < 0.9:
                    ops.append('reset')
                ops += ['next'] * rng.choice([0, 1, 2, nlist, nlist + 1, nlist + 2, nlist + 5, rng.randrange(0, 14)])
                if rng.random() < 0.15:
                    tag += 1
                    ops.append(f'add {hx(b"p%d" % tag)}')
                if rng.random() < 0.1:
                    ops.append(rng.choice(['cb -', 'cb n', f'cb {hx(b"late%d" % tag)}']))
            yield Case(f'rand{i}', ops)

    def oracle(self, case, impl):
        """after a reset the first calls return the list in order, each item once; no node is ever lost;
        `last` stays valid."""
        lst = []
        pending = None
        for op, line in zip(case.ops, impl):
            m = re.search(r' cand=(-?\d+) list=(\S+) last=(\d) calls=(\d+)$', line)
            if not m:
                return 'unparsable answer: ' + line[:60]
            if m.group(3) != '1':
                return '`last` does not point at the final node'
            now = [] if m.group(2) == 'empty' else m.group(2).split(',')
            w = op.split()
            if w[0] == 'reset':
                pending = list(now); k = 0
            elif w[0] == 'next':
                p = line.split()[0][2:]
                if pending is not None:
                    if k < len(pending):
                        if p != pending[k]:
                            return f'call {k + 1} after reset returned {p}, list order says {pending[k]}'
                        if now[0] != p:
                            return 'the candidate just returned is not at the head of the list'
                        k += 1
                    else:
                        if k == len(pending) and sorted(now) != sorted(pending) and p == 'null':
                            return 'list changed by a full miss'
                        if k == len(pending) and p == 'null' and now != pending:
                            return 'list order not restored after a full miss'
                        k += 1
                        if p != 'null':
                            pending = None      # a callback answer joined the list
            else:
                pending = None
            # nothing is ever lost
            if w[0] in ('reset', 'next', 'cb') and len(now) < len(lst):
                return 'a passphrase disappeared from the list'
            lst = now
        return None

    def nontrivial(self, case, impl):
        return sum(1 for l in impl if l.startswith('p=') and not l.startswith('p=null')) >= 2

    def stats(self, cases, impl):
        st = {'ops': {}, 'next_null': 0, 'next_listed_or_cb': 0, 'add_refused': 0, 'max_list': 0}
        for c, im in zip(cases, impl):
            for o, l in zip(c.ops, im):
                k = o.split()[0]
                st['ops'][k] = st['ops'].get(k, 0) + 1
                if k == 'next':
                    st['next_null' if l.startswith('p=null') else 'next_listed_or_cb'] += 1
                if k == 'add' and l.startswith('st=failed'):
                    st['add_refused'] += 1
                m = re.search(r'list=(\S+)', l)
                if m and m.group(1) != 'empty':
                    st['max_list'] = max(st['max_list'], m.group(1).count(',') + 1)
        return st


# ---------------------------------------------------------------------------------------------
# Reference archives of libarchive's own test suite.  Expectations are those of the
# corresponding test_*.c (names, sizes, indicator values, password); `crc` pins the CRC-32 of
# the decrypted contents observed with the right password (the zip reader itself also checks
# the CRC stored in the archive).
def E(name, size, de, me=0, crc=None):
    return {'name': name, 'size': size, 'de': de, 'me': me, 'crc': crc}


REFS = {
    'test_read_format_zip_traditional_encryption_data.zip':
        {'pw': b'12345678', 'dec': True, 'entries': [E('bar.txt', 495, 1, crc='a4d8fd47'), E('foo.txt', 495, 1, crc='b493c7eb')]},
    'test_read_format_zip_winzip_aes128.zip': {'pw': b'password', 'dec': True, 'entries': [E('README', 6818, 1, crc='864d90bb')]},
    'test_read_format_zip_winzip_aes256.zip': {'pw': b'password', 'dec': True, 'entries': [E('README', 6818, 1, crc='864d90bb')]},
    'test_read_format_zip_winzip_aes256_stored.zip': {'pw': b'password', 'dec': True, 'entries': [E('README', 6818, 1, crc='864d90bb')]},
    'test_read_format_zip_winzip_aes256_large.zip':
        {'pw': b'password', 'dec': True, 'entries': [E('Makefile', 1456747, 1, crc='86a7e7c3'), E('NEWS', 29357, 1, crc='b2f13b5e'), E('README', 6818, 1, crc='864d90bb'),
                                                     E('config.h', 32667, 1, crc='f4d29b4d')]},
    # PKWARE strong encryption, 7-Zip and RAR encryption: not decryptable by libarchive
    'test_read_format_zip_encryption_data.zip': {'pw': None, 'dec': False, 'entries': [E('bar.txt', 20, 1), E('foo.txt', 20, 1)]},
    'test_read_format_zip_encryption_partially.zip': {'pw': None, 'dec': False, 'entries': [E('bar.txt', 20, 0), E('foo.txt', 20, 1)]},
    'test_read_format_zip_encryption_header.zip': {'pw': None, 'dec': False, 'header_fatal': True, 'entries': []},
    'test_read_format_7zip_encryption.7z': {'pw': None, 'dec': False, 'entries': [E('bar.txt', 4, 1)]},
    'test_read_format_7zip_encryption_partially.7z': {'pw': None, 'dec': False, 'entries': [E('bar_unencrypted.txt', 4, 0), E('bar_encrypted.txt', 4, 1)]},
    'test_read_format_7zip_encryption_header.7z': {'pw': None, 'dec': False, 'header_fatal': True, 'entries': []},
    'test_read_format_rar_encryption_data.rar': {'pw': None, 'dec': False, 'entries': [E('foo.txt', 16, 1), E('bar.txt', 16, 1)]},
    'test_read_format_rar_encryption_partially.rar': {'pw': None, 'dec': False, 'entries': [E('foo.txt', 16, 1), E('bar.txt', 16, 0)]},
    'test_read_format_rar_encryption_header.rar': {'pw': None, 'dec': False, 'header_fatal': True, 'entries': []},
}
# further encrypted samples: only the generic rule "an entry flagged as encrypted never yields bytes" is applied
REFS_GENERIC = ['test_read_format_rar4_encrypted.rar', 'test_read_format_rar4_encrypted_filenames.rar',
                'test_read_format_rar4_solid_encrypted.rar', 'test_read_format_rar4_solid_encrypted_filenames.rar',
                'test_read_format_rar5_encrypted.rar', 'test_read_format_rar5_encrypted_filenames.rar',
                'test_read_format_rar5_solid_encrypted.rar', 'test_read_format_rar5_solid_encrypted_filenames.rar']


def uudecode(path):
    out = bytearray()
    started = False
    for line in open(path, 'rb'):
        if not started:
            started = line.startswith(b'begin ')
            continue
        s = line.rstrip(b'\r\n')
        if s == b'end':
            break
        if not s or s == b'`':
            continue
        try:
            out += binascii.a2b_uu(s)
        except binascii.Error:
            n = (s[0] - 32) & 63
            out += binascii.a2b_uu(s[:1 + (n * 4 + 2) // 3 + 3].ljust(1 + ((n + 2) // 3) * 4, b'`'))[:n]
    return bytes(out)


class ZipEnc(Engine):
    """Whole round trips through the real zip writer and reader + reference archives."""
    name = 'zipenc'
    repo_deps = ('libarchive/archive_read_support_format_zip.c', 'libarchive/archive_write_set_format_zip.c')
    timeout = 1500
    ENCS = ['zipcrypt', 'aes128', 'aes256']
    BS = [1, 7, 16, 100, 4096, 10240, 1 << 20]

    def rt(self, rng, label, enc, comp, body, sz=None, wp=None, mode='right', bs=None, seek=None, tamper='none', wc=None):
        wp = rng.choice(PASSES) if wp is None else wp
        sz = rng.choice(['set', 'unset']) if sz is None else sz
        bs = rng.choice(self.BS) if bs is None else bs
        seek = rng.choice([0, 0, 1]) if seek is None else seek
        wc = rng.choice([0, 0, 1, 7, 16, 1000, 65536]) if wc is None else wc
        wrongs = [p for p in PASSES if p != wp]
        w1, w2 = rng.sample(wrongs, 2)
        by = rng.choice('vc')
        rp, rcb = '-', '-'
        if mode == 'right':
            rp = hx(wp)
        elif mode == 'right-cb':
            rcb = hx(wp)
        elif mode == 'third':
            rp = ','.join([hx(w1), hx(w2), hx(wp)])
        elif mode == 'list-then-cb':
            rp, rcb = ','.join([hx(w1), hx(w2)]), ','.join([hx(rng.choice(wrongs)), hx(wp)])
        elif mode == 'wrong':
            rp = ','.join(hx(x) for x in rng.sample(wrongs, rng.choice([1, 2, 4])))
        elif mode == 'wrong-cb':
            rp, rcb = hx(w1), ','.join(hx(x) for x in rng.sample(wrongs, rng.choice([1, 3])))
        elif mode == 'none':
            pass
        elif mode == 'none-cbnull':
            rcb = 'n'
        elif mode == 'many-wrong':
            rcb = f'r{rng.choice([300, 700])}x{hx(w1)},{hx(wp)}'
        elif mode == 'many-distinct':
            # hundreds of different wrong passphrases: some pass the 1-byte PKWARE check by accident
            rcb = ','.join(hx(b'wrong-%d' % i) for i in range(320 if enc != 'zipcrypt' else rng.choice([400, 500]))) + ',' + hx(wp)
        wps = f'{by}:{hx(wp)}' if wp != b'<none>' else 'none'
        op = (f'rt enc={enc} comp={comp} sz={sz} body={body} wc={wc} wp={wps} rp={rp} rcb={rcb} '
              f'bs={bs} seek={seek} tamper={tamper}')
        return Case(label, [op], {'mode': mode, 'enc': enc, 'comp': comp, 'tamper': tamper})

    MODES = ['right', 'right', 'right-cb', 'third', 'list-then-cb', 'wrong', 'wrong', 'wrong-cb', 'none', 'none-cbnull']

    def gen(self, rng, tier):
        quick = tier == 'quick'
        # every body length 0..48 for every encryption x compression, right and wrong passphrase
        # (several round trips per case: one forked child serves them all)
        for enc in self.ENCS:
            for comp in ('store', 'deflate'):
                batch = []
                for L in range(0, 49):
                    body = 'h:' + hx(rnd_bytes(rng, L))
                    for sz in (('set', 'unset') if (not quick or L in (0, 1, 15, 16, 17, 19, 20, 21, 32, 48)) else (rng.choice(['set', 'unset']),)):
                        batch.append(self.rt(rng, '', enc, comp, body, sz=sz, mode='right' if L % 3 else rng.choice(self.MODES)))
                    if not quick or L % 4 == 0:
                        batch.append(self.rt(rng, '', enc, comp, body, mode=rng.choice(['wrong', 'none', 'wrong-cb', 'none-cbnull'])))
                    if len(batch) >= 8 or L == 48:
                        yield Case(f'{enc}.{comp}.len<={L}', [b.ops[0] for b in batch], {'batch': [b.meta for b in batch]})
                        batch = []
        # multi-block bodies: cipher block, zip->buf (64 KiB) and decryption buffer (256 KiB) borders
        big = [4095, 4096, 4097, 65535, 65536, 65537, 262143, 262144, 262145, 300000] if not quick else [4097, 65537, 262145, 300000]
        for enc in self.ENCS:
            for comp in ('store', 'deflate'):
                for L in big:
                    kind = rng.choice(['g', 'g', 'z'])
                    body = f'{kind}:{L}:{rng.randrange(256)}'
                    yield self.rt(rng, f'{enc}.{comp}.big{L}', enc, comp, body, mode=rng.choice(['right', 'third', 'right-cb']),
                                  bs=rng.choice([4096, 10240, 65536, 1 << 20] + ([1] if L < 5000 else [])))
                yield self.rt(rng, f'{enc}.{comp}.bigwrong', enc, comp, f'g:70000:{rng.randrange(99)}', mode='wrong')
        # no encryption at all: indicators must say so
        for comp in ('store', 'deflate'):
            for L in (0, 1, 33):
                yield self.rt(rng, f'plain.{comp}.{L}', 'none', comp, 'h:' + hx(rnd_bytes(rng, L)), mode=rng.choice(['right', 'none']))
        # writer without a usable passphrase
        for enc in self.ENCS:
            yield self.rt(rng, f'{enc}.nopass', enc, 'store', 'h:616263', wp=b'<none>')
            yield self.rt(rng, f'{enc}.nopass0', enc, 'deflate', 'h:-', wp=b'<none>', sz='unset')
            yield self.rt(rng, f'{enc}.emptypass', enc, 'store', 'h:616263', wp=b'')
        # damaged images
        for enc in self.ENCS:
            for comp in ('store', 'deflate'):
                for t in ('ct:0', 'ct:5', 'ct:1000000', 'mac:0', 'mac:9', 'pwv', 'salt'):
                    for L in ((3, 40) if quick else (1, 3, 16, 19, 20, 40, 5000)):
                        yield self.rt(rng, f'{enc}.{comp}.{t}.{L}', enc, comp, 'h:' + hx(rnd_bytes(rng, L)), mode='right', tamper=t)
        # retry loops: many wrong answers from the callback, then the cap
        for enc in self.ENCS if not quick else ['zipcrypt', 'aes128']:
            yield self.rt(rng, f'{enc}.many', enc, 'store', 'h:' + hx(rnd_bytes(rng, 21)), mode='many-wrong')
        for comp, L in (('store', 0), ('store', 33), ('deflate', 33), ('deflate', 3000)):
            yield self.rt(rng, f'zipcrypt.distinct.{comp}.{L}', 'zipcrypt', comp, f'g:{L}:{rng.randrange(99)}', mode='many-distinct')
        # the same for AES: a candidate matching only one of the two verification bytes must still be refused
        for enc, comp, L in (('aes128', 'store', 5), ('aes256', 'deflate', 40)):
            yield self.rt(rng, f'{enc}.distinct.{comp}.{L}', enc, comp, f'g:{L}:{rng.randrange(99)}', mode='many-distinct')
        wp = b'right'
        yield Case('zipcrypt.cap', [f'rt enc=zipcrypt comp=store sz=set body=h:68656c6c6f wc=0 wp=v:{hx(wp)} rp={hx(b"w0")} '
                                    f'rcb=r10010x{hx(b"w1")},{hx(wp)} bs=4096 seek=0 tamper=none'], {'mode': 'cap', 'enc': 'zipcrypt', 'comp': 'store', 'tamper': 'none'})
        if not quick:
          yield Case('aes.cap', [f'rt enc=aes128 comp=deflate sz=unset body=h:68656c6c6f wc=0 wp=v:{hx(wp)} rp=- '
                               f'rcb=r10010x{hx(b"w1")},{hx(wp)} bs=4096 seek=1 tamper=none'], {'mode': 'cap', 'enc': 'aes128', 'comp': 'deflate', 'tamper': 'none'})
        # random mix
        n = 150 if quick else 3000
        batch = []
        for i in range(n):
            L = rng.choice([0, 1, 5, 15, 16, 17, 19, 20, 31, 32, 33, 100, 1000, rng.randrange(0, 9000)])
            body = rng.choice([f'g:{L}:{rng.randrange(999)}', f'z:{L}:{rng.randrange(256)}', 'h:' + hx(rnd_bytes(rng, min(L, 300)))])
            batch.append(self.rt(rng, f'rand{i}', rng.choice(self.ENCS), rng.choice(['store', 'deflate']), body,
                                 mode=rng.choice(self.MODES), tamper=rng.choice(['none'] * 6 + ['ct:7', 'mac:3', 'pwv'])))
            if quick or len(batch) == 10 or i == n - 1:
                yield Case(batch[0].label, [b.ops[0] for b in batch], {'batch': [b.meta for b in batch]})
                batch = []
        # reference archives
        yield from self.refs(rng, tier)

    def refs(self, rng, tier):
        d = os.path.join(core.OUT, 'C20ref')
        os.makedirs(d, exist_ok=True)
        tdir = os.path.join(core.REPO, 'libarchive', 'test')
        for name in list(REFS) + REFS_GENERIC:
            src = os.path.join(tdir, name + '.uu')
            if not os.path.exists(src):
                yield Case('ref-missing:' + name, [f'ref file={os.path.join(d, name)} rp=- rcb=- bs=10240 seek=1'], {'ref': name, 'how': 'none'})
                continue
            dst = os.path.join(d, name)
            data = uudecode(src)
            if not os.path.exists(dst) or open(dst, 'rb').read() != data:
                open(dst, 'wb').write(data)
            spec = REFS.get(name, {'pw': None})
            pw = spec['pw']
            variants = [('none', '-', '-')]
            if pw:
                variants += [('right', hx(pw), '-'), ('third', f'{hx(b"invalid_pass")},{hx(b"invalid_phrase")},{hx(pw)}', '-'),
                             ('right-cb', '-', hx(pw)), ('wrong', hx(b'invalid_pass'), hx(b'nope'))]
            else:
                variants += [('wrong', hx(b'password'), '-')]
            for how, rp, rcb in variants:
                large = len(data) > 200000
                # 7-Zip and RAR readers need a seekable source; zip is also read in streaming mode
                both = name.endswith('.zip') and not (large and tier == 'quick' and how not in ('right', 'none'))
                for bs, seek in ([(10240, 1), (rng.choice([1, 7, 100]) if not large else 4096, 0)] if both else [(10240, 1)]):
                    yield Case(f'ref:{name}:{how}:{bs}:{seek}', [f'ref file={dst} rp={rp} rcb={rcb} bs={bs} seek={seek}'],
                               {'ref': name, 'how': how})

    # -- property predicate on the implementation's own line ------------------------------
    @staticmethod
    def fields(seg):
        d = {}
        for t in seg.split():
            if '=' in t:
                k, v = t.split('=', 1)
                d.setdefault(k, v)      # first occurrence (`he=` appears twice)
        return d

    def oracle(self, case, impl):
        if len(impl) < len(case.ops):
            return 'no answer'
        for op, line in zip(case.ops, impl):
            r = self.oracle1(op, line)
            if r:
                return r
        return None

    def oracle1(self, op, line):
        if line.startswith('!'):
            return 'implementation crashed: ' + line
        if op.startswith('ref '):
            return self.oracle_ref(op, line)
        segs = line.split(' | ')
        head = self.fields(segs[0])
        opf = self.fields(op)
        if head['w'].split('/')[4] != 'ok' or head['w'].split('/')[5] != 'ok':
            # the writer refused (no passphrase): nothing readable is promised
            return None if (opf['wp'] == 'none' or opf['wp'].endswith(':-')) else 'writer failed although a passphrase was given'
        if len(segs) < 2:
            return 'written archive has no readable entry'
        e = self.fields(segs[1])
        blen = self.body_len(opf['body'])
        encrypted = opf['enc'] != 'none' and not (opf['sz'] == 'set' and blen == 0)
        if e['de'] != ('1' if encrypted else '0') or e['me'] != '0':
            return f"entry indicators de={e['de']} me={e['me']} for an entry that {'is' if encrypted else 'is not'} encrypted"
        he = e['he'].split('/')
        if he[1] != ('1' if encrypted else '0') or he[2] != he[1]:
            return f"archive_read_has_encrypted_entries says {e['he']}"
        if not encrypted:
            return None if (e['r'] == 'eof' and e['eq'] == '1') else 'unencrypted entry not read back'
        wp = opf['wp'][2:]
        cands = [] if opf['rp'] == '-' else opf['rp'].split(',')
        cbs = [] if opf['rcb'] in ('-', 'n') else opf['rcb'].split(',')
        has_right = wp in cands or any(c == wp or c.endswith('x' + wp) for c in cbs)
        # position of the right passphrase in the sequence of `next` results
        seq_pos, pos = None, 0
        for c in cands + cbs:
            cnt, val = (int(c[1:c.index('x')]), c.split('x', 1)[1]) if c.startswith('r') and 'x' in c else (1, c)
            if val == wp and seq_pos is None:
                seq_pos = pos
            pos += cnt
        # the cap only speaks when every candidate in front of the right one fails its check:
        # `cand=` has one flag per distinct candidate in order of first appearance
        distinct = []
        for c in cands + cbs:
            v = c.split('x', 1)[1] if c.startswith('r') and 'x' in c else c
            if v not in distinct:
                distinct.append(v)
        early_match = has_right and '1' in head.get('cand', '')[:distinct.index(wp)]
        if has_right and seq_pos is not None and seq_pos > 10001 and not early_match:
            # the right passphrase sits behind more wrong answers than the loop may try (cap 10000)
            return None if e['r'] == 'failed' and e['n'] == '0' else 'retry cap not enforced'
        if head.get('tampered') == '1':
            if e['r'] == 'eof' and e['eq'] != '1':
                return 'damaged image: different bytes returned without any error'
            if e['r'] == 'eof' and opf['enc'] != 'zipcrypt':
                return 'damaged AES entry read without any error (authentication code not checked?)'
            return None
        if has_right:
            if e['r'] != 'eof' or e['eq'] != '1' or e['dense'] != '1':
                # an earlier candidate may have matched by accident (1/256, 2^-16): then any error is fine
                flags = head.get('cand', '-')
                order = []
                for c in cands + cbs:
                    c = c.split('x', 1)[1] if c.startswith('r') and 'x' in c else c
                    if c not in order:
                        order.append(c)
                idx = order.index(wp)
                accidental = '1' in flags[:idx]
                if accidental and e['r'] in ('warn', 'failed', 'fatal'):
                    return None
                return f"right passphrase supplied but r={e['r']} eq={e['eq']}"
            return None
        # no right passphrase anywhere
        if e['r'] == 'eof' and e['eq'] == '1' and blen > 0:
            return 'entry decrypted without the right passphrase'
        if e['r'] in ('eof', 'ok'):
            return None if blen == 0 and e['r'] == 'eof' and '1' in head.get('cand', '') else 'no error reported without the right passphrase'
        if '1' not in head.get('cand', '-') and e['n'] != '0':
            return 'bytes handed out although no candidate passed the verification value'
        return None

    @staticmethod
    def body_len(spec):
        if spec.startswith('h:'):
            return 0 if spec == 'h:-' else (len(spec) - 2) // 2
        return int(spec.split(':')[1])

    def oracle_ref(self, op, line):
        opf = self.fields(op)
        name = os.path.basename(opf['file'])
        spec0 = REFS.get(name)
        given = ([] if opf['rp'] == '-' else opf['rp'].split(',')) + ([] if opf['rcb'] in ('-', 'n') else opf['rcb'].split(','))
        how = 'right' if (spec0 and spec0['pw'] and hx(spec0['pw']) in given) else 'other'
        if line == 'nofile':
            return 'reference archive missing: ' + name
        segs = line.split(' | ')
        ents = [self.fields(s) for s in segs[1:]]
        spec = REFS.get(name)
        # generic: an entry flagged encrypted yields bytes only when libarchive can decrypt it and got the password
        can = bool(spec and spec.get('dec') and how in ('right', 'third', 'right-cb'))
        for e in ents:
            if e.get('de') == '1' and not can and (e['r'] in ('eof', 'ok') or e['n'] != '0'):
                return f"{name}: encrypted entry {bytes.fromhex(e.get('name', '') if e.get('name', '-') != '-' else '').decode('latin1')} gave r={e['r']} n={e['n']} without the password"
        if spec is None:
            return None
        if spec.get('header_fatal'):
            if ' | ' in line or 'end=fatal' not in line or not re.search(r'end=fatal he=1', line):
                return f'{name}: encrypted headers must fail fatally with has_encrypted_entries = 1'
            return None
        # streaming: an undecryptable length-at-end entry cannot be skipped, the listing may stop early
        if len(ents) != len(spec['entries']) and not (opf['seek'] == '0' and not can and 0 < len(ents) < len(spec['entries'])):
            return f"{name}: {len(ents)} entries, expected {len(spec['entries'])}"
        for e, x in zip(ents, spec['entries']):
            nm = bytes.fromhex(e['name']).decode('latin1') if e['name'] != '-' else ''
            if nm != x['name'] or int(e['sz']) != x['size']:
                return f"{name}: entry {nm} size {e['sz']}, expected {x['name']} {x['size']}"
            if int(e['de']) != x['de'] or int(e['me']) != x['me']:
                return f"{name}: {nm}: is_data_encrypted={e['de']} is_metadata_encrypted={e['me']}"
            if x['de'] and e['he'].split('/')[1] != '1':
                return f'{name}: has_encrypted_entries not 1 at an encrypted entry'
            if x['de'] == 0 or can:
                if e['r'] != 'eof' or int(e['n']) != x['size']:
                    return f"{name}: {nm} not read back (r={e['r']} n={e['n']})"
                if x['crc'] and e['crc'] != x['crc']:
                    return f"{name}: {nm} decrypted to different contents (crc {e['crc']})"
        return None

    def nontrivial(self, case, impl):
        return any(' de=1' in l for l in impl)

    def stats(self, cases, impl):
        st = {'round_trips': 0, 'modes': {}, 'enc': {}, 'comp': {}, 'tamper': {}, 'results': {}, 'refs': 0,
              'accidental_matches': 0, 'body_len_mod16': {}, 'sz': {}, 'seek': {}, 'block_sizes': {}}
        for c, im in zip(cases, impl):
            metas = c.meta.get('batch') or [c.meta] * len(c.ops)
            for op, line, meta in zip(c.ops, im, metas):
                if op.startswith('ref '):
                    st['refs'] += 1
                    continue
                st['round_trips'] += 1
                opf = self.fields(op)
                mode = meta.get('mode', 'corpus')
                st['modes'][mode] = st['modes'].get(mode, 0) + 1
                for k, kk in (('enc', 'enc'), ('comp', 'comp'), ('sz', 'sz'), ('seek', 'seek'), ('block_sizes', 'bs')):
                    st[k][opf[kk]] = st[k].get(opf[kk], 0) + 1
                t = opf['tamper'].split(':')[0]
                st['tamper'][t] = st['tamper'].get(t, 0) + 1
                b = self.body_len(opf['body']) % 16
                st['body_len_mod16'][b] = st['body_len_mod16'].get(b, 0) + 1
                m = re.search(r' r=(\w+)', line)
                r = m.group(1) if m else 'write-failed'
                st['results'][r] = st['results'].get(r, 0) + 1
                f = self.fields(line.split(' | ')[0])
                wp = opf['wp'][2:]
                order = []
                for x in ([] if opf['rp'] == '-' else opf['rp'].split(',')) + ([] if opf['rcb'] in '-n' else opf['rcb'].split(',')):
                    x = x.split('x', 1)[1] if x.startswith('r') and 'x' in x else x
                    if x not in order:
                        order.append(x)
                for x, fl in zip(order, f.get('cand', '')):
                    if fl == '1' and x != wp:
                        st['accidental_matches'] += 1
        return st


ENGINES = [Enc(), Trad(), Pass(), ZipEnc()]
