"""Engine `cw`: the write core and the client write filter of archive_write.c (shared by C09, C11)."""
import re
from lib.core import Engine, Case

BPBS = [0, 1, 7, 512, 10240]
BILS = [-1, 0, 1, 512]
FMTS_MONITOR = ['pax', 'gnutar', 'v7tar', 'cpio', 'newc', 'bin', 'pwb', 'odc', 'zip', '7zip', 'xar', 'iso9660',
                'arbsd', 'arsvr4', 'mtree', 'warc', 'shar', 'shardump']
FILTERS_MONITOR = ['gzip', 'bzip2', 'xz', 'zstd', 'lz4', 'compress', 'lzip', 'lzma']


def hexs(b):
    return bytes(b).hex() if b else '-'


def fill(n, seed):
    return bytes((seed + i * 7 + i // 256) & 0xff for i in range(n))


def chunk(rng, total, mode):
    """Split `total` bytes into `fill`-style chunks (len, seed-offset)."""
    out, i = [], 0
    while i < total:
        if mode == 'whole':
            k = total
        elif isinstance(mode, int):
            k = mode
        else:
            k = rng.choice([1, 2, 3, 7, 100, 511, 512, 513, 1024, 5000, 10240, 10241])
        k = min(k, total - i)
        out.append(k); i += k
    return out


def header(rng, typ='reg', size=0, path=None):
    if path is None:
        comps = [''.join(rng.choice('abcdefXYZ019_-.') for _ in range(rng.choice([1, 3, 8, 20, 60]))) for _ in range(rng.choice([1, 1, 2, 3, 5]))]
        path = '/'.join(comps)
    uname = rng.choice(['-', 'root', 'user', 'u' * 32, 'v' * 33])
    gname = rng.choice(['-', 'wheel', 'g' * 32, 'h' * 40])
    uid = rng.choice([0, 1000, 2097151, 2097152, -1])
    gid = rng.choice([0, 100, 2097151])
    mtime = rng.choice([0, 1, 1700000000, 8589934591, 8589934592, -5])
    mode = rng.choice([0o644, 0o755, 0o7777, 0, 0o600])
    link = '-'
    if typ in ('hard', 'lnk'):
        link = hexs(rng.choice([b'target', b't' * 100, b'x/' * 51]))
    h = lambda s: '-' if s == '-' else hexs(s.encode())
    return f'header {typ} {hexs(path.encode())} {size} {mode} {uid} {gid} {mtime} {h(uname)} {h(gname)} {link} {rng.choice([0, 8, 2097152])} {rng.choice([0, 5])}'


def plain_header(path='f', size=0):
    return f'header reg {hexs(path.encode())} {size} 420 1000 100 1700000000 {hexs(b"user")} {hexs(b"grp")} - 0 0'


def rand_script(rng, kind, nmax=40):
    """kind: all | short | fail"""
    if kind == 'all':
        return []
    n = rng.choice([1, 2, 5, nmax])
    sc = []
    for _ in range(n):
        sc.append('a' + str(rng.choice([1, 1, 2, 3, 7, 100, 511, 512, 513, 5000, 10240])) if rng.random() < 0.7 else 'A')
    if kind == 'fail':
        k = rng.randrange(len(sc) + 1)
        sc = sc[:k] + [rng.choice(['z', 'e', 'e', 'a0'])]
    return sc


def derive(ops, impl):
    """What the property predicate needs to know about a case, read off the op stream itself
    (so that it also works on shrunk streams)."""
    d = {'sink': None, 'fmt': None, 'filter': '-', 'bpb': 10240, 'bil': -1, 'kind': 'all', 'mem': None, 'need': None, 'total': 0,
         'ended': False, 'acc': None}
    opened = False
    ustar_need, simple = 1024, True
    news = 0
    for op, o in zip(ops, impl):
        w = op.split()
        if not w:
            continue
        if w[0] == 'new':
            news += 1
            if news > 1:
                d['kind'] = 'multi'         # several archives in one case: only the per-call predicates apply
                break
        if w[0] == 'fmt':
            d['fmt'] = w[1]
        elif w[0] == 'filter':
            d['filter'] = w[1]
        elif w[0] == 'bpb' and not opened and int(w[1]) >= 0 and o.endswith('ok'):
            d['bpb'] = int(w[1])
        elif w[0] == 'bil' and o.endswith('ok'):
            d['bil'] = int(w[1])
        elif w[0] == 'script':
            if any(x != 'A' for x in w[1:]):
                d['kind'] = 'short' if all(x[0] in 'aA' and x != 'a0' for x in w[1:]) else 'fail'
        elif w[0] == 'sys':
            if any(x != 'A' for x in w[1:]):
                d['kind'] = 'short' if all(x[0] in 'aAi' and x != 'a0' for x in w[1:]) else 'fail'
        elif w[0] in ('openfd', 'openfile', 'openFILE'):
            opened = o.startswith('open ok')
            d['sink'] = w[0]
            if w[0] != 'openFILE' and d['bil'] < 0:
                # a device or FIFO gets full last blocks by default, anything else none; an explicit setting stands
                d['bil'] = 0 if (len(w) > 1 and w[1] in ('fifo', 'null', 'pipe')) else 1
        elif w[0] == 'opener' and w[1] != '0':
            d['kind'] = 'fail'
        elif w[0] in ('open', 'openmem'):
            opened = o.startswith('open ok')
            if w[0] == 'openmem':
                d['mem'] = min(int(w[1]), int(w[2]))
                if d['bil'] == -1:
                    d['bil'] = 1
        elif w[0] == 'header':
            if w[1] != 'reg' or not o.startswith('header ok'):
                simple = False
            else:
                ustar_need += 512 + (int(w[3]) + 511) // 512 * 512
        elif w[0] in ('data', 'fill'):
            m = re.match(r'data (\d+) ', o)
            if m:
                d['total'] += int(m.group(1))
        elif w[0] in ('close', 'free') and opened:
            d['ended'] = True
        m = re.search(r' acc=(\d+):', o)
        if m:
            d['acc'] = int(m.group(1))
    if d['mem'] is not None and d['filter'] == '-' and d['bil'] == 1:
        if d['fmt'] == 'raw':
            d['need'] = d['total'] if not any(o.startswith('data f') for o in impl) else None
        elif d['fmt'] == 'ustar' and simple:
            d['need'] = ustar_need
    return d


LASTBLK_PAIRS = [(1000, 512), (10240, 3000), (10240, 4096), (10, 4), (20, 8), (512, 100), (512, 200), (7, 2), (7, 5), (513, 512), (10240, 512), (100, 33),
                 (65537, 10240)]


def lastblk_cases(rng, tier, both):
    """(bytes_per_block, bytes_in_last_block, tail) grid with bilb not dividing bpb: the tail of the archive at
    every border of every kind of slot, in particular beyond the last whole multiple of bilb (where rounding up
    overshoots the block); archives shorter than one block and archives with whole blocks in front."""
    pairs = LASTBLK_PAIRS if tier == 'quick' else LASTBLK_PAIRS + [(rng.randrange(2, 3000), rng.randrange(2, 3000)) for _ in range(50)]
    for bpb, bil in pairs:
        whole = bpb // bil * bil
        tails = sorted(set(r for r in (1, bil - 1, bil, bil + 1, whole - 1, whole, whole + 1, (whole + bpb) // 2, bpb - 1) if 0 < r < bpb))
        for r in tails:
            fronts = [0, rng.choice([1, 2])] if both else [rng.choice([0, 0, 1])]
            for k in fronts:
                total = k * bpb + r
                if total > 140000:
                    continue
                ops = ['new', 'fmt raw', f'bpb {bpb}', f'bil {bil}', 'script', 'open', plain_header()]
                for n in chunk(rng, total, rng.choice(['whole', 'rand', 'rand'])):
                    ops.append(f'fill {n} {rng.randrange(256)}')
                ops += ['close', 'free']
                yield Case(f'lastblk-{bpb}-{bil}-{r}-{k}', ops, {'fmt': 'raw', 'bpb': bpb, 'bil': bil, 'kind': 'all', 'filter': '-', 'total': total})


# sinks the library provides: (op, what is behind it)
SINKS = [('openfd', 'reg'), ('openfd', 'pipe'), ('openfd', 'sock'), ('openfd', 'null'), ('openfd', 'fifo'),
         ('openfile', 'reg'), ('openfile', 'fifo'), ('openfile', 'null'), ('openFILE', 'reg')]
SWEEP_FORMATS = ['pax', 'paxr', 'gnutar', 'v7tar', 'cpio', 'odc', 'newc', 'bin', 'pwb', 'zip', '7zip', 'xar', 'iso9660',
                 'arbsd', 'arsvr4', 'mtree', 'mtree-classic', 'warc', 'shar', 'shardump', 'ustar', 'raw']


class Cw(Engine):
    name = 'cw'
    keep_prefix = 1
    timeout = 1500

    def __init__(self, nbase=150, monitor=True, mem=True, c11=False):
        self.nbase, self.monitor, self.mem, self.c11 = nbase, monitor, mem, c11

    # -- generators -------------------------------------------------------
    def gen(self, rng, tier):
        for c in self.gen0(rng, tier):
            if c.ops[-1] == 'free':
                c.ops.append('leakcheck')
            yield c

    def gen0(self, rng, tier):
        n = self.nbase if tier == 'quick' else self.nbase * 4
        # 1. raw format: the blocking layer alone, full (bpb, bil) grid
        for i in range(n):
            bpb, bil = rng.choice(BPBS + [3, 513, 65537]), rng.choice(BILS + [3, 100, 20000])
            total = rng.choice([0, 1, 5, 100, 511, 512, 513, 1024, 3000, 10239, 10240, 10241, 25000])
            if bpb == 1 and total > 3000:
                total = 3000
            kind = rng.choice(['all', 'all', 'short', 'fail', 'fail'])
            ops = ['new', 'fmt raw', f'bpb {bpb}', f'bil {bil}', 'script ' + ' '.join(rand_script(rng, kind)), 'open', plain_header()]
            seed = rng.randrange(256)
            off = 0
            for k in chunk(rng, total, rng.choice(['whole', 'rand', 'rand', 1 if total < 600 else 100, 512])):
                ops.append(f'fill {k} {(seed + off * 7) % 256}' if rng.random() < 0.8 else 'data ' + hexs(fill(k, seed)[:k]))
                off += k
            ops += self.ending(rng)
            yield Case(f'raw{i}', ops, {'fmt': 'raw', 'bpb': bpb, 'bil': bil, 'kind': kind, 'filter': '-', 'total': total})
        # 1b. last-block granularity that does not divide the block size: a deterministic grid
        for c in lastblk_cases(rng, tier, both=True):
            yield c
        # 1c. the library's own sinks (open_fd / open_filename / open_FILE) over a scripted write(2) / fwrite, behind
        #     them a regular file, a FIFO, /dev/null, a pipe, a socket: every (bpb, bilb) setting — the default
        #     last-block rule depends on what fstat() says and applies only when bilb was not set
        for op, kind in SINKS:
            for bpb in (0, 7, 512, 10240):
                for bil in (None, 0, 1, 3, 512):
                    total = rng.choice([1, 5, 100, 511, 513, 1300])
                    ops = ['new', 'fmt raw', f'bpb {bpb}'] + ([f'bil {bil}'] if bil is not None else []) + \
                          ['sys ' + ' '.join(rng.choice([[], [], ['a3', 'i', 'a100'], ['i', 'a1', 'a1', 'A', 'i']])), f'{op} {kind}' if kind != 'reg' or rng.random() < 0.5 else op,
                           plain_header(size=total), f'fill {total} {rng.randrange(256)}', 'close', 'free']
                    yield Case(f'sink-{op}-{kind}-{bpb}-{bil}', ops, {'fmt': 'raw', 'bpb': bpb, 'bil': bil, 'kind': 'sink-grid', 'filter': '-', 'sink': op + ':' + kind})
        ns = 45 if tier == 'quick' else 400
        for i in range(ns):
            sink, knd = rng.choice(SINKS)
            fmt = rng.choice(['raw', 'raw', 'ustar'])
            bpb = rng.choice([0, 7, 512, 10240]); bil = rng.choice([None, None, -1, 0, 1, 512, 3])
            kind = rng.choice(['short', 'short', 'short', 'fail', 'all'])
            sc = []
            if kind != 'all':
                for _ in range(rng.choice([2, 5, 12, 40])):
                    sc.append(rng.choice(['a1', 'a2', 'a3', 'a7', 'a100', 'a511', 'a512', 'a513', 'a5000', 'A', 'i', 'i']))
                if kind == 'fail':
                    k = rng.randrange(len(sc) + 1); sc = sc[:k] + [rng.choice(['e', 'z', 'e'])]
            total = rng.choice([1, 5, 100, 511, 513, 1300, 3000, 10241, 25000])
            ops = ['new', f'fmt {fmt}', f'bpb {bpb}'] + ([f'bil {bil}'] if bil is not None else []) + ['sys ' + ' '.join(sc), f'{sink} {knd}', plain_header(size=total)]
            for k in chunk(rng, total, rng.choice(['whole', 'rand', 'rand'])):
                ops.append(f'fill {k} {rng.randrange(256)}')
            ops += self.ending(rng)
            yield Case(f'{sink}{i}', ops, {'fmt': fmt, 'bpb': bpb, 'bil': bil, 'kind': 'sink-' + kind, 'filter': '-', 'sink': sink + ':' + knd})
        # 2. ustar: header / data / finish_entry / close
        for i in range(n):
            bpb, bil = rng.choice(BPBS), rng.choice(BILS)
            kind = rng.choice(['all', 'all', 'short', 'fail', 'fail'])
            ops = ['new', 'fmt ustar', f'bpb {bpb}', f'bil {bil}', 'script ' + ' '.join(rand_script(rng, kind, 12)), 'open']
            for _ in range(rng.choice([1, 1, 2, 4])):
                typ = rng.choice(['reg', 'reg', 'reg', 'dir', 'lnk', 'hard', 'chr', 'blk', 'fifo', 'sock'])
                size = rng.choice([0, 1, 5, 511, 512, 513, 2000]) if bpb != 1 else rng.choice([0, 5, 100])
                ops.append(header(rng, typ, size))
                wr = rng.choice([size, size, size + 10, max(0, size - 3)])
                for k in chunk(rng, wr, rng.choice(['whole', 'rand'])):
                    ops.append(f'fill {k} {rng.randrange(256)}')
                if rng.random() < 0.6:
                    ops.append('finish')
            ops += self.ending(rng)
            yield Case(f'ustar{i}', ops, {'fmt': 'ustar', 'bpb': bpb, 'bil': bil, 'kind': kind, 'filter': '-'})
        # 3. fault sweep: the k-th invocation fails, for every k of a fixed scenario
        for fmt, bpb in (('raw', 7), ('ustar', 512), ('ustar', 0), ('raw', 0)):
            scen = ['new', f'fmt {fmt}', f'bpb {bpb}', 'bil -1', None, 'open', plain_header(size=1300), 'fill 700 3', 'fill 600 9',
                    'finish', 'close', 'free']
            kmax = 12 if tier == 'quick' else 120
            for k in range(kmax):
                for bad in ('e', 'z'):
                    ops = list(scen); ops[4] = 'script ' + ' '.join(['A'] * k + [bad])
                    yield Case(f'sweep-{fmt}-{bpb}-{k}{bad}', ops, {'fmt': fmt, 'bpb': bpb, 'bil': -1, 'kind': 'fail', 'filter': '-'})
        # 4. the open callback fails
        for ret in (-30, -25, -20):
            for fmt in ('raw', 'ustar'):
                for flt in ('-', 'b64'):
                    ops = ['new', f'fmt {fmt}'] + ([f'filter {flt}'] if flt != '-' else []) + [f'opener {ret}', 'open', plain_header(size=3), 'fill 3 1', 'close', 'free']
                    yield Case(f'opener{ret}-{fmt}-{flt}', ops, {'fmt': fmt, 'bpb': 10240, 'bil': -1, 'kind': 'fail', 'filter': flt})
        # 5. memory sink: every buffer size from 0 to the needed size (sampled in quick)
        if self.mem:
            for fmt, bpb, dl in (('ustar', 512, 700), ('ustar', 10240, 5), ('raw', 7, 100), ('raw', 0, 33), ('ustar', 0, 513)):
                need = (512 + (dl + 511) // 512 * 512 + 1024) if fmt == 'ustar' else dl
                sizes = (range(need + 2) if need <= 1600 else sorted(set(list(range(0, need + 2, 5)) + [511, 512, 513, 1023, 1024, 1025, 1535, 1536, 1537, need - 1, need, need + 1]))) if tier != 'quick' else sorted(set([0, 1, 2, 6, 7, 8, 511, 512, 513, 1023, 1024, 1025, need - 1, need, need + 1] + [rng.randrange(need + 1) for _ in range(10)]))
                for sz in sizes:
                    if sz < 0:
                        continue
                    ops = ['new', f'fmt {fmt}', f'bpb {bpb}', f'openmem {sz} {sz}', plain_header(size=dl), f'fill {dl} 5', 'finish', 'close', 'free']
                    yield Case(f'mem-{fmt}-{bpb}-{sz}', ops, {'fmt': fmt, 'bpb': bpb, 'bil': 1, 'kind': 'mem', 'filter': '-', 'need': need, 'size': sz})
            for bil in (-1, 0, 512, 3):
                ops = ['new', 'fmt raw', 'bpb 512', f'bil {bil}', 'openmem 2048 2048', plain_header(), 'fill 700 1', 'close', 'free']
                yield Case(f'mem-bil{bil}', ops, {'fmt': 'raw', 'bpb': 512, 'bil': bil, 'kind': 'mem', 'filter': '-'})
        # 6. b64encode / uuencode in front of the client filter (64 KiB blocks): callback fails once
        for flt in ('b64', 'uu'):
            for fmt in ('raw', 'ustar'):
                for k in ([0, 1, 2, 5] if tier == 'quick' else range(0, 12)):
                    for bpb in ((10240,) if tier == 'quick' else (10240, 0)):
                        sc = ['A'] * k + [rng.choice(['e', 'z'])]
                        ops = ['new', f'fmt {fmt}', f'filter {flt}', f'bpb {bpb}', 'script ' + ' '.join(sc), 'open', plain_header(size=200000),
                               'fill 120000 7', 'fill 80000 9', 'finish', 'close', 'free']
                        yield Case(f'{flt}-{fmt}-fail{k}-{bpb}', ops, {'fmt': fmt, 'bpb': bpb, 'bil': -1, 'kind': 'fail', 'filter': flt})
                for total in (0, 1, 44, 45, 46, 56, 57, 58, 1000, 70000):
                    ops = ['new', f'fmt {fmt}', f'filter {flt}', 'open', plain_header(size=total)]
                    for k in chunk(rng, total, rng.choice(['whole', 'rand', 40])):
                        ops.append(f'fill {k} {rng.randrange(256)}')
                    ops += ['finish', 'close', 'free']
                    yield Case(f'{flt}-{fmt}-{total}', ops, {'fmt': fmt, 'bpb': 10240, 'bil': -1, 'kind': 'all', 'filter': flt})
        # 7. formats / filters the model does not cover: fault sweep, predicate only (monitor)
        if self.monitor:
            kmax = 6 if tier == 'quick' else 20
            # fail-once at every callback invocation index, under every writable format, names of odd and even
            # length, block sizes 0 and 1 (every output call / every byte is its own invocation), small, default
            def small_entries(fmt):
                if fmt == 'raw':
                    return [plain_header('a', 0), 'fill 5 1', 'fill 6 2']
                if fmt in ('arbsd', 'arsvr4'):
                    return [plain_header('a', 5), 'fill 5 1', plain_header('ab', 6), 'fill 6 2', plain_header('odd_name_17_chars', 1), 'fill 1 3']
                return [plain_header('a', 5), 'fill 5 1', 'finish', plain_header('ab', 6), 'fill 6 2', plain_header('dir/abc', 0), plain_header('dir/abcd', 3), 'fill 3 3']
            for fmt in SWEEP_FORMATS:
                for bpb, ks in ((0, range(16 if tier == 'quick' else 40)), (1, range(0, 16 if tier == 'quick' else 120, 2)),
                                (7, range(4 if tier == 'quick' else 20)), (512, range(3 if tier == 'quick' else 8)), (10240, range(2))):
                    # one case = the archives for all failing indices of this (format, block size), one after the other
                    ops = []
                    for k in ks:
                        sc = ['A'] * k + [rng.choice(['e', 'e', 'z'])]
                        ops += ['new', f'fmt {fmt}', f'bpb {bpb}', 'script ' + ' '.join(sc), 'open'] + small_entries(fmt) + ['close', 'free']
                    yield Case(f'sweep-{fmt}-{bpb}', ops, {'fmt': fmt, 'bpb': bpb, 'bil': -1, 'kind': 'monitor', 'filter': '-'})
                # memory sink of every size below the needed one (pass-through blocks: every output call reaches memory_write)
                sizes = [0, 1, 2, 7, 25, 26, 27, 59, 60, 61, 75, 76, 77, 109, 110, 111, 130, 300, 511, 512, 513, 700, 1023, 1024, 1025, 1500, 2048]
                picked = rng.sample(sizes, 9) if tier == 'quick' else list(range(0, 2600, 17)) + sizes
                if fmt in ('raw', 'ustar'):
                    for sz in picked:
                        ops = ['new', f'fmt {fmt}', f'bpb {rng.choice([0, 0, 1, 512])}', f'openmem {sz} {sz}'] + small_entries(fmt) + ['close', 'free']
                        yield Case(f'sweepmem-{fmt}-{sz}', ops, {'fmt': fmt, 'bpb': 0, 'bil': 1, 'kind': 'monitor-mem', 'filter': '-'})
                else:
                    for part in range(0, len(picked), 40):
                        ops = []
                        for sz in picked[part:part + 40]:
                            ops += ['new', f'fmt {fmt}', f'bpb {rng.choice([0, 0, 1, 512])}', f'openmem {sz} {sz}'] + small_entries(fmt) + ['close', 'free']
                        yield Case(f'sweepmem-{fmt}-{part}', ops, {'fmt': fmt, 'bpb': 0, 'bil': 1, 'kind': 'monitor-mem', 'filter': '-'})
            for fmt in FMTS_MONITOR:
                for k in range(kmax):
                    sc = ['A'] * k + ['e']
                    ops = ['new', f'fmt {fmt}', 'bpb 512' if k % 2 else 'bpb 0', 'script ' + ' '.join(sc), 'open', plain_header('dir/file.o', 3000), 'fill 3000 1', 'finish',
                           plain_header('dir/g.o', 70000), 'fill 70000 2', 'close', 'free']
                    yield Case(f'mon-{fmt}-{k}', ops, {'fmt': fmt, 'bpb': 512, 'bil': -1, 'kind': 'monitor', 'filter': '-'})
            for flt in FILTERS_MONITOR:
                # incompressible data so that the filter hands blocks down all along the entry; the failing
                # invocation index spread over the whole output
                idx = sorted(set([0, 1, 2, 3, 128, 129] + [rng.randrange(4, 230) for _ in range(2 if tier == 'quick' else 40)]))
                for k in idx:
                    sc = ['A'] * k + ['e']
                    ops = ['new', 'fmt ustar', f'filter {flt}', 'bpb 512', 'script ' + ' '.join(sc), 'open', plain_header('f', 120000), 'rand 80000 ' + str(rng.randrange(1000)), 'rand 40000 7', 'finish', 'close', 'free']
                    yield Case(f'mon-{flt}-r{k}', ops, {'fmt': 'ustar', 'bpb': 512, 'bil': -1, 'kind': 'monitor', 'filter': flt})
                # compressible data: (nearly) all output is produced while the filter is being closed
                for k in range(min(kmax, 5)):
                    sc = ['A'] * k + [rng.choice(['e', 'z'])]
                    ops = ['new', 'fmt ustar', f'filter {flt}', 'bpb 512', 'script ' + ' '.join(sc), 'open', plain_header('f', 300000), 'fill 300000 1', 'finish', 'close', 'free']
                    yield Case(f'mon-{flt}-{k}', ops, {'fmt': 'ustar', 'bpb': 512, 'bil': -1, 'kind': 'monitor', 'filter': flt})

    def ending(self, rng):
        r = rng.random()
        if r < 0.6:
            return ['close', 'free']
        if r < 0.75:
            return ['finish', 'close', 'free']
        if r < 0.9:
            return ['free']
        return ['close', 'close', 'free']

    # -- property predicate on the implementation's own output ---------------
    def oracle(self, case, impl):
        sizes = []
        anybad = False
        seen_fatal = False
        for op, o in zip(case.ops, impl):
            if op == 'new':
                seen_fatal = False
            if 'VIOLATED' in o:
                return o
            if o == 'leaks=1':
                return f'memory leaked after close/free (fmt={case.meta.get("fmt")} filter={case.meta.get("filter")})'
            if 'stream=BAD' in o:
                return 'the bytes accepted by the write callback are not a prefix of (data written ++ zero padding): ' + op[:60]
            if 'file=BAD' in o:
                return 'the file behind the fd/filename/FILE sink does not hold the bytes the system call accepted'
            if 'TAIL-CLOBBERED' in o:
                return 'memory sink: bytes stored at or beyond *used: ' + op
            m = re.match(r'(\w+) (\S+) ev=(\d+) sz=(\S+) h=\d+ bad=(\d)', o)
            if not m:
                continue
            st = m.group(2)
            if m.group(5) == '1':
                anybad = True
                # archive_write_free on a handle that is already FATAL closes the filters but deliberately drops
                # the status of that close; the failure that made the handle FATAL was reported by its own call
                if st not in ('fatal', 'failed') and not (m.group(1) == 'free' and seen_fatal):
                    return f'a write callback invocation failed during "{op.split()[0]}" but the call returned {st}'
            if st == 'fatal':
                seen_fatal = True
            if m.group(4) != '-':
                for part in m.group(4).split(','):
                    s, c = part.split('*')
                    sizes += [int(s)] * int(c) if int(c) < 100000 else []
        mt = derive(case.ops, impl)
        statuses = [o.split()[1] for o in impl if re.match(r'(open|header|data|finish|close|free) ', o)]
        failed = any(s in ('fatal', 'failed') for s in statuses)
        if mt['mem'] is not None and mt['need'] is not None and mt['ended'] and mt['kind'] != 'multi':
            # every buffer size from 0 to the needed size: too small is an error, large enough is not
            if mt['mem'] >= mt['need'] and failed:
                return f'memory sink: a buffer of {mt["mem"]} bytes (needed: {mt["need"]}) was reported exhausted'
            if mt['mem'] < mt['need'] and not failed:
                return f'memory sink: a buffer of {mt["mem"]} bytes (needed: {mt["need"]}) was not reported exhausted'
        if mt['kind'] == 'all' and mt['filter'] == '-' and mt['fmt'] == 'raw' and mt['ended'] and not anybad and not failed and mt['mem'] is None:
            # the last-block rule, evaluated independently (archive_write_client_close)
            bpb, bil, total = mt['bpb'], mt['bil'], mt['total']
            r = total % bpb if bpb else 0
            if r == 0:
                want = total
            else:
                target = bpb if bil <= 0 else min(bpb, bil * ((r + bil - 1) // bil))
                want = total - r + max(r, target)
            if mt['acc'] is not None and mt['acc'] != want:
                return f'last block: {total} bytes written with bytes_per_block={bpb} bytes_in_last_block={bil} produced {mt["acc"]} bytes of output, the rule prescribes {want}'
        if mt['kind'] == 'all' and mt['filter'] == '-' and mt['bpb'] > 0 and not anybad and mt['ended'] and not failed and mt['fmt'] in ('raw', 'ustar'):
            if any(s != mt['bpb'] for s in sizes[:-1]):
                return f'blocking: an offer other than the last is not bytes_per_block={mt["bpb"]} bytes: {sizes[:12]}'
        return None

    def nontrivial(self, case, impl):
        return any(re.search(r' ev=[1-9]', o) for o in impl)

    def stats(self, cases, impl):
        st = {'fmt': {}, 'kind': {}, 'filter': {}, 'bpb': {}, 'bil': {}, 'status': {}, 'bad_calls': 0, 'callback_invocations': 0,
              'fatal_after_bad': 0, 'mem_cases': 0, 'sink_syscalls': 0, 'sink_short_writes': 0, 'sink_eintr': 0}
        for c, im in zip(cases, impl):
            for k in ('fmt', 'kind', 'filter', 'bpb', 'bil'):
                v = str(c.meta.get(k)); st[k][v] = st[k].get(v, 0) + 1
            if c.meta.get('kind') == 'mem':
                st['mem_cases'] += 1
            last = [o for o in im if ' sys=' in o]
            if last:
                m = re.search(r' sys=(\d+) short=(\d+) eintr=(\d+)', last[-1])
                st['sink_syscalls'] += int(m.group(1)); st['sink_short_writes'] += int(m.group(2)); st['sink_eintr'] += int(m.group(3))
            for o in im:
                m = re.match(r'(\w+) (\S+) ev=(\d+) .* bad=(\d)', o)
                if m:
                    key = m.group(1) + ':' + (m.group(2) if not m.group(2).isdigit() else 'n')
                    st['status'][key] = st['status'].get(key, 0) + 1
                    st['callback_invocations'] += int(m.group(3))
                    if m.group(4) == '1':
                        st['bad_calls'] += 1
                        if m.group(2) == 'fatal':
                            st['fatal_after_bad'] += 1
        return st


# ---------------------------------------------------------------------------
# Engine `det` (C11): the same harness, run twice under different heap and stack poison.

ALL_FORMATS = ['ustar', 'pax', 'paxr', 'gnutar', 'v7tar', 'odc', 'newc', 'bin', 'pwb', 'zip', '7zip', 'xar', 'iso9660',
               'arbsd', 'arsvr4', 'mtree', 'mtree-classic', 'warc', 'shar', 'shardump', 'raw']
DET_FILTERS = ['-', 'gzip', 'bzip2', 'xz', 'lzma', 'lzip', 'zstd', 'lz4', 'compress', 'b64', 'uu']
LEVELS = [str(i) for i in range(10)]
# which writer source file serves which format / filter names of the harness
FORMAT_FILES = {'zip': ['zip'], '7zip': ['7zip'], 'xar': ['xar'], 'iso9660': ['iso9660'], 'mtree': ['mtree', 'mtree-classic'], 'pax': ['pax', 'paxr'],
                'ustar': ['ustar'], 'v7tar': ['v7tar'], 'gnutar': ['gnutar'], 'cpio_odc': ['odc'], 'cpio_newc': ['newc'], 'cpio_binary': ['bin', 'pwb'],
                'warc': ['warc'], 'shar': ['shar', 'shardump'], 'ar': ['arbsd', 'arsvr4'], 'raw': ['raw']}
FILTER_FILES = {'gzip': ['gzip'], 'bzip2': ['bzip2'], 'xz': ['xz', 'lzma', 'lzip'], 'zstd': ['zstd'], 'lz4': ['lz4'], 'compress': ['compress'],
                'b64encode': ['b64'], 'uuencode': ['uu']}
# values to try for keys whose values are not string literals in the source
KEY_VALUES = {'threads': ['1', '2'], 'hdrcharset': ['UTF-8', 'ISO-8859-1', 'BINARY'], 'block-size': ['4', '5', '6', '7'], 'iso-level': ['1', '2', '3', '4'],
              'mode': ['644', '755'], 'name': ['some.name'], 'boot': ['boot.img'], 'boot-load-seg': ['1984'], 'boot-load-size': ['4'], 'boot-catalog': ['boot.cat'],
              'long': ['27'], 'creation': ['1700000000']}


def scan_options(path):
    """{key: [values]} a writer's options function accepts: every `strcmp(key, "k")` and the string literals
    the value is compared with before the next key."""
    text = re.sub(r'/\*.*?\*/', '', open(path, errors='replace').read(), flags=re.S)
    keys = [(m.start(), m.group(1)) for m in re.finditer(r'strcmp\(key,\s*"([^"]+)"\)', text)]
    out = {}
    for n, (pos, k) in enumerate(keys):
        end = keys[n + 1][0] if n + 1 < len(keys) else min(len(text), pos + 6000)
        vals = re.findall(r'str(?:case)?cmp\((?:value|val|v),\s*"([^"]*)"\)', text[pos:end])
        out.setdefault(k, [])
        for v in vals:
            if v.lower() not in [x.lower() for x in out[k]]:
                out[k].append(v)
    return out


def option_strings(opts):
    """Every value of every option: literals from the source; levels 0..9; a table for the few free-form keys;
    bare / negated / =1 / =x for anything else (so that a key added to a writer is exercised without editing this file)."""
    out = []
    for k, vals in opts.items():
        vs = list(vals)
        if 'level' in k:
            vs += LEVELS
        vs += KEY_VALUES.get(k, [])
        if 'frame' in k:
            vs += ['1024', '65536']
        forms = [f'{k}={v}' for v in vs]
        if not vs or k in ('joliet', 'rockridge', 'Rockridge', 'zisofs', 'pad', 'timestamp', 'zip64', 'omit-warcinfo'):
            forms += [k, '!' + k]
        if not vs:
            forms += [f'{k}=x.y']
        if k.startswith('boot-'):
            forms = ['boot=boot.img,' + f for f in forms]
        out += forms
    return out


def writer_option_tables():
    import os
    from lib import core
    fopts, lopts = {}, {}
    for stem, names in FORMAT_FILES.items():
        p = os.path.join(core.REPO, 'libarchive', f'archive_write_set_format_{stem}.c')
        if os.path.exists(p):
            o = option_strings(scan_options(p))
            for nm in names:
                fopts[nm] = o
    for stem, names in FILTER_FILES.items():
        p = os.path.join(core.REPO, 'libarchive', f'archive_write_add_filter_{stem}.c')
        if os.path.exists(p):
            o = option_strings(scan_options(p))
            for nm in names:
                lopts[nm] = o
    # combinations the single-option enumeration cannot reach
    fopts.setdefault('zip', [])
    fopts['zip'] = fopts['zip'] + ['encryption=aes256,compression=store', 'encryption=aes128,compression=deflate', 'encryption=zipcrypt,compression=store']
    return fopts, lopts


POISONS = [(0x11, 0x22), (0xEE, 0xDD)]
SHAPES = ['mixed', 'tiny', 'longnames', 'special']


class Det(Cw):
    name = 'det'

    def __init__(self, nbase=40):
        Cw.__init__(self, nbase=nbase, monitor=False, mem=False)

    def stats(self, cases, impl):
        st = Cw.stats(self, cases, impl)
        st['opts'] = {}; st['shape'] = {}
        for c in cases:
            for o in (c.meta.get('opts') or '-').split(','):
                k = o.split('=')[0]; st['opts'][k] = st['opts'].get(k, 0) + 1
            s = str(c.meta.get('shape')); st['shape'][s] = st['shape'].get(s, 0) + 1
        return st

    def build(self):
        # eng_det.c is a one-line #include of eng_cw.c: rebuild when that changes
        import os
        from lib import core
        a, b = os.path.join(core.HARNESS, 'eng_det.c'), os.path.join(core.HARNESS, 'eng_cw.c')
        if os.path.getmtime(b) > os.path.getmtime(a):
            os.utime(a)
        return Engine.build(self)

    def entries(self, rng, fmt, shape):
        """Entry sequences: ordinary, tiny/empty bodies, names that need extension headers or string
        tables, special files — each format gets what it can represent, the rest is refused."""
        if fmt == 'raw':
            return [plain_header('only', 0), f'fill {rng.choice([0, 1, 19, 700, 5000]) if shape != "tiny" else rng.choice([1, 5, 19])} {rng.randrange(256)}']
        if fmt in ('arbsd', 'arsvr4'):
            long1, long2 = 'longer_name_than_sixteen.o', 'another_quite_long_member_name.o'
            ops = []
            if fmt == 'arsvr4' and shape != 'tiny':
                # GNU/SVR4: the symbol table "/" and the string table "//" come first
                tab = (long1 + '/\n' + long2 + '/\n').encode()
                ops += [plain_header('/', 4), 'data 00000000', plain_header('//', len(tab)), 'data ' + hexs(tab)]
            ops += [plain_header('a.o', 5), 'fill 5 1', plain_header('exactly15chars.o', 1), 'fill 1 2']
            if shape != 'tiny':
                ops += [plain_header(long1, 3), 'fill 3 7', plain_header(long2, 0)]
            ops += [plain_header('b.o', 0), plain_header('odd.o', 7), 'fill 7 9']
            return ops
        if fmt == 'iso9660':
            return [plain_header('boot.img', 2048), 'fill 2048 9'] + self.entries(rng, 'ustar', shape)
        if shape == 'tiny':
            ops = []
            for n, sz in enumerate([0, 1, 5, 19, 20, 21]):
                ops += [plain_header(f't{n}', sz)] + ([f'fill {sz} {rng.randrange(256)}'] if sz else []) + (['finish'] if n % 2 else [])
            return ops
        if shape == 'longnames':
            ops = []
            for ln in (16, 99, 100, 101, 155, 156, 255, 300):
                name = ('d' * 40 + '/') * (ln // 60) + 'n' * (ln % 60 + 1)
                ops += [plain_header(name, 3), 'fill 3 1']
            ops += [header(rng, 'lnk', 0, 'l' * 120), header(rng, 'hard', 0, 'h' * 101)]
            return ops
        if shape == 'special':
            return [header(rng, 'dir', 0, 'dev'), header(rng, 'chr', 0, 'dev/c'), header(rng, 'blk', 0, 'dev/b'), header(rng, 'fifo', 0, 'dev/f'),
                    header(rng, 'sock', 0, 'dev/s'), header(rng, 'lnk', 0, 'dev/l'), plain_header('dev/reg', 10), 'fill 10 3']
        ops = [header(rng, 'dir', 0, 'dir'), plain_header('dir/file.txt', 3001), 'fill 3001 7', 'finish']
        if fmt != 'warc':
            ops += [header(rng, 'lnk', 0, 'dir/link'), header(rng, 'hard', 0, 'dir/hard')]
        ops += [plain_header('dir/' + 'n' * rng.choice([5, 90, 120]), 513), f'fill 500 {rng.randrange(256)}', 'fill 13 1', plain_header('dir/empty', 0)]
        return ops

    def scenario(self, rng, fmt, flt, opts, bpb, bil, shape):
        ops = ['new', f'fmt {fmt}'] + ([f'filter {flt}'] if flt != '-' else []) + [f'opt {o}' for o in opts]
        if any('encryption' in o for o in opts):
            ops.append('pass ' + hexs(b'secret'))
        ops += [f'bpb {bpb}', f'bil {bil}', 'script', 'open'] + self.entries(rng, fmt, shape)
        return ops + ['close', 'free']

    def gen0(self, rng, tier):
        reps = 1 if tier == 'quick' else 4
        def case(label, fmt, flt, opts, shape):
            bpb, bil = rng.choice([512, 10240, 0, 7] if fmt in ('raw', 'ustar') else [512, 10240, 0]), rng.choice([-1, 0, 1, 512])
            return Case(label, self.scenario(rng, fmt, flt, opts, bpb, bil, shape),
                        {'fmt': fmt, 'filter': flt, 'bpb': bpb, 'bil': bil, 'kind': 'det', 'opts': ','.join(opts), 'shape': shape})
        for r in range(reps):
            # A. every format x every entry shape (no options, no filter)
            for fmt in ALL_FORMATS:
                for shape in SHAPES:
                    yield case(f'det-{fmt}-{shape}-{r}', fmt, '-', [], shape)
            # B. every format x every value of every option its writer accepts (scanned from the source): one case per
            #    value; entry shapes rotate with the seed (every shape holds a non-empty regular file; encryption
            #    always meets tiny and ordinary bodies)
            fopts, lopts = writer_option_tables()
            for fmt in ALL_FORMATS:
                pool = fopts.get(fmt, [])
                if fmt in ('mtree-classic', 'paxr', 'pwb', 'shardump'):
                    # second name served by the same writer source: a rotating quarter of its options
                    off = rng.randrange(4); pool = pool[off::4]
                for n, o in enumerate(pool):
                    shapes = ['tiny', 'mixed'] if 'encryption' in o else [SHAPES[(n + r + rng.randrange(4)) % 4]]
                    for shape in shapes:
                        yield case(f'det-{fmt}-{o}-{shape}-{r}', fmt, '-', o.split(','), shape)
            # C. every filter x every value of every option, over a rotating container format; plus every filter bare
            for flt in DET_FILTERS[1:]:
                for n, o in enumerate([None] + lopts.get(flt, [])):
                    fmt = ['ustar', 'newc', 'raw', 'zip', 'pax'][(n + r) % 5]
                    yield case(f'det-{fmt}-{flt}-{o}-{r}', fmt, flt, [o] if o else [], rng.choice(['mixed', 'tiny']))
            # D. two options at once
            for _ in range(10 if tier == 'quick' else 60):
                fmt = rng.choice([f for f in ALL_FORMATS if fopts.get(f)])
                flt = rng.choice(DET_FILTERS)
                opts = rng.sample(fopts[fmt], min(2, len(fopts[fmt]))) + ([rng.choice(lopts[flt])] if lopts.get(flt) else [])
                yield case(f'det-combo-{fmt}-{flt}', fmt, flt, [x for o in opts for x in o.split(',')], rng.choice(SHAPES))
        # F. the last-block grid: padding bytes come from the malloc'ed block buffer unless they are stored
        for c in lastblk_cases(rng, tier, both=False):
            yield c
        # E. the modelled layer with a short-writing callback: partial last blocks, buffer reuse
        for i in range(self.nbase if tier == 'quick' else self.nbase * 30):
            bpb, bil = rng.choice([3, 7, 512, 10240]), rng.choice(BILS + [3])
            ops = ['new', f'fmt {rng.choice(["raw", "ustar"])}', f'bpb {bpb}', f'bil {bil}', 'script ' + ' '.join(rand_script(rng, 'short', 10)), 'open',
                   plain_header('f', 1300)]
            for k in chunk(rng, 1300, 'rand'):
                ops.append(f'fill {k} {rng.randrange(256)}')
            ops += ['close', 'free']
            yield Case(f'det-blk{i}', ops, {'fmt': ops[1].split()[1], 'filter': '-', 'bpb': bpb, 'bil': bil, 'kind': 'short'})

    def run_impl(self, exe, cases):
        runs = []
        err = ''
        for heap, stack in POISONS:
            self.env = {'ASAN_OPTIONS': f'detect_leaks=1:abort_on_error=0:exitcode=99:allocator_may_return_null=1:malloc_fill_byte={heap}:max_malloc_fill_size=1073741824',
                        'VERIF_STACK_POISON': str(stack)}
            out, e = Engine.run_impl(self, exe, cases)
            runs.append(out); err += e[-2000:]
        merged = []
        for a, b in zip(*runs):
            lines = []
            for i in range(max(len(a), len(b))):
                x = a[i] if i < len(a) else '<missing>'
                y = b[i] if i < len(b) else '<missing>'
                lines.append(x if x == y else f'NONDET a=[{x}] b=[{y}]')
            merged.append(lines)
        return merged, err

    def oracle(self, case, impl):
        for op, o in zip(case.ops, impl):
            if o.startswith('NONDET') or 'VIOLATED' in o:
                return f'writer output differs between two runs with different heap/stack poison at "{op.split()[0]}" (fmt={case.meta.get("fmt")} filter={case.meta.get("filter")}): {o[:200]}'
        return Cw.oracle(self, case, impl)

    def nontrivial(self, case, impl):
        return any(re.search(r'acc=[1-9]', o) for o in impl)
