"""C10 — metadata a format cannot hold is reported, never silently altered."""
from props._codec import Codec

PROP = 'C10'
PROPS_MODULES = ['LA.Props.C10']
GEN = ['TarLayout', 'CpioLayout', 'ArLayout', 'CodecConsts']
ASSUMPTIONS = [
    'strings are C strings of bytes; string conversion is the identity (default hdrcharset, C.UTF-8 locale): the '
    'ARCHIVE_WARN branches for untranslatable names of the ustar/cpio writers are not modelled',
    'entries reach the writers through the archive_entry setters, which replace negative uid/gid/size/ino by 0 (so "negative" '
    'in the quantifier is reachable for mtime and, as wrap-around, for device numbers only)',
    'an entry names at most one kind of link (hardlink or symlink); malloc never fails',
    'declared sizes above 64 KiB are driven header-only (no body, no close) and, for the writers that spool to a temporary '
    'file (7zip, xar, iso9660, zip, mtree), not at all',
    'shar and raw are writable formats without a reader: not round-tripped',
]
TRUSTED = [
    'spec-level description (representable / norm in lean/LA/Model/FmtSpec.lean) of pax, gnutar, v7tar, cpio bin/pwb, ar, zip, '
    '7zip, xar, iso9660, mtree, warc: a specification written from the format documentation and probing, checked against the '
    'real writers/readers by the engine (differential against the spec, not a proof of those codecs)',
    'the Lean predicate engines codec.c10 / codec.c02 that evaluate the property on the implementation output',
    'sanitizer coverage: the bulk of the round trips runs on a plain build (engine codecp), a sample and all direct formatter '
    'calls on the ASan/UBSan build (engine codec)',
]
MANIFEST = {
    'text': 'Lean theorems over byte-exact models of the numeric formatters (ustar/v7tar/gnutar format_octal, format_number, '
            'format_256; cpio odc format_octal; newc format_hex; ar format_octal/decimal; binary cpio stores) and of the ustar, '
            'cpio-odc and cpio-newc header writers with the matching readers (tar_atol*, checksum, header_common/header_ustar, '
            'cpio atol8/atol16): overflow indication <=> value out of range, exact field width and saturation, reader round trips '
            '(incl. base-256 negatives), and for the three header writers "ARCHIVE_OK => the bytes decode to the entry on every '
            'field the format carries" (ok_implies_exact_{ustar,odc,newc}), refused entries leave the archive readable '
            '(refused_keeps_archive_readable_ustar). Full-strength statements that the unchanged code violates are kept as Props '
            'with a proved negation witness and a _partial theorem. Tie: header layouts and templates extracted from the C on '
            'every run; the codec engine runs model and real writer/reader on the same entries (bytes, statuses, read-back) for '
            'ustar/odc/newc, and for all 17 readable writable formats evaluates the property predicate (status OK => read-back '
            'equals norm) on the real write->read, with every numeric field at max, max+1, 2^31, 2^32, 2^56, 2^62, 2^63-1, '
            'negative, every string field at limit and limit+1 and with invalid UTF-8, every file type, missing mandatory fields. '
            'Refusal sequences: for every format and every kind of entry some writer refuses (no / empty pathname, no type, each '
            'special type, names of 16..1100 bytes, trailing slash, 300-byte component, invalid UTF-8, "..", out-of-range ids, '
            'times, inode, link count, device, long link targets, no size) the sequence accepted odd-sized member, candidate, '
            'accepted member (, candidate, accepted member) must read back as exactly the accepted entries. The optional metadata '
            '(atime/ctime/birth time, sparse map, ACLs, xattrs) is compared on the formats that carry it.',
    'note': 'partial: proof for formatters and the ustar / cpio odc / cpio newc headers; spec-level differential for the other '
            'formats. Seven writer defects were repaired in /repo (cpio odc/newc overflow reporting, ar and warc refused-entry '
            'state, gnutar orphan long-name header x2, xar short-body loop; later: pax entry-name buffer, zip empty pathname, tar reader '
            'mode bits under pax ACLs, pax atime/ctime of 0, xar reader endless loop); 32 further deviations are recorded in '
            'known_findings.json and reported as KNOWN-FINDING.',
    'technique': 'Lean 4 proof (field-table lemma for disjoint header fields, digit-loop inductions, omega) + extraction of '
                 'layouts + model/C differential correspondence + Lean-evaluated property predicate on the C output',
}
ENGINES = [Codec('c10'), Codec('c10', bulk=True)]
