"""C10 — metadata a format cannot hold is reported, never silently altered."""
from props._codec import Codec

PROP = 'C10'
PROPS_MODULES = ['LA.Props.C10']
GEN = ['TarLayout', 'CpioLayout', 'ArLayout']
ASSUMPTIONS = []
TRUSTED = []
MANIFEST = {'text': 'wip', 'note': '', 'technique': 'Lean 4 proof + differential correspondence'}
ENGINES = [Codec('c10'), Codec('c10', bulk=True)]
