"""C18 — character-set conversion of names is correct and bounded."""
from lib.core import Engine, Case, split_cases, OUT, LEAN, BuildError
from lib import extract
from concurrent.futures import ThreadPoolExecutor
import os, re, subprocess, tempfile

PROP = 'C18'
PROPS_MODULES = ['LA.Props.C18']
GEN = ['Utf8Table']
ASSUMPTIONS = [
    'malloc/realloc never fail and sizes stay below 2^64 (archive_string_ensure failure paths are not driven)',
    'bytes are 8-bit; wchar_t is 32-bit UCS-4 (glibc); the locale is C.UTF-8',
    'libc mbrtowc/wcrtomb in C.UTF-8 accept exactly well-formed UTF-8 / Unicode scalar values (used only by the '
    'archive_mstring view ops of the differential engine, not by any theorem)',
    'iconv tables (CP932, KOI8-R, ISO-8859-x, CP437, CP866) are not modelled: round-trip differential TESTS only',
    'NFC/NFD composition tables (archive_string_normalize_C/D) are not modelled; from_charset(UTF-8/UTF-16) is '
    'compared with the plain transcoding only on input without code points from IS_DECOMPOSABLE_BLOCK',
]
TRUSTED = [
    'Model/Unicode.lean writes the C bit operations as div/mod arithmetic (b & 0xc0 == 0x80 as b / 64 = 2, ...); '
    'the tie to the C is the differential engine `uni` (all 1.1 M code points and all byte strings up to length 3 '
    'exhaustively in the thorough tier)',
]
MANIFEST = {
    'text': 'Lean theorems over an exact model of the hand-written codecs of archive_string.c (_utf8_to_unicode, '
            'utf8_to_unicode, cesu8_to_unicode, unicode_to_utf8, utf16_to_unicode BE/LE, unicode_to_utf16be/le, '
            'strncat_from_utf8_to_utf8, archive_string_append_unicode with explicit buffer capacity and '
            'archive_string_ensure growth, best_effort_strncat_to/from_utf16): decode(encode c) = c for every scalar; '
            'a decoder succeeds only on the canonical encoding of a scalar (no overlong form, no surrogate, nothing '
            'above U+10FFFF); every non-final return consumes between 1 and n bytes and never reads past n; CESU-8 '
            'pairs; UTF-8 -> UTF-8 canonicalises; every store of archive_string_append_unicode is below buffer_length '
            'for every input, every flag word and every initial buffer, incl. the one or two terminating NULs; '
            'UTF-8 <-> UTF-16 round trip for all sequences of scalars.  The model is tied to the C by the differential '
            'engine `uni` which includes archive_string.c into the harness and drives every static codec, the public '
            'conversion objects and the archive_mstring views under ASan/UBSan with exact-size blocks, incl. a systematic '
            'family of inputs whose output lands within 4 bytes of every archive_string growth size from 32 bytes to 76 KB, '
            'for every conversion direction, into empty and pre-filled destinations.',
    'note': 'Trusted: Lean kernel; extractor (utf8_count, limits, surrogate bounds, SCONV bits); correspondence harness. '
            'Partial: iconv-backed charsets and NFC/NFD tables are exercised only by round-trip tests; names through '
            'pax/zip/7zip/Joliet belong to the codec engine of C02. malloc failure not driven.',
    'technique': 'Lean 4 proof (case split on encoding length, div/mod arithmetic by omega, induction over scalar lists, '
                 'buffer invariant) + model/C differential correspondence with in-process exhaustive enumeration',
}

MAXU = 0x10FFFF


def enc8(c):
    """unicode_to_utf8 without the > UNICODE_MAX clamp: also the 3-byte form of a surrogate."""
    if c <= 0x7f:
        return bytes([c])
    if c <= 0x7ff:
        return bytes([0xc0 | c >> 6, 0x80 | c & 0x3f])
    if c <= 0xffff:
        return bytes([0xe0 | c >> 12, 0x80 | c >> 6 & 0x3f, 0x80 | c & 0x3f])
    return bytes([0xf0 | c >> 18 & 7, 0x80 | c >> 12 & 0x3f, 0x80 | c >> 6 & 0x3f, 0x80 | c & 0x3f])


def enc16(c, be):
    def u(v):
        return bytes([v >> 8, v & 255]) if be else bytes([v & 255, v >> 8])
    if c > 0xffff:
        c -= 0x10000
        return u(0xD800 + (c >> 10)) + u(0xDC00 + (c & 0x3ff))
    return u(c)


def overlong(c, k):
    """c written with k bytes (k larger than needed)."""
    if k == 2:
        return bytes([0xc0 | c >> 6, 0x80 | c & 0x3f])
    if k == 3:
        return bytes([0xe0 | c >> 12, 0x80 | c >> 6 & 0x3f, 0x80 | c & 0x3f])
    return bytes([0xf0 | c >> 18, 0x80 | c >> 12 & 0x3f, 0x80 | c >> 6 & 0x3f, 0x80 | c & 0x3f])


def is_scalar(c):
    return 0 <= c <= MAXU and not 0xD800 <= c <= 0xDFFF


BORDERS = [1, 0x41, 0x7e, 0x7f, 0x80, 0x81, 0xff, 0x100, 0x7fe, 0x7ff, 0x800, 0x801, 0xfff, 0x1000, 0xd7fe, 0xd7ff, 0xe000, 0xe001,
           0xfdd0, 0xfdef, 0xfffc, 0xfffd, 0xfffe, 0xffff, 0x10000, 0x10001, 0x1f600, 0x1fffe, 0x1ffff, 0x2ffff, 0xeffff,
           0xfffff, 0x100000, 0x10fffe, 0x10ffff]
SURR = [0xd800, 0xd801, 0xdbfe, 0xdbff, 0xdc00, 0xdc01, 0xdffe, 0xdfff]
BEYOND = [0x110000, 0x110001, 0x1fffff, 0x200000, 0x3ffffff, 0x7fffffff, 0xffffffff, 0x120000]
COMBINING = [0x300, 0x301, 0x308, 0x327, 0x1161, 0x11a8, 0x3099, 0x1100, 0xac00]
ALPHA = bytes.fromhex('00417f80 8f909fa0 bfc0c1c2 dfe0e1ec edeeeff0 f1f3f4f5 f7f8fbfc fdfeff01'.replace(' ', ''))


class Dom:
    """Code points on which archive_string_normalize_C is the identity transcoding."""
    blocks = None

    @classmethod
    def safe(cls, c):
        if cls.blocks is None:
            cls.blocks = extract.decomposable_blocks()
        b = c >> 8
        return not (b < len(cls.blocks) and cls.blocks[b])


def scalar(rng):
    r = rng.random()
    if r < 0.25:
        return rng.choice(BORDERS)
    if r < 0.4:
        return rng.randrange(1, 0x80)
    if r < 0.55:
        return rng.randrange(0x80, 0x800)
    if r < 0.8:
        c = rng.randrange(0x800, 0x10000)
        return c if is_scalar(c) else 0xe000 + (c & 0xff)
    return rng.randrange(0x10000, MAXU + 1)


def safe_scalar(rng):
    for _ in range(100):
        c = scalar(rng)
        if Dom.safe(c):
            return c
    return 0x41


def bad_piece(rng):
    """One malformed UTF-8 fragment."""
    k = rng.randrange(14)
    c = scalar(rng)
    if k == 0:
        return overlong(rng.choice([0, 1, 0x2f, 0x7f]), rng.choice([2, 3, 4]))
    if k == 1:
        return overlong(rng.choice([0x80, 0x7ff, 0x100]), rng.choice([3, 4]))
    if k == 2:
        return overlong(rng.choice([0x800, 0xffff, 0xd800, 0xfffd]), 4)
    if k == 3:
        return enc8(rng.choice(SURR))
    if k == 4:
        return enc8(rng.randrange(0xd800, 0xdc00)) + enc8(rng.randrange(0xdc00, 0xe000))      # CESU-8 pair
    if k == 5:
        return enc8(rng.randrange(0xd800, 0xdc00)) + rng.choice([enc8(scalar(rng)), b'\xff', enc8(rng.randrange(0xd800, 0xdc00)), b'\x80', b''])
    if k == 6:
        return enc8(rng.randrange(0xdc00, 0xe000)) + enc8(rng.randrange(0xd800, 0xdc00))      # wrong order
    if k == 7:
        e = enc8(c)
        return e[:rng.randrange(1, len(e))] if len(e) > 1 else b'\x80'                      # truncated
    if k == 8:
        return bytes([rng.choice([0xf4, 0xf5, 0xf7]), rng.choice([0x90, 0x8f, 0xbf, 0x80]), 0x80, rng.choice([0x80, 0xbf])])  # around U+10FFFF
    if k == 9:
        return bytes([rng.choice([0xf8, 0xfb, 0xfc, 0xfd, 0xfe, 0xff])]) + bytes(rng.choice([0x80, 0xbf, 0x41]) for _ in range(rng.randrange(0, 6)))
    if k == 10:
        return bytes([rng.choice([0x80, 0xbf, 0xc0, 0xc1])]) + bytes(rng.choice([0x80, 0xbf]) for _ in range(rng.randrange(0, 3)))
    if k == 11:
        e = bytearray(enc8(c)); i = rng.randrange(len(e)); e[i] = rng.choice(ALPHA); return bytes(e)
    if k == 12:
        return bytes(rng.choice(ALPHA) for _ in range(rng.randrange(1, 7)))
    return bytes(rng.randrange(256) for _ in range(rng.randrange(1, 7)))


def utf8_string(rng, nvalid, nbad, safe=False, nul=False):
    parts = [enc8((safe_scalar if safe else scalar)(rng)) for _ in range(nvalid)] + [bad_piece(rng) for _ in range(nbad)]
    rng.shuffle(parts)
    s = b''.join(parts)
    if not nul:
        s = s.replace(b'\x00', b'\x01')
    return s


def utf16_string(rng, be, nvalid, nbad, safe=False, nul=False):
    parts = [enc16((safe_scalar if safe else scalar)(rng), be) for _ in range(nvalid)]
    for _ in range(nbad):
        k = rng.randrange(6)
        if k == 0:
            parts.append(enc16(rng.choice(SURR), be))                                        # lone surrogate unit
        elif k == 1:
            parts.append(enc16(rng.randrange(0xdc00, 0xe000), be) + enc16(rng.randrange(0xd800, 0xdc00), be))
        elif k == 2:
            parts.append(enc16(rng.randrange(0xd800, 0xdc00), be) + enc16(scalar(rng) & 0xffff | 1, be)[:2])
        elif k == 3:
            parts.append(enc16(rng.randrange(0xd800, 0xdc00), be) + bytes([rng.randrange(256)]))
        else:
            parts.append(bytes(rng.randrange(256) for _ in range(rng.randrange(1, 6))))
    rng.shuffle(parts)
    s = b''.join(parts)
    if nbad and rng.random() < 0.4:
        s += bytes([rng.randrange(1, 256)])                                                  # odd length
    if not nul:
        # no 16-bit zero unit on an even offset
        b = bytearray(s)
        for i in range(0, len(b) - 1, 2):
            if b[i] == 0 and b[i + 1] == 0:
                b[i + (0 if not be else 1)] = 0x41
        s = bytes(b)
    return s


def hx(b):
    return b.hex() if b else '-'


def unhx(s):
    return b'' if s == '-' else bytes.fromhex(s)


def pattern(n):
    return bytes(0x61 + i % 26 for i in range(n))


def unop(s):
    """Operand of the protocol: '-' | hex | '@N' (pattern bytes) | 'R<k>:<unit>:<tail>' (unit repeated k times + tail)."""
    if s.startswith('@'):
        return pattern(int(s[1:]))
    if s.startswith('R'):
        k, u, tl = s[1:].split(':')
        return unhx(u) * int(k) + unhx(tl)
    return unhx(s)


def growth_borders(limit=65536):
    """Buffer sizes archive_string_ensure steps through: 32, doubling below 8192, then +25 % (first one >= limit included)."""
    out, b = [], 32
    while True:
        out.append(b)
        if b >= limit:
            return out
        b = b + b if b < 8192 else b + b // 4


def be32(c):
    return c.to_bytes(4, 'big')


FLAG = {'to8': 1 << 8, 'from8': 1 << 9, 'to16be': 1 << 10, 'from16be': 1 << 11, 'to16le': 1 << 12, 'from16le': 1 << 13}
ICONV = {
    'KOI8-R': ('koi8_r', 'абвгдежзиклмнопрстуфхцчшщъыьэюяАБВЯЖ'),
    'CP866': ('cp866', 'абвгдежзийклмноПРСТУФ░▒▓│┤'),
    'CP437': ('cp437', 'éâäàåçêëèïîìÄÅÉæÆôöòûùÿÖÜ¢£¥αßΓπΣσµτΦΘΩδ∞φε∩≡±≥≤░▒▓│┤╡╢╖'),
    'ISO-8859-1': ('latin_1', 'àáâãäåæçèéêëìíîïðñòóôõö÷øùúûüýþÿ¡¢£¤¥¦§'),
    'ISO-8859-2': ('iso8859_2', 'ąłľśšşťźžżŕáâăäĺćçčéęëěíîďđńňóôőö'),
    'ISO-8859-5': ('iso8859_5', 'абвгдежзийклмнопрстуфхцчшщъыьэюяђѓєѕіїј'),
    'ISO-8859-7': ('iso8859_7', 'αβγδεζηθικλμνξοπρστυφχψωάέήίΰ'),
    'ISO-8859-15': ('iso8859_15', 'àáâãäåæçèéêë€ŠšŽžŒœŸ'),
    'CP932': ('cp932', 'あいうえおかきくけこアイウエオカキクケコ漢字日本語表示能力ｱｲｳｴｵ、。'),
}


def flag_of(fe, te):
    return FLAG['from' + fe] + FLAG['to' + te]


def combine_pairs(cps):
    out, i = [], 0
    while i < len(cps):
        if 0xD800 <= cps[i] <= 0xDBFF and i + 1 < len(cps) and 0xDC00 <= cps[i + 1] <= 0xDFFF:
            out.append(0x10000 + ((cps[i] - 0xD800) << 10) + (cps[i + 1] - 0xDC00)); i += 2
        else:
            out.append(cps[i]); i += 1
    return out


def strict8(b):
    try:
        return [ord(ch) for ch in b.decode('utf-8', 'strict')]
    except UnicodeDecodeError:
        return None


def strict16(b, be):
    try:
        return [ord(ch) for ch in b.decode('utf-16-be' if be else 'utf-16-le', 'strict')]
    except UnicodeDecodeError:
        return None


def cesu8(b):
    """code points of UTF-8 in which surrogate pairs may come as two 3-byte sequences; None if anything else is wrong."""
    try:
        cps = combine_pairs([ord(ch) for ch in b.decode('utf-8', 'surrogatepass')])
    except UnicodeDecodeError:
        return None
    return cps if all(is_scalar(c) for c in cps) else None


class Uni(Engine):
    name = 'uni'
    repo_deps = ('libarchive/archive_string.c', 'libarchive/archive_string_composition.h')
    timeout = 1500

    # ---- running: the harness forks one child per case and LSan scans the whole heap (all input
    # lines included) at each child's exit, so large runs go through several harness processes ----
    CHUNK = 250
    JOBS = 12

    def _chunks(self, cases):
        """round-robin groups (heavy cases sit together in the list), at most CHUNK cases per process"""
        g = max(self.JOBS, -(-len(cases) // self.CHUNK))
        return [cases[i::g] for i in range(g)]

    @staticmethod
    def _unchunk(parts, n):
        g = len(parts)
        out = [None] * n
        for i, part in enumerate(parts):
            for j, o in enumerate(part):
                out[i + j * g] = o
        return out

    WATCHDOG = re.compile(r'^!(crash|teardown) (signal=(14|27)|harness-timeout)')

    def run_impl(self, exe, cases):
        """A case the watchdog killed is run once more on its own before it is believed (the CPU-time watchdog does
        not fire under load, the wall-clock backstop could)."""
        out, err = self._run_impl_all(exe, cases)
        again = [i for i, o in enumerate(out) if any(self.WATCHDOG.match(l) for l in o)]
        for i in again[:6]:
            o2, e2 = super().run_impl(exe, [cases[i]])
            if not any(self.WATCHDOG.match(l) for l in o2[0]):
                out[i] = o2[0]
        return out, err

    def _run_impl_all(self, exe, cases):
        if len(cases) <= self.CHUNK:
            return super().run_impl(exe, cases)
        env = dict(os.environ)
        env.setdefault('ASAN_OPTIONS', 'detect_leaks=1:abort_on_error=0:exitcode=99:allocator_may_return_null=1')
        env.setdefault('UBSAN_OPTIONS', 'print_stacktrace=1:halt_on_error=1')
        env['LC_ALL'] = env['LANG'] = 'C.UTF-8'
        os.makedirs(OUT, exist_ok=True)

        def one(chunk):
            text = ''.join(f'#case {i}\n' + ''.join(o + '\n' for o in c.ops) for i, c in enumerate(chunk))
            with tempfile.TemporaryFile(mode='w+', dir=OUT) as eh:
                try:
                    r = subprocess.run([exe], input=text, stdout=subprocess.PIPE, stderr=eh, text=True, env=env,
                                       timeout=self.timeout, errors='replace')
                    so = r.stdout
                except subprocess.TimeoutExpired as te:
                    so = (te.stdout or b'').decode(errors='replace') if isinstance(te.stdout, bytes) else (te.stdout or '')
                res = split_cases(so, len(chunk))
                for c, o in zip(chunk, res):           # a harness process that died or hung: unanswered ops
                    o += ['!crash harness-timeout'] * (len(c.ops) - len(o))
                eh.seek(0)
                return res, eh.read()[-4000:]
        parts, errs = [], []
        with ThreadPoolExecutor(self.JOBS) as ex:
            for o, e in ex.map(one, self._chunks(cases)):
                parts.append(o)
                errs.append(e)
        return self._unchunk(parts, len(cases)), ''.join(errs)[-8000:]

    def run_model(self, cases, impl):
        if len(cases) <= self.CHUNK:
            return super().run_model(cases, impl)
        drv = os.path.join(LEAN, '.lake', 'build', 'bin', 'driver')

        def one(args):
            chunk, im = args
            lines = []
            for i, c in enumerate(chunk):
                lines.append(f'#case {i}')
                obs = im[i] if i < len(im) else []
                for j, o in enumerate(c.ops):
                    lines.append(o + '\t' + (obs[j] if j < len(obs) else ''))
            r = subprocess.run([drv, self.name], input='\n'.join(lines) + '\n', stdout=subprocess.PIPE,
                               stderr=subprocess.PIPE, text=True, timeout=self.timeout)
            if r.returncode != 0:
                raise BuildError('model driver failed: ' + r.stderr[-2000:])
            return split_cases(r.stdout, len(chunk))
        ch = self._chunks(cases)
        ich = self._chunks(impl)
        with ThreadPoolExecutor(self.JOBS) as ex:
            parts = list(ex.map(one, zip(ch, ich)))
        return self._unchunk(parts, len(cases))

    # ---- generators ---------------------------------------------------------
    def gen(self, rng, tier):
        quick = tier == 'quick'
        ncase = 110 if quick else 4000
        yield from self.fixed(tier)
        for i in range(ncase):
            yield Case(f'dec{i}', list(self.dec_ops(rng, 60)))
            yield Case(f'enc{i}', list(self.enc_ops(rng, 40)))
            yield Case(f'str{i}', list(self.str_ops(rng, 25)))
            yield Case(f'app{i}', list(self.app_ops(rng, 40)))
            yield Case(f'pub{i}', list(self.pub_ops(rng, 25)))
        yield from self.enums(rng, tier)
        yield from self.borders(tier)

    # ---- systematic buffer-border family -------------------------------------------------------------------------
    # For every conversion direction the engine drives and every size B that archive_string_ensure steps through
    # (32, 64, ... 8192, then +25 % up to the first size >= 64 KiB): inputs whose OUTPUT lands at B-4 .. B+4 bytes,
    # with every character class (1-, 2-, 3-, 4-byte UTF-8, CESU-8 pair / what the direction has) in the last two
    # positions, into an empty destination and into one that already holds text (or, for archive_mstring, whose
    # internal strings were sized by an earlier value).  Deterministic: no random choice.  ASan judges the stores,
    # the model predicts the bytes.
    def directions(self):
        c3 = next(c for c in (0x4e00, 0x3042, 0x20ac, 0xe000) if Dom.safe(c))
        CP = {'1': 0x62, '2': 0xe9, '3': c3, '4': 0x1f600}
        FILL = {'1': 0x61, '4': 0x1f431}
        w8 = {'1': 1, '2': 2, '3': 3, '4': 4, 'P': 4}
        w16 = {'1': 2, '2': 2, '3': 2, '4': 4, 'P': 4}

        def src8(k):
            return enc8(0xd83d) + enc8(0xde00) if k == 'P' else enc8(CP[k])

        def srcs(fe):
            """class -> source bytes, filler -> source bytes"""
            if fe == '8':
                return {k: src8(k) for k in '1234P'}, {k: enc8(v) for k, v in FILL.items()}
            if fe == 'wcs':
                return {k: be32(CP[k]) for k in '1234'}, {k: be32(v) for k, v in FILL.items()}
            be = fe == '16be'
            return {k: enc16(CP[k], be) for k in '1234'}, {k: enc16(v, be) for k, v in FILL.items()}
        D = []
        encs = ['8', '16be', '16le']
        prim_app = {('8', '16le'), ('16be', '8')}
        for fe in encs:
            for te in encs:
                flag = flag_of(fe, te)
                D.append(dict(name=f'app{fe}>{te}', fe=fe, w=w8 if te == '8' else w16, unit=1 if te == '8' else 2,
                              primary=(fe, te) in prim_app,
                              empty=lambda s, flag=flag: f'app {flag} 0 - {s}',
                              pre=lambda s, B, P, flag=flag: f'app {flag} {B} @{P} {s}', pre_exact=True))
        D.append(dict(name='u8u8', fe='8', w=w8, unit=1, primary=True, empty=lambda s: f'u8u8 {s}',
                      pre=lambda s, B, P: f'u8u8 {s} {P}'))
        D.append(dict(name='la2', fe='8', w=w8, unit=1, primary=True, nopair=True, empty=lambda s: f'la2 {s}',
                      pre=lambda s, B, P: f'la2 {s} {P}'))
        for cs in ('UTF-16LE', 'UTF-16BE', 'UTF-8'):
            D.append(dict(name='to' + cs, fe='8', w=w8 if cs == 'UTF-8' else w16, unit=1 if cs == 'UTF-8' else 2, primary=False,
                          empty=lambda s, cs=cs: f'conv to {cs} {s}', pre=lambda s, B, P, cs=cs: f'conv to {cs} {s} {P}',
                          even_pre=cs != 'UTF-8'))
            fe = {'UTF-8': '8', 'UTF-16LE': '16le', 'UTF-16BE': '16be'}[cs]
            D.append(dict(name='from' + cs, fe=fe, w=w8, unit=1, primary=cs == 'UTF-8',
                          empty=lambda s, cs=cs: f'conv from {cs} {s}', pre=lambda s, B, P, cs=cs: f'conv from {cs} {s} {P}'))
            D.append(dict(name='msl' + cs, fe=fe, w=w8, unit=1, primary=False,
                          empty=lambda s, cs=cs: f'msl {cs} {s}', pre=lambda s, B, P, cs=cs: f'msl {cs} {s} {P}', prior=True))
        for kind, fe in (('wcs', 'wcs'), ('mbs', '8'), ('utf8', '8')):
            D.append(dict(name='ms' + kind, fe=fe, w=w8, unit=1, primary=kind != 'utf8', nopair=True,
                          empty=lambda s, kind=kind: f'ms {kind} {s}', pre=lambda s, B, P, kind=kind: f'ms {kind} {s} {P}', prior=True))
        # best effort: one UTF-16 unit per source byte / one byte per UTF-16 unit or pair
        for be in (0, 1):
            D.append(dict(name=f'bto{be}', raw=({'a': b'b', 'x': b'\xff'}, {'1': b'a'}), w={'a': 2, 'x': 2, 'f1': 2}, unit=2,
                          primary=be == 1, empty=lambda s, be=be: f'bto {be} 0 - {s}',
                          pre=lambda s, B, P, be=be: f'bto {be} {B} @{P} {s}', pre_exact=True))
            D.append(dict(name=f'bfrom{be}', raw=({'a': enc16(0x62, be), 'e': enc16(0xe9, be), 'p': enc16(0x1f600, be),
                                                    's': enc16(0xdc00, be)}, {'1': enc16(0x61, be), '4': enc16(0x1f431, be)}),
                          w={'a': 1, 'e': 1, 'p': 1, 's': 1, 'f1': 1, 'f4': 1}, unit=1, primary=be == 0,
                          empty=lambda s, be=be: f'bfrom {be} 0 - {s}', pre=lambda s, B, P, be=be: f'bfrom {be} {B} @{P} {s}',
                          pre_exact=True))
        # iconv-backed charsets (TEST: the model echoes; ASan and the round-trip oracle judge): border on the charset
        # form ("mid") and on the UTF-8 form coming back
        for cs, cls in (('KOI8-R', {'a': ('b', 1), 'c': ('\u0431', 1)}), ('ISO-8859-1', {'a': ('b', 1), 'c': ('\u00e9', 1)}),
                        ('CP932', {'a': ('b', 1), 'h': ('\uff71', 1), 'k': ('\u6f22', 2)})):
            srcmap = {k: v[0].encode('utf-8') for k, v in cls.items()}
            for side in ('mid', 'back'):
                w = {k: (v[1] if side == 'mid' else len(v[0].encode('utf-8'))) for k, v in cls.items()}
                fills = {'1': b'a'} if side == 'mid' else {'1': b'a', '4': max(srcmap.values(), key=len)}
                w.update({'f' + k: (1 if side == 'mid' or k == '1' else len(fills['4'])) for k in fills})
                D.append(dict(name=f'rt{cs}-{side}', raw=(srcmap, fills), w=w, unit=1, primary=cs == 'KOI8-R' and side == 'back',
                              empty=lambda s, cs=cs: f'rt {cs} {s}', pre=None))
        for d in D:
            if 'raw' in d:
                d['cls'], d['fill'] = d['raw']
            else:
                d['cls'], d['fill'] = srcs(d['fe'])
                if d.get('nopair') or d['fe'] != '8':
                    d['cls'] = {k: v for k, v in d['cls'].items() if k != 'P'}
                d['w'] = dict(d['w'], f1=d['w']['1'], f4=d['w']['4'])
        return D

    def borders(self, tier):
        quick = tier == 'quick'
        small, large = [], []
        for d in self.directions():
            cls = sorted(d['cls'])
            pad = cls[0] if d['w'][cls[0]] == d['unit'] else None
            for B in growth_borders():
                big = B > 8192
                if quick and big and not d['primary']:
                    continue
                full = not quick or B <= 32
                for di, delta in enumerate(range(-4, 5)):
                    if full:
                        pairs = [(a, b) for a in cls for b in cls]
                    elif big:  # quick tier, sizes above 8192: every class last, the one before it rotating with delta
                        pairs = sorted({(cls[(i + di) % len(cls)], c) for i, c in enumerate(cls)})
                    else:      # every class in either position at every delta, the partner rotating with delta
                        pairs = sorted({(cls[(i + di) % len(cls)], c) for i, c in enumerate(cls)} | {(c, c) for c in cls} |
                                       {(c, cls[(i + di + 1) % len(cls)]) for i, c in enumerate(cls)})
                    for c1, c2 in pairs:
                        tailw = d['w'][c1] + d['w'][c2]
                        variants = []
                        for f in sorted(d['fill']):
                            if f == '4' and quick and not big and B > 256:
                                continue
                            if f == '1' and big and (quick or not d['primary']):
                                continue
                            variants.append((f, None))
                        if d['pre'] is not None:
                            variants.append(('1', 'pre'))
                        for f, how in variants:
                            wf = d['w']['f' + f]
                            if how == 'pre':
                                if d.get('pre_exact'):       # exact-size buffer of B bytes, three fillers
                                    P = B + delta - tailw - 3 * wf
                                    if P < 0 or P >= B or (d['unit'] == 2 and P % 2):
                                        continue
                                    total = 3 * wf + tailw
                                elif d.get('prior'):         # internal strings sized B by an earlier value of B-1 bytes
                                    P, total = B - 1, B + delta
                                else:                        # destination holds B/2-1 bytes (its buffer then is B/2; first growth: B)
                                    P = B // 2 - 1 - (1 if d.get('even_pre') else 0)
                                    total = B + delta - P
                            else:
                                P, total = None, B + delta
                            rem = total - tailw
                            if rem < 0:
                                continue
                            k, r = divmod(rem, wf)
                            if r and (pad is None or r % d['unit']):
                                continue
                            tail = (d['cls'][pad] * (r // d['unit']) if r else b'') + d['cls'][c1] + d['cls'][c2]
                            s = f"R{k}:{hx(d['fill'][f])}:{hx(tail)}"
                            op = d['empty'](s) if how is None else d['pre'](s, B, P)
                            (large if big else small).append(op)
        for i in range(0, len(small), 500):
            yield Case(f'border-s{i // 500}', small[i:i + 500])
        for i in range(0, len(large), 40):
            yield Case(f'border-l{i // 40}', large[i:i + 40])

    def fixed(self, tier):
        ops = []
        for c in BORDERS + SURR + [0]:
            e = enc8(c)
            for d in ('d8r', 'd8', 'dc8'):
                ops.append(f'{d} {hx(e)}')
                ops.append(f'{d} {hx(e + b"A")}')
                for k in range(1, len(e)):
                    ops.append(f'{d} {hx(e[:k])}')
                    ops.append(f'{d} {hx(e[:k] + b"A")}')
            for be in (1, 0):
                u = enc16(c, be) if c <= MAXU else b''
                ops.append(f'd16{"be" if be else "le"} {hx(u)}')
                ops.append(f'd16{"be" if be else "le"} {hx(u[:-1])}')
                ops.append(f'd16{"be" if be else "le"} {hx(u + b"A")}')
        yield Case('borders-dec', ops)
        ops = []
        for c in [0] + BORDERS + SURR + BEYOND:
            for rem in range(0, 6):
                ops += [f'e8 {c:x} {rem}', f'e16be {c:x} {rem}', f'e16le {c:x} {rem}']
        yield Case('borders-enc', ops)
        # overlong forms of every border, every lead byte alone and with continuation bytes
        ops = []
        for c in [0, 0x2f, 0x7f, 0x80, 0x7ff, 0x800, 0xffff]:
            for k in (2, 3, 4):
                if len(enc8(c)) < k:
                    for d in ('d8r', 'd8', 'dc8'):
                        ops.append(f'{d} {hx(overlong(c, k))}')
        for lead in range(0x80, 0x100):
            for tail in (b'', b'\x80', b'\x80\x80', b'\xbf\xbf\xbf', b'\x80\x80\x80\x80\x80', b'\x80\x80\x80\x80\x80\x80', b'A'):
                ops.append(f'd8r {hx(bytes([lead]) + tail)}')
        yield Case('overlong-leads', ops)
        # archive_string_append_unicode at the buffer borders: every (from, to) pair, tiny exact-size buffers that are
        # full up to the terminator, sources of 0..4 bytes
        ops = []
        for fe in ('8', '16be', '16le'):
            srcs = [b'', b'A', b'\xc3\xa9', b'\xe2\x82\xac', b'\xf0\x9f\x98\x80', b'\xff', b'\xe2\x82'] if fe == '8' else \
                [b'', b'A'] + [enc16(c, fe == '16be') for c in (0x41, 0x20ac, 0x1f600)] + [enc16(0xd800, fe == '16be'), enc16(0x41, fe == '16be') + b'B']
            for te in ('8', '16be', '16le'):
                for cap in (0, 1, 2, 3, 4, 5, 6, 8, 31, 32, 33):
                    for pl in sorted({max(0, cap - 1), max(0, cap - 2), max(0, cap - 3), 0}):
                        if cap == 0 and pl:
                            continue
                        if cap and pl >= cap:
                            continue
                        for s in srcs:
                            ops.append(f'app {flag_of(fe, te)} {cap} {hx(bytes(0x61 + i % 26 for i in range(pl)))} {hx(s)}')
        for i in range(0, len(ops), 400):
            yield Case(f'app-borders-{i // 400}', ops[i:i + 400])
        # remaining length at and above 2^31 (the block really is that long; untouched pages cost nothing)
        big = ['big8 ff4142434445 2147483648', 'big8 614142434445 2147483653']
        if tier != 'quick':
            big += ['big8 ff4142434445 2147483653', 'big8 e282ac414243 4294967296', 'big8 f09f98804142 4294967299',
                    'big8 eda080edb080 3000000000']
        yield Case('big-n', big)

    def dec_ops(self, rng, n):
        for _ in range(n):
            r = rng.random()
            c = scalar(rng)
            if r < 0.3:
                s = enc8(c) + (enc8(scalar(rng)) if rng.random() < 0.5 else b'')
            elif r < 0.8:
                s = bad_piece(rng) + (enc8(scalar(rng)) if rng.random() < 0.3 else b'')
            else:
                s = utf8_string(rng, 1, 1, nul=True)
            if rng.random() < 0.2 and len(s) > 1:
                s = s[:rng.randrange(1, len(s))]
            d = rng.choice(['d8r', 'd8', 'dc8', 'dc8'])
            if rng.random() < 0.3:
                be = rng.random() < 0.5
                s = utf16_string(rng, be, 1, rng.choice([0, 1]), nul=True)
                if rng.random() < 0.3 and len(s) > 1:
                    s = s[:rng.randrange(1, len(s))]
                d = 'd16be' if rng.random() < 0.5 else 'd16le'
            yield f'{d} {hx(s)}'

    def enc_ops(self, rng, n):
        for _ in range(n):
            r = rng.random()
            c = scalar(rng) if r < 0.7 else rng.choice(SURR + BEYOND) if r < 0.9 else rng.randrange(1 << 32)
            yield f'{rng.choice(["e8", "e16be", "e16le"])} {c:x} {rng.choice([0, 1, 2, 3, 4, 4, 5, 8])}'

    def str_ops(self, rng, n):
        for _ in range(n):
            nv = rng.choice([0, 1, 3, 8, 30])
            nb = rng.choice([0, 0, 1, 2, 5])
            yield f'{"la2" if rng.random() < 0.15 else "u8u8"} {hx(utf8_string(rng, nv, nb, nul=rng.random() < 0.1))}'

    def app_ops(self, rng, n):
        encs = ['8', '16be', '16le']
        for _ in range(n):
            r = rng.random()
            if r < 0.7:
                fe, te = rng.choice(encs), rng.choice(encs)
                flag = flag_of(fe, te)
            elif r < 0.85:
                # "through iconv" shape: only a from bit (or none)
                fe = rng.choice(encs); flag = rng.choice([0, FLAG['from' + fe]]); fe = fe if flag else '8'
            else:
                flag = sum(b for b in FLAG.values() if rng.random() < 0.5)       # any flag word
                fe = '16be' if flag & FLAG['from16be'] else '16le' if flag & FLAG['from16le'] else '8'
            nv, nb = rng.choice([0, 1, 2, 5, 14, 15, 16, 17, 40]), rng.choice([0, 0, 1, 3])
            if rng.random() < 0.02:
                nv = rng.choice([300, 700])
            nul = rng.random() < 0.1
            src = utf8_string(rng, nv, nb, nul=nul) if fe == '8' else utf16_string(rng, fe == '16be', nv, nb, nul=nul)
            cap = rng.choice([0, 0, 0, 1, 2, 3, 31, 32, 32, 33, 34, 63, 64, 65, len(src), len(src) + 1, len(src) + 2, 2 * len(src) + 2, len(src) + 1, 2 * len(src) + 1] + ([8191, 8192, 8200] if rng.random() < 0.1 else []))
            pre = b''
            if cap > 1:
                pl = rng.choice([0, 0, 1, cap - 1, cap - 2, max(0, cap - 3), cap // 2, max(0, cap - 1 - len(src)), max(0, cap - 2 - len(src)), max(0, cap - 2 - 2 * len(src))])
                pl = min(pl, cap - 1)
                pre = bytes(0x61 + i % 26 for i in range(pl))
            op = rng.random()
            if op < 0.85:
                yield f'app {flag} {cap} {hx(pre)} {hx(src)}'
            elif op < 0.93:
                yield f'bto {rng.choice([0, 1])} {cap} {hx(pre)} {hx(utf8_string(rng, rng.choice([0, 1, 5, 15, 16]), rng.choice([0, 1]), nul=nul))}'
            else:
                be = rng.choice([0, 1])
                yield f'bfrom {be} {cap} {hx(pre)} {hx(utf16_string(rng, be, rng.choice([0, 1, 5, 31, 32]), rng.choice([0, 1]), nul=nul))}'

    def pub_ops(self, rng, n):
        for _ in range(n):
            r = rng.random()
            nv, nb = rng.choice([0, 1, 3, 10, 40]), rng.choice([0, 0, 0, 1, 2])
            if r < 0.3:
                cs = rng.choice(['UTF-8', 'UTF-16LE', 'UTF-16BE'])
                yield f'conv to {cs} {hx(utf8_string(rng, nv, nb, nul=rng.random() < 0.1))}'
            elif r < 0.55:
                cs = rng.choice(['UTF-8', 'UTF-16LE', 'UTF-16BE'])
                s = utf8_string(rng, nv, nb, safe=True) if cs == 'UTF-8' else utf16_string(rng, cs == 'UTF-16BE', nv, nb, safe=True)
                if not self.safe_input(cs, s):
                    s = utf8_string(rng, nv, 0, safe=True) if cs == 'UTF-8' else utf16_string(rng, cs == 'UTF-16BE', nv, 0, safe=True)
                yield f'conv from {cs} {hx(s)}'
            elif r < 0.75:
                kind = rng.choice(['mbs', 'utf8', 'wcs'])
                if kind == 'wcs':
                    cps = [safe_scalar(rng) for _ in range(nv)] + [rng.choice(SURR) for _ in range(nb)]
                    rng.shuffle(cps)
                    yield 'ms wcs ' + hx(b''.join(c.to_bytes(4, 'big') for c in cps))
                else:
                    s = utf8_string(rng, nv, nb, safe=True)
                    if kind == 'utf8' and not self.safe_input('UTF-8', s):
                        s = utf8_string(rng, nv, 0, safe=True)
                    yield f'ms {kind} {hx(s)}'
            else:
                cs = rng.choice(sorted(ICONV))
                rep = ICONV[cs][1]
                txt = ''.join(rng.choice(rep + 'abcXYZ019 ._-') for _ in range(rng.choice([1, 3, 12, 40])))
                yield f'rt {cs} {hx(txt.encode("utf-8"))}'

    @staticmethod
    def safe_input(cs, s):
        """True when every code point the decoder can produce from s lies outside the decomposable blocks
        (malformed pieces only yield U+FFFD, which is outside)."""
        if cs == 'UTF-8':
            cps = [ord(ch) for ch in s.decode('utf-8', 'replace')]
            try:
                cps += combine_pairs([ord(ch) for ch in s.decode('utf-8', 'surrogatepass')])
            except UnicodeDecodeError:
                pass
            # any 2..4-byte window that decodes
            for i in range(len(s)):
                for k in (2, 3, 4):
                    try:
                        cps.append(ord(s[i:i + k].decode('utf-8', 'surrogatepass')))
                    except (UnicodeDecodeError, TypeError):
                        pass
        else:
            be = cs == 'UTF-16BE'
            cps = []
            for i in range(0, len(s) - 1, 2):
                u = s[i] << 8 | s[i + 1] if be else s[i + 1] << 8 | s[i]
                cps.append(u)
            cps = cps + combine_pairs(cps)
        return all(Dom.safe(c) for c in cps)

    def enums(self, rng, tier):
        if tier == 'quick':
            rngs = [(0, 0x900), (0xd700, 0xe100), (0xfe00, 0x10200), (0x10fe00, 0x110200)]
            for _ in range(6):
                lo = rng.randrange(0, 0x11f000); rngs.append((lo, lo + 0x800))
            yield Case('enum-scalars', [f'enum {lo} {hi}' for lo, hi in rngs])
            yield Case('enum-bytes', [f'enumb {hx(ALPHA)} {k} 0 {len(ALPHA) ** k}' for k in (1, 2, 3)] +
                       [f'enumb {hx(bytes(range(256)))} {k} 0 {256 ** k}' for k in (1, 2)])
        else:
            yield Case('enum-scalars', [f'enum {lo} {min(lo + 0x10000, 0x120000)}' for lo in range(0, 0x120000, 0x10000)])
            yield Case('enum-bytes', [f'enumb {hx(ALPHA)} {k} 0 {len(ALPHA) ** k}' for k in (1, 2, 3, 4)] +
                       [f'enumb {hx(bytes(range(256)))} {k} 0 {256 ** k}' for k in (1, 2)])
            full = hx(bytes(range(256)))
            step = 256 ** 3 // 16
            for j in range(16):
                yield Case(f'enum-bytes3-{j}', [f'enumb {full} 3 {j * step} {(j + 1) * step}'])
            a5 = len(ALPHA) ** 5
            for j in range(8):
                yield Case(f'enum-bytes5-{j}', [f'enumb {hx(ALPHA)} 5 {j * a5 // 8} {(j + 1) * a5 // 8}'])

    # ---- the property evaluated on the implementation's own output -----------
    def oracle(self, case, impl):
        for op, o in zip(case.ops, impl):
            if o.startswith('!'):
                return f'implementation aborted on `{op[:80]}`: {o}'
            if o in ('bad-op', 'nomem', 'no-conv') or '#' in o:      # long outputs come as digests: model + ASan judge those
                continue
            w = op.split()
            f = getattr(self, 'o_' + w[0], None) or (self.o_dec if w[0].startswith('d') else self.o_enc if w[0].startswith('e') and w[0] not in ('enum', 'enumb') else None)
            if f:
                # compact operands -> hex; a destination prefix given by length -> checked and stripped
                if w[0] in ('app', 'u8u8', 'conv', 'ms', 'rt'):
                    w = [hx(unop(x)) if (x[:1] in '@R' and k > 0 and x[1:2].isdigit()) else x for k, x in enumerate(w)]
                    npre = int(w.pop()) if (w[0] == 'u8u8' and len(w) == 3) or (w[0] == 'conv' and len(w) == 5) else None
                    if w[0] == 'ms' and len(w) == 4:
                        w.pop()
                    if npre is not None:
                        d = self.kv(o); out = unhx(d['out'])
                        if not out.startswith(pattern(npre)):
                            return f'`{op[:100]}`: existing content of the destination changed'
                        o = f"r={d['r']} out={hx(out[npre:])}"
                v = f(w, o)
                if v:
                    return f'`{op[:100]}` -> `{o[:120]}`: {v}'
        return None

    @staticmethod
    def kv(o):
        return dict(x.split('=', 1) for x in o.split() if '=' in x)

    def o_dec(self, w, o):
        s = unhx(w[1]); n = len(s)
        d = self.kv(o); r = int(d['r']); uc = None if d['uc'] == '-' else int(d['uc'], 16)
        u16 = w[0].startswith('d16')
        if r == 0:
            if not (n == 0 or (not u16 and s[0] == 0)):
                return 'returned 0 (end of string) with input left'
            return None
        if not 1 <= abs(r) <= n:
            return f'consumed {abs(r)} of {n} bytes'
        if r < 0:
            if uc != 0xfffd and not (w[0] == 'd8' and r == -3 and 0xd800 <= uc <= 0xdfff):
                return 'negative return without U+FFFD'
            return None
        if uc is None or uc > MAXU:
            return 'accepted something above U+10FFFF'
        if u16:
            if not is_scalar(uc) or s[:r] != enc16(uc, w[0] == 'd16be'):
                return 'accepted bytes are not the UTF-16 form of a scalar value'
            return None
        if w[0] == 'dc8' and r == 6:
            hi, lo = 0xd800 + ((uc - 0x10000) >> 10), 0xdc00 + ((uc - 0x10000) & 0x3ff)
            return None if uc >= 0x10000 and s[:6] == enc8(hi) + enc8(lo) else 'accepted 6 bytes that are not a surrogate pair of the result'
        if s[:r] != enc8(uc):
            return 'accepted a non-canonical (overlong?) form'
        if not is_scalar(uc) and w[0] != 'd8r':
            return 'accepted a surrogate'
        return None

    def o_enc(self, w, o):
        uc, rem = int(w[1], 16), int(w[2]); d = self.kv(o); n = int(d['w']); out = unhx(d['out'])
        if n > rem:
            return 'wrote more than `remaining`'
        if w[0] == 'e8':
            c = uc if uc <= MAXU else 0xfffd
            want = enc8(c)
        else:
            if uc > MAXU:
                return None            # documented: the caller must pass a legal code point
            want = enc16(uc, w[0] == 'e16be')
        if n == 0:
            return None if rem < len(want) else 'returned 0 although there was room'
        return None if out == want else 'wrong bytes'

    def o_u8u8(self, w, o):
        s = unhx(w[1]).split(b'\x00')[0]; d = self.kv(o); r = int(d['r']); out = unhx(d['out'])
        return self.judge(cesu8(s), strict8(out), r, out, s if strict8(s) is not None else None)

    @staticmethod
    def judge(src_cps, out_cps, r, out, verbatim):
        """src_cps: the scalars the source denotes (None = source invalid); out_cps: strict decoding of the output."""
        if out_cps is None:
            return 'output is not valid in the target encoding'
        if src_cps is None:
            return None if r != 0 else 'invalid source converted without reporting a failure'
        if r != 0:
            return 'valid source reported as failure'
        if out_cps != src_cps:
            return 'valid source turned into a different name'
        if verbatim is not None and out != verbatim:
            return 'same-encoding copy is not verbatim'
        return None

    def o_app(self, w, o):
        flag, cap, pre, s = int(w[1]), int(w[2]), unhx(w[3]), unhx(w[4]); d = self.kv(o)
        if 'r' not in d:
            return None
        r, ln, bl, out = int(d['r']), int(d['len']), int(d['cap']), unhx(d['out'])
        te = '16be' if flag & FLAG['to16be'] else '16le' if flag & FLAG['to16le'] else '8' if flag & FLAG['to8'] else \
            '16be' if flag & FLAG['from16be'] else '16le' if flag & FLAG['from16le'] else '8'
        fe = '16be' if flag & FLAG['from16be'] else '16le' if flag & FLAG['from16le'] else '8'
        ts = 1 if te == '8' else 2
        if d['nul'] != 'ok' or ln + ts > bl:
            return 'result is not terminated inside the buffer'
        if not out.startswith(pre):
            return 'existing content changed'
        out = out[len(pre):]
        if fe == '8':
            s = s.split(b'\x00')[0]; src = cesu8(s)
        else:
            k = 0
            while k + 1 < len(s) and (s[k] or s[k + 1]):
                k += 2
            # an embedded zero unit ends the source only in archive_strncat_l; here the decoder yields U+0000
            src = strict16(s, fe == '16be')
            if src is not None and 0 in src:
                return None
        oc = strict8(out) if te == '8' else strict16(out, te == '16be')
        return self.judge(src, oc, r, out, None)

    def o_conv(self, w, o):
        d = self.kv(o); r = int(d['r']); out = unhx(d['out']); s = unhx(w[3])
        if w[1] == 'to':
            s = s.split(b'\x00')[0]
            oc = strict8(out) if w[2] == 'UTF-8' else strict16(out, w[2] == 'UTF-16BE')
            return self.judge(cesu8(s), oc, r, out, s if w[2] == 'UTF-8' and strict8(s) is not None else None)
        if w[2] == 'UTF-8':
            s = s.split(b'\x00')[0]; src = cesu8(s)
        else:
            k = 0
            while k + 1 < len(s) and (s[k] or s[k + 1]):
                k += 2
            s = s[:k]; src = strict16(s, w[2] == 'UTF-16BE')
        return self.judge(src, strict8(out), r, out, None)

    def o_rt(self, w, o):
        """TEST (iconv-backed charsets): representable text survives to_charset then from_charset."""
        d = self.kv(o); s = unhx(w[2])
        try:
            want_mid = s.decode('utf-8').encode(ICONV[w[1]][0])
        except (UnicodeError, KeyError):
            return None
        if int(d['r1']) != 0 or int(d['r2']) != 0:
            return f'representable text reported as conversion failure ({w[1]})'
        if unhx(d['back']) != s:
            return f'round trip through {w[1]} changed the name'
        if len(unhx(d['mid'])) != len(want_mid):
            return f'{w[1]} form has an unexpected length'
        return None

    def o_ms(self, w, o):
        d = self.kv(o); s = unhx(w[2])

        def view(k):
            r, v = d[k].split(':', 1)
            return int(r), v
        (mr, mv), (ur, uv), (wr, wv) = view('m'), view('u'), view('w')
        wcps = None if wv == 'null' else [] if wv == '-' else [int(x, 16) for x in wv.split(',')]
        if w[1] == 'wcs':
            cps = []
            for i in range(0, len(s) - 3, 4):
                c = int.from_bytes(s[i:i + 4], 'big')
                if c == 0:
                    break
                cps.append(c)
            valid = all(is_scalar(c) for c in cps)
        else:
            s = s.split(b'\x00')[0]
            cps = cesu8(s); valid = cps is not None        # CESU-8 pairs denote the supplementary character (documented)
        if valid:
            if (mr, ur, wr) != (0, 0, 0) or 'null' in (mv, uv) or wcps is None:
                return None if w[1] == 'mbs' and strict8(s) is None and wr != 0 and wcps is None else 'valid name: a view failed'
            if cesu8(unhx(mv)) != cps or cesu8(unhx(uv)) != cps or wcps != cps:
                return 'valid name: views disagree with the name'
            return None
        # invalid: every *other* view must fail (non-zero / null), carry the bytes verbatim, or at least not be a valid name
        for k, (r, v) in (('m', (mr, mv)), ('u', (ur, uv))):
            if r == 0 and v != 'null':
                b = unhx(v)
                if w[1] != 'wcs' and b == s:
                    continue
                return f'invalid name: view {k} succeeded with a different value'
        if wr == 0 and wcps is not None and w[1] != 'wcs' and all(is_scalar(c) for c in wcps):
            return 'invalid name: wide view succeeded with a valid name'
        return None

    def nontrivial(self, case, impl):
        return any(o.startswith('r=') and not o.startswith('r=0 uc=-') or o.startswith('w=') or o.startswith('digest=') or o.startswith('m=') for o in impl)

    def stats(self, cases, impl):
        st = {'ops': {}, 'dec_return_values': {}, 'conv_failures_reported': 0, 'conv_ok': 0, 'app_grew_buffer': 0, 'enum_points': 0,
              'rt_charsets': {}, 'border_family_ops': {}, 'digested_outputs': 0}
        for c, im in zip(cases, impl):
            for op, o in zip(c.ops, im):
                w = op.split()
                st['ops'][w[0]] = st['ops'].get(w[0], 0) + 1
                if c.label.startswith('border-'):
                    k = w[0] + (' ' + w[1] if w[0] in ('ms', 'msl', 'rt', 'conv') else '')
                    st['border_family_ops'][k] = st['border_family_ops'].get(k, 0) + 1
                if '#' in o:
                    st['digested_outputs'] += 1
                if w[0] in ('d8r', 'd8', 'dc8', 'd16be', 'd16le'):
                    m = re.match(r'r=(-?\d+)', o)
                    if m:
                        k = w[0] + ':' + m.group(1)
                        st['dec_return_values'][k] = st['dec_return_values'].get(k, 0) + 1
                elif w[0] in ('app', 'u8u8', 'conv', 'bto', 'bfrom'):
                    if o.startswith('r=-1'):
                        st['conv_failures_reported'] += 1
                    elif o.startswith('r=0'):
                        st['conv_ok'] += 1
                    if w[0] == 'app':
                        m = re.search(r' cap=(\d+)', o)
                        if m and int(m.group(1)) != int(w[2]):
                            st['app_grew_buffer'] += 1
                elif w[0] == 'enum':
                    st['enum_points'] += int(w[2]) - int(w[1])
                elif w[0] == 'enumb':
                    st['enum_points'] += int(w[4]) - int(w[3])
                elif w[0] == 'rt':
                    st['rt_charsets'][w[1]] = st['rt_charsets'].get(w[1], 0) + 1
        return st


ENGINES = [Uni()]
