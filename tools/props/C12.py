"""C12 — disk -> archive -> disk reproduces the tree (library and CLI tools)."""
import os, re
from lib.core import Engine, Case
from lib import core

PROP = 'C12'
PROPS_MODULES = ['LA.Props.C12']
GEN = ['DiskModes']
ASSUMPTIONS = [
    'the kernel behaves as LA.Tree.FS says: creating a name touches the parent directory mtime; a non-root caller needs '
    'search permission on every directory on the way and write permission on the parent; chmod/utimens/write act on the inode',
    'the archive in between returns the entry list it was given (C02) up to the per-format table FORMATS below '
    '(mtime resolution, object kinds, hard links, sparse maps); byte-level format models are outside C12',
    'readdir order is taken from the implementation (theorems hold for every order)',
    'the checks run as root: capture always runs as root; restore additionally runs as uid 65534 (forked child, setuid) '
    'so that directory permission bits matter; ownership, ACLs, file flags are not compared',
    'xattrs, sparse-hole detection (FIEMAP/SEEK_HOLE) and the allocation unit are compared by the differential only',
    'symlink modes -L/-H and traversal filters are not modelled (only -P, the default, is)',
    'formats driven: pax, gnutar, cpio newc, zip, 7zip, xar; iso9660 (needs rockridge=strict, has no entry for ".") and '
    'mtree (metadata only) are not driven; paths stay below PATH_MAX (names up to NAME_MAX, depth bounded)',
]
TRUSTED = ['harness/eng_tree.c materialises the tree and takes the lstat/readlink/SEEK_HOLE snapshots',
           'per-format capability table (FORMATS in tools/props/C12.py, fmtOf in lean/LA/Drive/Tree.lean)']
MANIFEST = {
    'text': 'partial: Lean model of the archive_read_disk tree walk (capture), the C17 link resolver (linkify), an abstract '
            'POSIX tree and archive_write_disk with deferred directory fix-ups (restore). Theorems: the walk emits every '
            'object of the tree exactly once; restore(linkify_tar(capture t)) reproduces names, types, contents, link '
            'structure, modes and mtimes of every finite tree with consistent hard-link groups, for root and non-root '
            'restores and any umask; every directory fix-up runs after all descendants were restored and after the '
            'fix-ups of its descendants; bsdtar -t lists exactly the captured names. Tied to the C by the tree engine: '
            'random trees on disk, real archive_read_disk walk, real writers/readers of each format, real '
            'archive_write_disk (as root and as uid 65534), bsdtar/bsdcpio pipes, lstat/readlink/SEEK_HOLE snapshots.',
    'note': 'Trusted: Lean kernel; the FS model (kernel assumption); harness and per-format capability table; format '
            'byte layouts, xattrs, ACLs, ownership and sparse detection are differential-only.',
    'technique': 'Lean 4 proof (mutual structural induction over the tree, invariant over the entry list, sortedness of '
                 'the fix-up list) + model/C differential correspondence on materialised trees',
}

NOBODY = 65534
# what a format can hold (justification: the writer sources)
#   ns     : mtime resolution kept, in nanoseconds
#   fifo   : archive_write_set_format_{zip,7zip,iso9660}.c refuse everything but regular/dir/symlink
#   links  : archive_entry_link_resolver.c set_strategy: zip/7zip are "old cpio" (no link entries)
#   sparse : only the pax writer stores a sparse map (GNU.sparse.*); gnutar/ustar/cpio writers write the zeros
FORMATS = {
    'pax':    dict(ns=1, fifo=True, links=True, sparse=True, xattr=True),
    'gnutar': dict(ns=10**9, fifo=True, links=True, sparse=False, xattr=False),
    'newc':   dict(ns=10**9, fifo=True, links=True, sparse=False, xattr=False),
    'zip':    dict(ns=10**9, fifo=False, links=False, sparse=False, xattr=False),
    '7zip':   dict(ns=100, fifo=True, links=False, sparse=False, xattr=False),
    'xar':    dict(ns=10**9, fifo=True, links=True, sparse=False, xattr=True, root=False),   # no entry for "." itself
}
ASCII = 'abcdefghijklmnopqrstuvwxyzABCDEFGHIJKLMNOPQRSTUVWXYZ0123456789'
PUNCT = ' ._-+=,@%~#()[]{}!^&;\''
UTF = ['é', 'ü', 'ß', 'Ω', 'я', '日', '本', '語', '한', '🙂', 'ñ', 'ø']
DIR_MODES = ['755', '755', '755', '700', '555', '500', '777', '775', '1777', '2755', '750', '711', '300', '0', '600', '444', '4711']
FILE_MODES = ['644', '644', '644', '600', '444', '400', '0', '755', '4755', '2755', '6755', '1644', '666', '777', '7777', '111']
SECS = [1, 86400, 315532800, 1000000000, 1234567890, 1700000000, 2147483647]
NSECS = [0, 0, 1, 500, 123456789, 999999999, 100, 999999900]


def hx(b):
    if isinstance(b, str):
        b = b.encode()
    return b.hex() if b else '-'


def rand_name(rng, maxlen=255):
    r = rng.random()
    if r < 0.06:
        n = rng.choice(['.', '..', '...', '.h']) + ''.join(rng.choice(ASCII) for _ in range(rng.choice([1, 3, 6])))
    elif r < 0.55:
        n = ''.join(rng.choice(ASCII) for _ in range(rng.choice([1, 1, 2, 3, 5, 8])))
    elif r < 0.7:
        n = ''.join(rng.choice(ASCII + PUNCT) for _ in range(rng.choice([2, 4, 9, 20])))
    elif r < 0.85:
        n = ''.join(rng.choice(UTF + list(ASCII[:10])) for _ in range(rng.choice([1, 3, 8, 30])))
    elif r < 0.93:
        k = rng.choice([99, 100, 101, 155, 156, 200, 254, 255])
        n = ''.join(rng.choice(ASCII) for _ in range(k))
    else:
        k = rng.choice([60, 85])      # long and non-ASCII (3 bytes each)
        n = ''.join(rng.choice(['日', '本', '語']) for _ in range(k))
    b = n.encode()
    while len(b) > maxlen:
        n = n[:-1]; b = n.encode()
    if n in ('', '.', '..') or n.strip() == '':
        n = 'n' + n.strip('. ')
    return n


def rand_content(rng, big):
    """(size, segs) with holes at the start / in the middle / at the end."""
    B = 4096
    kind = rng.choice(['empty', 'small', 'small', 'full', 'full', 'hole-start', 'hole-mid', 'hole-end', 'all-hole', 'multi', 'unaligned'])
    if kind == 'empty':
        return 0, []
    if kind == 'small':
        n = rng.choice([1, 2, 10, 100, 511, 512, 513])
        return n, [(0, n)]
    if kind == 'full':
        n = rng.choice([4095, 4096, 4097, 10000, 65536, 70001] + ([1 << 20] if big else []))
        return n, [(0, n)]
    if kind == 'hole-start':
        h = B * rng.choice([1, 2, 16, 300])
        n = rng.choice([1, 100, 4096, 5000])
        return h + n, [(h, n)]
    if kind == 'hole-mid':
        a = rng.choice([1, 4096, 5000]); h = B * rng.choice([1, 3, 64]); c = rng.choice([1, 4096, 9000])
        s = (a + B - 1) // B * B + h
        return s + c, [(0, a), (s, c)]
    if kind == 'hole-end':
        a = rng.choice([1, 4096, 6000]); h = B * rng.choice([1, 5, 200]) + rng.choice([0, 0, 1, 777])
        return (a + B - 1) // B * B + h, [(0, a)]
    if kind == 'all-hole':
        return rng.choice([1, 4096, 12288, 1000000, 5 * 1024 * 1024 if big else 65536]), []
    if kind == 'multi':
        segs, pos = [], 0
        for _ in range(rng.choice([2, 3, 6])):
            pos += B * rng.choice([0, 1, 2, 10])
            ln = rng.choice([1, 100, 4096, 8192])
            segs.append((pos, ln)); pos = (pos + ln + B - 1) // B * B
        return pos + rng.choice([0, 4096, 1]), segs
    # unaligned data islands
    segs, pos = [], rng.choice([1, 100, 4000, 4097])
    for _ in range(rng.choice([1, 2, 4])):
        ln = rng.choice([1, 10, 200, 5000])
        segs.append((pos, ln)); pos += ln + rng.choice([5000, 9000, 20000])
    return pos, segs


def gen_tree(rng, n, deep=False, big=False, xattrs=False, weird_links=False):
    """Op list that builds a random tree.  Returns (ops, info)."""
    def meta(modes):
        return rng.choice(modes), rng.choice(SECS) + rng.randrange(0, 1000), rng.choice(NSECS)
    m, s, ns = meta(['755', '755', '700', '555', '775', '1777'])
    ops = [f'd - {m} {s} {ns}']
    dirs, leaves, used = [b''], [], set()
    info = dict(dirs=0, files=0, symlinks=0, fifos=0, hardlinks=0, holes=0, longnames=0, nonascii=0, depth=0, xattrs=0, ro_dirs=0)
    for _ in range(n):
        parent = rng.choice(dirs[-4:] if deep and rng.random() < 0.7 else dirs)
        name = rand_name(rng).encode()
        path = (parent + b'/' + name) if parent else name
        if path in used or len(path) > 3500:
            continue
        used.add(path)
        if len(name) >= 100: info['longnames'] += 1
        if any(c > 127 for c in name): info['nonascii'] += 1
        info['depth'] = max(info['depth'], path.count(b'/') + 1)
        r = rng.random()
        if r < (0.45 if deep else 0.25):
            m, s, ns = meta(DIR_MODES)
            ops.append(f'd {hx(path)} {m} {s} {ns}'); dirs.append(path); info['dirs'] += 1
            if int(m, 8) & 0o200 == 0: info['ro_dirs'] += 1
        elif r < 0.62:
            m, s, ns = meta(FILE_MODES)
            size, segs = rand_content(rng, big)
            if segs != [(0, size)] and size: info['holes'] += 1
            sg = ','.join(f'{a}:{b}' for a, b in segs) or '-'
            ops.append(f'f {hx(path)} {m} {s} {ns} {size} {rng.randrange(1, 10**9)} {sg}')
            leaves.append((path, 'f')); info['files'] += 1
        elif r < 0.74:
            _, s, ns = meta(['777'])
            tk = rng.random()
            if tk < 0.4 and leaves:
                tgt = os.path.relpath(rng.choice(leaves)[0], parent or b'.')
            elif tk < 0.55 and dirs:
                tgt = os.path.relpath(rng.choice(dirs) or b'.', parent or b'.')
            elif tk < 0.7:
                tgt = b'/nonexistent/' + rand_name(rng).encode()
            elif tk < 0.85:
                # long targets: beyond ustar's 100, beyond 255, beyond one path component, near PATH_MAX
                k = rng.choice([99, 100, 101, 255, 256, 257, 600, 1023, 1024, 4000])
                raw = ('/'.join(rand_name(rng, 120) for _ in range(k // 20 + 1)) + 'x' * k).encode()[:k]
                tgt = raw.decode('utf-8', 'ignore').rstrip('/').encode() or b'x'
                tgt += b'x' * (k - len(tgt))
            else:
                tgt = b'dangling-' + rand_name(rng, 40).encode()
            ops.append(f'l {hx(path)} {s} {ns} {hx(tgt)}')
            leaves.append((path, 'l')); info['symlinks'] += 1
        elif r < 0.80:
            m, s, ns = meta(['644', '600', '666', '0', '640'])
            ops.append(f'p {hx(path)} {m} {s} {ns}')
            leaves.append((path, 'p')); info['fifos'] += 1
        else:
            cands = [x for x in leaves if x[1] == 'f' or weird_links]
            if not cands:
                used.discard(path); continue
            ops.append(f'h {hx(path)} {hx(rng.choice(cands)[0])}')
            info['hardlinks'] += 1
    # incomplete hard-link groups: names of the inode that are NOT part of the tree (nlink > names archived);
    # several per tree, also on files that have further names inside the tree
    regs = [x[0] for x in leaves if x[1] == 'f']
    info['incomplete_groups'] = 0
    for pth in rng.sample(regs, min(len(regs), rng.choice([0, 0, 1, 2, 3, 5]))):
        for _ in range(rng.choice([1, 1, 2])):
            ops.append(f'hx {hx(pth)}')
        info['incomplete_groups'] += 1
    if xattrs:
        for p, k in leaves + [(d, 'd') for d in dirs[1:]]:
            if k in ('f', 'd') and rng.random() < 0.4:
                ops.append(f'x {hx(p)} {hx(rng.choice(["a", "comment", "k.with.dots", "日本"]))} '
                           f'{hx(bytes(rng.randrange(1, 256) for _ in range(rng.choice([0, 1, 5, 300]))))}')
                info['xattrs'] += 1
    ops.append('seal')
    return ops, info


def parse_snap(line):
    """'X ...|path type mode mtime group size content extents target|...' -> (head, [dict])."""
    parts = line.split('|')
    out = []
    for p in parts[1:]:
        w = p.split(' ')
        if len(w) != 9:
            return parts[0], None
        out.append(dict(path=w[0], type=w[1], mode=int(w[2], 8), mtime=w[3], group=w[4], size=int(w[5]),
                        content=w[6], ext=w[7], target=w[8]))
    return parts[0], out


def trunc_time(t, ns):
    if t == 'NOW':
        return t
    s, n = t.split('.')
    return f'{s}.{int(n) // ns * ns}'


def groups(snap):
    g = {}
    for i, e in enumerate(snap):
        if e['type'] != 'd':
            g.setdefault(e['group'], []).append(e['path'])
    return sorted(tuple(v) for v in g.values() if len(v) > 1)


class TreeEng(Engine):
    name = 'tree'
    timeout = 1500

    def build(self):
        d = core.ensure_lib('asan', ('archive_static', 'bsdtar', 'bsdcpio'))
        self.env = {'VERIF_BIN': os.path.join(d, 'bin')}
        return super().build()

    # -- generation -------------------------------------------------------
    def scenario(self, rng, tier, i, big_tree=False):
        ops = []
        lib_fmts = ['pax', 'gnutar', 'newc'] if tier == 'quick' else list(FORMATS)
        ops.append('walk')
        for fmt in rng.sample(lib_fmts, 2 if tier == 'quick' else 4):
            flags = rng.choice(['pt', 'pts', 'pt', 'pts', 't', 'p', 'ptsx'])
            if fmt in ('zip', '7zip') and 'p' not in flags:
                # these writers put directories after their files: without ARCHIVE_EXTRACT_PERM the implicitly
                # created parent keeps its default mode (documented: existing directories are left alone)
                flags = 'p' + flags
            uid = rng.choice([0, 0, NOBODY])
            ops.append(f'rt {fmt} {flags} {uid}')
        ops.append('rt pax pts %d' % (NOBODY if i % 2 else 0))
        # CLI pipes
        tfmt = rng.choice(['pax', 'pax', 'gnutar'] if tier == 'quick' else ['pax', 'gnutar', 'newc'])   # bsdtar's default "restricted pax" keeps ns only when another record forces a pax header
        xo = rng.choice(['-p', '-p', '-p,-S', '-p,-m', '-', '-p,-P', '-p,--numeric-owner'])
        ops.append(f'cli tar {tfmt} - {xo} {rng.choice([0, 0, NOBODY])}')
        ops.append(f'cli cpio newc - {rng.choice(["-dm", "-dm", "-d", "-dmu"])} {rng.choice([0, 0, NOBODY])}')
        ops.append('list ' + rng.choice(['pax', 'gnutar', '-']))
        return ops

    def many_groups(self, rng, n=2200):
        """More than 2048 hard-link groups pending in the resolver at once (its table grows twice): first names in
        one directory, second names in another, some groups with a name outside the tree."""
        ops = ['d - 755 1000000000 0', f'd {hx("a")} 755 1000000001 0', f'd {hx("b")} 755 1000000002 0']
        for i in range(n):
            ops.append(f'f {hx("a/f%d" % i)} 644 {1000001000 + i} 0 {i % 7} {i + 1} {"0:%d" % (i % 7) if i % 7 else "-"}')
        for i in range(n):
            if i % 50 == 7:
                ops.append(f'hx {hx("a/f%d" % i)}')
            ops.append(f'h {hx("b/g%d" % i)} {hx("a/f%d" % i)}')
        ops += ['seal', 'walk', 'cli tar pax - -p 0', 'cli cpio newc - -dm 0']
        return Case('many-groups', ops, dict(files=n, hardlinks=n, dirs=2))

    def gen(self, rng, tier):
        n = 40 if tier == 'quick' else 400
        for i in range(n):
            size = rng.choice([3, 8, 15, 30] if tier == 'quick' else [3, 8, 15, 30, 80])
            deep = rng.random() < 0.25
            xa = rng.random() < 0.3
            ops, info = gen_tree(rng, size, deep=deep, big=(tier != 'quick' and rng.random() < 0.2), xattrs=xa,
                                 weird_links=rng.random() < 0.2)
            ops += self.scenario(rng, tier, i, big_tree=size > 30)
            if xa:
                ops.append('xcmp pax %d' % rng.choice([0, NOBODY]))
            yield Case(f'tree{i}', ops, info)

    # -- the property on the implementation's own output --------------------
    def oracle(self, case, impl):
        probs = [p for p in self.problems(case, impl)]
        new = [p for p in probs if not p.split(': ', 1)[-1].startswith('KF-') and not p.startswith('KF-')]
        return (new or probs or [None])[0]

    def problems(self, case, impl):
        src = None
        for op, o in zip(case.ops, impl):
            w = op.split()
            if o.startswith('!'):
                yield 'implementation crashed: ' + o; return
            if w[0] == 'seal':
                _, src = parse_snap(o)
                if src is None:
                    yield 'source snapshot unparsable'; return
            elif w[0] == 'walk' and src is not None:
                head, ents = o.split('|')[0], o.split('|')[1:]
                names = [e.split(' ')[0] for e in ents]
                if not head.startswith('W eof cwd=1'):
                    yield 'walk did not end with EOF in the starting directory: ' + head
                if len(names) != len(set(names)):
                    yield 'walk visited an object twice'
                if sorted(names) != sorted(e['path'] for e in src):
                    yield 'walk did not visit exactly the objects of the tree'
            elif w[0] in ('rt', 'cli') and src is not None:
                if w[0] == 'rt':
                    fmt, flags, uid = w[1][:-4] if w[1].endswith('-seq') else w[1], w[2], int(w[3])
                    perm, tm, sparse = 'p' in flags, 't' in flags, 's' in flags
                else:
                    fmt, xo, uid = w[2], w[4].split(','), int(w[5])
                    if w[1] == 'tar':
                        perm, tm, sparse = (uid == 0 or '-p' in xo), '-m' not in xo, '-S' in xo
                    else:
                        perm, tm, sparse = True, any(x.startswith('-') and 'm' in x for x in xo), False
                cpio = fmt in ('newc', 'odc') or (w[0] == 'cli' and w[1] == 'cpio')
                d = self.check_restore(src, o, FORMATS.get(fmt, FORMATS['pax']), perm, tm, sparse, uid, cpio, fmt == 'xar')
                if d:
                    yield f'{op}: {d}'
            elif w[0] == 'list' and src is not None:
                names = sorted(x for x in o.split('|')[1:])
                want = sorted((('2e2f' + (e['path'] if e['path'] != '-' else '') + ('2f' if e['type'] == 'd' and e['path'] != '-' else ''))
                               for e in src))
                if names != want:
                    yield 'bsdtar -t does not list exactly the objects archived'
            elif w[0] == 'xcmp':
                if not (o.startswith('X same') or o.startswith('X nosup')):
                    # recorded finding: the pax writer url-encodes the attribute name in SCHILY.xattr.* too, the
                    # reader decodes only LIBARCHIVE.xattr.*: names needing an escape come back twice
                    esc = [x for x in case.ops if x.startswith('x ') and
                           any(b < 33 or b > 126 or b in (37, 61) for b in bytes.fromhex(x.split()[2]))]
                    if esc and w[1] == 'pax':
                        yield 'KF-pax-xattr-name: extended attribute whose name needs escaping restored twice: ' + o
                    else:
                        yield 'extended attributes not reproduced: ' + o

    def check_restore(self, src, line, F, perm, tm, sparse, uid, cpio=False, xar=False):
        head, dst = parse_snap(line)
        if dst is None:
            return 'restored snapshot unparsable: ' + head
        want = [e for e in src if F['fifo'] or e['type'] != 'p']
        linked = {p for g in groups(src) for p in g}
        if [e['path'] for e in dst] != [e['path'] for e in want]:
            a, b = {e['path'] for e in want}, {e['path'] for e in dst}
            lsym = {e['path'] for e in src if e['type'] == 'l' and e['path'] in linked}
            if cpio and not (b - a) and (a - b) <= lsym:
                # recorded finding: both names of a hard-linked symlink are lost; compare the rest
                want = [e for e in want if e['path'] in b]
                kf = f"KF-cpio-symlink-hardlink: hard-linked symlink(s) {sorted(a - b)[:2]} not restored at all"
            else:
                return f'names differ: missing {sorted(a - b)[:3]} extra {sorted(b - a)[:3]}'
        else:
            kf = None
        for s, d in zip(want, dst):
            if s['path'] == '-' and not F.get('root', True):
                continue
            # signatures of the two recorded cpio findings (known_findings.json)
            if cpio and s['path'] in linked and s['type'] == 'f' and uid != 0 and s['mode'] & 0o200 == 0 \
                    and d['type'] == 'f' and d['size'] == 0 and s['size'] > 0:
                return f"KF-cpio-ro-hardlink: read-only hard-linked file {s['path']} restored empty by a non-root user"
            if xar and s['path'] in linked and s['type'] == 'l' and d['type'] == 'f' and d['size'] == 0:
                return f"KF-xar-nonregular-hardlink: second name {s['path']} of a symlink restored as an empty regular file"
            if s['type'] != d['type']:
                return f"type of {s['path']}: {s['type']} -> {d['type']}"
            if s['type'] == 'f' and (d['content'] != 'ok' or d['size'] != s['size']):
                return f"content of {s['path']} not reproduced ({d['content']})"
            if s['type'] == 'l' and s['target'] != d['target']:
                return f"symlink target of {s['path']} not reproduced"
            if perm and s['type'] != 'l':
                m = s['mode']
                if uid != 0 and s['type'] != 'd':
                    m &= ~0o6000
                if d['mode'] != m:
                    return f"mode of {s['path']}: {s['mode']:o} -> {d['mode']:o}"
            if tm and trunc_time(s['mtime'], F['ns']) != d['mtime']:
                return f"mtime of {s['path']}: {s['mtime']} -> {d['mtime']}"
            if s['type'] == 'f' and (F['sparse'] or sparse) and s['ext'] != d['ext']:
                return f"hole map of {s['path']}: {s['ext']} -> {d['ext']}"
        if F['links']:
            wp = {e['path'] for e in want}
            gs = sorted(tuple(p for p in g if p in wp) for g in groups(src))
            gs = [g for g in gs if len(g) > 1]
            if xar and gs != groups(dst):
                ty = {e['path']: e['type'] for e in src}
                regular = [g for g in gs if ty[g[0]] == 'f']
                if regular == [g for g in groups(dst) if ty.get(g[0]) == 'f']:
                    return 'KF-xar-nonregular-hardlink: hard links between symlinks / fifos restored as separate objects'
            if gs != groups(dst):
                return f'link structure differs: {gs[:2]} -> {groups(dst)[:2]}'
        return kf

    def nontrivial(self, case, impl):
        return any(o.startswith('R ') and o.count('|') >= 4 for o in impl)

    def stats(self, cases, impl):
        st = {'trees': len(cases), 'ops': {}, 'formats': {}, 'nonroot_restores': 0}
        keys = ['dirs', 'files', 'symlinks', 'fifos', 'hardlinks', 'incomplete_groups', 'holes', 'longnames', 'nonascii', 'xattrs', 'ro_dirs']
        for k in keys:
            st[k] = 0
        st['max_depth'] = 0
        for c in cases:
            for k in keys:
                st[k] += c.meta.get(k, 0)
            st['max_depth'] = max(st['max_depth'], c.meta.get('depth', 0))
            for op in c.ops:
                w = op.split()
                st['ops'][w[0]] = st['ops'].get(w[0], 0) + 1
                if w[0] == 'rt':
                    st['formats'][w[1]] = st['formats'].get(w[1], 0) + 1
                    st['nonroot_restores'] += w[3] != '0'
                if w[0] == 'cli':
                    st['formats']['cli-' + w[1] + '-' + w[2]] = st['formats'].get('cli-' + w[1] + '-' + w[2], 0) + 1
                    st['nonroot_restores'] += w[5] != '0'
        return st


class TreeMany(TreeEng):
    """The same harness and model on one big tree: more than 2048 hard-link groups pending in the resolver at once.
    A separate engine so that a disagreement on its 4400 ops is reported as it is instead of being delta-debugged."""
    name = 'treemany'
    harness = 'tree'
    model = 'tree'
    keep_prefix = 10 ** 9

    def gen(self, rng, tier):
        yield self.many_groups(rng, 2200 if tier == 'quick' else 4300)


ENGINES = [TreeEng(), TreeMany()]
