"""C05 — results do not depend on read block sizes or on the byte source."""
from props._rda import Rda
from props._read import Part

PROP = 'C05'
PROPS_MODULES = ['LA.Props.C05']
GEN = ['Limits']
ASSUMPTIONS = ['single data node; seek and multi-volume switching not yet in the model',
               'malloc never fails']
TRUSTED = []
MANIFEST = {
    'text': 'partial: Lean refinement theorems for the read-ahead/consume window of archive_read.c (every format reader '
            'sees the archive only through it): observations of any interface program depend only on the concatenation '
            'of the callback blocks, not on the partition or on skip capability. Tied to the C by the rda engine.',
    'technique': 'Lean 4 refinement proof (representation invariant + abstraction to the byte stream, induction over client programs) + model/C differential correspondence',
    'note': 'Unmodelled format parsers are covered only by the interface contract; see DESIGN.md C05.',
}
ENGINES = [Rda(faults=False), Part()]
