"""C05 — results do not depend on read block sizes or on the byte source."""
from props._rda import Rda
from props._read import Part

PROP = 'C05'
PROPS_MODULES = ['LA.Props.C05']
GEN = ['Limits']
ASSUMPTIONS = ['malloc never fails',
               'client open/close/switch callbacks succeed; switching to a data node (re)opens it at offset 0 (as file_switch does)',
               'seek callback is file-like (lseek semantics) and honest about the offset it reaches; int64 overflow of offset + position not modelled',
               'NoSeekSkip: a source with a seek callback also has a skip callback (the seeker branch of client_skip_proxy is an open finding)',
               'SpecSafe: no read between a seek refused for an out-of-range target and the next successful seek (open finding seek-failure-desync)']
TRUSTED = []
MANIFEST = {
    'text': 'partial: Lean refinement theorems for the read-ahead/consume/seek interface of archive_read.c (every format '
            'reader sees the archive only through it): observations of any interface program, seeks included '
            '(SEEK_SET/CUR/END across data-node borders), depend only on the concatenation of the bytes, not on the block '
            'partition before or after a seek, on skip capability, or on how the bytes are spread over the volumes of a '
            'multivolume set. Tied to the C by the rda engine (exact comparison, scripted and seekable sources).',
    'technique': 'Lean 4 refinement proof (representation invariant + abstraction to the byte stream, induction over client programs) + model/C differential correspondence',
    'note': 'Unmodelled format parsers are covered only by the interface contract; see DESIGN.md C05.',
}
ENGINES = [Rda(faults=False), Part()]
