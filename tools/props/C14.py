"""C14 — entry objects are coherent: getters reflect setters, clones are equal."""
from lib.core import Engine, Case
import itertools, re

PROP = 'C14'
PROPS_MODULES = ['LA.Props.C14']
GEN = ['EntryBits', 'EntryFflags']
ASSUMPTIONS = [
    'x86_64 Linux/glibc ABI: time_t, long, dev_t, ino_t, nlink_t 64 bit; mode_t, uid_t, gid_t, unsigned 32 bit; '
    'struct stat has st_atim.tv_nsec and no st_birthtime; major/minor/makedev are glibc gnu_dev_* (modelled by hand)',
    'strings handed to an entry are valid UTF-8 without NUL, already in Unicode normalisation form C, and the process '
    'runs in the C.UTF-8 locale (then the multibyte, UTF-8 and wide view of a string carry the same text).  Observed on the '
    'implementation: a decomposed string given through a *_utf8 setter (65 cc 81) keeps its bytes in the UTF-8 view but is '
    'composed (c3 a9) in the multibyte and wide views - deliberate NFC normalisation in archive_string.c, the views then '
    'agree only up to canonical equivalence; such strings and invalid byte strings are neither generated nor modelled',
    'malloc never fails',
    'set_*time() arguments satisfy the no-overflow precondition of FIX_NS, otherwise the C executes signed overflow '
    '(recorded as finding C14/fixns-overflow; the model answers "undefined")',
    'ACL part of the entry (acl list, last column of strmode) is property C15; the file-flag name table is the one of this '
    'platform (Linux FS_*_FL), regenerated from the preprocessed archive_entry.c',
]
TRUSTED = ['S_ISUID/S_ISGID/S_ISVTX values and the glibc device-number macros are written by hand in the model',
           'the harness reads the private sparse/xattr lists for its per-step dump (the public iterator API mutates the '
           'entry and is exercised as separate operations)',
           'the harness re-encodes the wide view of a string to UTF-8 itself before comparing the three views']
MANIFEST = {
    'text': 'Lean theorems over a field-for-field model of struct archive_entry (archive_entry.c, _sparse.c, _xattr.c, '
            '_stat.c, _copy_stat.c, _strmode.c; 146 of the 166 public entry functions): every getter after its setter returns '
            'the normalised argument (FIX_NS for all integers inside the no-overflow range, with the overflow boundary '
            'characterised exactly), every setter leaves the getters of every other field group alone (one theorem over all '
            'operation/group pairs), and for every finite history of setters, unsetters, copy_stat, clear and iterator calls a '
            'getter depends only on the operations of its own group (history_relevant) and is fixed by the last overwriting '
            'one (history_last_writer); is-set flags are truthful; hard-link and symlink targets are exclusive; the sparse '
            'list is sorted, merged and non-negative; a clone agrees with the original on every getter and later histories '
            'on either side do not affect the other.  The model is tied to the C by a differential engine that drives a real '
            'entry and a real clone of it (ASan/UBSan/LSan) with random and enumerated histories and compares every getter '
            'after every step.',
    'note': 'Trusted: Lean kernel; correspondence harness and generators; glibc device-number macros and stat casts '
            '(x86_64 Linux) written by hand.  Strings are modelled by their bytes (valid UTF-8 in C.UTF-8 only; invalid byte '
            'strings are neither generated nor modelled).  ACLs (C15) and the link resolver (C17) are '
            'outside.  Heap sharing between clone and original is a runtime fact checked by the '
            'sanitizers on the generated histories, not proved.',
    'technique': 'Lean 4 proof (per-operation normal forms, group projections, induction over op histories) + model/C '
                 'differential correspondence',
}

I64MAX, I64MIN = 2**63 - 1, -2**63
NS = 10**9
TIMES = ['atime', 'birthtime', 'ctime', 'mtime']

T_VALS = [0, 0, -1, 1, 5, 1700000000, -1700000000, 2**31 - 1, 2**31, -2**31, -2**31 - 1, 2**32, NS, -NS,
          I64MAX, I64MAX - 1, I64MAX - 2, I64MIN, I64MIN + 1, I64MIN + 2]
NS_VALS = [0, 0, 1, -1, 500, 999999999, NS, NS + 1, -999999999, -NS, -NS - 1, 2 * NS - 1, 2 * NS, 2 * NS + 1,
           -2 * NS + 1, -2 * NS, -2 * NS - 1, 1999999999, -1999999999, 2**31 - 1, -2**31, 2**32, I64MAX, I64MIN]
ID_VALS = [0, 0, 1, -1, 1000, 65534, 65535, 65536, 2**31 - 1, 2**31, 2**32 - 1, 2**32, 2**32 + 7, I64MAX, I64MAX - 1, I64MIN, I64MIN + 1, -2**31]
DEV_VALS = [0, 1, 255, 256, 0x801, 0xfff00, 0xfffff, 0x100000, 2**32 - 1, 2**32, 2**44, 2**44 - 1, 2**63, 2**64 - 1,
            0x123456789abcdef0, 0xfedcba9876543210]
MODE_VALS = [0, 0o644, 0o755, 0o100644, 0o40755, 0o120777, 0o140000, 0o20660, 0o60660, 0o10600, 0o7777, 0o4755, 0o2755, 0o1777,
             0o4644, 0o2644, 0o1666, 0o170000, 0o177777, 0o200000, 0o37777600000, 2**32 - 1, 0o110000, 0o100000]
STRS = ['~', '~', '-', '61', '62', '612f62', '68656c6c6f2f776f726c642e747874', 'c3a9', 'e697a5e69cac', 'f09f9880',
        '61f09f9880c3a97a', 'f48fbfbf', 'ef bfbd'.replace(' ', ''), '7f', '2e2e2f2e2e', '20', '2f' + '61' * 300,
        'ed9fbf', 'ee8080', 'c280', 'dfbf', 'e0a080', 'f0908080']
SIZES = [0, 0, 1, 10, 100, 4096, 2**31, 2**32, I64MAX, I64MAX - 1, -1, I64MIN]
XNAMES = ['757365722e61', '757365722e62', '-', '73656375726974792e73656c696e7578', 'c3a9', '61' * 200]
XVALS = ['-', '00', '6162', '00ff00', 'ff' * 300, '0a']
MACS = ['~', '-', '00', '4d6163', 'ff' * 70]
SLTYPES = [0, 1, 2, 3, -1, 2**31 - 1, -2**31]
ENCS = [0, 1, 2, -1, 255, 256, 128, 512]
FFLAGS = [0, 0, 1, 2, 0x10, 0x20, 0x40, 0x50, 0x80, 0x400, 0x4000, 0x800000, 2**32 - 1, 2**32, 2**64 - 1]
FFTEXTS = [t.encode().hex() or '-' for t in (
    '', 'nodump', 'dump', 'sappnd', 'nosappnd', 'sappend,schg', 'uappnd,nodump', 'nodump,sappnd bogus', 'bogus', ',, \t',
    'schg\tnoschange', 'simmutable nosimmutable', 'journal-data,nojournal', 'secdel,securedeletion,sync,tail,notail',
    'topdir,cow,nocow,projinherit', 'no', 'nono', 'dum', 'nodumpx', 'atime,noatime,undel,compress,dirsync', '\u00e9\u00e9,nodump',
    'NODUMP', 'nodump,')]
NLINKS = [0, 1, 2, 3, 2**31, 2**32 - 1]
DIGSZ = {1: 16, 2: 20, 3: 20, 4: 32, 5: 48, 6: 64}


def fix_ns_overflows(t, ns):
    """Python restatement of the FIX_NS no-overflow precondition (generator shaping only)."""
    q = abs(ns) // NS * (1 if ns >= 0 else -1)
    r = ns - q * NS
    t1 = t + q
    if not (I64MIN <= t1 <= I64MAX):
        return True
    return r < 0 and t1 - 1 < I64MIN


def rand_hex(rng, n):
    return ''.join('%02x' % rng.randrange(256) for _ in range(n)) if n else '-'


STR_APIS = (['%s_pathname' % a for a in ('set', 'copy')] + ['set_pathname_utf8', 'copy_pathname_w', 'update_pathname_utf8'] +
            ['set_uname', 'copy_uname', 'set_uname_utf8', 'copy_uname_w', 'update_uname_utf8'] +
            ['set_gname', 'copy_gname', 'set_gname_utf8', 'copy_gname_w', 'update_gname_utf8'] +
            ['copy_sourcepath', 'copy_sourcepath_w'])
HL_APIS = ['set_hardlink', 'set_hardlink_utf8', 'copy_hardlink', 'copy_hardlink_w', 'update_hardlink_utf8']
SL_APIS = ['set_symlink', 'set_symlink_utf8', 'copy_symlink', 'copy_symlink_w', 'update_symlink_utf8']
LK_APIS = ['set_link', 'set_link_utf8', 'copy_link', 'copy_link_w', 'update_link_utf8']


class Gen:
    """Random operation, with arguments drawn from border values; keeps just enough state to aim sparse offsets."""

    def __init__(self, rng):
        self.rng = rng
        self.size = 0
        self.end = 0      # end of the last sparse block we believe exists

    def time_args(self, allow_ub=False):
        rng = self.rng
        for _ in range(50):
            t = rng.choice(T_VALS) if rng.random() < 0.85 else rng.randrange(-2**40, 2**40)
            ns = rng.choice(NS_VALS) if rng.random() < 0.85 else rng.randrange(-3 * NS, 3 * NS)
            if allow_ub or not fix_ns_overflows(t, ns):
                return t, ns
        return 0, 0

    def ub_time_op(self):
        rng = self.rng
        t, ns = rng.choice([(I64MAX, NS), (I64MAX, 2 * NS + 5), (I64MAX - 1, 2 * NS), (I64MIN, -1), (I64MIN, -NS),
                            (I64MIN + 1, -NS - 1), (I64MAX, I64MAX), (I64MIN, I64MIN), (I64MIN + 1, -2 * NS)])
        return f'set_{rng.choice(TIMES)} {t} {ns}'

    def stat_args(self, allow_ub=False):
        rng = self.rng
        a = []
        for _ in range(3):
            a += list(self.time_args(allow_ub))
        a += [rng.choice(DEV_VALS), rng.choice([0, 1, 1000, 2**32 - 1]), rng.choice([0, 1, 1000, 2**32 - 1]),
              rng.choice([0, 1, 2**32, 2**63 - 1, 2**63, 2**64 - 1]), rng.choice([0, 1, 2, 2**32 - 1, 2**32, 2**32 + 3, 2**64 - 1]),
              rng.choice(DEV_VALS), rng.choice(SIZES), rng.choice(MODE_VALS)]
        return ' '.join(str(x) for x in a)

    def op(self):
        rng = self.rng
        r = rng.random()
        if r < 0.14:
            t, ns = self.time_args()
            return f'set_{rng.choice(TIMES)} {t} {ns}'
        if r < 0.17:
            return 'unset_' + rng.choice(TIMES)
        if r < 0.22:
            s = rng.choice(SIZES)
            self.size = max(s, 0)
            return f'set_size {s}'
        if r < 0.235:
            self.size = 0
            return 'unset_size'
        if r < 0.30:
            return f"{rng.choice(['set_dev', 'set_devmajor', 'set_devminor', 'set_rdev', 'set_rdevmajor', 'set_rdevminor'])} {rng.choice(DEV_VALS)}"
        if r < 0.36:
            return f"{rng.choice(['set_ino', 'set_ino64', 'set_uid', 'set_gid'])} {rng.choice(ID_VALS)}"
        if r < 0.38:
            return f'set_nlink {rng.choice(NLINKS)}'
        if r < 0.45:
            return f"{rng.choice(['set_mode', 'set_perm', 'set_filetype'])} {rng.choice(MODE_VALS)}"
        if r < 0.53:
            return f'{rng.choice(STR_APIS)} {rng.choice(STRS)}'
        if r < 0.65:
            return f'{rng.choice(HL_APIS + SL_APIS + LK_APIS)} {rng.choice(STRS)}'
        if r < 0.67:
            return rng.choice(['set_link_to_hardlink', 'set_link_to_symlink'])
        if r < 0.68:
            return f'set_fflags {rng.choice(FFLAGS)} {rng.choice(FFLAGS)}'
        if r < 0.69:
            return rng.choice([f"{rng.choice(['copy_fflags_text', 'copy_fflags_text_w'])} {rng.choice(FFTEXTS)}", 'fflags_text'])
        if r < 0.705:
            return f'set_symlink_type {rng.choice(SLTYPES)}'
        if r < 0.73:
            return f"{rng.choice(['set_is_data_encrypted', 'set_is_metadata_encrypted'])} {rng.choice(ENCS)}"
        if r < 0.80:
            # aim at the interesting places: adjacent to the last block, inside it, at the size limit
            base = rng.choice([0, self.end, self.end, self.end + 1, max(self.end - 1, 0), self.size, max(self.size - 1, 0), -1,
                               I64MAX, I64MAX - 1, rng.randrange(0, 200)])
            ln = rng.choice([0, 0, 1, 1, 5, 10, max(self.size - base, 0) if base >= 0 else 1, self.size, -1, I64MAX, I64MAX - max(base, 0),
                             min(I64MAX, I64MAX - max(base, 0) + 1)])
            base, ln = min(base, I64MAX), min(ln, I64MAX)      # arguments are int64_t
            if 0 <= base and 0 <= ln and base + ln <= self.size and base >= self.end:
                self.end = base + ln
            return f'sparse_add {base} {ln}'
        if r < 0.85:
            o = rng.choice(['sparse_clear', 'sparse_count', 'sparse_reset', 'sparse_next', 'sparse_next', 'sparse_next'])
            if o == 'sparse_clear':
                self.end = 0
            return o
        if r < 0.89:
            return f'xattr_add {rng.choice(XNAMES)} {rng.choice(XVALS)}'
        if r < 0.93:
            return rng.choice(['xattr_clear', 'xattr_count', 'xattr_reset', 'xattr_next', 'xattr_next', 'xattr_next'])
        if r < 0.945:
            return f'copy_mac_metadata {rng.choice(MACS)}'
        if r < 0.96:
            t = rng.choice([1, 2, 3, 4, 5, 6, 0, 7, -1])
            n = DIGSZ.get(t, 16)
            return f"set_digest {t} {rng.choice([rand_hex(rng, n), '00' * n, 'ff' * 64, '01'])}"
        if r < 0.97:
            return 'copy_stat ' + self.stat_args()
        if r < 0.992:
            return 'stat'
        self.size = 0
        self.end = 0
        return 'clear'


# reduced alphabet for the exhaustive thorough-tier enumeration (all histories of length <= 3)
ENUM_OPS = [
    'set_mtime 5 -1', 'set_mtime -1 1000000001', 'unset_mtime', 'set_atime 9223372036854775806 1999999999',
    'set_size 100', 'set_size -1', 'unset_size', 'sparse_add 0 100', 'sparse_add 10 20', 'sparse_add 30 5', 'sparse_clear',
    'sparse_reset', 'sparse_next', 'sparse_count',
    'set_dev 2049', 'set_devmajor 8', 'set_devminor 4294967295', 'set_rdev 18446744073709551615', 'set_rdevmajor 1', 'set_rdevminor 2',
    'set_ino -1', 'set_ino64 9223372036854775807', 'set_uid 1000', 'set_gid -5', 'set_nlink 4294967295',
    'set_mode 33188', 'set_perm 4294967295', 'set_filetype 16384', 'set_filetype 0',
    'set_pathname 61', 'copy_pathname_w f09f9880', 'update_pathname_utf8 ~',
    'set_hardlink 61', 'set_hardlink ~', 'copy_hardlink 62', 'copy_hardlink_w ~', 'update_hardlink_utf8 63', 'set_hardlink_utf8 ~',
    'set_symlink 64', 'copy_symlink ~', 'update_symlink_utf8 c3a9', 'set_link 65', 'set_link ~', 'update_link_utf8 66',
    'set_link_to_hardlink', 'set_link_to_symlink',
    'xattr_add 61 62', 'xattr_add 63 -', 'xattr_clear', 'xattr_reset', 'xattr_next',
    'set_is_data_encrypted 1', 'set_is_metadata_encrypted 256', 'set_symlink_type 2', 'set_fflags 16 64', 'set_fflags 0 0',
    'copy_fflags_text 6e6f64756d702c626f677573', 'copy_fflags_text_w 736170706e64', 'fflags_text',
    'copy_mac_metadata 4d', 'copy_mac_metadata -', 'set_digest 1 ' + 'ab' * 16, 'set_digest 7 00',
    'copy_stat 1 -1 2 1000000000 3 5 2049 1000 1000 18446744073709551615 4294967298 5 77 33261', 'stat',
    'clear', 'clone', 'c:set_size 7', 'c:copy_symlink 67', 'c:xattr_add 64 65', 'c:clear',
]


STAT_SETTERS = ['set_atime 1 2', 'set_ctime 3 4', 'set_mtime 5 6', 'set_birthtime 7 8', 'unset_atime', 'unset_ctime', 'unset_mtime',
                'unset_birthtime', 'set_dev 9', 'set_devmajor 1', 'set_devminor 2', 'set_rdev 10', 'set_rdevmajor 3', 'set_rdevminor 4',
                'set_ino 11', 'set_ino64 12', 'set_nlink 13', 'set_uid 14', 'set_gid 15', 'set_size 16', 'unset_size', 'set_mode 16877',
                'set_perm 448', 'set_filetype 40960', 'copy_stat 1 1 1 1 1 1 1 1 1 1 1 1 1 1', 'clear']

# third position of the thorough-tier triples: the observers and the operations whose effect depends on history
ENUM3_OPS = [o for o in ENUM_OPS if o.split()[0] in (
    'unset_mtime', 'unset_size', 'sparse_add', 'sparse_clear', 'sparse_reset', 'sparse_next', 'sparse_count', 'set_devminor',
    'set_rdevmajor', 'set_perm', 'set_filetype', 'set_hardlink', 'copy_hardlink', 'copy_hardlink_w', 'update_hardlink_utf8',
    'set_hardlink_utf8', 'set_symlink', 'copy_symlink', 'update_symlink_utf8', 'set_link', 'update_link_utf8', 'set_link_to_hardlink',
    'set_link_to_symlink', 'xattr_add', 'xattr_clear', 'xattr_reset', 'xattr_next', 'stat', 'clear', 'clone', 'set_size', 'set_fflags', 'fflags_text')]


class Ent(Engine):
    name = 'ent'
    repo_deps = ('libarchive/archive_entry_private.h',)
    CHUNK_LINES = 30000

    def run_impl(self, exe, cases):
        """Feed the harness in chunks: it keeps every input line in memory and forks once per case, and the cost of a
        fork under ASan grows with the size of the parent's heap."""
        out, errs, chunk, n = [], [], [], 0
        for c in cases:
            chunk.append(c); n += len(c.ops)
            if n >= self.CHUNK_LINES:
                o, e = Engine.run_impl(self, exe, chunk)
                out += o; errs.append(e); chunk, n = [], 0
        if chunk:
            o, e = Engine.run_impl(self, exe, chunk)
            out += o; errs.append(e)
        return out, ''.join(errs)[-20000:]

    def gen(self, rng, tier):
        n = 1300 if tier == 'quick' else 30000
        ub_budget = 3 if tier == 'quick' else 12      # each one costs a symbolised sanitizer report (~1 s)
        per_process = 10 if tier == 'quick' else 30   # histories per forked harness process, separated by `reset`
        batch, nb = [], 0
        for i in range(n):
            g = Gen(rng)
            ops = []
            have_clone = False
            length = rng.choice([3, 8, 15, 25, 40])
            for _ in range(length):
                r = rng.random()
                if r < 0.06:
                    ops.append('clone'); have_clone = True
                elif r < 0.065 and have_clone:
                    ops.append('drop_clone'); have_clone = False
                else:
                    o = g.op()
                    if have_clone and rng.random() < 0.35:
                        o = 'c:' + o
                    ops.append(o)
            if ub_budget > 0 and rng.random() < 0.03:
                # the recorded finding: FIX_NS overflow kills the process, so such a history is a case of its own
                ub_budget -= 1
                ops.append(g.ub_time_op() if rng.random() < 0.7 else 'copy_stat ' + g.stat_args(allow_ub=True))
                ops.append('stat')
                yield Case(f'rand-ub{i}', ops)
                continue
            batch += ops + ['reset']
            nb += 1
            if nb == per_process:
                yield Case(f'rand{i}', batch)
                batch, nb = [], 0
        if batch:
            yield Case('rand-last', batch)
        # stale struct-stat cache: stat, one field setter, stat again (every setter that must invalidate the cache)
        ops = []
        for st in STAT_SETTERS:
            ops += ['copy_stat 7 7 7 7 7 7 7 7 7 7 7 7 7 33188', 'stat', st, 'stat', 'clone', 'c:stat', 'reset']
        yield Case('statcache', ops)
        # the same with dev and rdev already in their split (major/minor) representation when the cache is filled:
        # the setters have a "switch representation" branch and a "representation already right" branch
        ops = []
        for st in STAT_SETTERS:
            ops += ['copy_stat 7 7 7 7 7 7 7 7 7 7 7 7 7 33188', 'set_devmajor 8', 'set_devminor 1', 'set_rdevmajor 8',
                    'set_rdevminor 1', 'stat', st, 'stat', 'clone', 'c:stat', 'reset']
        yield Case('statcache-split', ops)
        # exhaustive small scope over the reduced alphabet; histories are separated by `reset` and batched per
        # process (one fork per first operation / per first two operations)
        if tier == 'quick':
            for x in ENUM_OPS:
                ops = []
                for y in ENUM_OPS:
                    ops += [x, y, 'reset']
                yield Case('pairs:' + x, ops)
        else:
            for x in ENUM_OPS:
                for y in ENUM_OPS:
                    ops = []
                    for z in ENUM3_OPS:
                        ops += [x, y, z, 'reset']
                    yield Case(f'triples:{x};{y}', ops)

    # -- the property's predicate on the implementation's own output -------------
    F = re.compile(r'(\w+)=(\S+)')

    @staticmethod
    def fields(d):
        return dict(kv.split('=', 1) for kv in d.split(' ') if '=' in kv)

    def oracle(self, case, impl):
        prev_main = prev_clone = None
        for idx, (op, line) in enumerate(zip(case.ops, impl)):
            w = op.split()
            on_clone = w[0].startswith('c:')
            name = w[0][2:] if on_clone else w[0]
            if line.startswith('!'):
                if name.startswith('set_') and name[4:] in TIMES and fix_ns_overflows(int(w[1]), int(w[2])):
                    return 'FIX_NS signed overflow (undefined behaviour) in ' + name
                if name == 'copy_stat' and any(fix_ns_overflows(int(w[i]), int(w[i + 1])) for i in (1, 3, 5)):
                    return 'FIX_NS signed overflow (undefined behaviour) in copy_stat'
                return f'op {idx} ({op}): implementation crashed: {line}'
            if line in ('noclone', 'bad-op'):
                continue
            if name == 'reset':
                prev_main = prev_clone = None
                continue
            parts = line.split(' || ')
            m = self.fields(parts[0])
            c = self.fields(parts[1]) if len(parts) > 1 else None
            for who, d in (('entry', m), ('clone', c)):
                if d is None:
                    continue
                for k in ('p', 'un', 'gn', 'sp', 'hl', 'sl'):
                    if '|' in d[k]:
                        return f'op {idx} ({op}): multibyte/UTF-8/wide views of {k} disagree on the {who}: {d[k]}'
                if d['hl'].split(',')[0] != '~' and d['sl'] != '~':
                    return f'op {idx} ({op}): both hardlink() and symlink() return a target on the {who}'
                for k in ('at', 'bt', 'ct', 'mt'):
                    if not 0 <= int(d[k].split(',')[1]) < NS:
                        return f'op {idx} ({op}): {k} nanoseconds out of range'
                bad = self.sparse_bad(d['sps'])
                if bad:
                    return f'op {idx} ({op}): sparse list of the {who} is {bad}: {d["sps"]}'
            tgt = c if on_clone else m
            if name == 'stat':
                st = m['r'].split(',')
                want = (tgt['at'].split(',')[:2] + tgt['ct'].split(',')[:2] + tgt['mt'].split(',')[:2] +
                        [tgt['dev'].split(',')[0], str(int(tgt['gid'].split(',')[0]) % 2**32), str(int(tgt['uid'].split(',')[0]) % 2**32),
                         tgt['ino'].split(',')[0], tgt['nl'], tgt['rdev'].split(',')[0], tgt['sz'].split(',')[0], tgt['mode']])
                if st != want:
                    return f'op {idx} ({op}): archive_entry_stat() returns {",".join(st)} but the getters say {",".join(want)}'
            o = self.setter_check(name, w, tgt)
            if o:
                return f'op {idx} ({op}): {o}'
            dm = parts[0].split(' ', 1)[1]
            dc = parts[1] if len(parts) > 1 else None
            if name == 'clone' and dc != dm:
                return f'op {idx}: clone differs from the original'
            # independence: an operation on one object leaves every getter of the other unchanged
            if name not in ('clone', 'drop_clone'):
                if on_clone and prev_main is not None and dm != prev_main:
                    return f'op {idx} ({op}): operation on the clone changed the original'
                if not on_clone and prev_clone is not None and dc is not None and dc != prev_clone:
                    return f'op {idx} ({op}): operation on the original changed the clone'
            prev_main, prev_clone = dm, dc
        return None

    @staticmethod
    def sparse_bad(s):
        if s == '-':
            return None
        end = None
        for blk in s.strip(';').split(';'):
            o, l = (int(x) for x in blk.split(':'))
            if o < 0 or l < 0:
                return 'negative'
            if end is not None and o <= end:
                return 'not sorted/merged'
            end = o + l
        return None

    @staticmethod
    def setter_check(name, w, d):
        """get_X after set_X returns the normalised argument (a few direct instances)."""
        if name.startswith('set_') and name[4:] in TIMES:
            k = {'atime': 'at', 'birthtime': 'bt', 'ctime': 'ct', 'mtime': 'mt'}[name[4:]]
            s, ns, isset = (int(x) for x in d[k].split(','))
            if s * NS + ns != int(w[1]) * NS + int(w[2]) or isset != 1:
                return f'{k} = {d[k]} does not represent the time that was set'
        if name.startswith('unset_') and name[6:] in TIMES:
            k = {'atime': 'at', 'birthtime': 'bt', 'ctime': 'ct', 'mtime': 'mt'}[name[6:]]
            if d[k] != '0,0,0':
                return f'{k} = {d[k]} after unset'
        if name == 'set_size' and d['sz'] != f'{max(int(w[1]), 0)},1':
            return 'size getter does not return the size that was set'
        if name == 'unset_size' and d['sz'] != '0,0':
            return 'size still set after unset_size'
        for nm, k in (('set_uid', 'uid'), ('set_gid', 'gid')):
            if name == nm and d[k] != f'{max(int(w[1]), 0)},1':
                return f'{k} getter does not return what was set'
        if name in ('set_ino', 'set_ino64') and d['ino'] != '%d,%d,1' % ((max(int(w[1]), 0),) * 2):
            return 'ino getter does not return what was set'
        if name == 'set_mode' and (int(d['mode'], 8) != int(w[1]) or d['ft'][-1] != '1' or d['perm'][-1] != '1'):
            return 'mode getter does not return what was set'
        if name == 'set_filetype' and d['ft'] != '%o,1' % (int(w[1]) & 0o170000):
            return 'filetype getter does not return what was set'
        if name == 'set_perm' and d['perm'] != '%o,1' % (int(w[1]) & ~0o170000 & 0xffffffff):
            return 'perm getter does not return what was set'
        if name == 'set_dev' and d['dev'].split(',')[0::3] != [w[1], '1']:
            return 'dev getter does not return what was set'
        if name == 'set_rdev' and d['rdev'].split(',')[0::3] != [w[1], '1']:
            return 'rdev getter does not return what was set'
        if name == 'set_fflags' and d['ff'] != f'{w[1]},{w[2]}':
            return 'fflags getter does not return the bitmaps that were set'
        if name in ('copy_fflags_text', 'copy_fflags_text_w') and d['fft'] != w[1]:
            return f'fflags_text getter returns {d["fft"]} after {name}'
        if name in STR_APIS:
            k = {'pathname': 'p', 'uname': 'un', 'gname': 'gn', 'sourcepath': 'sp'}[re.sub(r'^(set|copy|update)_|_utf8$|_w$', '', name)]
            if d[k] != w[1]:
                return f'{k} getter returns {d[k]} after {name}'
        if name in HL_APIS and w[1] != '~' and (d['hl'] != w[1] + ',1' or d['sl'] != '~'):
            return f'hardlink/symlink getters return {d["hl"]} / {d["sl"]}'
        if name in SL_APIS and w[1] != '~' and (d['sl'] != w[1] or d['hl'] != '~,0'):
            return f'hardlink/symlink getters return {d["hl"]} / {d["sl"]}'
        return None

    def nontrivial(self, case, impl):
        return len(case.ops) >= 2 and len(set(l.split(' ', 1)[-1] for l in impl)) >= 2

    def stats(self, cases, impl):
        st = {'ops': {}, 'ops_on_clone': 0, 'clone_points': 0, 'undefined_fixns_cases': 0, 'sparse_merges': 0,
              'sparse_whole_file_dropped': 0, 'strings': {'null': 0, 'empty': 0, 'ascii': 0, 'non_ascii': 0},
              'histories': 0, 'hist_len': {}}
        for c, im in zip(cases, impl):
            # a case (one harness process) holds several histories separated by `reset`
            cur = 0
            for o in c.ops + ['reset']:
                if o == 'reset':
                    if cur:
                        st['histories'] += 1
                        b = min(cur, 40)
                        st['hist_len'][b] = st['hist_len'].get(b, 0) + 1
                    cur = 0
                else:
                    cur += 1
            if any(l.startswith('!') for l in im):
                st['undefined_fixns_cases'] += 1
            prev = None
            for op, l in zip(c.ops, im):
                w = op.split()
                k = w[0]
                if k.startswith('c:'):
                    st['ops_on_clone'] += 1; k = k[2:]
                st['ops'][k] = st['ops'].get(k, 0) + 1
                if k == 'clone':
                    st['clone_points'] += 1
                if len(w) == 2 and (k in STR_APIS or k in HL_APIS + SL_APIS + LK_APIS):
                    cls = 'null' if w[1] == '~' else 'empty' if w[1] == '-' else 'ascii' if all(int(w[1][i:i + 2], 16) < 128 for i in range(0, len(w[1]), 2)) else 'non_ascii'
                    st['strings'][cls] += 1
                m = re.search(r' sps=(\S+)', l)
                cur = m.group(1) if m else None
                if k == 'sparse_add' and prev and cur and prev != cur and prev.count(';') == cur.count(';') and prev != '-':
                    st['sparse_merges'] += 1
                if k in ('sparse_count', 'sparse_reset') and prev and prev != '-' and cur == '-':
                    st['sparse_whole_file_dropped'] += 1
                if not k.startswith('c:') and not w[0].startswith('c:'):
                    prev = cur
        return st


ENGINES = [Ent()]
