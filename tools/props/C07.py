"""C07 — any call sequence on a handle is safe; illegal order fails fatally."""
from lib.core import Engine, Case
from lib import core
import glob, itertools, os, re, shutil

PROP = 'C07'
PROPS_MODULES = ['LA.Props.C07']
GEN = ['ApiStates']
ASSUMPTIONS = [
    'malloc never fails (allocation-failure paths are not driven; the model has them as outcome alt=9)',
    'calls are the public calls of the handle\'s own kind; a freed handle is never used again (the pointer is dead)',
    'lower layers (format readers/writers, filters, client callbacks, the file system) are inputs of the model: '
    'every status they can return is quantified over (Outcome); assumed of them: a filter\'s close releases what '
    'its open acquired, restore_entry leaves a descriptor open only when it did not fail, a format\'s free '
    'releases its format data (not a per-entry compressor: LA.C07.releasedExactlyOnce_false)',
    'entries handed to write_header carry a pathname (the zip writer dereferences a NULL pathname: noted in '
    'known_findings.json, outside the call-order quantifier of C07)',
]
TRUSTED = [
    'memory safety and leak freedom of the real C are observed (ASan/UBSan/LSan in a forked child per case, '
    '/proc/self/fd count), not proved',
    'tools/lib/extract.py ApiStates: every archive_check_magic call site with its mask (refuses a function that '
    'checks one handle kind against two different masks, and any mask expression it cannot evaluate); the '
    '*_windows.c twins are not compiled here and are left out',
    'the monitor takes the lower-layer outcome from the implementation\'s own line (first candidate outcome '
    'that explains it); a line no outcome explains is a correspondence break',
    'formats driven by the engine: reader tar/zip/raw/empty + gzip; writer ustar/pax/cpio/zip/raw/mtree + '
    'gzip/b64encode (7zip, xar, iso9660, shar, warc, ar only in the hand-written FATAL-close probe)',
]
MANIFEST = {
    'text': 'Lean theorems over a model of __archive_check_magic and of the state-changing entry points of the five '
            'handle kinds (archive_read.c, archive_write.c, archive_write_disk_posix.c, archive_read_disk_posix.c, '
            'archive_match.c, archive_virtual.c), generic over the table of all archive_check_magic call sites that is '
            're-extracted from the source on every run: an illegal call returns FATAL and leaves the handle FATAL; '
            'FATAL is absorbing for every call but close/free (the exempt set is computed from the table); once '
            'next_header returned EOF or FATAL no later call yields an entry; close is idempotent; free is accepted '
            'from every state and leaves the resource ledger empty with nothing released twice, for every history and '
            'every lower-layer outcome.  A differential monitor engine drives the real library (ASan/UBSan/LSan, '
            'descriptor count) with random and exhaustive call sequences and checks return class, a->state and '
            'resource counters against the model after every call.',
    'note': 'Memory safety of the C is observed, not proved; lower layers are quantified inputs; allocation failure '
            'not driven.',
    'technique': 'Lean 4 proof (state machine + resource ledger, induction over call histories, table extracted from C) '
                 '+ model/C monitor correspondence under sanitizers',
}

RV = ['valid', 'valid', 'empty', 'damaged', 'trunc', 'gz', 'zip', 'garbage']
R_OPTS = ['tar:read_concatenated_archives', 'nosuch:opt', 'compat-2x']
W_FORMATS = ['ustar', 'ustar', 'pax', 'cpio', 'zip', 'raw', 'mtree']
W_FILTERS = ['gzip', 'b64encode', 'none']
W_OPTS = ['zip:compression=store', 'nosuch:opt', 'gzip:compression-level=1']

KINDS = ['read', 'write', 'wdisk', 'rdisk', 'match']


def alphabet(kind, rng=None, small=False):
    """The op alphabet of a handle kind (operands fixed for `small`, else drawn from rng)."""
    c = (lambda xs: xs[0]) if small or rng is None else rng.choice
    common = ['close', 'free', 'errno', 'error_string']
    if kind == 'read':
        return common + ['support_format_all', 'support_filter_all', 'support_format_raw',
                         'set_options ' + c(R_OPTS), 'open_mem ' + c(RV),
                         'open_cb ' + c(RV) + c(['', '', ' openfail', ' readfail']),
                         'open_file ar.tar', 'open_fd ar.tar', 'open1', 'set_read_cb',
                         'next_header', 'next_header', 'next_header2',
                         'read_data ' + c(['100', '0', '1', '5000']), 'read_data_block',
                         'data_skip', 'seek_data', 'header_position']
    if kind == 'write':
        return common + ['fail', 'set_format ' + c(W_FORMATS), 'add_filter ' + c(W_FILTERS),
                         'set_options ' + c(W_OPTS), 'set_bytes_per_block ' + c(['512', '0', '10240']),
                         'get_bytes_per_block', 'open_mem', 'open_cb' + c(['', '', ' openfail', ' writefail']),
                         'open_file o.out', 'open_fd',
                         'write_header ' + c(['f reg 10', 'f reg 10', 'd dir 0', 'g reg 0', 'h reg 3000']),
                         'write_data ' + c(['10', '0', '5', '4000']), 'finish_entry']
    if kind == 'wdisk':
        return common + ['fail', 'set_options ' + c(['4', '0', '7', '0x304']), 'set_standard_lookup', 'set_skip_file',
                         'header ' + c(['x/d1 dir 0 555 100', 'x/f reg 10 644 100', 'x/d1/g reg 3 600 5',
                                        'x/d2/ dir 0 700 7', '../esc reg 1 644 1', 'x/l lnk 0 777 1',
                                        'x/f hl 0 644 1', 'x/e reg 0 644 -1', 'x/p fifo 0 644 1']),
                         'data ' + c(['5', '10', '0', '100']), 'data_block ' + c(['4 0', '4 6', '0 0']),
                         'finish_entry']
    if kind == 'rdisk':
        return common + ['open ' + c(['t', 't', 't/a', 'nosuch', 't/d']), 'next_header2', 'next_header2', 'next_header',
                         'descend', 'can_descend', 'read_data_block',
                         'set_behavior ' + c(['0', '0x1', '0x8']), 'set_symlink_logical', 'set_standard_lookup',
                         'current_filesystem']
    if kind == 'match':
        return ['free', 'errno', 'error_string', 'fail',
                'exclude_pattern ' + c(['a*', '-', '*.o']), 'include_pattern ' + c(['ab*', '-', 'x/y']),
                'path_excluded ' + c(['abc', 'zz', 'x.o']), 'excluded ' + c(['abc', 'q']),
                'include_uid ' + c(['0', '1000']), 'include_uname ' + c(['root', 'nobody']),
                'include_time ' + c(['0x0101', '0', '0x0202']), 'include_date ' + c(['2001-01-01', 'garbage']),
                'owner_excluded abc', 'time_excluded abc', 'unmatched_inclusions', 'unmatched_next',
                'set_recursion 1', 'exclude_entry abc']
    raise ValueError(kind)


PREFIX = {
    'read': lambda c: ['support_format_all', 'support_filter_all', 'open_mem ' + c(RV)],
    'write': lambda c: ['set_format ' + c(W_FORMATS)] + (['add_filter ' + c(W_FILTERS)] if c([0, 1]) else []) + [c(['open_mem', 'open_cb'])],
    'wdisk': lambda c: ['set_options ' + c(['4', '7'])],
    'rdisk': lambda c: ['open t'],
    'match': lambda c: [],
}


def finish(ops):
    """After `free` the handle is dead: the next op must be `new`.  Every case ends with `fds`."""
    out, alive = [], False
    for o in ops:
        if o == 'new':
            if alive:
                continue
            alive = True
        elif not alive:
            out.append('new'); alive = True
        out.append(o)
        if o == 'free':
            alive = False
    return out + ['fds']


class Api(Engine):
    name = 'api'
    keep_prefix = 1
    repo_deps = ('libarchive/archive_write_disk_posix.c', 'libarchive/archive_private.h',
                 'libarchive/archive_read_private.h', 'libarchive/archive_write_private.h')
    timeout = 3000

    def __init__(self):
        self.env = {'VERIF_OUT': core.OUT}

    def gen(self, rng, tier):
        os.makedirs(core.OUT, exist_ok=True)
        n = 500 if tier == 'quick' else 4000
        for kind in KINDS:
            for i in range(n):
                ops = []
                if rng.random() < 0.65:
                    ops += PREFIX[kind](rng.choice)
                for _ in range(rng.randint(1, 12 - len(ops))):
                    ops.append(rng.choice(alphabet(kind, rng)))
                yield Case(f'{kind}-rand{i}', ['kind ' + kind] + finish(ops))
        if tier != 'quick':
            # exhaustive: every sequence of length <= 3 over the (fixed-operand) alphabet of each kind after
            # `new`, and after the kind's canonical prefix (reader: length <= 2 per archive variant)
            for kind in KINDS:
                al = sorted(set(alphabet(kind, small=True)))
                pres = [[]]
                if kind == 'read':
                    pres += [['support_format_all', 'support_filter_all', 'open_mem ' + v] for v in ('valid', 'empty', 'damaged')]
                elif kind == 'write':
                    pres += [['set_format ustar', 'open_cb']]
                elif kind == 'rdisk':
                    pres += [['open t']]
                L = 3
                for pre in pres:
                    for l in range(1, (2 if kind == 'read' and pre else L) + 1):
                        for seq in itertools.product(al, repeat=l):
                            yield Case(f'{kind}-enum', ['kind ' + kind] + finish(list(pre) + list(seq)))

    def run_impl(self, exe, cases):
        """Every case forks (ASan + LSan exit check, about 13 ms): spread the cases over several
        harness processes.  Case order and output are the same as a single run."""
        jobs = min(12, max(1, len(cases) // 40))
        if jobs == 1:
            outs, err = super().run_impl(exe, cases)
        else:
            from concurrent.futures import ThreadPoolExecutor
            chunks = [cases[i::jobs] for i in range(jobs)]
            with ThreadPoolExecutor(jobs) as ex:
                res = list(ex.map(lambda jc: self._run_chunk(exe, jc[1], jc[0]), enumerate(chunks)))
            outs = [None] * len(cases)
            for j, (o, _) in enumerate(res):
                for i, x in enumerate(o):
                    outs[j + i * jobs] = x
            err = ''.join(e[-20000:] for _, e in res)
        for d in glob.glob(os.path.join(core.OUT, 'c07.*')):
            shutil.rmtree(d, ignore_errors=True)
        return outs, err

    def _run_chunk(self, exe, cases, j):
        """core.Engine.run_impl with a stderr file of its own (it names the file by pid only)."""
        import subprocess
        text = ''.join(f'#case {i}\n' + ''.join(o + '\n' for o in c.ops) for i, c in enumerate(cases))
        env = dict(os.environ)
        env.setdefault('ASAN_OPTIONS', 'detect_leaks=1:abort_on_error=0:exitcode=99:allocator_may_return_null=1')
        env.setdefault('UBSAN_OPTIONS', 'print_stacktrace=1:halt_on_error=1')
        env['LC_ALL'] = env['LANG'] = 'C.UTF-8'
        env.update(self.env)
        errf = os.path.join(core.OUT, f'{self.name}.{os.getpid()}.{j}.stderr')
        with open(errf, 'w') as eh:
            r = subprocess.run([exe], input=text, stdout=subprocess.PIPE, stderr=eh, text=True,
                               env=env, timeout=self.timeout, errors='replace')
        err = open(errf, errors='replace').read()
        os.unlink(errf)
        return core.split_cases(r.stdout, len(cases)), err

    def oracle(self, case, impl):
        """The property evaluated on the implementation's own output."""
        kind = case.ops[0].split()[1] if case.ops and case.ops[0].startswith('kind ') else '?'
        failed = False          # handle is in the FATAL state
        ended = False           # reader: next_header returned eof or fatal
        if len(impl) > len(case.ops) and impl[len(case.ops)].startswith('!teardown'):
            fmts = sorted({op.split()[1] for op in case.ops if op.startswith('set_format ')})
            return f'leak at teardown: kind={kind} formats={",".join(fmts) or "-"} ({impl[len(case.ops)]})'
        for op, o in zip(case.ops, impl):
            w = op.split()
            if o.startswith('!'):
                return 'sanitizer abort or signal: ' + o
            f = o.split()
            rc = f[0]
            st = next((x[3:] for x in f if x.startswith('st=')), None)
            if w[0] == 'fds':
                if o != 'fds=0':
                    return 'descriptors leaked: ' + o
                continue
            if w[0] in ('kind',) or o in ('nohandle', 'bad-op'):
                continue
            if w[0] == 'new':
                failed = ended = False
                continue
            if failed and w[0] not in ('close', 'free', 'errno', 'error_string', 'fail'):
                what = f'{kind}.{w[0]}' + (' ' + w[1] if w[0] in ('add_filter', 'read_data') and len(w) > 1 else '')
                if rc != 'fatal':
                    return f'{what} on a failed handle returned {rc}'
                if st != 'fatal':
                    return f'{what} on a failed handle left state {st}'
            if w[0] in ('close', 'free') and rc == 'fatal' and st == 'fatal' and not failed:
                return f'{w[0]} refused'
            if w[0] in ('next_header', 'next_header2'):
                if ended and rc in ('ok', 'warn'):
                    return 'an entry was returned after next_header had returned eof/fatal'
                if rc in ('eof', 'fatal'):
                    ended = True
            if w[0].startswith('open') and rc != 'fatal' and st in ('header',):
                ended = False if kind == 'rdisk' else ended
            if st == 'fatal':
                failed = True
            elif st in ('closed', 'new', 'header', 'data', 'eof'):
                # reader: close moves a failed handle to CLOSED; every later call but close/free is refused again
                failed = False
        return None

    def nontrivial(self, case, impl):
        return any('st=fatal' in o for o in impl) or any('st=data' in o for o in impl)

    def stats(self, cases, impl):
        st = {'kinds': {}, 'ops': {}, 'states_seen': {}, 'rc_seen': {}, 'illegal_calls': 0}
        for c, im in zip(cases, impl):
            k = c.ops[0].split()[1]
            st['kinds'][k] = st['kinds'].get(k, 0) + 1
            prev = None
            for op, o in zip(c.ops[1:], im[1:]):
                w = op.split()[0]
                st['ops'][k + '.' + w] = st['ops'].get(k + '.' + w, 0) + 1
                f = o.split()
                s = next((x[3:] for x in f if x.startswith('st=')), None)
                if s:
                    key = k + '.' + s
                    st['states_seen'][key] = st['states_seen'].get(key, 0) + 1
                if f:
                    st['rc_seen'][f[0]] = st['rc_seen'].get(f[0], 0) + 1
                if s == 'fatal' and prev not in (None, 'fatal') and f and f[0] == 'fatal':
                    st['illegal_calls'] += 1
                prev = s
        return st


ENGINES = [Api()]
