"""C04 — secure extraction never touches anything outside the target directory."""
import os, re
from lib.core import Engine, Case
from lib import core
from props import _c04gen as G

PROP = 'C04'
PROPS_MODULES = ['LA.Props.C04']
GEN = ['DiskWriter']


def gen_strip_inc():
    """The text of strip_absolute_path() and its two warning helpers, cut out of tar/util.c so
    that the harness TU compiles the real function (static, in a file that needs all of bsdtar)."""
    src = open(os.path.join(core.REPO, 'tar/util.c'), errors='replace').read()
    m = re.search(r'static void\s*\nwarn_strip_leading_char\(.*?\nstrip_absolute_path\(.*?\n}\n', src, re.S)
    if not m:
        raise core.BuildError('strip_absolute_path not found in tar/util.c')
    d = os.path.join(core.BUILD, 'gen')
    os.makedirs(d, exist_ok=True)
    p = os.path.join(d, 'strip_absolute_path.inc')
    if not os.path.exists(p) or open(p).read() != m.group(0):
        open(p, 'w').write(m.group(0))
    return d

ASSUMPTIONS = [
    'POSIX file-system semantics are those of lean/LA/Model/FS.lean (tree of directories, inode table, kernel path walk); '
    'validated on every run by comparing the model tree with the real scratch tree after each sequence',
    'the process is privileged (harness runs as root): permission bits never make a system call fail',
    'extract_confined covers entry pathnames shorter than PATH_MAX; beyond it edit_deep_directories is modelled (editLoop, chdir/fchdir, '
    'PATH_MAX in every pathname call), compared with the implementation by the xtrdeep engine, and umask_cwd_restored / extract_cwd_umask are proved for all lengths',
    'no concurrent modification of the target while extracting (TOCTOU races are outside the property as stated in DESIGN.md)',
    'entry modes carry no set-id/sticky bits; OWNER, ACL, XATTR, FFLAGS, MAC_METADATA, SPARSE, NO_OVERWRITE_NEWER, NO_AUTODIR are not in the option sets',
    'archive_write_data is called once with exactly the declared size',
    'check_symlinks_fsobj: the theorems and the other programs use the component-level loop (Xtr.checkLoop) on cleaned paths; the literal '
    'string-index transcription (checkLoopIdx) is run next to it by the pathclean engine and must agree (equivalence is tested, not proved)',
    'extract_confined starts from a process that stands in a directory, holds no descriptor, and whose tree references only allocated inodes (C04.Start)',
]
TRUSTED = [
    'lean/LA/Model/FS.lean as a model of the kernel (assumption, continuously compared with the real tree)',
    'the canary digest of harness/xtr_tree.h (type, mode, nlink, size, mtime, ctime in ns, content, link target of everything under R outside R/target)',
]
MANIFEST = {
    'text': 'Lean model of cleanup_pathname_fsobj (in place, index reads), bsdtar strip_absolute_path, check_symlinks_fsobj, create_dir, '
            'create_filesystem_object, restore_entry, header/data/finish_entry and the close-time fix-up loop as programs over the system '
            'calls of an abstract POSIX tree.  Theorems: the cleanup loop equals its component-level meaning for all strings '
            '(sound / rejects / accepts / in place / no out-of-bounds read), strip_absolute_sound, check_symlinks_sound (after an OK check '
            'no component of the path is a symlink, kernel resolution of every prefix is the plain descent below the working directory), '
            'extract_confined: for EVERY finite entry sequence (all names, link targets, five kinds incl. hard links with a body, any order), EVERY initial tree '
            'and every option set with the SECURE flags (UNLINK/NO_OVERWRITE/SAFE_WRITES/PERM/TIME free, deferred fix-ups at close included) '
            'the tree outside the target, every inode without a name inside it and the link structure across the boundary are identical '
            'afterwards, cwd and umask unchanged (full strength, no exclusion).  refused_not_fatal, umask_cwd_restored.  Tie: the static C functions are called directly on exact-size heap strings under ASan; generated '
            'entry sequences run through the real archive_write_disk API and through bsdtar -x inside a canary tree; per-entry status, the '
            'resulting target tree and the canary digest are compared with the model.',
    'note': 'Two escapes found on the snapshot tree and repaired (fix: commits): fix-ups at close walked through a symlink planted in a leading '
            'directory ("d/." or an emptied parent); chmod() through a hard link to a symlink for hardlink entries carrying data.  '
            'Out: TOCTOU, ACL/xattr/fflags, paths >= PATH_MAX, non-root permission failures.',
    'technique': 'Lean 4 proof (induction over strings, programs over an abstract file tree, invariants) + model/C differential correspondence with a canary oracle',
}

SCR = os.path.join(core.OUT, 'scratch')


def hexs(s):
    return s.hex() if isinstance(s, bytes) else G.hx(s)


class PathClean(Engine):
    name = 'pathclean'
    repo_deps = ('libarchive/archive_write_disk_posix.c', 'tar/util.c')
    SYMS = ['', '.', '..', 'a', 'b', G.LONG, '..a', '...', 'ab']

    def build(self):
        d = gen_strip_inc()
        self.extra_cflags = ('-I', d)
        return Engine.build(self)

    def path(self, rng, maxc=6):
        n = rng.choice([0, 1, 1, 2, 2, 3, 3, 4, 5, maxc])
        w = [1, 2, 2, 4, 3, 0.4, 0.5, 0.5, 0.6]
        return '/'.join(rng.choices(self.SYMS, w, k=n)) if n else rng.choice(['', '/', '.', '..', '//'])

    def gen(self, rng, tier):
        ncase = 60 if tier == 'quick' else 1000
        for i in range(ncase):
            ops = []
            for _ in range(50):
                p = self.path(rng)
                if rng.random() < 0.15:
                    p = '/' + p
                fl = rng.choice(['1 1', '1 1', '0 0', '1 0', '0 1'])
                ops.append(f'clean {fl} {G.hx(p)}')
            yield Case(f'clean{i}', ops)
        for i in range(6 if tier == 'quick' else 200):
            ops = []
            for _ in range(50):
                pre = rng.choice(['', '/', '//', '\\', '//./', '//?/', '//?/UNC/', '\\\\?\\unc\\', 'c:', 'C:/', 'c:\\', 'c:d:/', '/../', '/./', '/..', '/.', 'z:/../', '//?/c:/', '1:/', 'c:'])
                ops.append(f'strip {G.hx(pre + self.path(rng, 3))}')
            yield Case(f'strip{i}', ops)
        if tier != 'quick':
            # all strings of <= 5 symbols over the 6-symbol alphabet, relative and absolute, secure flags
            import itertools
            al = ['', '.', '..', 'a', 'b', 'L' * 40]
            ops = []
            for n in range(0, 6):
                for t in itertools.product(al, repeat=n):
                    p = '/'.join(t)
                    ops.append(f'clean 1 1 {G.hx(p)}')
                    if len(ops) == 400:
                        yield Case('enum', ops); ops = []
            if ops:
                yield Case('enum', ops)
        # check_symlinks_fsobj on a planted tree
        for i in range(150 if tier == 'quick' else 2000):
            ops = []
            for _ in range(rng.choice([1, 2, 3, 4])):
                ops.append(G.rand_pre(rng))
            for _ in range(rng.choice([1, 2, 3])):
                p = G.clean_path(rng, 4) if rng.random() < 0.7 else G.rand_path(rng)
                ops.append(f'symcheck {rng.choice(["1", "1", "1", "0"])} {rng.choice("01")} {rng.choice("001")} {G.hx(p)}')
            yield Case(f'sym{i}', ops)

    def oracle(self, case, impl):
        for op, o in zip(case.ops, impl):
            w = op.split()
            if o.startswith('!'):
                return 'sanitizer abort or crash in ' + w[0]
            if w[0] == 'clean':
                src = bytes.fromhex(w[3]) if w[3] != '-' else b''
                if o.startswith('ok'):
                    q = bytes.fromhex(o.split()[1]) if o.split()[1] != '-' else b''
                    if len(q) > len(src):
                        return 'cleaned path longer than the input'
                    if w[1] == '1' and b'..' in q.split(b'/'):
                        return 'NODOTDOT: ".." component accepted'
                    if w[2] == '1' and q.startswith(b'/'):
                        return 'NOABSOLUTEPATHS: absolute path accepted'
                    if q != b'.' and q != b'/' and (b'' in q.lstrip(b'/').split(b'/') or b'.' in q.split(b'/')):
                        return 'result has an empty or "." component'
                elif o != 'failed':
                    return 'cleanup returned ' + o
            if w[0] == 'strip':
                src = bytes.fromhex(w[1]) if w[1] != '-' else b''
                k = int(o)
                if not 0 <= k <= len(src):
                    return 'strip_absolute_path result outside the string'
                r = src[k:]
                if r[:1] in (b'/', b'\\') or (len(r) > 1 and r[:1].isalpha() and r[1:2] == b':'):
                    return 'strip_absolute_path result still absolute'
            if w[0] == 'symcheck' and o != 'rejected':
                if 'canary=ok' not in o:
                    return 'check_symlinks_fsobj changed something outside the target'
                if 'env=ok' not in o:
                    return 'working directory changed'
                if o.startswith('fatal'):
                    return 'check_symlinks_fsobj returned FATAL'
        return None

    def nontrivial(self, case, impl):
        return any(o.startswith('failed') or 'rejected' in o for o in impl) and any(o.startswith('ok') for o in impl)

    def stats(self, cases, impl):
        st = {'clean': 0, 'clean_ok': 0, 'clean_failed': 0, 'strip': 0, 'strip_changed': 0, 'symcheck': 0, 'symcheck_failed': 0, 'symcheck_rejected': 0}
        for c, im in zip(cases, impl):
            for op, o in zip(c.ops, im):
                k = op.split()[0]
                if k in st:
                    st[k] += 1
                if k == 'clean':
                    st['clean_ok' if o.startswith('ok') else 'clean_failed'] += 1
                if k == 'strip' and o != '0':
                    st['strip_changed'] += 1
                if k == 'symcheck':
                    if o.startswith('failed'):
                        st['symcheck_failed'] += 1
                    if o == 'rejected':
                        st['symcheck_rejected'] += 1
        return st


class Xtr(Engine):
    name = 'xtr'
    keep_prefix = 0
    timeout = 3000

    def gen(self, rng, tier):
        n = 450 if tier == 'quick' else 4000
        for i in range(n):
            yield Case(f'seq{i}', G.sequence(rng, tier))
        if tier != 'quick':
            for j, ops in enumerate(G.exhaustive3([['time', 'perm'], ['unlink', 'time', 'perm', 'safewrites']])):
                yield Case(f'ex{j}', ops)

    def oracle(self, case, impl):
        for op, o in zip(case.ops, impl):
            w = op.split()
            if o.startswith('!'):
                return 'sanitizer abort or crash during ' + w[0]
            if w[0] == 'ent' and o != 'q':
                if 'fatal' in o:
                    return 'an entry was answered with ARCHIVE_FATAL: ' + o
                if 'env=ok' not in o:
                    return 'cwd or umask changed by a call: ' + o
            if w[0] == 'close' and not o.startswith('tar='):
                if 'fatal' in o or 'env=ok' not in o:
                    return 'close: ' + o
            if w[0] == 'close' and o.startswith('tar=') and not (o.startswith('tar=ok ') or o.startswith('tar=warn ')):
                return 'bsdtar did not finish normally: ' + o
            if w[0] == 'snap' and not o.endswith('canary=ok'):
                return 'an object outside the target directory changed: ' + o.split('|')[-1].strip()
        return None

    def nontrivial(self, case, impl):
        return any('h=failed' in o for o in impl) and any('h=ok' in o for o in impl) or any(o.startswith('tar=warn') for o in impl)

    def stats(self, cases, impl):
        st = {'entries': 0, 'h=ok': 0, 'h=failed': 0, 'h=warn': 0, 'kinds': {}, 'opts': {}, 'pre': 0, 'tar': {}}
        for c, im in zip(cases, impl):
            for op, o in zip(c.ops, im):
                w = op.split()
                if w[0] == 'ent':
                    st['entries'] += 1
                    st['kinds'][w[1]] = st['kinds'].get(w[1], 0) + 1
                    for k in ('h=ok', 'h=failed', 'h=warn'):
                        if o.startswith(k):
                            st[k] += 1
                elif w[0] == 'opts':
                    for x in w[1:]:
                        st['opts'][x] = st['opts'].get(x, 0) + 1
                elif w[0] == 'pre':
                    st['pre'] += 1
                elif w[0] == 'close' and o.startswith('tar='):
                    st['tar'][o.split()[0]] = st['tar'].get(o.split()[0], 0) + 1
        return st


class XtrTar(Xtr):
    name = 'xtrtar'
    harness = 'xtr'

    def build(self):
        d = core.ensure_lib(self.flavour, ('archive_static', 'bsdtar'))
        self.env = {'VERIF_BSDTAR': os.path.join(d, 'bin', 'bsdtar')}
        return Engine.build(self)

    def gen(self, rng, tier):
        n = 120 if tier == 'quick' else 1000
        for i in range(n):
            yield Case(f'tar{i}', ['mode tar'] + G.sequence(rng, tier))


class XtrDeep(Xtr):
    """Pathnames from PATH_MAX to 3*PATH_MAX (edit_deep_directories chdir()s into intermediate directories)."""
    name = 'xtrdeep'
    harness = 'xtr'
    DEEPMODE = 'deep'     # 'deepmon' = monitor only (predicate on the implementation's lines)

    def gen(self, rng, tier):
        n = 40 if tier == 'quick' else 600
        for i in range(n):
            yield Case(f'deep{i}', ['mode ' + self.DEEPMODE] + G.deep_sequence(rng))


ENGINES = [PathClean(), Xtr(), XtrTar(), XtrDeep()]
