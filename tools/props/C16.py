"""C16 — pattern and criteria matching follows its documented semantics safely."""
from lib.core import Engine, Case, ROOT
import os, re

PROP = 'C16'
PROPS_MODULES = ['LA.Props.C16']
GEN = []
ASSUMPTIONS = []
TRUSTED = []
MANIFEST = {'text': 'TODO', 'note': 'TODO', 'technique': 'TODO'}

# the quantifier's alphabet: * ? [ ] ! ^ - \ / . $ and letters
ALPHA = [ord(c) for c in '*?[]!^-\\/.$ab']
SMALL = [ord(c) for c in '*?[]!-\\/a']


def units(u):
    return ','.join('%x' % x for x in u) if u else '-'


def ustr(s):
    return units([ord(c) for c in s])


def rand_str(rng, alpha, maxlen):
    n = rng.choice([0, 1, 1, 2, 2, 3, 3, 4, 5, 6, 8, maxlen])
    return [rng.choice(alpha) for _ in range(min(n, maxlen))]


def rand_class(rng, alpha):
    """A syntactically closed class, biased to the borders pm_list() distinguishes."""
    body = []
    if rng.random() < 0.4:
        body.append(ord(rng.choice('!^')))
    for _ in range(rng.choice([0, 1, 1, 2, 3])):
        r = rng.random()
        if r < 0.35:
            a, b = rng.choice(alpha), rng.choice(alpha)
            body += [a, 45, b]
        elif r < 0.5:
            body += [92, rng.choice(alpha)]
        elif r < 0.6:
            body += [rng.choice(alpha), 45, 92, rng.choice(alpha)]
        elif r < 0.7:
            body.append(45)
        else:
            body.append(rng.choice(alpha))
    return [91] + body + [93]


def rand_pattern(rng, alpha, maxlen):
    """Structured pattern: literals, wildcards, classes, slashes, dot segments."""
    out = []
    if rng.random() < 0.15:
        out.append(94)
    if rng.random() < 0.15:
        out += [46, 47]
    while len(out) < maxlen and rng.random() < 0.85:
        r = rng.random()
        if r < 0.35:
            out.append(rng.choice([97, 98]))
        elif r < 0.5:
            out.append(42)
        elif r < 0.58:
            out.append(63)
        elif r < 0.75:
            out += rand_class(rng, alpha)
        elif r < 0.87:
            out += rng.choice([[47], [47, 47], [47, 46, 47], [47, 46]])
        elif r < 0.93:
            out += [92, rng.choice(alpha)]
        else:
            out.append(rng.choice(alpha))
    if rng.random() < 0.1:
        out.append(36)
    if rng.random() < 0.07:
        out.append(rng.choice([92, 91, 47]))
    return out[:maxlen + 4]


def rand_subject(rng, pat, alpha, maxlen):
    """Subjects near the pattern (a mutated instantiation) or free."""
    if rng.random() < 0.3:
        return rand_str(rng, alpha, maxlen)
    out = []
    i = 0
    lits = [97, 98, 47, 46]
    while i < len(pat):
        c = pat[i]
        if c == 42:
            out += [rng.choice(lits) for _ in range(rng.choice([0, 0, 1, 2, 3]))]
        elif c == 63:
            out.append(rng.choice(lits))
        elif c == 91 and 93 in pat[i + 1:]:
            j = pat.index(93, i + 1)
            body = [x for x in pat[i + 1:j] if x not in (33, 94, 92)]
            out.append(rng.choice(body + [97, 98]) if rng.random() < 0.8 else rng.choice(alpha))
            i = j
        elif c == 92 and i + 1 < len(pat):
            out.append(pat[i + 1]); i += 1
        elif c == 94 and i == 0:
            pass
        elif c == 36 and i == len(pat) - 1:
            pass
        else:
            out.append(c)
        i += 1
    r = rng.random()
    if r < 0.2 and out:
        out = out[:rng.randrange(len(out))]          # truncated: pattern longer than the pathname
    elif r < 0.3:
        out += rng.choice([[47], [47, 46], [47, 97], [97], [47, 47, 98, 47]])
    elif r < 0.4:
        out = rng.choice([[46, 47], [97, 47], [47], [98, 47, 97, 47]]) + out
    elif r < 0.45 and out:
        k = rng.randrange(len(out)); out[k] = rng.choice(alpha)
    return out[:maxlen + 6]


class Pm(Engine):
    name = 'pm'
    repo_deps = ('libarchive/archive_pathmatch.c', 'libarchive/archive_pathmatch.h')

    def corpus(self, prop):
        cs = super().corpus(prop)
        for c in cs:
            f = os.path.join(ROOT, 'corpus', prop, c.label.split(':', 1)[1][:-4] + '.expect')
            if os.path.exists(f):
                c.meta['expect'] = [l.strip() for l in open(f) if l.strip()]
        return cs

    def gen(self, rng, tier):
        n = 700 if tier == 'quick' else 30000
        for i in range(n):
            ops = []
            for _ in range(12):
                hi = rng.random() < 0.12
                alpha = ALPHA + ([0x80, 0xff, 0x7f, 1] if hi else [])
                if rng.random() < 0.25:
                    p = rand_str(rng, alpha, 12)
                else:
                    p = rand_pattern(rng, alpha, 12)
                s = rand_subject(rng, p, alpha, 12)
                f = rng.randrange(4)
                r = rng.random()
                if r < 0.8:
                    ops.append(f'match n {f} {units(p)} {units(s)}')
                    ops.append(f'match w {f} {units(p)} {units(s)}')
                elif r < 0.9:
                    ops.append(f'pm n {f} {units(p)} {units(s)}')
                    ops.append(f'pm w {f} {units(p)} {units(s)}')
                elif r < 0.97:
                    body = rand_class(rng, alpha)[1:-1]
                    c = rng.choice(alpha + [0])
                    # c = 0 cannot be written as a unit string; pm_list with c = NUL is exercised through `match`
                    c = c or 97
                    ops.append(f'list n {units(body)} {units([c])}')
                    ops.append(f'list w {units(body)} {units([c])}')
                else:
                    ops.append(f'skip n {units(s)}')
                    ops.append(f'skip w {units(s)}')
            if i % 50 == 0:
                # wide code units beyond a byte, incl. negative wchar_t
                big = [0x100, 0x7fffffff, 0x80000000, 0xffffffff, 0x3042]
                p = rand_pattern(rng, ALPHA + big, 10); s = rand_subject(rng, p, ALPHA + big, 10)
                ops.append(f'match w {rng.randrange(4)} {units(p)} {units(s)}')
            if i % 97 == 0:
                ops.append(f'match n {rng.randrange(4)} null {units(rand_str(rng, ALPHA, 3))}')
                ops.append(f'match w {rng.randrange(4)} {units(rand_str(rng, ALPHA, 3))} null')
                ops.append(f'match n {rng.randrange(4)} null null')
            yield Case(f'rand{i}', ops)
        # small-scope enumeration: every pattern up to a length against every subject up to a length
        if tier == 'quick':
            scopes = [(SMALL, 2, 3, 'nw')]
        else:
            scopes = [(SMALL, 4, 3, 'nw'), (ALPHA, 3, 3, 'nw')]
        for alpha, pmax, smax, variants in scopes:
            ops = []
            for p in all_strings(alpha, pmax):
                for v in variants:
                    for f in range(4):
                        ops.append(f'enum {v} {f} {units(alpha)} {smax} {units(p)}')
                        if len(ops) >= 64:
                            yield Case(f'enum{len(alpha)}', ops); ops = []
            if ops:
                yield Case(f'enum{len(alpha)}', ops)

    def oracle(self, case, impl):
        """No read outside the strings; narrow and wide agree on ASCII; upstream expectations."""
        for op, o in zip(case.ops, impl):
            if o == 'oob' or o.startswith('!'):
                return f'read outside the pattern/path strings (or abort): `{op}` -> {o}'
            if 'heap=' in o:
                return f'result depends on where the strings are placed: `{op}` -> {o}'
            m = re.search(r'oob=(\d+)', o)
            if m and int(m.group(1)):
                return f'read outside the strings for {m.group(1)} subjects: `{op}`'
        exp = case.meta.get('expect')
        if exp:
            for op, o, e in zip(case.ops, impl, exp):
                if o != e:
                    return f'upstream unit test expectation `{op}`: {e}, got {o}'
        seen = {}
        for op, o in zip(case.ops, impl):
            w = op.split()
            if len(w) < 3 or w[1] not in ('n', 'w'):
                continue
            us = [int(x, 16) for part in w[2:] if part not in ('null', '-') and re.fullmatch(r'[0-9a-f]+(,[0-9a-f]+)*', part)
                  and (',' in part or w[0] != 'enum' or part != w[4]) for x in part.split(',')]
            if w[0] in ('match', 'pm'):
                us = [int(x, 16) for part in w[3:] if part not in ('null', '-') for x in part.split(',')]
            if any(u >= 128 for u in us):
                continue
            key = (w[0],) + tuple(w[2:])
            if key in seen and seen[key] != o:
                return f'narrow and wide entry points disagree on `{w[0]} {" ".join(w[2:])}`: {seen[key]} vs {o}'
            seen[key] = o
        return None

    def nontrivial(self, case, impl):
        return any(o == 'r=1' or 'yes=' in o for o in impl)

    def stats(self, cases, impl):
        st = {'ops': {}, 'results': {}, 'pattern_has': {}, 'pattern_longer_than_subject': 0, 'class_last_in_pattern': 0,
              'enum_subject_evaluations': 0}
        for c, im in zip(cases, impl):
            for op, o in zip(c.ops, im):
                w = op.split()
                st['ops'][w[0] + ':' + w[1]] = st['ops'].get(w[0] + ':' + w[1], 0) + 1
                k = o.split(' ')[0] if not o.startswith('yes=') else 'digest'
                st['results'][k] = st['results'].get(k, 0) + 1
                if w[0] in ('match', 'pm') and w[3] not in ('null', '-'):
                    pu = [int(x, 16) for x in w[3].split(',')]
                    su = [] if w[4] in ('null', '-') else [int(x, 16) for x in w[4].split(',')]
                    for ch in set(pu):
                        if ch < 128 and chr(ch) in '*?[]!^-\\/.$':
                            st['pattern_has'][chr(ch)] = st['pattern_has'].get(chr(ch), 0) + 1
                    if len(pu) > len(su):
                        st['pattern_longer_than_subject'] += 1
                    if pu[-1] == 93 and 91 in pu:
                        st['class_last_in_pattern'] += 1
                if w[0] == 'enum':
                    a = len(w[3].split(',')); m = int(w[4])
                    st['enum_subject_evaluations'] += sum(a ** k for k in range(m + 1))
        return st


def all_strings(alpha, maxlen):
    out = [[]]
    layer = [[]]
    for _ in range(maxlen):
        layer = [x + [a] for x in layer for a in alpha]
        out += layer
    return out


ENGINES = [Pm()]
