"""C16 — pattern and criteria matching follows its documented semantics safely."""
from lib.core import Engine, Case, ROOT, LEAN, split_cases, BuildError
from concurrent.futures import ThreadPoolExecutor
import os, re, subprocess

PROP = 'C16'
PROPS_MODULES = ['LA.Props.C16']
GEN = ['MatchFlags']
ASSUMPTIONS = [
    'platform of the check: char is signed 8-bit, wchar_t signed 32-bit (the model\'s two comparison keys); the C locale of the '
    'harness is C.UTF-8 (wide strings handed to archive_match are converted with wcrtomb = UTF-8)',
    'malloc never fails (error_nomem paths of archive_match.c are not driven)',
    'the archive_entry getters return what was stored, up to the normalisation they print themselves (negative ids -> 0, '
    'nanoseconds folded into seconds): the model takes the entry\'s times and ids as the getters report them (C14\'s business)',
    'patterns and pathnames are NUL-terminated strings without embedded NUL (the C string invariant; the no-out-of-bounds theorems do not need it)',
]
TRUSTED = [
    'Lean model LA.Pm is a hand transcription of archive_pathmatch.c (pm_list, pm_slashskip, pm, __archive_pathmatch and the _w copies '
    'as one model parameterised by the comparison key), LA.Match of the decision logic of archive_match.c; tied to the C only by the '
    'differential engines pm / match',
    'guard-page placement + SIGSEGV handler + ASan as the detector of a read outside the strings on the real code',
    'flag bits and masks regenerated from archive.h / archive_pathmatch.h / archive_match.c by tools/lib/extract.py (Gen/MatchFlags.lean)',
]
MANIFEST = {
    'text': 'PROVED in Lean over LA.Pm, a model of archive_pathmatch.c in which every *ptr is an index read that can fail: for every pattern, '
            'pathname, flag set and start offsets the repaired matcher never reads beyond either terminator (pm_no_oob, matchAt_no_oob, '
            'pathmatch_no_oob; NULL pointers included) and therefore always answers yes/no; it terminates by construction (well-founded '
            'recursion, no fuel); the narrow and wide copies agree on all 7-bit strings (narrow_wide_agree) and provably differ beyond '
            '(witness); the code before the fix: commit does read past the end (unrepaired_reads_past_end, a[!b] vs a). Declarative facts: '
            '? (pm_question*), runs of * (pm_star, via the quirk that the rest must match before the terminator), literal patterns '
            '(pm_literal), unanchored start = some path element start (unanchored_start), ^, $, end of pattern with and without '
            'NO_ANCHOR_END (end_*), / runs, leading ./ of either side, and pm_spec_fragment: on patterns made of ordinary characters, ? and * '
            'against slash-free pathnames the matcher equals an independent inductive glob relation. PROVED over LA.Match (model of '
            'archive_match.c decision logic): exclusion_wins, inclusion_decides, directory_pattern_covers_children, '
            'unmatched_count_invariant and marks_after_query over every history of API calls, time_excluded_lex / file_rejects_lex '
            '(lexicographic (sec,nsec) order with the EQUAL bit, ctime falling back to mtime), owner_excluded_spec (binary search over '
            'the sorted id array = membership, for every history), excluded_is_disjunction, excludeEntry_last_wins / '
            'excludeEntry_others_kept (re-registering a pathname with archive_match_exclude_entry replaces the flag and all four '
            'time fields of its record and touches no other record). '
            'DIFFERENTIALLY CHECKED ONLY (no theorem): that the models are the C - engine pm runs __archive_pathmatch/_w, pm/pm_w, pm_list/_w, '
            'pm_slashskip/_w with both strings ending at a PROT_NONE page and again on exact-size heap copies under ASan/UBSan, engine match '
            'runs the real archive_match_* API (narrow and _w setters, path/time/owner/all verdicts, unmatched_inclusions and its _next '
            'iterator, exclude_entry records incl. a systematic re-registration family) against the models on random structured cases over the alphabet * ? [ ] ! ^ - \\ / . $ a b '
            '(to length 12+), the 159 assertions of the upstream unit test, and in the thorough tier an exhaustive enumeration of all '
            'patterns <= 5 over 9 symbols x all pathnames <= 3 x 4 flag sets x both variants and all patterns <= 4 over the 13-symbol '
            'alphabet x all pathnames <= 3 (1.0e9 evaluations, digests compared). A full declarative specification of classes, / '
            'normalisation and the * re-entry through __archive_pathmatch is not proved (only the lemmas listed).',
    'note': 'Two defects repaired in the repo worktree: (1) fix: pm()/pm_w() let a [...] class match the terminating NUL and read past the '
            'pathname (found in round 0, reproduced through the pm engine, witness in corpus/C16/pm.class-at-nul.ops); (2) fix: '
            'archive_match_free leaked the error string after any failed call (found by LSan through the match engine). Not modelled: '
            '*_pattern_from_file, include_date (date parser), include_file_time (stat), Windows paths, allocation failure; pm_list with '
            'c = NUL is reached only through match/pm ops. Wide strings beyond the BMP / invalid code points and undecodable narrow '
            'bytes read back through the _w iterator are left to the locale layer (C18).',
    'technique': 'Lean 4 proof (mutual well-founded recursion + functional induction over a memory-faithful index model, invariants over '
                 'call histories) + model/C differential correspondence with guard pages, ASan and exhaustive small-scope enumeration',
}

# the quantifier's alphabet: * ? [ ] ! ^ - \ / . $ and letters
ALPHA = [ord(c) for c in '*?[]!^-\\/.$ab']
SMALL = [ord(c) for c in '*?[]!-\\/a']


def units(u):
    return ','.join('%x' % x for x in u) if u else '-'


def ustr(s):
    return units([ord(c) for c in s])


def rand_str(rng, alpha, maxlen):
    n = rng.choice([0, 1, 1, 2, 2, 3, 3, 4, 5, 6, 8, maxlen])
    return [rng.choice(alpha) for _ in range(min(n, maxlen))]


def rand_class(rng, alpha):
    """A syntactically closed class, biased to the borders pm_list() distinguishes."""
    body = []
    if rng.random() < 0.4:
        body.append(ord(rng.choice('!^')))
    for _ in range(rng.choice([0, 1, 1, 2, 3])):
        r = rng.random()
        if r < 0.35:
            a, b = rng.choice(alpha), rng.choice(alpha)
            body += [a, 45, b]
        elif r < 0.5:
            body += [92, rng.choice(alpha)]
        elif r < 0.6:
            body += [rng.choice(alpha), 45, 92, rng.choice(alpha)]
        elif r < 0.7:
            body.append(45)
        else:
            body.append(rng.choice(alpha))
    return [91] + body + [93]


def rand_pattern(rng, alpha, maxlen):
    """Structured pattern: literals, wildcards, classes, slashes, dot segments."""
    out = []
    if rng.random() < 0.15:
        out.append(94)
    if rng.random() < 0.15:
        out += [46, 47]
    while len(out) < maxlen and rng.random() < 0.85:
        r = rng.random()
        if r < 0.35:
            out.append(rng.choice([97, 98]))
        elif r < 0.5:
            out.append(42)
        elif r < 0.58:
            out.append(63)
        elif r < 0.75:
            out += rand_class(rng, alpha)
        elif r < 0.87:
            out += rng.choice([[47], [47, 47], [47, 46, 47], [47, 46]])
        elif r < 0.93:
            out += [92, rng.choice(alpha)]
        else:
            out.append(rng.choice(alpha))
    if rng.random() < 0.1:
        out.append(36)
    if rng.random() < 0.07:
        out.append(rng.choice([92, 91, 47]))
    return out[:maxlen + 4]


def rand_subject(rng, pat, alpha, maxlen):
    """Subjects near the pattern (a mutated instantiation) or free."""
    if rng.random() < 0.3:
        return rand_str(rng, alpha, maxlen)
    out = []
    i = 0
    lits = [97, 98, 47, 46]
    while i < len(pat):
        c = pat[i]
        if c == 42:
            out += [rng.choice(lits) for _ in range(rng.choice([0, 0, 1, 2, 3]))]
        elif c == 63:
            out.append(rng.choice(lits))
        elif c == 91 and 93 in pat[i + 1:]:
            j = pat.index(93, i + 1)
            body = [x for x in pat[i + 1:j] if x not in (33, 94, 92)]
            out.append(rng.choice(body + [97, 98]) if rng.random() < 0.8 else rng.choice(alpha))
            i = j
        elif c == 92 and i + 1 < len(pat):
            out.append(pat[i + 1]); i += 1
        elif c == 94 and i == 0:
            pass
        elif c == 36 and i == len(pat) - 1:
            pass
        else:
            out.append(c)
        i += 1
    r = rng.random()
    if r < 0.2 and out:
        out = out[:rng.randrange(len(out))]          # truncated: pattern longer than the pathname
    elif r < 0.3:
        out += rng.choice([[47], [47, 46], [47, 97], [97], [47, 47, 98, 47]])
    elif r < 0.4:
        out = rng.choice([[46, 47], [97, 47], [47], [98, 47, 97, 47]]) + out
    elif r < 0.45 and out:
        k = rng.randrange(len(out)); out[k] = rng.choice(alpha)
    return out[:maxlen + 6]


class Par(Engine):
    """Runs big case lists in several harness / driver processes at once (thorough tier)."""
    workers = 8
    par_threshold = 1500

    def _chunks(self, cases):
        k = max(1, min(self.workers * 4, len(cases) // 200))
        n = (len(cases) + k - 1) // k
        return [cases[i:i + n] for i in range(0, len(cases), n)]

    def run_impl(self, exe, cases):
        if len(cases) < self.par_threshold:
            return super().run_impl(exe, cases)
        env = dict(os.environ)
        env.setdefault('ASAN_OPTIONS', 'detect_leaks=1:abort_on_error=0:exitcode=99:allocator_may_return_null=1')
        env.setdefault('UBSAN_OPTIONS', 'print_stacktrace=1:halt_on_error=1')
        env['LC_ALL'] = env['LANG'] = 'C.UTF-8'

        def one(ch):
            text = ''.join(f'#case {i}\n' + ''.join(o + '\n' for o in c.ops) for i, c in enumerate(ch))
            r = subprocess.run([exe], input=text, stdout=subprocess.PIPE, stderr=subprocess.PIPE, text=True, env=env,
                               timeout=self.timeout, errors='replace')
            return split_cases(r.stdout, len(ch)), r.stderr[-4000:]
        with ThreadPoolExecutor(self.workers) as ex:
            res = list(ex.map(one, self._chunks(cases)))
        return [x for r, _ in res for x in r], ''.join(e for _, e in res)[-8000:]

    def run_model(self, cases, impl):
        if len(cases) < self.par_threshold:
            return super().run_model(cases, impl)
        drv = os.path.join(LEAN, '.lake', 'build', 'bin', 'driver')
        chunks, pos, jobs = self._chunks(cases), 0, []
        for ch in chunks:
            jobs.append((ch, impl[pos:pos + len(ch)])); pos += len(ch)

        def one(job):
            ch, im = job
            lines = []
            for i, c in enumerate(ch):
                lines.append(f'#case {i}')
                obs = im[i] if i < len(im) else []
                for j, o in enumerate(c.ops):
                    lines.append(o + '\t' + (obs[j] if j < len(obs) else ''))
            r = subprocess.run([drv, self.name], input='\n'.join(lines) + '\n', stdout=subprocess.PIPE,
                               stderr=subprocess.PIPE, text=True, timeout=self.timeout)
            if r.returncode != 0:
                raise BuildError('model driver failed: ' + r.stderr[-2000:])
            return split_cases(r.stdout, len(ch))
        with ThreadPoolExecutor(self.workers) as ex:
            res = list(ex.map(one, jobs))
        return [x for r in res for x in r]


class Pm(Par):
    name = 'pm'
    repo_deps = ('libarchive/archive_pathmatch.c', 'libarchive/archive_pathmatch.h')

    def corpus(self, prop):
        cs = super().corpus(prop)
        for c in cs:
            f = os.path.join(ROOT, 'corpus', prop, c.label.split(':', 1)[1][:-4] + '.expect')
            if os.path.exists(f):
                c.meta['expect'] = [l.strip() for l in open(f) if l.strip()]
        return cs

    def gen(self, rng, tier):
        n = 1500 if tier == 'quick' else 30000
        for i in range(n):
            ops = []
            for _ in range(12):
                hi = rng.random() < 0.12
                alpha = ALPHA + ([0x80, 0xff, 0x7f, 1] if hi else [])
                if rng.random() < 0.25:
                    p = rand_str(rng, alpha, 12)
                else:
                    p = rand_pattern(rng, alpha, 12)
                s = rand_subject(rng, p, alpha, 12)
                f = rng.randrange(4)
                r = rng.random()
                if r < 0.8:
                    ops.append(f'match n {f} {units(p)} {units(s)}')
                    ops.append(f'match w {f} {units(p)} {units(s)}')
                elif r < 0.9:
                    ops.append(f'pm n {f} {units(p)} {units(s)}')
                    ops.append(f'pm w {f} {units(p)} {units(s)}')
                elif r < 0.97:
                    body = rand_class(rng, alpha)[1:-1]
                    c = rng.choice(alpha + [0])
                    # c = 0 cannot be written as a unit string; pm_list with c = NUL is exercised through `match`
                    c = c or 97
                    ops.append(f'list n {units(body)} {units([c])}')
                    ops.append(f'list w {units(body)} {units([c])}')
                else:
                    ops.append(f'skip n {units(s)}')
                    ops.append(f'skip w {units(s)}')
            if i % 50 == 0:
                # wide code units beyond a byte, incl. negative wchar_t
                big = [0x100, 0x7fffffff, 0x80000000, 0xffffffff, 0x3042]
                p = rand_pattern(rng, ALPHA + big, 10); s = rand_subject(rng, p, ALPHA + big, 10)
                ops.append(f'match w {rng.randrange(4)} {units(p)} {units(s)}')
            if i % 97 == 0:
                ops.append(f'match n {rng.randrange(4)} null {units(rand_str(rng, ALPHA, 3))}')
                ops.append(f'match w {rng.randrange(4)} {units(rand_str(rng, ALPHA, 3))} null')
                ops.append(f'match n {rng.randrange(4)} null null')
            yield Case(f'rand{i}', ops)
        # small-scope enumeration: every pattern up to a length against every subject up to a length
        if tier == 'quick':
            scopes = [(SMALL, 2, 3, 'nw'), (ALPHA, 2, 2, 'n')]
        else:
            # 9 symbols: 66 430 patterns x 820 subjects x 4 flag sets x 2 variants = 436 M evaluations;
            # 13 symbols: 30 941 patterns x 2 380 subjects x 4 x 2 = 589 M
            scopes = [(SMALL, 5, 3, 'nw'), (ALPHA, 4, 3, 'nw')]
        for alpha, pmax, smax, variants in scopes:
            ops = []
            for p in all_strings(alpha, pmax):
                for v in variants:
                    for f in range(4):
                        ops.append(f'enum {v} {f} {units(alpha)} {smax} {units(p)}')
                        if len(ops) >= 64:
                            yield Case(f'enum{len(alpha)}', ops); ops = []
            if ops:
                yield Case(f'enum{len(alpha)}', ops)

    def oracle(self, case, impl):
        """No read outside the strings; narrow and wide agree on ASCII; upstream expectations."""
        for op, o in zip(case.ops, impl):
            if o == 'oob' or o.startswith('!'):
                return f'read outside the pattern/path strings (or abort): `{op}` -> {o}'
            if 'heap=' in o:
                return f'result depends on where the strings are placed: `{op}` -> {o}'
            m = re.search(r'oob=(\d+)', o)
            if m and int(m.group(1)):
                return f'read outside the strings for {m.group(1)} subjects: `{op}`'
        exp = case.meta.get('expect')
        if exp:
            for op, o, e in zip(case.ops, impl, exp):
                if o != e:
                    return f'upstream unit test expectation `{op}`: {e}, got {o}'
        seen = {}
        for op, o in zip(case.ops, impl):
            w = op.split()
            if len(w) < 3 or w[1] not in ('n', 'w'):
                continue
            us = [int(x, 16) for part in w[2:] if part not in ('null', '-') and re.fullmatch(r'[0-9a-f]+(,[0-9a-f]+)*', part)
                  and (',' in part or w[0] != 'enum' or part != w[4]) for x in part.split(',')]
            if w[0] in ('match', 'pm'):
                us = [int(x, 16) for part in w[3:] if part not in ('null', '-') for x in part.split(',')]
            if any(u >= 128 for u in us):
                continue
            key = (w[0],) + tuple(w[2:])
            if key in seen and seen[key] != o:
                return f'narrow and wide entry points disagree on `{w[0]} {" ".join(w[2:])}`: {seen[key]} vs {o}'
            seen[key] = o
        return None

    def nontrivial(self, case, impl):
        return any(o == 'r=1' or 'yes=' in o for o in impl)

    def stats(self, cases, impl):
        st = {'ops': {}, 'results': {}, 'pattern_has': {}, 'pattern_longer_than_subject': 0, 'class_last_in_pattern': 0,
              'enum_subject_evaluations': 0}
        for c, im in zip(cases, impl):
            for op, o in zip(c.ops, im):
                w = op.split()
                st['ops'][w[0] + ':' + w[1]] = st['ops'].get(w[0] + ':' + w[1], 0) + 1
                k = o.split(' ')[0] if not o.startswith('yes=') else 'digest'
                st['results'][k] = st['results'].get(k, 0) + 1
                if w[0] in ('match', 'pm') and w[3] not in ('null', '-'):
                    pu = [int(x, 16) for x in w[3].split(',')]
                    su = [] if w[4] in ('null', '-') else [int(x, 16) for x in w[4].split(',')]
                    for ch in set(pu):
                        if ch < 128 and chr(ch) in '*?[]!^-\\/.$':
                            st['pattern_has'][chr(ch)] = st['pattern_has'].get(chr(ch), 0) + 1
                    if len(pu) > len(su):
                        st['pattern_longer_than_subject'] += 1
                    if pu[-1] == 93 and 91 in pu:
                        st['class_last_in_pattern'] += 1
                if w[0] == 'enum':
                    a = len(w[3].split(',')); m = int(w[4])
                    st['enum_subject_evaluations'] += sum(a ** k for k in range(m + 1))
        return st


MT, CT, NEWER, OLDER, EQUAL = 0x100, 0x200, 1, 2, 0x10
NAMES = ['a', 'b', 'ab', 'dir', 'x.c', 'sub']


def rand_path(rng):
    n = rng.choice([1, 1, 2, 2, 3, 4])
    parts = [rng.choice(NAMES) for _ in range(n)]
    s = '/'.join(parts)
    r = rng.random()
    if r < 0.1:
        s = './' + s
    elif r < 0.15:
        s = '/' + s
    elif r < 0.2:
        s += '/'
    return s


def pat_for(rng, path):
    """A pattern related to a path: the path, a prefix directory, a component, or with wildcards."""
    parts = [x for x in path.split('/') if x not in ('', '.')]
    r = rng.random()
    if not parts or r < 0.15:
        return units(rand_pattern(rng, ALPHA, 8)) if rng.random() < 0.7 else ustr(rng.choice(NAMES))
    if r < 0.35:
        return ustr('/'.join(parts[:rng.randrange(1, len(parts) + 1)]))
    if r < 0.5:
        return ustr('/'.join(parts[:rng.randrange(1, len(parts) + 1)]) + '/')
    if r < 0.65:
        return ustr(rng.choice(parts))
    if r < 0.75:
        return ustr('*' + rng.choice(parts)[-1:])
    if r < 0.85:
        k = rng.randrange(len(parts)); q = list(parts); q[k] = q[k][:1] + '*'
        return ustr('/'.join(q))
    if r < 0.92:
        return ustr('^' + parts[0])
    return ustr(parts[-1] + '$')


class Match(Par):
    name = 'match'

    def entry_op(self, rng, path=None, ref=None, owners=None):
        v = 'w' if rng.random() < 0.2 else 'n'
        if path is None:
            path = rand_path(rng)
        pu = 'null' if path == 'NULL' else ustr(path)
        if ref:
            rs, rn = ref
            ms = rs + rng.choice([-1, 0, 0, 0, 1]); mn = min(max(rn + rng.choice([-1, 0, 0, 1]), 0), 999999999)
            cs = rs + rng.choice([-1, 0, 0, 0, 1]); cn = min(max(rn + rng.choice([-1, 0, 0, 1]), 0), 999999999)
        else:
            ms, mn, cs, cn = rng.choice([0, 5, 10**9, -3]), rng.choice([0, 1, 999999999, -1, 10**9]), rng.choice([0, 5, -3]), rng.choice([0, 7])
        cset = 1 if rng.random() < 0.7 else 0
        uid, gid = (rng.choice(owners[0] + [0, 7, -1]), rng.choice(owners[1] + [0, 7])) if owners else (rng.choice([0, 1, 1000]), rng.choice([0, 1, 100]))
        un = rng.choice(['null', '-'] + [ustr(x) for x in (owners[2] if owners else []) + ['root', 'u1']])
        gn = rng.choice(['null', '-'] + [ustr(x) for x in (owners[3] if owners else []) + ['wheel', 'g1']])
        return f'entry {v} {pu} {ms} {mn} {cset} {cs} {cn} {uid} {gid} {un} {gn}'

    def gen(self, rng, tier):
        n = 1200 if tier == 'quick' else 20000
        for i in range(n):
            ops = []
            kind = rng.choice(['path', 'path', 'path', 'time', 'time', 'exent', 'owner', 'all'])
            paths = [rand_path(rng) for _ in range(rng.choice([1, 2, 4]))]
            ref = owners = None
            if kind in ('path', 'all'):
                if rng.random() < 0.25:
                    ops.append(f'recursion {rng.choice([0, 1])}')
                for _ in range(rng.choice([0, 1, 2, 3, 5])):
                    v = 'w' if rng.random() < 0.3 else 'n'
                    ops.append(f'incl {v} {pat_for(rng, rng.choice(paths))}')
                for _ in range(rng.choice([0, 0, 1, 2])):
                    v = 'w' if rng.random() < 0.3 else 'n'
                    ops.append(f'excl {v} {pat_for(rng, rng.choice(paths))}')
                if rng.random() < 0.05:
                    ops.append(f'incl n {rng.choice(["null", "-", ustr("/"), "c3,a9", "80,2f"])}')
                if rng.random() < 0.05:
                    ops.append(f'incl w {rng.choice(["e9,2f,61", "3042", "-", "null"])}')
            if kind in ('time', 'all'):
                ref = (rng.choice([0, 100, -5, 2**31]), rng.choice([0, 500, 999999999]))
                for _ in range(rng.choice([1, 1, 2, 3])):
                    fl = rng.choice([MT, CT, MT | CT]) | rng.choice([NEWER, OLDER, EQUAL, NEWER | EQUAL, OLDER | EQUAL, NEWER | OLDER, NEWER | OLDER | EQUAL])
                    r = rng.random()
                    if r < 0.06:
                        fl = rng.choice([0, MT, NEWER, MT | 4, 0x400 | NEWER, MT | NEWER | 0x10000, MT | 0x20, 0x800 | MT | NEWER])
                    ops.append(f'time {fl} {ref[0] + rng.choice([0, 0, 1, -1])} {ref[1] + rng.choice([0, 0, 1, -1, 10**9])}')
                if rng.random() < 0.4:
                    for _ in range(rng.choice([1, 2])):
                        ops.append(self.entry_op(rng, rng.choice(paths + ['NULL'] if rng.random() < 0.1 else paths), ref))
                        fl = rng.choice([MT, CT, MT | CT]) | rng.choice([NEWER, OLDER, EQUAL, NEWER | EQUAL, OLDER | EQUAL, NEWER | OLDER | EQUAL])
                        if rng.random() < 0.05:
                            fl = rng.choice([0, MT, EQUAL])
                        ops.append(f'exent {fl}')
            if kind == 'exent':
                # per-pathname records only: every (flag, relation) combination around one reference time
                ref = (rng.choice([0, 100, -5]), rng.choice([0, 500, 999999999]))
                for pth in paths:
                    ops.append(self.entry_op(rng, pth, ref))
                    fl = rng.choice([MT, CT, MT | CT]) | rng.choice([NEWER, OLDER, EQUAL, NEWER | EQUAL, OLDER | EQUAL, NEWER | OLDER, NEWER | OLDER | EQUAL])
                    ops.append(f'exent {fl}')
                if rng.random() < 0.3:      # overwrite one record
                    ops.append(self.entry_op(rng, rng.choice(paths), ref))
                    ops.append(f'exent {rng.choice([MT, CT]) | rng.choice([NEWER, OLDER, EQUAL])}')
            if kind in ('owner', 'all'):
                owners = ([rng.choice([0, 5, 1000, -1, 2**40, 17, 18, 19, 3, 4]) for _ in range(rng.choice([0, 1, 3, 9, 20]))],
                          [rng.choice([0, 5, 100]) for _ in range(rng.choice([0, 0, 1, 2]))],
                          [rng.choice(['root', 'alice', 'bob']) for _ in range(rng.choice([0, 0, 1, 2]))],
                          [rng.choice(['wheel', 'staff']) for _ in range(rng.choice([0, 0, 1]))])
                for x in owners[0]:
                    ops.append(f'uid {x}')
                for x in owners[1]:
                    ops.append(f'gid {x}')
                for x in owners[2]:
                    ops.append(f'uname {rng.choice("nw")} {ustr(x)}')
                for x in owners[3]:
                    ops.append(f'gname {rng.choice("nw")} {ustr(x)}')
                if rng.random() < 0.05:
                    ops.append('uname n -')
            for _ in range(rng.choice([1, 2, 4, 8])):
                path = rng.choice(paths) if rng.random() < 0.7 else rand_path(rng)
                if rng.random() < 0.3:
                    path = path + '/' + rng.choice(NAMES)      # something below a named directory
                if rng.random() < 0.03:
                    path = 'NULL'
                ops.append(self.entry_op(rng, path, ref, owners))
                q = {'path': 'path', 'time': 'time', 'exent': 'time', 'owner': 'owner', 'all': 'all'}[kind]
                if rng.random() < 0.15:
                    q = rng.choice(['path', 'time', 'owner', 'all'])
                ops.append('q ' + q)
                if kind in ('path', 'all') and rng.random() < 0.5:
                    ops.append('unmatched')
                if kind in ('path', 'all') and rng.random() < 0.08:
                    ops.append(f'incl n {pat_for(rng, rng.choice(paths))}')
            if kind in ('path', 'all'):
                ops.append('unmatched')
                v = rng.choice('nw')
                if any(o.startswith('incl n') and any(int(x, 16) >= 128 for x in o.split()[2].split(',') if x not in ('null', '-')) for o in ops):
                    v = 'n'     # wide read-back of undecodable bytes is the locale's business
                for _ in range(rng.choice([0, 2, 8])):
                    ops.append(f'unext {v}')
                    if rng.random() < 0.1:
                        ops.append(self.entry_op(rng, rng.choice(paths)))
                        ops.append('q path')
            yield Case(f'{kind}{i}', ops)
        # re-registration of a pathname with archive_match_exclude_entry: each of the four stored fields (mtime and
        # ctime, seconds and nanoseconds) must come from the second registration; the probes sit between all the
        # values either registration could have left behind, for every time field and relation
        def ent(ms, mn, cs, cn):
            return f'entry n {ustr("f")} {ms} {mn} 1 {cs} {cn} 0 0 null null'
        regs = [((50, 100, 60, 200), (100, 500, 100, 900)), ((100, 700, 100, 300), (100, 500, 100, 900)),
                ((100, 900, 100, 500), (100, 300, 100, 700)), ((100, 500, 100, 900), (50, 100, 60, 200))]
        for k, (first, second) in enumerate(regs):
            for tf in (MT, CT, MT | CT):
                for rel in (NEWER, OLDER, EQUAL, NEWER | EQUAL):
                    ops = [ent(*first), f'exent {tf | rel}', ent(*second), f'exent {tf | rel}']
                    secs = sorted({first[0], first[2], second[0], second[2]})
                    nss = sorted({first[1], first[3], second[1], second[3]})
                    nss = sorted(set(nss + [x - 50 for x in nss] + [x + 50 for x in nss]))
                    for sec in secs:
                        for ns in nss:
                            ops += [ent(sec, ns, sec, ns), 'q time']
                            ops += [ent(sec, ns, secs[0], nss[0]), 'q time', ent(secs[-1], nss[-1], sec, ns), 'q all']
                    yield Case(f'reregister{k}-{tf}-{rel}', ops)

    # -- the property, evaluated on the implementation's own answers ------------------------------
    def oracle(self, case, impl):
        incl = excl_lit = 0
        excl_literals = set()
        filters = {}            # ('newer'|'older', 'm'|'c') -> (flag, sec, nsec)
        have_exent = False
        uids, gids, unames, gnames = set(), set(), [], []
        ent = None
        last_n = None
        for op, o in zip(case.ops, impl):
            w = op.split()
            if o.startswith('!'):
                return f'abort in `{op}`: {o}'
            if w[0] == 'incl' and o == 'ok':
                incl += 1; last_n = None
            elif w[0] == 'excl' and o == 'ok':
                u = [] if w[2] == '-' else [int(x, 16) for x in w[2].split(',')]
                if u and all(chr(x).isalnum() for x in u if x < 128) and all(x < 128 for x in u):
                    excl_literals.add(''.join(map(chr, u)))
            elif w[0] == 'time' and o == 'ok':
                fl, s, ns = int(w[1]), int(w[2]), int(w[3])
                je = (fl & (EQUAL | NEWER | OLDER)) == EQUAL
                for bit, k in ((MT, 'm'), (CT, 'c')):
                    if fl & bit:
                        if fl & NEWER or je:
                            filters[('newer', k)] = (fl, s, ns)
                        if fl & OLDER or je:
                            filters[('older', k)] = (fl, s, ns)
            elif w[0] == 'exent' and o == 'ok':
                have_exent = True
            elif w[0] == 'uid' and o == 'ok':
                uids.add(int(w[1]))
            elif w[0] == 'gid' and o == 'ok':
                gids.add(int(w[1]))
            elif w[0] == 'uname' and o == 'ok':
                unames.append(w[2])
            elif w[0] == 'gname' and o == 'ok':
                gnames.append(w[2])
            elif w[0] == 'entry':
                ob = o.split()
                if len(ob) != 8:
                    return f'entry op answered {o}'
                # times/ids as the entry object reports them
                ent = w[:3] + ob[1:6] + ob[6:8] + w[10:12]
            elif w[0] == 'unmatched':
                k = int(o[2:])
                if k < 0 or k > incl:
                    return f'unmatched inclusion count {k} outside 0..{incl}'
                if last_n is not None and k > last_n:
                    return f'unmatched inclusion count grew from {last_n} to {k} without a new inclusion'
                last_n = k
            elif w[0] == 'q':
                if o not in ('r=0', 'r=1'):
                    return f'verdict {o} is not 0/1'
                r = int(o[2:])
                if w[1] in ('path', 'all') and ent and ent[2] not in ('null', '-'):
                    path = ''.join(chr(int(x, 16)) for x in ent[2].split(','))
                    comps = [c for c in path.split('/') if c]
                    if r == 0 and any(c in excl_literals for c in comps):
                        return f'exclusions must win: path {path!r} has a component that is an exclusion pattern, verdict {o}'
                if w[1] == 'time' and ent and not have_exent:
                    want = self.time_spec(filters, ent)
                    if want != r:
                        return f'time criteria are not the lexicographic (sec,nsec) order: filters {filters}, entry {ent[3:8]}: got {r}, expected {want}'
                if w[1] == 'owner' and ent:
                    want = self.owner_spec(uids, gids, unames, gnames, ent)
                    if want != r:
                        return f'owner criteria: uids {sorted(uids)} gids {sorted(gids)} unames {unames} gnames {gnames} entry {ent[8:]}: got {r}, expected {want}'
        return None

    @staticmethod
    def time_spec(filters, ent):
        m = (int(ent[3]), int(ent[4]))
        c = (int(ent[6]), int(ent[7])) if ent[5] != '0' else m
        for (kind, which), (fl, s, ns) in filters.items():
            t = m if which == 'm' else c
            ref = (s, ns)
            if t == ref:
                if not fl & EQUAL:
                    return 1
            elif kind == 'newer' and t < ref:
                return 1
            elif kind == 'older' and t > ref:
                return 1
        return 0

    @staticmethod
    def owner_spec(uids, gids, unames, gnames, ent):
        if uids and int(ent[8]) not in uids:
            return 1
        if gids and int(ent[9]) not in gids:
            return 1
        if unames and (ent[10] in ('null', '-') or ent[10] not in unames):
            return 1
        if gnames and (ent[11] in ('null', '-') or ent[11] not in gnames):
            return 1
        return 0

    def nontrivial(self, case, impl):
        return any(o == 'r=1' for o in impl) and any(o == 'r=0' for o in impl)

    def stats(self, cases, impl):
        st = {'ops': {}, 'verdicts': {}, 'status': {}, 'unext': {}}
        for c, im in zip(cases, impl):
            q = None
            for op, o in zip(c.ops, im):
                k = op.split()[0]
                st['ops'][k] = st['ops'].get(k, 0) + 1
                if k == 'q':
                    key = op.split()[1] + ':' + o
                    st['verdicts'][key] = st['verdicts'].get(key, 0) + 1
                elif k == 'unext':
                    kk = o.split(' ')[0]
                    st['unext'][kk] = st['unext'].get(kk, 0) + 1
                elif o in ('ok', 'failed'):
                    st['status'][k + ':' + o] = st['status'].get(k + ':' + o, 0) + 1
        return st



def all_strings(alpha, maxlen):
    out = [[]]
    layer = [[]]
    for _ in range(maxlen):
        layer = [x + [a] for x in layer for a in alpha]
        out += layer
    return out


ENGINES = [Pm(), Match()]
