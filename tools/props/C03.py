"""C03 — filter (compression/encoding) round trip is the identity."""
from lib.core import Engine, Case
import re

PROP = 'C03'
PROPS_MODULES = ['LA.Props.C03']
GEN = ['Limits', 'UuTables']
ASSUMPTIONS = [
    'zlib, libbz2, liblzma, libzstd, liblz4 and libarchive\'s own LZW (compress) are parameters: decode(encode x) = x, '
    'streaming output independent of input chunking, self-delimiting streams (inflate (deflate x ++ r) = (x, r)); '
    'the streaming laws are LA.Drive.Lawful; spot-checked against the real libraries by every flt case, not proved',
    'malloc never fails',
    'uu/b64 theorems: bytes are < 256; the name option is non-empty printable ASCII (0x20..0x7e) and the "begin" line '
    'fits UUENCODE_MAX_LINE_LENGTH (NameOk); the first window uudecode_filter_read sees reaches beyond the "begin" line '
    '(the bidder has buffered at least that line and the next one by then; a window that ends exactly after the "begin" '
    'line with nothing decoded makes the filter return 0 = end of data)',
    'every window handed out by __archive_read_filter_ahead is a prefix of the unconsumed stream at least as long as '
    'requested and does not shrink while nothing is consumed (LA.C05.window_is_stream_prefix); the read-side theorems '
    'quantify over all such window sequences',
    'the gzip reader model looks at the whole remaining stream at once (optional header fields longer than '
    'MAX_FILENAME_LENGTH / MAX_COMMENT_LENGTH are rejected by the C depending on the window; not modelled)',
]
TRUSTED = ['for codec-backed filters the Lean side predicts only the identity law (decoded = original, same filter '
           'codes in the same order); the compressed bytes themselves are copied from the implementation\'s line',
           'lz4 frame/block framing and xz/lzip/zstd/bzip2 framing are not modelled (identity differential only)',
           'the read filter\'s four lookup tables and the base64 alphabet are used through closed forms; theorems '
           'cls_table, uuchar_table, b64ok_table, b64num_table, ch_table (re-checked on every build) state that the '
           'tables extracted from the C are exactly these closed forms',
           'harness probe psig: "some read bidder claims the plain payload" is decided by running the real bidders']
MANIFEST = {
    'text': 'partial: Lean theorems over byte-exact models of the two encoders libarchive implements itself and of '
            'their common read filter (archive_write_add_filter_uuencode.c, _b64encode.c, '
            'archive_read_support_filter_uu.c; LBYTES, alphabet, lookup tables, limits, begin/trailer literals '
            'extracted from the C): the written stream does not depend on how the input is cut into writes nor on '
            'bytes_per_block (hold buffer + bs flush loop: uu_/b64_encode_chunking_independent), lines are at most '
            '61+1 / 76+1 bytes, the read bidder recognises the output for every behaviour of the read-ahead window '
            '(bidder_recognises_own_output, incl. the empty file), and uudecode returns exactly the input for every '
            'chunking of the writes and every sequence of read windows (uu_roundtrip, b64_roundtrip). '
            'drive_loop_complete: the avail_in/avail_out driver shared by the gzip/bzip2/xz/zstd write filters emits '
            'header ++ comp(all writes) ++ trailer for every chunking and output-buffer size (codec abstract, laws '
            'explicit). gzip member framing as libarchive writes and parses it (10-byte header + optional fields on '
            'the read side, 8-byte trailer consumed but not verified): gzip_frame_roundtrip, multi_member, '
            'gzip_filter_roundtrip with inflate/deflate as parameters. Tied to the C by the flt engine: real '
            'write-filter stacks (<= 3, all ten filters, options at their borders, write chunkings down to 1 byte, '
            'read block sizes 1..1 MiB) into the real reader under ASan/UBSan/LSan; uu/b64 compared byte-exactly with '
            'the model, the reader model being driven through LA.RA with the same read block size; gzip header/trailer '
            'bytes and hand-made members with optional header fields; multi-member concatenation for gzip, bzip2, xz, '
            'lzip, zstd, lz4; block-size borders (LBYTES, 64 KiB buffers, lz4 blocks).',
    'note': 'For gzip, bzip2, xz, lzma, lzip, zstd, lz4 and compress the differential is against the statement of '
            'the property itself with the codec as an assumed parameter (decoded = original; codes in order): there is '
            'no Lean model of the codecs or of the lz4/xz/lzip/zstd/bzip2 framing. Reading with all filters enabled a '
            'payload that some bidder claims is the documented exception and is only run for crashes. Open findings '
            '(known_findings.json): zstd long=28..31 cannot be read back (reader window limit); uuencode/b64encode '
            'name with a byte outside 0x20..0x7e is not recognised. Nine defects were repaired in the repo (fix: commits), the last one the truncated-stream finding of C08 (uu_truncated_is_reported).',
    'technique': 'Lean 4 proof (induction over write chunkings and read windows; invariants of the hold buffer and of '
                 'the carried partial line; abstract streaming-codec refinement with a ranking function) + model/C '
                 'differential correspondence',
}

CODEC = ['gzip', 'bzip2', 'xz', 'lzma', 'lzip', 'zstd', 'lz4', 'compress']
TEXT = ['uuencode', 'b64encode']
ALL = CODEC + TEXT
MULTI = ['gzip', 'bzip2', 'xz', 'lzip', 'zstd', 'lz4']
CODE = {'gzip': 1, 'bzip2': 2, 'compress': 3, 'lzma': 5, 'xz': 6, 'uuencode': 7, 'b64encode': 7, 'lzip': 9, 'lz4': 13, 'zstd': 14}
# first bytes that some read bidder claims
SIGS = {'gzip': '1f8b0800000000000003', 'bzip2': '425a6839314159265359', 'xz': 'fd377a585a000004e6d6b446',
        'lzip': '4c5a4950010c', 'zstd': '28b52ffd2400', 'lz4': '04224d186440a7', 'compress': '1f9d90',
        'lzma': '5d00008000ffffffffffffffff00', 'uu': '626567696e20363434202d0a', 'lrzip': '4c525a49000600',
        'lzop': '894c5a4f000d0a1a0a', 'grzip': '47525a6970494900020406', 'rpm': 'edabeedb0300'}
NAMECH = 'abcdefghijklmnopqrstuvwxyzABCDEFGHIJKLMNOPQRSTUVWXYZ0123456789._-+,@'


def pct(bs):
    return ''.join(chr(b) if chr(b) in NAMECH else '%%%02x' % b for b in bs)


def gen_opts(rng, f, border=False):
    """Valid option settings for filter f (list of 'mod:key[=v]')."""
    o = []
    pick = rng.random
    if f == 'gzip':
        if pick() < .5: o.append('gzip:compression-level=%d' % rng.choice([0, 1, 6, 9]))
        if pick() < .4: o.append(rng.choice(['gzip:!timestamp', 'gzip:timestamp']))
    elif f == 'bzip2':
        if pick() < .5: o.append('bzip2:compression-level=%d' % rng.choice([0, 1, 9]))
    elif f in ('lzma', 'lzip'):
        if pick() < .5: o.append('%s:compression-level=%d' % (f, rng.choice([0, 1, 6, 9])))
    elif f == 'xz':
        if pick() < .5: o.append('xz:compression-level=%d' % rng.choice([0, 1, 6, 9]))
        if pick() < .4: o.append('xz:threads=%d' % rng.choice([0, 1, 2, 3]))
    elif f == 'zstd':
        if pick() < .5: o.append('zstd:compression-level=%d' % rng.choice([-7, -1, 0, 1, 3, 19, 22]))
        if pick() < .25: o.append('zstd:threads=%d' % rng.choice([0, 1, 2]))
        if pick() < .3: o.append('zstd:long=%d' % rng.choice([10, 11, 20, 27]))
        if pick() < .3:
            o.append('zstd:frame-per-file')
            if pick() < .7: o.append('zstd:min-frame-in=%d' % rng.choice([0, 1, 100, 4096, 1 << 20]))
            if pick() < .7: o.append('zstd:min-frame-out=%d' % rng.choice([0, 1, 100, 4096, 1 << 20]))
        if pick() < .2: o.append('zstd:max-frame-in=%d' % rng.choice([1024, 1025, 65536]))
        if pick() < .2: o.append('zstd:max-frame-out=%d' % rng.choice([1024, 1025, 65536]))
    elif f == 'lz4':
        if pick() < .5: o.append('lz4:compression-level=%d' % rng.choice([1, 2, 3, 9]))
        if pick() < .5: o.append('lz4:block-size=%d' % rng.choice([4, 5, 6, 7]))
        if pick() < .4: o.append(rng.choice(['lz4:!stream-checksum', 'lz4:stream-checksum']))
        if pick() < .4: o.append(rng.choice(['lz4:block-checksum', 'lz4:!block-checksum']))
        if pick() < .4: o.append(rng.choice(['lz4:block-dependence', 'lz4:!block-dependence']))
    elif f in TEXT:
        if pick() < .5:
            o.append('%s:mode=%s' % (f, rng.choice(['0', '7', '44', '100', '644', '755', '777', '1777', '100644', '0644', '8', '9x'])))
        if pick() < .5:
            n = rng.choice([1, 1, 2, 3, 8, 40, 300])
            nm = [rng.choice([0x20, 0x21, 0x2f, 0x41, 0x61, 0x7e, 0x2d, 0x60, 0x3d, 0x30]) if rng.random() < .3
                  else ord(rng.choice(NAMECH)) for _ in range(n)]
            o.append('%s:name=%s' % (f, pct(nm)))
    return o


def payload(rng, tier, big_ok=True):
    """(spec, length) — sizes from the property's quantifier."""
    r = rng.random()
    kind = rng.choice(['rnd', 'rnd', 'rep', 'text', 'zero'])
    if r < .07:
        return 'hex:-', 0
    if r < .14:
        return 'hex:%02x' % rng.randrange(256), 1
    if r < .45:   # LBYTES +-1 and small multiples, uu and b64
        n = rng.choice([45, 57]) * rng.choice([1, 1, 2, 3, 10]) + rng.choice([-1, 0, 1, 2, -2])
    elif r < .6:  # where the 64 KiB encoded_buff / out_buff / lz4 block borders sit
        n = rng.choice([65536, 47520, 48621, 49152, 65536 * 3 // 4, 32768, 262144 if big_ok else 65536]) + rng.choice([-1, 0, 1, -46, 58])
    elif r < .92:
        n = rng.choice([2, 3, 4, 5, 44, 100, 1000, 4095, 4096, 4097, 10240, 20000])
    else:
        n = rng.choice([1 << 20, (1 << 20) + 1, 700001]) if (big_ok and tier == 'quick') else \
            rng.choice([1 << 20, 3 * (1 << 20) + 5, 1 << 22]) if big_ok else 100000
    n = max(n, 0)
    if n <= 24 and rng.random() < .5:
        return 'hex:' + (''.join('%02x' % rng.randrange(256) for _ in range(n)) or '-'), n
    return 'gen:%s:%d:%d' % (kind, n, rng.randrange(1 << 30)), n


def wchunk(rng, n):
    r = rng.random()
    if r < .3: return 'all'
    if r < .4 and n <= 70000: return 'c1'
    if r < .7: return 'c%d' % rng.choice([2, 3, 7, 44, 45, 46, 56, 57, 58, 512, 4096, 4097, 65535, 65536, 65537])
    k = rng.choice([2, 3, 5])
    return '+'.join(str(rng.choice([0, 1, 1, 2, 44, 45, 46, 57, 100, 1000, 70000])) for _ in range(k))


def rblock(rng, n):
    small = [1, 7] if n <= 150000 else [7]
    return rng.choice(small + [512, 10240, 10240, 12, 19, 74, 96, 513, 65536, 1 << 20])


class Flt(Engine):
    name = 'flt'
    timeout = 900
    parallel = 6        # the harness forks per case, the driver engine is stateless

    def gen(self, rng, tier):
        nrand = 330 if tier == 'quick' else 2400
        # 1. every single filter: empty, one byte, a border size, defaults and bordered options
        for f in ALL:
            for pl in ('hex:-', 'hex:00', 'gen:rnd:%d:%d' % (rng.choice([44, 45, 46, 56, 57, 58]), rng.randrange(999))):
                for md in ('exact', 'all'):
                    yield Case(f'single-{f}', ['rt %s - %s %s -/1 %d %s' % (f, pl, rng.choice(['all', 'c1', 'c5']), rng.choice([1, 7, 512, 10240]), md)])
        # 2. random stacks (<= 3), options, chunkings, read block sizes
        for i in range(nrand):
            depth = rng.choice([1, 1, 1, 2, 2, 3])
            stack = [rng.choice(ALL if rng.random() < .6 else TEXT) for _ in range(depth)]
            heavy = sum(1 for f in stack if f in ('xz', 'lzma', 'lzip', 'bzip2'))
            pl, n = payload(rng, tier, big_ok=(heavy == 0 or tier != 'quick'))
            opts = []
            for f in set(stack):
                opts += gen_opts(rng, f)
            ops = 'rt %s %s %s %s %s %d %s' % (
                ','.join(stack), ';'.join(opts) or '-', pl, wchunk(rng, n),
                rng.choice(['-/1', '-/1', '-/1', '512/1', '0/1', '1/1', '70000/1', '65536/1', '10240/1']),
                rblock(rng, n),
                rng.choice(['exact', 'exact', 'all']))
            yield Case(f'rand{i}', [ops])
        # 2b. block-size +-1: lz4 frame blocks (64 KiB / 256 KiB / 1 MiB / 4 MiB) ...
        for b in ((4, 5, 6) if tier == 'quick' else (4, 5, 6, 7)):
            bsz = 65536 << (2 * (b - 4))
            for delta in ((1,) if b == 6 and tier == 'quick' else (-1, 0, 1)):
                o = ['lz4:block-size=%d' % b] + ([rng.choice(['lz4:block-dependence', 'lz4:block-checksum', 'lz4:!stream-checksum'])] if rng.random() < .5 else [])
                yield Case(f'lz4-block{b}', ['rt lz4 %s gen:%s:%d:%d %s -/1 %d %s' % (
                    ';'.join(o), rng.choice(['rnd', 'text']), bsz + delta, rng.randrange(999), rng.choice(['all', 'c70001']),
                    rng.choice([10240, 65536]), rng.choice(['exact', 'all']))])
        # ... and the 64 KiB output buffer of the gzip write filter filled exactly when the stream ends
        # (stored deflate: the compressed size is a known function of the input size)
        import zlib
        def gzsize(n):
            z = zlib.compressobj(0, zlib.DEFLATED, -15)
            return 10 + len(z.compress(bytes(n)) + z.flush())
        for k in (1, 2):
            n0 = next(n for n in range(65536 * k - 40 * k - 20, 65536 * k) if gzsize(n) >= 65536 * k)
            for n in range(n0 - 2, n0 + 3):
                yield Case('gzip-buffer-full', ['rt gzip gzip:compression-level=0 gen:zero:%d:0 %s 1/1 10240 exact' % (n, rng.choice(['all', 'c4097']))])
        # 2c. content with block structure, for every filter that has blocks / windows / frames:
        #     segments (compressible text, incompressible bytes, zeros, a repeat of earlier content at a
        #     distance of about one block or well inside the 64 KiB window) whose lengths sit on the filter's
        #     block size, crossed with the filter's structural options
        def segs(B, tmpl, near=False):
            out = []
            for k in tmpl:
                ln = max(1, B + rng.choice([0, 0, 0, -1, 1, -4096, 4096]))
                if k == 'c':   # repeat of what was just written: inside the 64 KiB match window, or one block back
                    far = [B, max(1, B - 1)] if not near else []
                    out.append('c%dx%d' % (rng.choice([16384, 65536, 1, 4096, 16384, 32768] + far), ln))
                elif k == 'C':  # repeat of the segment before the previous one (same length as those)
                    out.append('c%dx%d' % (2 * B, B))
                elif k == 'h':
                    out.append('%s%d' % (rng.choice('tr'), max(1, B // 2)))
                elif k in 'TR':  # exactly one block
                    out.append('%s%d' % (k.lower(), B))
                else:
                    out.append('%s%d' % (k, ln))
            return 'segs:%d:%s' % (rng.randrange(1 << 30), ','.join(out))
        TEMPL = ['trc', 'zrc', 'trtc', 'rct', 'trcrc', 'rtr', 'htrc', 'tcr', 'rrt', 'trzc']
        cfgs = []
        for dep in ('lz4:block-dependence', ''):
            for b in (4, 5):
                for ck in ('', 'lz4:!stream-checksum', 'lz4:block-checksum'):
                    cfgs.append(('lz4', [x for x in ('lz4:block-size=%d' % b, dep, ck) if x], 65536 << (2 * (b - 4))))
        cfgs.append(('lz4', ['lz4:block-dependence', 'lz4:compression-level=9', 'lz4:block-size=4'], 65536))
        cfgs.append(('lz4', ['lz4:block-dependence'], 65536))                     # default block size 7: window only
        for o in ([], ['zstd:compression-level=1'], ['zstd:max-frame-in=196608'], ['zstd:max-frame-out=65536'],
                  ['zstd:frame-per-file', 'zstd:min-frame-in=1'], ['zstd:threads=2'], ['zstd:long=17', 'zstd:compression-level=19'],
                  ['zstd:max-frame-in=131073', 'zstd:threads=1']):
            cfgs.append(('zstd', o, 131072))
        cfgs += [('bzip2', ['bzip2:compression-level=1'], 100000), ('bzip2', [], 100000),
                 ('xz', ['xz:compression-level=0'], 262144), ('xz', ['xz:threads=2', 'xz:compression-level=1'], 131072),
                 ('lzma', ['lzma:compression-level=0'], 262144), ('lzip', ['lzip:compression-level=0'], 65536),
                 ('gzip', [], 32768), ('gzip', ['gzip:compression-level=1'], 65536), ('compress', [], 10000), ('compress', [], 65536)]
        # every structural configuration gets, deterministically, both core families —
        #   A: compressible, incompressible, repeat of the incompressible part (inside the match window)
        #   B: text block, incompressible block, repeat of the text block, a variation of it
        # — and one free combination
        CORE_A = ['trc', 'zrc', 'trcrc', 'htrc', 'trct']
        for i, (f, o, B) in enumerate(cfgs if tier == 'quick' else cfgs * 6):
            fams = [(CORE_A[(i + rng.randrange(len(CORE_A))) % len(CORE_A)], True),
                    (rng.choice(['TRCt', 'TRCtc', 'hTRCt', 'TRtC']), True), (rng.choice(TEMPL), False)]
            for t, near in fams:
                yield Case(f'blocks-{f}', ['rt %s %s %s %s -/1 %d %s' % (
                    f, ';'.join(o) or '-', segs(B, t, near), rng.choice(['all', 'c10000', 'c65537', 'c4096']),
                    rng.choice([10240, 65536, 512]), rng.choice(['exact', 'exact', 'all']))])
        # 2d. size classes per filter: several hundred KiB of incompressible bytes for every filter,
        #     about 1 MiB for a few, with the options that cut the stream into frames / blocks
        for f in CODEC:
            n = rng.choice([200000, 200000, 262145, 300001, 400000])
            yield Case(f'big-{f}', ['rt %s %s segs:%d:r%d %s -/1 %d exact' % (
                f, ';'.join(gen_opts(rng, f)) or '-', rng.randrange(1 << 30), n, rng.choice(['all', 'c10000', 'c70001']),
                rng.choice([10240, 65536]))])
        for f, o in (('zstd', 'zstd:max-frame-in=196608'), ('zstd', '-'), ('lz4', 'lz4:block-size=4;lz4:block-dependence'),
                     (rng.choice(['gzip', 'compress', 'zstd']), '-')):
            yield Case(f'big1m-{f}', ['rt %s %s segs:%d:r%d %s -/1 65536 exact' % (
                f, o, rng.randrange(1 << 30), rng.choice([1 << 20, (1 << 20) + 1, 900001]), rng.choice(['all', 'c10000']))])
        # 3. trailing zero padding (default bytes_in_last_block with callbacks): tolerated by these readers
        for f in ['gzip', 'bzip2', 'xz', 'lzip', 'lzma', 'lz4', 'uuencode', 'b64encode']:
            pl, n = payload(rng, tier, big_ok=False)
            yield Case(f'pad-{f}', ['rt %s - %s all %s 10240 %s' % (f, pl, rng.choice(['-/-', '512/-', '-/512']), rng.choice(['exact', 'all']))])
        # 4. multi-member streams
        for f in MULTI:
            for _ in range(3 if tier == 'quick' else 25):
                pa, _ = payload(rng, tier, big_ok=False); pb, _ = payload(rng, tier, big_ok=False)
                yield Case(f'mm-{f}', ['mm %s %s %s %s %s %d %s' % (
                    f, ';'.join(gen_opts(rng, f)) or '-', pa, ';'.join(gen_opts(rng, f)) or '-', pb,
                    rng.choice([1, 7, 512, 10240]), rng.choice(['exact', 'all']))])
        # 4a. members written with DIFFERENT option sets: all ordered pairs of each filter's structural
        #     option sets (plus a few triples), payloads of several blocks per member
        def member(B):
            return segs(B, rng.choice(['tr', 'trc', 'rt', 'TRC', 'ht', 'r', 't']), True)
        lz4sets = [(['lz4:block-size=%d' % b] + ([dep] if dep else []), 65536 << (2 * (b - 4)))
                   for b in (4, 5) for dep in ('', 'lz4:block-dependence')]
        lz4big = [(['lz4:block-size=%d' % b] + ([dep] if dep else []), 131072) for b in (6, 7) for dep in ('', 'lz4:block-dependence')]
        def ck():
            return rng.choice([[], [], ['lz4:!stream-checksum'], ['lz4:block-checksum'], ['lz4:compression-level=9']])
        msets = {
            'lz4': lz4sets,
            'gzip': [([], 32768), (['gzip:compression-level=0'], 65536), (['gzip:compression-level=9', 'gzip:!timestamp'], 32768)],
            'bzip2': [(['bzip2:compression-level=1'], 100000), (['bzip2:compression-level=9'], 100000), ([], 50000)],
            'xz': [(['xz:compression-level=0'], 65536), (['xz:compression-level=6'], 65536), (['xz:threads=2', 'xz:compression-level=1'], 131072)],
            'lzip': [(['lzip:compression-level=0'], 65536), (['lzip:compression-level=6'], 65536)],
            'zstd': [([], 131072), (['zstd:compression-level=1', 'zstd:max-frame-in=131073'], 131072), (['zstd:long=17', 'zstd:compression-level=19'], 65536),
                     (['zstd:frame-per-file', 'zstd:min-frame-in=1'], 131072), (['zstd:threads=2'], 131072)],
        }
        for f, sets in msets.items():
            pairs = [(a, b) for a in sets for b in sets]
            if f == 'zstd' and tier == 'quick':
                pairs = rng.sample(pairs, 12)
            for (oa, Ba), (ob, Bb) in pairs:
                xa, xb = (ck(), ck()) if f == 'lz4' else ([], [])
                yield Case(f'mmpair-{f}', ['mmn %s %d %s %s %s %s %s' % (
                    f, rng.choice([512, 10240, 65536]), rng.choice(['exact', 'exact', 'all']),
                    ';'.join(oa + xa) or '-', member(Ba), ';'.join(ob + xb) or '-', member(Bb))])
        for (oa, Ba) in lz4big:          # same maximum block size 6 / 7, independent vs dependent, both orders
            for (ob, Bb) in lz4big:
                if oa[0] == ob[0] and oa != ob:
                    yield Case('mmpair-lz4', ['mmn lz4 65536 exact %s %s %s %s' % (';'.join(oa), member(Ba), ';'.join(ob), member(Bb))])
        for f, sets in msets.items():    # triples, an empty member now and then
            for _ in range(2 if tier == 'quick' else 12):
                ms = [rng.choice(sets) for _ in range(3)]
                parts = []
                for (o, B) in ms:
                    parts += [';'.join(o) or '-', 'hex:-' if rng.random() < .15 else member(min(B, 131072))]
                yield Case(f'mmtriple-{f}', ['mmn %s %d %s %s' % (f, rng.choice([7, 512, 10240]), rng.choice(['exact', 'all']), ' '.join(parts))])
        # 4b. option borders that are open findings (matched against known_findings.json)
        for lv in (28, 31):
            yield Case(f'kf-zstd-long{lv}', ['rt zstd zstd:long=%d %s all -/1 10240 %s' % (lv, rng.choice(['hex:41', 'gen:text:3000:7', 'gen:rnd:70000:3']), rng.choice(['exact', 'all']))])
        for nm in ('%c3%a9', 'a%09b', '%7f', 'x%80'):
            f = rng.choice(TEXT)
            yield Case('kf-name', ['rt %s %s:name=%s gen:rnd:%d:%d all -/1 %d %s' % (f, f, nm, rng.choice([0, 1, 45, 100]), rng.randrange(99), rng.choice([7, 10240]), rng.choice(['exact', 'all']))])
        # 4c. hand-made gzip members: header with any subset of the optional fields, zlib's deflate of the
        #     payload, an arbitrary 8-byte trailer (the read filter consumes it without verifying it)
        for i in range(40 if tier == 'quick' else 400):
            flags = rng.choice([0, 0, 2, 4, 8, 16, 4 | 8, 8 | 16, 2 | 4 | 8 | 16, rng.randrange(32)])
            h = [0x1f, 0x8b, 8, flags] + [rng.randrange(256) for _ in range(4)] + [rng.choice([0, 2, 4]), rng.choice([3, 0, 255])]
            if flags & 4:
                n = rng.choice([0, 1, 5, 255, 256, 300])
                h += [n & 255, n >> 8] + [rng.randrange(256) for _ in range(n)]
            if flags & 8:
                h += [rng.randrange(1, 256) for _ in range(rng.choice([0, 1, 8, 200]))] + [0]
            if flags & 16:
                h += [rng.randrange(1, 256) for _ in range(rng.choice([0, 1, 30]))] + [0]
            if flags & 2:
                h += [rng.randrange(256), rng.randrange(256)]
            pl, _ = payload(rng, tier, big_ok=False)
            yield Case('gzhdr', ['gz %s %s %s %d' % (''.join('%02x' % b for b in h), pl,
                                 ''.join('%02x' % rng.randrange(256) for _ in range(8)), rng.choice([1, 7, 512, 10240]))])
        # 4d. truncated uu / base64 streams (cut anywhere: inside the trailer, at a line border, inside a
        #     line, inside the "begin" line): the reader must not deliver a proper prefix as a complete stream
        for i in range(60 if tier == 'quick' else 800):
            st = rng.choice([['uuencode'], ['b64encode'], ['uuencode'], ['b64encode'], ['uuencode', 'b64encode'], ['b64encode', 'uuencode']])
            n = rng.choice([0, 1, 44, 45, 46, 57, 58, 90, 200, 1000, 5000, 70000])
            cut = rng.choice(['-%d' % rng.choice([0, 1, 2, 3, 4, 5, 6, 7, 8, 9]), '-%d' % rng.randrange(10, 200),
                              '-%d' % (rng.choice([62, 77]) * rng.randrange(1, 4) + rng.choice([5, 6])),
                              'p%d' % rng.choice([0, 10, 100, 500, 900, 990, 999]),
                              'l%d' % rng.choice([0, 1, 1, 2, 3, 10]), 'l%d' % rng.randrange(1, 1 + max(1, n // 45))])
            yield Case('trunc', ['tr %s - gen:%s:%d:%d %s %d' % (','.join(st), rng.choice(['rnd', 'text', 'zero']), n,
                                 rng.randrange(9999), cut, rng.choice([1, 7, 62, 512, 10240]))])
        # 5. payloads that start with a compression signature (documented exception):
        #    exactly-those-filters must still round-trip; "all" is run only for crashes (mode allx)
        sig = list(SIGS)
        for i in range(30 if tier == 'quick' else 250):
            f = rng.choice(ALL)
            s = rng.choice([k for k in sig if k != f and not (k == 'uu' and f in TEXT)])
            tail = 'gen:%s:%d:%d:%s' % (rng.choice(['rnd', 'zero', 'text']), rng.choice([0, 1, 50, 3000]), rng.randrange(9999), SIGS[s])
            yield Case(f'sig-{s}-in-{f}', ['rt %s - %s %s -/1 %d exact' % (f, tail, rng.choice(['all', 'c7']), rng.choice([7, 512, 10240]))])
            if i % 3 == 0:
                yield Case(f'sigall-{s}-in-{f}', ['rt %s - %s all -/1 10240 allx' % (f, tail)])

    # -- the property's predicate on the implementation's line ---------------------------
    def oracle(self, case, impl):
        for op, o in zip(case.ops, impl):
            w = op.split()
            if w[0] == 'tr':
                if o.startswith('!'):
                    return 'crash or sanitizer abort [truncated %s cut=%s]: %s' % (w[1], w[4], o)
                m = re.search(r' filters=(-?\d+) st=ok .*full=0', o)
                if m and int(m.group(1)) >= 1:
                    return 'truncated stream read as complete [stack=%s payload=%s cut=%s]: %s' % (w[1], w[3], w[4], o[:120])
                continue
            if w[0] == 'gz':
                if o.startswith('!'):
                    return 'crash or sanitizer abort [gzip member %s]: %s' % (w[1][:40], o)
                if ' eq=1' not in o or ' rcodes=1,0 ' not in o or ' data=ok' not in o:
                    return 'gzip member with a valid header was not read back [header=%s]: %s' % (w[1][:60], o[:120])
                continue
            tag = '[stack=%s opts=%s payload=%s]' % (w[1], w[2], w[3] if len(w[3]) < 60 else w[3][:60] + '…')
            if o.startswith('!'):
                return 'crash or sanitizer abort %s: %s' % (tag, o)
            f = dict(x.split('=', 1) for x in o.split(' ') if '=' in x)
            md = w[3] if w[0] == 'mmn' else w[-1]
            if md == 'allx' or (md == 'all' and f.get('psig') == '1'):
                continue      # documented exception: the payload itself is claimed by a read bidder
            wk = ('w',) if w[0] in ('rt', 'mmn') else ('wa', 'wb')
            for k in wk:
                if f.get(k) != 'ok':
                    return 'write side failed %s: %s=%s' % (tag, k, f.get(k))
            if w[0] == 'rt' and any(s != 'ok' for s in f.get('opts', '-').split(',') if s != '-'):
                return 'a valid option was refused %s: opts=%s' % (tag, f.get('opts'))
            for k in ('r', 'data', 'close'):
                if f.get(k) != 'ok':
                    return 'round trip failed %s: %s=%s' % (tag, k, f.get(k))
            if f.get('eq') != '1':
                if f.get('rcodes') == '0' and f.get('wcodes') != '0':
                    return 'round trip failed %s: stream not recognised by the reader (rcodes=0)' % tag
                return 'round trip failed %s: decoded bytes differ (eq=%s, dec=%s)' % (tag, f.get('eq'), f.get('dec'))
            if f.get('rcodes') != f.get('wcodes'):
                return 'filter codes differ %s: written %s, reported %s' % (tag, f.get('wcodes'), f.get('rcodes'))
            if f.get('hdr') not in ('ok', 'eof') or f.get('end') not in ('eof', '-'):
                return 'reader status %s: hdr=%s end=%s' % (tag, f.get('hdr'), f.get('end'))
        return None

    def nontrivial(self, case, impl):
        return any(' eq=1' in o and ' dec=0:' not in o for o in impl)

    def stats(self, cases, impl):
        st = {'filters': {}, 'depth': {}, 'payload_sizes': {'0': 0, '1': 0, '<=64': 0, '<=4096': 0, '<=65536': 0, '<=1MiB': 0, '>1MiB': 0},
              'modes': {}, 'payload_claimed_by_a_bidder': 0, 'read_blocks': {}, 'kinds': {}, 'options_used': {}, 'eq1': 0, 'not_recognised': 0, 'empty_decoded': 0}
        for c, im in zip(cases, impl):
            for op, o in zip(c.ops, im):
                w = op.split()
                if w[0] == 'tr':
                    st['kinds']['trunc'] = st['kinds'].get('trunc', 0) + 1
                    st.setdefault('truncated', {'fatal': 0, 'complete': 0, 'not_recognised': 0})
                    st['truncated']['fatal' if ' st=fatal' in o else 'complete' if ' full=1' in o else 'not_recognised'] += 1
                    continue
                if w[0] == 'gz':
                    st['kinds']['gzhdr'] = st['kinds'].get('gzhdr', 0) + 1
                    st['eq1'] += ' eq=1' in o
                    continue
                st['kinds'][c.label.split('-')[0].rstrip('0123456789')] = st['kinds'].get(c.label.split('-')[0].rstrip('0123456789'), 0) + 1
                for f in w[1].split(','):
                    st['filters'][f] = st['filters'].get(f, 0) + 1
                st['depth'][len(w[1].split(','))] = st['depth'].get(len(w[1].split(',')), 0) + 1
                md, rbk = (w[3], w[2]) if w[0] == 'mmn' else (w[-1], w[-2])
                st['modes'][md] = st['modes'].get(md, 0) + 1
                st['read_blocks'][rbk] = st['read_blocks'].get(rbk, 0) + 1
                optl = ';'.join(x for x in (w[4::2] if w[0] == 'mmn' else [w[2]]) if x != '-')
                for opt in (optl.split(';') if optl else []):
                    k = opt.split('=')[0]
                    st['options_used'][k] = st['options_used'].get(k, 0) + 1
                m = re.search(r' dec=(\d+):', o)
                if m:
                    n = int(m.group(1))
                    b = '0' if n == 0 else '1' if n == 1 else '<=64' if n <= 64 else '<=4096' if n <= 4096 else '<=65536' if n <= 65536 else '<=1MiB' if n <= 1 << 20 else '>1MiB'
                    st['payload_sizes'][b] += 1
                st['eq1'] += ' eq=1' in o
                st['payload_claimed_by_a_bidder'] += ' psig=1' in o
                st['not_recognised'] += ' rcodes=0 ' in o
                st['empty_decoded'] += ' dec=0:' in o
        return st


ENGINES = [Flt()]
