"""Engine `rdd` (C06): archive_read_data / read_data_block / data_skip / next_header2 of the
real archive_read.c over a scripted format (harness/eng_rdd.c), against lean/LA/Model/ReadData."""
import os, subprocess
from concurrent.futures import ThreadPoolExecutor
from lib.core import Engine, Case, split_cases, OUT

ERRS = ['retry', 'warn', 'failed', 'fatal']
GAPS = [0, 0, 0, 0, 1, 2, 7, 100, 513]
LENS = [0, 1, 1, 2, 3, 7, 16, 33, 100]


def hexb(bs):
    return bytes(bs).hex() if bs else '-'


def fnv(bs):
    h = 14695981039346656037
    for b in bs:
        h = ((h ^ b) * 1099511628211) & 0xFFFFFFFFFFFFFFFF
    return h


class Ent:
    """One scripted entry."""

    def __init__(self):
        self.hst = 'ok'; self.size = 0; self.hook = 'nohook'
        self.evs = []          # (st, off|None, bytes|None)
        self.term = ('eof', None)
        self.wellformed = True

    def line(self):
        w = ['entry', self.hst, str(self.size), self.hook]
        for st, off, bs in self.evs:
            w.append(st if off is None else f'{st}:{off}:{hexb(bs)}')
        w.append('T' + self.term[0] + ('' if self.term[1] is None else ':%d' % self.term[1]))
        return ' '.join(w)

    def image(self):
        """Dense image of a well-formed entry: holes zero-filled, up to the offset reported with EOF."""
        out = bytearray()
        for st, off, bs in self.evs:
            out += bytes(off - len(out)) + bytes(bs)
        if self.term[1] is not None and self.term[1] > len(out):
            out += bytes(self.term[1] - len(out))
        return bytes(out)


def parse_entry(line):
    """Inverse of Ent.line(); sets .wellformed to the C06 premise (header OK, OK blocks with increasing,
    non-overlapping offsets from 0, EOF whose offset is not before the end of data, benign skip hook)."""
    w = line.split()
    e = Ent()
    e.hst, e.size, e.hook = w[1], int(w[2]), w[3]
    for x in w[4:-1]:
        p = x.split(':')
        e.evs.append((p[0], None, None) if len(p) == 1 else
                     (p[0], int(p[1]), b'' if p[2] == '-' else bytes.fromhex(p[2])))
    tp = w[-1][1:].split(':')
    e.term = (tp[0], int(tp[1]) if len(tp) > 1 else None)
    ok, cur = e.hst == 'ok' and e.hook in ('nohook', 'hook:ok', 'hook:eof') and e.term[0] == 'eof', 0
    for st, off, bs in e.evs:
        if st != 'ok' or off is None or off < cur:
            ok = False; break
        cur = off + len(bs)
    if ok and e.term[1] is not None and e.term[1] < cur:
        ok = False
    e.wellformed = ok
    return e


def expectations(ops):
    """What C06 promises for this op stream, from the ops alone (so that shrunk streams are judged too):
    hdr[i] = expected prefix of the i-th op's output (a next_header), reads = [(dense image, op indices)].
    Promises stop at the first malformed entry or illegal call order."""
    ents = [parse_entry(o) for o in ops if o.startswith('entry ')]
    hdr, reads = {}, []
    opened, st, idx, clean, grp = False, None, -1, True, None
    for i, op in enumerate(ops):
        if op.startswith('entry '):
            clean = clean and not opened
            continue
        if op == 'open':
            clean = clean and not opened
            opened, st = True, 'header'
            continue
        if not opened:
            continue
        if not clean:
            break
        if op == 'next_header':
            grp = None
            if st not in ('header', 'data'):
                clean = False; continue
            idx += 1
            if idx >= len(ents):
                hdr[i] = 'hdr eof ent=- size=-'; st = 'eof'
            elif ents[idx].wellformed:
                hdr[i] = f'hdr ok ent=e{idx} size={ents[idx].size}'; st = 'data'
                grp = (ents[idx].image(), [])
                reads.append(grp)
            else:
                clean = False
        elif op.startswith('read_data '):
            if st != 'data':
                clean = False
            elif grp is not None:
                grp[1].append(i)
        elif op == 'read_data_block':
            if st != 'data':
                clean = False
            grp = None                 # "DO NOT intermingle": no promise for later read_data results
        elif op == 'data_skip':
            if st != 'data':
                clean = False
            st, grp = 'header', None
        else:
            clean = False
    return hdr, reads


def rand_bytes(rng, n):
    base = rng.randrange(1, 256)
    return bytes(((base + 7 * i) & 0xff) or 1 for i in range(n))   # no zero bytes: holes stay visible


def gen_entry(rng, malformed):
    e = Ent()
    cur = 0
    for _ in range(rng.choice([0, 1, 1, 2, 3, 3, 5])):
        cur += rng.choice(GAPS)
        n = rng.choice(LENS)
        e.evs.append(('ok', cur, rand_bytes(rng, n)))
        cur += n
    r = rng.random()
    if r < 0.35:
        e.term = ('eof', None)
    elif r < 0.6:
        e.term = ('eof', cur)
    else:
        cur += rng.choice([1, 2, 7, 64, 512])          # trailing hole, reported with EOF (tar, cpio ...)
        e.term = ('eof', cur)
    e.size = cur
    e.hook = rng.choice(['nohook', 'nohook', 'nohook', 'hook:ok', 'hook:ok', 'hook:eof'])
    if not malformed:
        return e
    e.wellformed = False
    for _ in range(rng.choice([1, 1, 2])):
        k = rng.random()
        if k < 0.2 and len(e.evs) >= 2:                   # out of order
            i = rng.randrange(len(e.evs) - 1)
            e.evs[i], e.evs[i + 1] = e.evs[i + 1], e.evs[i]
        elif k < 0.4 and e.evs:                           # overlap / offset below the previous end / negative
            i = rng.randrange(len(e.evs))
            st, off, bs = e.evs[i]
            if off is not None:
                e.evs[i] = (st, off - rng.choice([1, 1, 2, 7, off + 1 if off >= 0 else 1]), bs)
        elif k < 0.6:                                     # error status somewhere, with or without stored block
            i = rng.randrange(len(e.evs) + 1)
            st = rng.choice(ERRS + ['eof'])
            if rng.random() < 0.5:
                e.evs.insert(i, (st, None, None))
            else:
                e.evs.insert(i, (st, rng.choice([0, 1, 5, 40]), rand_bytes(rng, rng.choice([0, 1, 4]))))
        elif k < 0.75:                                    # error terminal
            e.term = (rng.choice(ERRS), rng.choice([None, None, 0, 9]))
        elif k < 0.85:                                    # OK result that stores nothing
            e.evs.insert(rng.randrange(len(e.evs) + 1), ('ok', None, None))
        elif k < 0.93:                                    # EOF offset before the end of data
            e.term = ('eof', rng.choice([0, max(0, e.size - 1), -1]))
        else:
            e.hook = 'hook:' + rng.choice(ERRS)
    if rng.random() < 0.25:
        e.hst = rng.choice(['warn', 'warn', 'retry', 'failed', 'fatal', 'eof'])
    return e


def size_seq(rng, e, total):
    """Buffer sizes for reading `total` bytes: 1, 2, 7, block size +-1, exact, huge, mixed."""
    blens = [len(bs) for st, off, bs in e.evs if bs]
    pool = [1, 2, 7, 13, 64, 65536] + [x + d for x in blens for d in (-1, 0, 1) if x + d > 0] + \
           [x for x in (total - 1, total, total + 1) if x > 0]
    mode = rng.choice(['const', 'const', 'mix', 'mix', 'one'])
    if mode == 'one' and total > 80:
        mode = 'mix'
    out, got = [], 0
    c = rng.choice(pool)
    if mode == 'const' and total // c > 120:
        c = max(c, total // 60)
    while got < total and len(out) < 400:
        n = 1 if mode == 'one' else c if mode == 'const' else rng.choice(pool)
        out.append(n); got += n
    return out + [rng.choice(pool) for _ in range(rng.choice([1, 2, 3]))]    # run into end-of-data, then past it


class Rdd(Engine):
    name = 'rdd'

    def gen(self, rng, tier):
        n = 900 if tier == 'quick' else 25000
        for i in range(n):
            malformed_case = rng.random() < 0.3
            ents = [gen_entry(rng, malformed_case and rng.random() < 0.6) for _ in range(rng.choice([1, 1, 2, 3, 4]))]
            ops = [e.line() for e in ents] + ['open']
            modes = {}
            for k, e in enumerate(ents + [None]):
                ops.append('next_header')
                if e is None:
                    break
                img = e.image() if e.wellformed else bytes(rng.choice([0, 5, 40, 200]))
                mode = rng.choice(['full', 'full', 'full', 'prefix', 'none', 'skip', 'blocks', 'mixed', 'illegal'])
                if mode == 'illegal' and not malformed_case:
                    mode = 'full'
                modes[mode] = modes.get(mode, 0) + 1
                if mode in ('full', 'prefix'):
                    seq = size_seq(rng, e, len(img))
                    if mode == 'prefix':
                        seq = seq[:rng.randrange(0, len(seq))]
                    ops += [f'read_data {s}' for s in seq]
                    if rng.random() < 0.3:
                        ops.append('data_skip')
                elif mode == 'skip':
                    ops.append('data_skip')
                elif mode == 'blocks':
                    for _ in range(rng.randrange(0, len(e.evs) + 3)):
                        ops.append('read_data_block')
                elif mode == 'mixed':
                    for _ in range(rng.choice([2, 5, 9])):
                        ops.append(rng.choice(['read_data_block', 'read_data 1', 'read_data 7', 'read_data 0',
                                               'read_data 100', 'data_skip'] if malformed_case else
                                              ['read_data_block', 'read_data 1', 'read_data 7', 'read_data 0', 'read_data 100']))
                elif mode == 'illegal':
                    ops += rng.choice([['data_skip', 'read_data 5', 'read_data 5'], ['data_skip', 'data_skip'],
                                       ['read_data 3', 'data_skip', 'read_data 9', 'next_header'],
                                       ['data_skip', 'read_data_block']])
            if rng.random() < 0.5:
                ops.append(rng.choice(['next_header', 'read_data 4', 'data_skip', 'read_data_block']))
            yield Case(f'rdd{i}', ops, {'malformed': malformed_case, 'modes': modes})
        # small scope, every combination (thorough) or a sample of it (quick): up to two blocks with offsets 0..4 and
        # lengths 0..2 in any order (so: holes everywhere, empty blocks, overlap, disorder), every EOF offset,
        # constant buffers of 1, 2, 3, 7 bytes, read to the end and two calls beyond, then the next header
        small = []
        blocks = [(o, n) for o in range(5) for n in range(3)]
        for b1 in [None] + blocks:
            for b2 in ([None] + blocks if b1 is not None else [None]):
                for toff in [None, 0, 1, 2, 3, 4, 5, 6]:
                    for bs in (1, 2, 3, 7):
                        small.append((b1, b2, toff, bs))
        if tier == 'quick':
            small = rng.sample(small, 200)
        for j, (b1, b2, toff, bs) in enumerate(small):
            e = Ent()
            for k, b in enumerate((b1, b2)):
                if b is not None:
                    e.evs.append(('ok', b[0], bytes([0x11 * (k + 1) + x for x in range(b[1])])))
            e.term = ('eof', toff)
            e.size = max([toff or 0] + [o + len(bs_) for _, o, bs_ in e.evs])
            nreads = (e.size + bs - 1) // bs + 2
            ops = [e.line(), 'entry ok 1 nohook ok:0:ee Teof:1', 'open', 'next_header'] + \
                  [f'read_data {bs}'] * nreads + ['next_header', 'read_data 4', 'next_header']
            yield Case(f'small{j}', ops, {'malformed': False, 'modes': {'small': 1}})

    def run_impl(self, exe, cases):
        """The cases are tiny; run them in 8 parallel harness processes so that a change to the C that makes
        archive_read_data loop for ever (each such case ends in the harness's 3 s alarm) is still reported quickly."""
        if len(cases) < 64:
            return super().run_impl(exe, cases)
        env = dict(os.environ)
        env.setdefault('ASAN_OPTIONS', 'detect_leaks=1:abort_on_error=0:exitcode=99:allocator_may_return_null=1')
        env.setdefault('UBSAN_OPTIONS', 'print_stacktrace=1:halt_on_error=1')
        env['LC_ALL'] = env['LANG'] = 'C.UTF-8'
        k = 8
        chunks = [cases[i::k] for i in range(k)]

        def run(chunk):
            text = ''.join(f'#case {i}\n' + ''.join(o + '\n' for o in c.ops) for i, c in enumerate(chunk))
            try:
                r = subprocess.run([exe], input=text, stdout=subprocess.PIPE, stderr=subprocess.PIPE, text=True,
                                   env=env, timeout=self.timeout, errors='replace')
                return split_cases(r.stdout, len(chunk)), r.stderr[-3000:]
            except subprocess.TimeoutExpired:
                return [['!crash timeout'] * len(c.ops) for c in chunk], 'harness timed out'
        with ThreadPoolExecutor(k) as ex:
            res = list(ex.map(run, chunks))
        out = [None] * len(cases)
        for j, (lines, _) in enumerate(res):
            for m, l in enumerate(lines):
                out[j + m * k] = l
        # a case killed by the harness's alarm or by the chunk time-out is run once more on its own: on a loaded
        # machine that can be scheduling, not the code under test; a real endless loop dies again
        again = [i for i, l in enumerate(out) if any(x.endswith('signal=14') or x == '!crash timeout' for x in l)]
        for i in again[:40]:
            r, _ = super().run_impl(exe, [cases[i]])
            out[i] = r[0]
        return out, '\n'.join(e for _, e in res if e)[-3000:]

    def oracle(self, case, impl):
        """C06 on the implementation's own output: read_data never returns more than asked; for a
        well-formed entry the successive results are the dense image cut at the buffer sizes; headers of a
        well-formed script come out in order whatever was done with the bodies."""
        hdr, reads = expectations(case.ops)
        for i, (op, o) in enumerate(zip(case.ops, impl)):
            if o.startswith('rd OVER'):
                return 'archive_read_data returned more than the buffer size: ' + op
            hx = hdr.get(i)
            if hx is not None and not o.startswith(hx + ' '):
                return f'header of a well-formed script depends on body consumption at op {i}: want "{hx}", got "{o}"'
        for img, idxs in reads:
            got = 0
            for i in idxs:
                if i >= len(impl):
                    break
                w = impl[i].split()
                s = int(case.ops[i].split()[1])
                if len(w) < 4 or w[0] != 'rd' or not w[1].isdigit():
                    return f'archive_read_data failed on a well-formed entry at op {i} ({case.ops[i]}): "{impl[i]}"'
                k = int(w[1])
                exp = img[got:got + k]
                if k > s or len(exp) != k or w[2] != hexb(exp[:32]) or w[3] != f'h={fnv(exp)}':
                    return (f'archive_read_data result is not the dense image of the blocks at op {i} ({case.ops[i]}), '
                            f'image offset {got} of {len(img)}: "{impl[i]}"')
                if k == 0 and s > 0 and got != len(img):
                    return (f'archive_read_data reported end of data after {got} of the {len(img)} bytes of the dense '
                            f'image (trailing hole lost) at op {i} ({case.ops[i]})')
                got += k
        return None

    def nontrivial(self, case, impl):
        return sum(1 for o in impl if o.startswith('rd ') or o.startswith('blk ') or o.startswith('skip ')) >= 1

    def stats(self, cases, impl):
        st = {'ops': {}, 'rd_status': {}, 'modes': {}, 'malformed_cases': 0, 'oracle_checked_reads': 0,
              'oracle_checked_headers': 0, 'states': {}}
        for c, im in zip(cases, impl):
            st['malformed_cases'] += 1 if c.meta.get('malformed') else 0
            hdr, reads = expectations(c.ops)
            st['oracle_checked_reads'] += sum(len(x[1]) for x in reads)
            st['oracle_checked_headers'] += len(hdr)
            for m, k in c.meta.get('modes', {}).items():
                st['modes'][m] = st['modes'].get(m, 0) + k
            for op, o in zip(c.ops, im):
                w = op.split()[0]
                st['ops'][w] = st['ops'].get(w, 0) + 1
                ow = o.split()
                if ow and ow[0] in ('rd', 'blk', 'skip', 'hdr') and len(ow) > 1:
                    key = ow[0] + ':' + (ow[1] if not ow[1].isdigit() else ('0' if ow[1] == '0' else 'n'))
                    st['rd_status'][key] = st['rd_status'].get(key, 0) + 1
                for t in ow:
                    if t.startswith('st='):
                        st['states'][t[3:]] = st['states'].get(t[3:], 0) + 1
        return st
