"""Engines on harness/eng_read.c: the real reader under partitions, sources,
consumption vectors, truncation and callback faults (C01, C05, C06, C08)."""
import os, re, subprocess
from lib.core import Engine, Case
from lib import refs, core

SKIP_REFS = re.compile(r'\.(txt|exe|out|sed|part\d+\.rar)$|test_compat_lzma_3|test_fuzz|gtar_sparse_skip_entry|large_splitted')


def is_clean(rec):
    if not rec.startswith('O ok|') and not rec.startswith('O ok'):
        return False
    parts = rec.split('|')
    if not parts[-1].startswith('F eof close=ok free=ok fds=0'):
        return False
    for p in parts[1:-1]:
        w = p.split()
        if len(w) != 9 or w[1] != 'ok' or w[7] != 'eof' or w[8] != '-':
            return False
    return True


class ReadBase(Engine):
    harness = 'read'
    timeout = 1800
    parallel = 8
    mismatch_is_failing_input = True
    keep_prefix = 2      # 'load' and the reference run stay when a case is shrunk
    _baseline = None

    def oracle(self, case, impl):
        # the reference run (well-formed input, whole bodies read): no body may be longer than the entry's size
        if len(impl) > 1 and ' cons=A ' in (case.ops[1] if len(case.ops) > 1 else '') and 'LONG' in impl[1]:
            return "archive_read_data delivered more bytes than the entry's size (flag LONG in the all-read run)"
        return None

    def baseline(self):
        """All-read reference record of every reference archive, from the implementation under test."""
        if ReadBase._baseline is not None and ReadBase._baseline[0] == self.exe:
            return ReadBase._baseline[1]
        rs = [(n, p) for n, p in refs.decoded() if not SKIP_REFS.search(n) and os.path.getsize(p) > 0]
        cases = [Case(n, ['load ' + p, 'run blk=w src=cb cons=A trunc=- fault=-']) for n, p in rs]
        impl, _ = self.run_impl(self.exe, cases)
        out = []
        for (n, p), im in zip(rs, impl):
            rec = im[1] if len(im) > 1 else '!'
            out.append({'name': n, 'path': p, 'size': os.path.getsize(p), 'rec': rec, 'clean': is_clean(rec),
                        'entries': rec.count('|E ')})
        ReadBase._baseline = (self.exe, out)
        return out

    def nontrivial(self, case, impl):
        return any('|E ' in o for o in impl)

    def stats(self, cases, impl):
        st = {'archives': len({c.ops[0] for c in cases}), 'runs': sum(len(c.ops) - 1 for c in cases),
              'src': {}, 'blk': {}, 'faults': {}, 'entries_seen': 0}
        for c, im in zip(cases, impl):
            for op, o in zip(c.ops, im):
                if op.startswith('run'):
                    kv = dict(x.split('=', 1) for x in op.split()[1:])
                    s = kv['src'].split(':')[0]; st['src'][s] = st['src'].get(s, 0) + 1
                    b = kv['blk'][0] if not kv['blk'][0].isdigit() else kv['blk']; st['blk'][b] = st['blk'].get(b, 0) + 1
                    f = kv['fault'].split('@')[0]; st['faults'][f] = st['faults'].get(f, 0) + 1
                    st['entries_seen'] += o.count('|E ')
        return st


CLASSES = {
    # capability class -> (reference source, variant sources)
    'K': ('cbk', ['cbk', 'cbk', 'mem:{bs}', 'file:{bs}', 'fd:{bs}', 'FILE', 'multi:{cut}']),
    'N': ('cb', ['cb', 'cb', 'pipe:{bs}']),
    'S': ('cbs', ['cbs']),
}
BS = [1, 2, 3, 7, 511, 512, 513, 10240, 65536]


def ref_pool(rng, count, max_size=400000):
    rs = [(n, p) for n, p in refs.decoded()
          if not SKIP_REFS.search(n) and 0 < os.path.getsize(p) <= max_size]
    rng.shuffle(rs)
    return rs[:count]


def blk_choice(rng, size):
    r = rng.random()
    if r < 0.45:
        b = rng.choice(BS)
        if b < 7 and size > 30000:     # byte-at-a-time over a big archive is slow under ASan
            b = rng.choice([7, 511, 513])
        return str(b)
    if r < 0.75:
        return 'r%d' % rng.randrange(1, 10 ** 6)
    return 'c%d' % rng.randrange(0, max(1, size))


MAKE_FORMATS = ['pax', 'gnutar', 'ustar', 'v7tar', 'newc', 'odc', 'bin', 'zip', '7zip', 'xar', 'iso9660',
                'arbsd', 'arsvr4', 'mtree', 'paxr', 'pwb', 'warc']
MAKE_FILTERS = ['none', 'none', 'none', 'gzip', 'bzip2', 'xz', 'zstd', 'lz4', 'compress', 'lzip', 'lzma', 'uuencode', 'b64encode']


# Option strings the writers and write filters accept: they change the container's structure (where headers,
# checksums and block borders are), which is what the reader-side properties quantify over.
MAKE_OPTIONS = {
    '7zip': ['7zip:compression=store', '7zip:compression=deflate', '7zip:compression=bzip2', '7zip:compression=lzma1',
             '7zip:compression=lzma2', '7zip:compression=ppmd', '7zip:compression=zstd'],
    'zip': ['zip:compression=store', 'zip:compression=deflate', 'zip:zip64', 'zip:compression=store,zip:zip64',
            'zip:encryption=zipcrypt', 'zip:encryption=aes128', 'zip:encryption=aes256,zip:compression=store'],
    'xar': ['xar:compression=none', 'xar:compression=gzip', 'xar:compression=bzip2', 'xar:compression=xz',
            'xar:checksum=none', 'xar:checksum=md5', 'xar:toc-checksum=none'],
    'iso9660': ['iso9660:!rockridge', 'iso9660:joliet=long', 'iso9660:zisofs', 'iso9660:!pad', 'iso9660:iso-level=4'],
    'mtree': ['mtree:use-set', 'mtree:all', 'mtree:indent'],
    'lz4': ['lz4:!stream-checksum', 'lz4:block-checksum', 'lz4:block-dependence', 'lz4:block-size=4',
            'lz4:!stream-checksum,lz4:block-size=4', 'lz4:block-dependence,lz4:block-size=4,lz4:!stream-checksum'],
    'zstd': ['zstd:frame-per-file', 'zstd:max-frame-in=131072', 'zstd:compression-level=1', 'zstd:compression-level=19'],
    'gzip': ['gzip:compression-level=1', 'gzip:compression-level=9', 'gzip:!timestamp'],
    'bzip2': ['bzip2:compression-level=1', 'bzip2:compression-level=9'],
    'xz': ['xz:compression-level=0', 'xz:compression-level=9'],
    'lzip': ['lzip:compression-level=0'],
    'lzma': ['lzma:compression-level=0'],
}


def make_opt(rng, fmt, filt, p=0.5):
    """' opt=<string>' for a `make` op (or nothing): one option set of the format and/or the filter."""
    parts = []
    if fmt in MAKE_OPTIONS and rng.random() < p:
        parts.append(rng.choice(MAKE_OPTIONS[fmt]))
    if filt in MAKE_OPTIONS and rng.random() < p:
        parts.append(rng.choice(MAKE_OPTIONS[filt]))
    return (' opt=' + ','.join(parts)) if parts else ''


def made_archives(rng, count):
    """Archives produced by libarchive's own writers (harness op `make`): (label, load-op, approx size)."""
    out = []
    for _ in range(count):
        fmt = rng.choice(MAKE_FORMATS); filt = rng.choice(MAKE_FILTERS)
        if fmt in ('7zip', 'zip', 'xar', 'iso9660') and filt != 'none' and rng.random() < 0.7:
            filt = 'none'
        n = rng.choice([1, 3, 6, 10])
        out.append((f'{fmt}+{filt}', f'make fmt={fmt} filt={filt} seed={rng.randrange(1, 10**6)} n={n}' + make_opt(rng, fmt, filt), 20000 * n))
    return out


def cab_checksum(data, seed=0):
    """CFDATA checksum of the Cabinet format specification (XOR of little-endian 32-bit words, tail bytes folded)."""
    cs = seed
    n = len(data) // 4
    for i in range(n):
        cs ^= int.from_bytes(data[4 * i:4 * i + 4], 'little')
    t = data[4 * n:]
    ul = 0
    if len(t) == 3:
        ul = (t[0] << 16) | (t[1] << 8) | t[2]
    elif len(t) == 2:
        ul = (t[0] << 8) | t[1]
    elif len(t) == 1:
        ul = t[0]
    return (cs ^ ul) & 0xffffffff


def synthetic_cab(rng):
    """A cabinet with one uncompressed folder, several members and CFDATA checksums.  libarchive cannot write
    cabinets and the reference samples are a few hundred bytes, smaller than the reader's own look-ahead; this gives
    the reader-side properties cabinets whose data blocks really are cut by the read blocks."""
    nfiles = rng.choice([2, 3, 5])
    sizes = [rng.choice([0, 1, 3, 4, 500, 1000, 1003, 1021, 4096, 9000, 33000]) for _ in range(nfiles)]
    if not any(sizes):
        sizes[0] = 1000
    body = bytes((i * 7 + (i >> 8) * 13 + rng.randrange(4)) & 0xff for i in range(sum(sizes)))
    names = [('f%d-%s.bin' % (i, 'x' * rng.choice([1, 10, 60]))).encode() for i in range(nfiles)]
    blocks = [body[i:i + 32768] for i in range(0, len(body), 32768)] or [b'']
    cffiles = b''
    off = 0
    for nm, sz in zip(names, sizes):
        cffiles += sz.to_bytes(4, 'little') + off.to_bytes(4, 'little') + (0).to_bytes(2, 'little') + \
            (0x5a21).to_bytes(2, 'little') + (0x6000).to_bytes(2, 'little') + (0x20).to_bytes(2, 'little') + nm + b'\0'
        off += sz
    coff_files = 36 + 8
    coff_data = coff_files + len(cffiles)
    cfdata = b''
    for blk in blocks:
        hdr = len(blk).to_bytes(2, 'little') + len(blk).to_bytes(2, 'little')
        cs = cab_checksum(hdr, cab_checksum(blk)) if rng.random() < 0.85 else 0
        cfdata += cs.to_bytes(4, 'little') + hdr + blk
    total = coff_data + len(cfdata)
    head = b'MSCF' + bytes(4) + total.to_bytes(4, 'little') + bytes(4) + coff_files.to_bytes(4, 'little') + bytes(4) + \
        bytes([3, 1]) + (1).to_bytes(2, 'little') + nfiles.to_bytes(2, 'little') + bytes(2) + (0x1234).to_bytes(2, 'little') + bytes(2)
    folder = coff_data.to_bytes(4, 'little') + len(blocks).to_bytes(2, 'little') + bytes(2)
    return head + folder + cffiles + cfdata


def synthetic_files(rng, count, tag):
    """Paths of freshly written synthetic archives of formats libarchive reads but cannot write."""
    d = os.path.join(core.OUT, 'scratch', 'mut'); os.makedirs(d, exist_ok=True)
    out = []
    for i in range(count):
        p_ = os.path.join(d, f's{os.getpid()}_{tag}_{i}.cab')
        open(p_, 'wb').write(synthetic_cab(rng))
        out.append((f'synthetic-{i}.cab', p_))
    return out


class Part(ReadBase):
    """C05: same archive, same capabilities, another partition or byte source."""
    name = 'part'

    def gen(self, rng, tier):
        n = 70 if tier == 'quick' else 400
        for name, path in ref_pool(rng, n):
            size = os.path.getsize(path)
            cls = rng.choice(['K', 'K', 'K', 'N', 'S'])
            refsrc, variants = CLASSES[cls]
            cons = rng.choice(['A', 'A', 'A', 'S', 'N', 'A,S', 'S,B'])
            ops = ['load ' + path, f'run blk=w src={refsrc} cons={cons} trunc=- fault=-']
            for _ in range(3 if tier == 'quick' else 8):
                v = rng.choice(variants).format(bs=rng.choice(BS if size < 30000 else [7, 512, 10240]),
                                                cut=rng.randrange(0, size + 1))
                blk = blk_choice(rng, size) if v.startswith('cb') else 'w'
                ops.append(f'run blk={blk} src={v} cons={cons} trunc=- fault=-')
            yield Case(f'part:{name}:{cls}', ops, {'cls': cls})
        # every writable format once under a fixed set of small and odd block sizes (block borders inside headers,
        # sparse maps, extended headers, names), then random format/filter/option combinations
        for fmt in MAKE_FORMATS:
            refsrc, variants = CLASSES['K']
            cons = rng.choice(['A', 'A', 'S,A', 'A,S'])
            ops = [f'make fmt={fmt} filt=none seed={rng.randrange(1, 10**6)} n=6', f'run blk=w src={refsrc} cons={cons} trunc=- fault=-']
            for b in ['1', '7', '64', '511', '513', 'r%d' % rng.randrange(1, 999), 'c%d' % rng.randrange(0, 3000)]:
                ops.append(f'run blk={b} src=cbk cons={cons} trunc=- fault=-')
            yield Case(f'part:made:{fmt}+none:K', ops, {'cls': 'K'})
        for label, mk, size in made_archives(rng, 30 if tier == 'quick' else 300):
            cls = rng.choice(['K', 'K', 'N', 'S'])
            refsrc, variants = CLASSES[cls]
            cons = rng.choice(['A', 'A', 'S', 'S', 'N', 'A,S', 'S,B'])
            ops = [mk, f'run blk=w src={refsrc} cons={cons} trunc=- fault=-']
            for _ in range(3 if tier == 'quick' else 8):
                v = rng.choice(variants).format(bs=rng.choice([7, 512, 513, 10240]),
                                                cut=rng.choice([rng.randrange(0, 4000), rng.randrange(0, 150000)]))
                blk = rng.choice(['1', '3', '7', '7', '64', '511', '512', '513', '10240', 'r%d' % rng.randrange(1, 999), 'c%d' % rng.randrange(0, 3000)]) if v.startswith('cb') else 'w'
                ops.append(f'run blk={blk} src={v} cons={cons} trunc=- fault=-')
            yield Case(f'part:made:{label}:{cls}', ops, {'cls': cls})
        # synthetic archives of read-only formats (cabinet): every small block size, two-block cuts, small memory reads
        for name, path in synthetic_files(rng, 6 if tier == 'quick' else 60, 'part'):
            size = os.path.getsize(path)
            cons = rng.choice(['A', 'A', 'a', 'S,A', 'A,S'])
            ops = ['load ' + path, f'run blk=w src=cbk cons={cons} trunc=- fault=-']
            for b in ['1', '2', '3', '5', '7', '11', '64', '513', 'r%d' % rng.randrange(1, 999)]:
                ops.append(f'run blk={b} src={rng.choice(["cb", "cbs", "cbk"])} cons={cons} trunc=- fault=-')
            for _ in range(6 if tier == 'quick' else 40):
                ops.append(f'run blk=c{rng.randrange(0, size)} src=cb cons={cons} trunc=- fault=-')
            ops += [f'run blk=w src=mem:{k} cons={cons} trunc=- fault=-' for k in (1, 2, 3)]
            ops.append(f'run blk=w src=multi:{rng.randrange(1, size)} cons={cons} trunc=- fault=-')
            yield Case(f'part:{name}:K', ops, {'cls': 'K'})
        # multi-volume sets whose border falls inside a member that is skipped, not read
        for i in range(10 if tier == 'quick' else 120):
            fmt = rng.choice(['ustar', 'pax', 'gnutar', 'newc', 'odc', 'v7tar'])
            cons = rng.choice(['S', 'N', 'S,A', 'N,A,S'])
            ops = [f'make fmt={fmt} filt=none seed={rng.randrange(1, 10**6)} n={rng.choice([3, 5])} big=1',
                   f'run blk=w src=cbk cons={cons} trunc=- fault=-']
            for _ in range(7 if tier == 'quick' else 20):
                ops.append(f'run blk=w src=multi:p{rng.randrange(1, 100)} cons={cons} trunc=- fault=-')
            ops.append(f'run blk=w src=file:10240 cons={cons} trunc=- fault=-')
            yield Case(f'part:multiskip:{fmt}:{i}', ops, {'cls': 'K'})
        # gzip members with optional header fields, block borders inside the header
        d = os.path.join(core.OUT, 'scratch', 'mut'); os.makedirs(d, exist_ok=True)
        tars = [p for n_, p in ref_pool(rng, 10 ** 6, 30000) if n_.endswith('.tar')]
        for i in range(12 if tier == 'quick' else 150):
            gz, hl = gzip_with_fields(rng, open(rng.choice(tars), 'rb').read())
            mp = os.path.join(d, f'pg{os.getpid()}_{i}.gz'); open(mp, 'wb').write(gz)
            ops = ['load ' + mp, 'run blk=w src=cb cons=A trunc=- fault=-']
            for c in sorted({rng.randrange(1, hl + 2) for _ in range(5)} | {hl - 1}):
                ops.append(f'run blk=c{c} src=cb cons=A trunc=- fault=-')
            ops.append('run blk=1 src=cb cons=A trunc=- fault=-')
            yield Case(f'part:gzfields:{i}', ops, {'cls': 'N'})


CONS = ['A', 'a', 'B', 'P10', 'P1000', 'S', 'N', 'R1', 'R512', 'R4096']


class Cons(ReadBase):
    """C06: same archive and source, another per-entry consumption vector."""
    name = 'cons'

    def gen(self, rng, tier):
        n = 10 ** 6       # every reference archive (multi-folder, multi-stream and odd samples are few and specific)
        for name, path in ref_pool(rng, n) + synthetic_files(rng, 3 if tier == 'quick' else 30, 'cons'):
            size = os.path.getsize(path)
            src = rng.choice(['cbk', 'cbk', 'cb', 'cbs'])
            blk = rng.choice(['w', '512', '10240', 'r7'])
            ops = ['load ' + path, f'run blk={blk} src={src} cons=A trunc=- fault=-']
            vecs = [['B'], ['a'], ['S'], ['N'], ['P10'], ['P1000']]
            for _ in range(3 if tier == 'quick' else 10):
                vecs.append([rng.choice(CONS) for _ in range(rng.choice([2, 3, 5]))])
            rng.shuffle(vecs)
            vecs = vecs[:4 if tier == 'quick' else 12]
            # leave the first k entries alone (or skip them), then read: state deferred over several entries
            vecs += [[rng.choice(['N', 'S'])] * k + ['A'] for k in ((1, 3, 5) if tier == 'quick' else (1, 2, 3, 4, 5, 7, 9))]
            for v in vecs:
                ops.append(f'run blk={blk} src={src} cons={",".join(v)} trunc=- fault=-')
            yield Case(f'cons:{name}', ops)
        # every writable format under a seekable and under a purely sequential source, then random combinations
        cover = [(f'{fmt}+none', f'make fmt={fmt} filt=none seed={rng.randrange(1, 10**6)} n={rng.choice([3, 6])}', 60000, s_)
                 for fmt in MAKE_FORMATS for s_ in ('cbk', 'cb')]
        # structural options of the container formats with large members (state carried from one entry into the next)
        cover += [(f'{fmt}+none', f'make fmt={fmt} filt=none seed={rng.randrange(1, 10**6)} n=4 big={2 if fmt == "zip" else 1} opt={o}', 600000, 'cbk')
                  for fmt in ('7zip', 'zip', 'xar') for o in MAKE_OPTIONS[fmt]]
        for label, mk, size, fsrc in cover + [m + (None,) for m in made_archives(rng, 20 if tier == 'quick' else 300)]:
            src = fsrc or rng.choice(['cbk', 'cbk', 'cb', 'cbs'])
            blk = rng.choice(['w', '512', '10240', 'r7'])
            ops = [mk, f'run blk={blk} src={src} cons=A trunc=- fault=-']
            vecs = [['B'], ['a'], ['S'], ['N'], ['P10'], ['P1000'], ['R512']]
            if fsrc:
                vecs = [['P10'], ['P1000,S,A'], ['B'], ['S']] + vecs
            for _ in range(4):
                vecs.append([rng.choice(CONS) for _ in range(rng.choice([2, 3, 5]))])
            if not fsrc:
                rng.shuffle(vecs)
            for v in vecs[:4 if tier == 'quick' else 10]:
                ops.append(f'run blk={blk} src={src} cons={",".join(v)} trunc=- fault=-')
            yield Case(f'cons:made:{label}', ops)



class Trunc(ReadBase):
    """C08: truncation at any offset, callback faults at any invocation."""
    name = 'trunc'

    def gen(self, rng, tier):
        n = 60 if tier == 'quick' else 300
        for name, path in ref_pool(rng, n, 120000) + synthetic_files(rng, 3 if tier == 'quick' else 30, 'trunc'):
            size = os.path.getsize(path)
            src = rng.choice(['cbk', 'cb', 'cbs'])
            blk = rng.choice(['w', '512', '10240', '513'])
            ops = ['load ' + path, f'run blk={blk} src={src} cons=A trunc=- fault=-']
            k = 4 if tier == 'quick' else (size + 1 if size <= 4096 else 40)
            offs = range(size + 1) if k > size else sorted({rng.randrange(0, size + 1) for _ in range(k)} | {max(0, size - 1), size // 2})
            offs = list(offs)
            for t in offs:
                ops.append(f'run blk={blk} src={src} cons=A trunc={t} fault=-')
            for _ in range(3 if tier == 'quick' else 12):
                kind = rng.choice(['err', 'err', 'eof', 'skiperr', 'skipshort', 'seekerr'])
                idx = rng.choice([0, 1, 2, 3, 5, 8, 13, 30])
                fb = blk if blk != 'w' else rng.choice(['512', 'w'])
                ops.append(f'run blk={fb} src={src} cons=A trunc=- fault={kind}@{idx}')
            yield Case(f'trunc:{name}', ops)
        # every writable format once without filter, every structural option set of the container formats once,
        # then random format/filter/option combinations
        cover = [(f'{fmt}+none', f'make fmt={fmt} filt=none seed={rng.randrange(1, 10**6)} n={rng.choice([3, 6])}', 60000)
                 for fmt in MAKE_FORMATS]
        cover += [(f'{fmt}+none', f'make fmt={fmt} filt=none seed={rng.randrange(1, 10**6)} n={rng.choice([3, 6])} opt={o}', 60000)
                  for fmt in ('7zip', 'zip', 'xar', 'iso9660', 'mtree') for o in MAKE_OPTIONS[fmt]]
        for label, mk, size in cover + made_archives(rng, 12 if tier == 'quick' else 200):
            src = rng.choice(['cbk', 'cb', 'cbs'])
            blk = rng.choice(['w', '512', '10240', '513'])
            ops = [mk, f'run blk={blk} src={src} cons=A trunc=- fault=-']
            for _ in range((14 if label.startswith('pax') else 5) if tier == 'quick' else 40):
                ops.append(f'run blk={blk} src={src} cons=A trunc={rng.randrange(0, size)} fault=-')
            # headers, trailers, tables of contents and central directories sit at the two ends
            for _ in range(12 if tier == 'quick' else 60):
                t = rng.choice([f'e{rng.randrange(1, 600)}', f'e{rng.randrange(1, 600)}', f'e{rng.randrange(1, 64)}', str(rng.randrange(0, 700))])
                ops.append(f'run blk={blk} src={src} cons=A trunc={t} fault=-')
            for _ in range(3 if tier == 'quick' else 12):
                kind = rng.choice(['err', 'err', 'eof', 'skiperr', 'skipshort', 'seekerr'])
                ops.append(f'run blk={blk if blk != "w" else "512"} src={src} cons=A trunc=- fault={kind}@{rng.choice([0, 1, 2, 3, 5, 8, 13, 30])}')
            yield Case(f'trunc:made:{label}', ops)
        # filter-only streams read through the raw format: nothing but the filter's own framing can
        # report a cut, so a truncated body must come with the filter's error
        for filt in ['gzip', 'bzip2', 'xz', 'zstd', 'lz4', 'lzip', 'uuencode', 'b64encode']:
            # every option set of the filter, every time: options decide which of the filter's own checks
            # (block/stream checksums, trailers, frame ends) is the one that has to notice the cut
            for opt in ([''] + [' opt=' + o for o in MAKE_OPTIONS.get(filt, [])]) * (1 if tier == 'quick' else 3):
                seed = rng.randrange(1, 10 ** 6)
                src = rng.choice(['cbk', 'cb', 'cbs'])
                blk = rng.choice(['w', '512', '10240'])
                mk = f'make fmt=raw filt={filt} seed={seed} n=1' + opt
                ops = [mk, f'run blk={blk} src={src} cons=A trunc=- fault=- raw=1']
                for _ in range(3 if tier == 'quick' else 40):
                    ops.append(f'run blk={blk} src={src} cons=A trunc={rng.randrange(160, 160000)} fault=- raw=1')   # below what the filter's bidder needs to recognise it (signature; uu/b64: begin line + one body line) the cut stream is simply raw data
                for t in self.step_cuts(mk, 1 if tier == 'quick' else 8):
                    ops.append(f'run blk={blk} src={src} cons=A trunc={t} fault=- raw=1')
                yield Case(f'trunc:raw:{filt}', ops)

    def step_cuts(self, mk, want):
        """Cut offsets at the block borders of a filter stream, found without knowing the filter: the number of
        bytes delivered from a stream cut at offset c is a step function of c; bisect between sampled cuts that
        deliver different amounts down to the offset where the step is, and return it with its neighbours."""
        def delivered(cuts):
            ops = [mk] + [f'run blk=w src=cb cons=A trunc={c} fault=- raw=1' for c in cuts]
            impl, _ = self._run_impl1(self.exe, [Case('probe', ops)])
            out = impl[0] if impl else []
            if not out or not out[0].startswith('made '):
                return None, []
            total = int(out[0].split()[1])
            ls = []
            for o in out[1:]:
                m = re.search(r'\|E \S+ \S+ (\d+) ', o)
                ls.append(int(m.group(1)) if m else -1)
            return total, ls
        total, _ = delivered([])
        if not total or total < 400:
            return []
        pts = [160 + (total - 160) * i // 8 for i in range(9)]
        _, ls = delivered(pts)
        if len(ls) != len(pts):
            return []
        out = []
        for i in range(len(pts) - 1):
            if len(out) >= 3 * want:
                break
            lo, hi, llo, lhi = pts[i], pts[i + 1], ls[i], ls[i + 1]
            if llo == lhi:
                continue
            while hi - lo > 1:                 # smallest cut that already delivers more than `lo` does
                mid = (lo + hi) // 2
                _, lm = delivered([mid])
                if not lm:
                    break
                if lm[0] == llo:
                    lo = mid
                else:
                    hi, lhi = mid, lm[0]
            out += [hi - 1, hi, hi + 1]
        return sorted({c for c in out if 160 <= c < total})


def tar_fix_checksums(b):
    """Recompute the header checksum of every block that looks like a tar header."""
    for off in range(0, len(b) - 511, 512):
        blk = b[off:off + 512]
        if blk[257:262] in (b'ustar', b'ustar') or (blk[156:157] in b'0123456789LKxgSDMNV\0' and any(blk[:100]) and blk[148:156].strip(b' \0').isdigit()):
            s = sum(blk[:148]) + 8 * 32 + sum(blk[156:512])
            b[off + 148:off + 156] = b'%06o\0 ' % s


TAR_FIELDS = [(100, 8), (108, 8), (116, 8), (124, 12), (136, 12), (329, 8), (337, 8),      # mode uid gid size mtime devmajor devminor
              (386, 12), (398, 12), (410, 12), (422, 12), (483, 12)]                      # GNU old sparse map, realsize


def tar_extreme(rng, b):
    """Put a border value into a numeric field of a tar header and keep the checksum valid."""
    heads = [off for off in range(0, len(b) - 511, 512) if b[off + 257:off + 262] == b'ustar']
    if not heads:
        return False
    off = rng.choice(heads); f, w = rng.choice(TAR_FIELDS)
    r = rng.random()
    if r < 0.5:      # base-256
        v = rng.choice([2 ** 62, 2 ** 63 - 1, 2 ** 31, 2 ** 32, 2 ** 33, 2 ** 40, -1, -2 ** 62])
        enc = (v & ((1 << (8 * w)) - 1)).to_bytes(w, 'big')
        enc = bytes([enc[0] | 0x80]) + enc[1:] if v >= 0 else bytes([0xff]) + enc[1:]
        b[off + f:off + f + w] = enc
    elif r < 0.8:    # octal at the field border
        b[off + f:off + f + w] = b'7' * w
    else:
        b[off + f:off + f + w] = rng.choice([b' ' * w, b'-' + b'7' * (w - 1), b'0' * (w - 1) + b'8'])
    if rng.random() < 0.3:
        b[off + 156] = rng.choice(b'S01257LKxgDMNV')   # type flag incl. GNU sparse
    return True


def sevenzip_header_mutation(rng, b):
    """Damage the (unencoded or encoded) 7-Zip header database and recompute the two header CRCs, so that the
    damage is parsed instead of being stopped by the integrity check.  False if `b` is no 7z archive."""
    import zlib
    if len(b) < 32 or bytes(b[:6]) != b"7z\xbc\xaf\x27\x1c":
        return False
    off = int.from_bytes(b[12:20], 'little'); size = int.from_bytes(b[20:28], 'little')
    start = 32 + off
    if size == 0 or start + size > len(b):
        return False
    for _ in range(rng.choice([1, 1, 2, 3])):
        i = start + rng.randrange(size); r = rng.random()
        if r < 0.4:
            b[i] ^= 1 << rng.randrange(8)
        elif r < 0.8:
            b[i] = rng.choice([0, 1, 2, 5, 6, 9, 10, 11, 12, 13, 14, 15, 17, 18, 19, 20, 21, 23, 24, 25, 0x7f, 0x80, 0xff])   # property ids, size prefixes
        else:
            b[i] = (b[i] + rng.choice([1, 255])) & 0xff
    b[28:32] = (zlib.crc32(bytes(b[start:start + size])) & 0xffffffff).to_bytes(4, 'little')
    b[8:12] = (zlib.crc32(bytes(b[12:32])) & 0xffffffff).to_bytes(4, 'little')
    return True


def mutate(rng, data):
    b = bytearray(data)
    if not b:
        return bytes(b)
    if rng.random() < 0.25 and tar_extreme(rng, b):
        tar_fix_checksums(b)
        return bytes(b)
    if rng.random() < 0.6 and sevenzip_header_mutation(rng, b):
        return bytes(b)
    head = rng.random() < 0.45           # concentrate on the first header
    for _ in range(rng.choice([1, 1, 2, 4, 16])):
        r = rng.random(); i = rng.randrange(min(len(b), 160)) if head else rng.randrange(len(b))
        if r < 0.35:
            b[i] ^= 1 << rng.randrange(8)
        elif r < 0.55:
            b[i] = rng.choice([0, 0xff, 0x7f, 0x80, 0x20, 0x30, 0x37, 200])
        elif r < 0.7:
            j = min(len(b), i + rng.choice([1, 2, 4, 8])); b[i:j] = bytes([0xff]) * (j - i)
        elif r < 0.8:
            del b[i:i + rng.choice([1, 2, 512])]
        elif r < 0.9:
            b[i:i] = b[i:i + rng.choice([1, 16, 512])]
        else:
            b = b[:i]
        if not b:
            break
    if head and b and rng.random() < 0.4:
        b = b[:rng.randrange(1, min(len(b), 200) + 1)]      # cut right behind the (damaged) fixed header
    if rng.random() < 0.6:
        tar_fix_checksums(b)
    return bytes(b)


def gzip_with_fields(rng, payload):
    """A gzip member with any combination of the optional header fields (FEXTRA, FNAME, FCOMMENT, FHCRC)."""
    import zlib
    flg = rng.choice([0x10, 0x08, 0x18, 0x04, 0x1c, 0x1e, 0x12, 0x0a])
    hdr = bytearray(b'\x1f\x8b\x08' + bytes([flg]) + b'\0\0\0\0\0\x03')
    if flg & 4:
        ex = bytes(rng.randrange(256) for _ in range(rng.choice([0, 1, 5, 40])))
        hdr += len(ex).to_bytes(2, 'little') + ex
    if flg & 8:
        hdr += b'n' * rng.choice([1, 3, 20]) + b'\0'
    if flg & 16:
        hdr += b'c' * rng.choice([1, 2, 7, 30, 300]) + b'\0'
    if flg & 2:
        hdr += (zlib.crc32(bytes(hdr)) & 0xffff).to_bytes(2, 'little')
    c = zlib.compressobj(6, zlib.DEFLATED, -15)
    body = c.compress(payload) + c.flush()
    return bytes(hdr) + body + zlib.crc32(payload).to_bytes(4, 'little') + (len(payload) & 0xffffffff).to_bytes(4, 'little'), len(hdr)


class Rd(ReadBase):
    """C01: hostile input (mutated reference archives), all formats and filters enabled."""
    name = 'rd'
    keep_prefix = 1

    def gen(self, rng, tier):
        n = 120 if tier == 'quick' else 1500
        d = os.path.join(core.OUT, 'scratch', 'mut')
        os.makedirs(d, exist_ok=True)
        pool = ref_pool(rng, 10 ** 6, 150000)
        for i in range(n):
            name, path = rng.choice(pool)
            data = mutate(rng, open(path, 'rb').read())
            mp = os.path.join(d, f'm{os.getpid()}_{i}_{name}')     # the origin stays visible to known-finding classes
            open(mp, 'wb').write(data)
            src = rng.choice(['cbk', 'cb', 'cbs', 'mem:512'])
            blk = rng.choice(['w', '1', '7', '512', 'r3']) if len(data) < 20000 else rng.choice(['w', '512', 'r3'])
            cons = rng.choice(['A', 'a', 'B', 'A,S,B', 'N', 'P10,a'])
            yield Case(f'rd:{name}:{i}', ['load ' + mp, f'run blk={blk} src={src} cons={cons} trunc=- fault=-'], {'file': mp})
        # 7-Zip keeps its whole structure in a CRC-protected header database: damage it behind the CRCs
        z7 = sorted(p_ for n_, p_ in pool if n_.endswith('.7z') and os.path.getsize(p_) < 100000)
        rng.shuffle(z7)
        for j, p_ in enumerate(z7[:(10 if tier == 'quick' else len(z7))]):
            data = open(p_, 'rb').read()
            for i in range(25 if tier == 'quick' else 300):
                b = bytearray(data)
                if not sevenzip_header_mutation(rng, b):
                    break
                mp = os.path.join(d, f'z{os.getpid()}_{j}_{i}_{os.path.basename(p_)}')
                open(mp, 'wb').write(bytes(b))
                yield Case(f'rd:7zhdr:{os.path.basename(p_)}:{i}',
                           ['load ' + mp, f'run blk={rng.choice(["w", "512", "7"])} src={rng.choice(["cbk", "cbk", "mem:512"])} cons={rng.choice(["A", "B", "S", "N"])} trunc=- fault=-'], {'file': mp})
        # header sweep: one small representative per format family, single damaged bytes in the fixed
        # header (length, count and size fields live there) combined with a cut just behind it
        def only_of(path):
            n_ = os.path.basename(path)
            for pat, f in (('lzh', 'lha'), ('.cab', 'cab'), ('rar5', 'rar5'), ('.rar', 'rar'), ('.zip', 'zip'), ('.7z', '7zip'),
                           ('cpio', 'cpio'), ('.tar', 'tar'), ('.ar', 'ar'), ('.iso', 'iso9660'), ('.xar', 'xar'),
                           ('mtree', 'mtree'), ('warc', 'warc')):
                if pat in n_ and not re.search(r'\.(gz|bz2|Z|xz|lz|lzma|zst|lz4|uu|tgz|tbz|lzo|grz|lrz)$', n_):
                    return f
            return '-'
        # (the 25-level gzip nesting sample costs a second per 7-byte-block run: sweep it in the thorough tier only)
        small = sorted(p_ for n_, p_ in pool if os.path.getsize(p_) <= 6000 and (tier != 'quick' or 'recursive' not in n_))
        rng.shuffle(small)
        if tier == 'quick':                    # stratified: up to twelve samples of every format family
            per = {}
            for p_ in small:
                per.setdefault(only_of(p_), []).append(p_)
            small = [p_ for f_ in sorted(per) for p_ in per[f_][:12]]
        for p_ in small:
            size = os.path.getsize(p_)
            ops = ['load ' + p_]
            # every byte of the fixed header set to 255, small blocks so that the library's own
            # (exact-size) copy buffer is what an over-long length field runs out of
            for off in range(0, min(size, 40 if tier == 'quick' else 96)):
                ops.append(f'run blk=7 src=cb cons=A trunc=- fault=- poke={off}:255 only={only_of(p_)}')
            for off in range(0, min(size, 32 if tier == 'quick' else 96)):     # large but below typical sanity caps
                ops.append(f'run blk=7 src=cb cons=A trunc=- fault=- poke={off}:200 only={only_of(p_)}')
            # length fields are consistent with one another up to small differences: slightly smaller/larger
            # values (header size one short of the name it must hold, a count one over) pass the sanity
            # caps that 200/255 run into
            head = open(p_, 'rb').read(96)
            for off in range(0, min(size, 40 if tier == 'quick' else 96)):
                o_ = head[off]
                for val in {max(0, o_ - 1), min(255, o_ + 1), max(0, o_ - rng.randrange(2, 17)), min(255, o_ + rng.randrange(2, 17))} - {o_}:
                    ops.append(f'run blk=7 src=cb cons=A trunc=- fault=- poke={off}:{val} only={only_of(p_)}')
            for _ in range(12 if tier == 'quick' else 300):
                off = rng.randrange(0, min(size, 120))
                val = rng.choice([255, 200, 127, 128, 0, 1, 64])
                pk = f'{off}:{val}'
                if rng.random() < 0.3:
                    pk += f',{min(size - 1, off + 1)}:{rng.choice([255, 0, 127])}'
                tr = rng.choice(['-', '-', str(min(size, off + rng.randrange(1, 40))), str(min(size, rng.choice([21, 27, 28, 32, 60, 64, 100, 512])))])
                ops.append(f'run blk={rng.choice(["w", "7", "512"])} src={rng.choice(["cb", "cbk"])} cons={rng.choice(["A", "B", "S"])} trunc={tr} fault=- poke={pk}')
            yield Case(f'rd:sweep:{os.path.basename(p_)}', ops)
        tars = [p for n_, p in pool if n_.endswith('.tar') and os.path.getsize(p) < 30000]
        for i in range(25 if tier == 'quick' else 300):
            gz, hl = gzip_with_fields(rng, open(rng.choice(tars), 'rb').read())
            mp = os.path.join(d, f'g{os.getpid()}_{i}.gz')
            open(mp, 'wb').write(gz)
            ops = ['load ' + mp]
            for c in sorted({rng.randrange(1, hl + 2) for _ in range(6)} | {hl - 1, hl}):
                ops.append(f'run blk=c{c} src={rng.choice(["cb", "cbk"])} cons=A trunc=- fault=-')
            ops.append('run blk=1 src=cb cons=A trunc=- fault=-')
            yield Case(f'rd:gzfields:{i}', ops, {'file': mp})

    def oracle(self, case, impl):
        for o in impl:
            if 'OVER' in o:
                return 'archive_read_data returned more than was asked for'
            if 'ENTRY-AFTER-END' in o:
                return 'an entry was produced after end-of-archive / fatal header'
        return None
