"""Engine `codec` (shared by C10 and C02): numeric formatters/parsers called directly and whole
write -> read round trips through the real libarchive writers and readers."""
import os, re, subprocess
from lib import core
from lib.core import Engine, Case

H = core.HARNESS
INC = ['codec_w_ustar.c', 'codec_w_v7tar.c', 'codec_w_gnutar.c', 'codec_w_odc.c', 'codec_w_newc.c',
       'codec_w_ar.c', 'codec_r_tar.c', 'codec_r_cpio.c']
REPO_DEPS = ['libarchive/archive_write_set_format_ustar.c', 'libarchive/archive_write_set_format_v7tar.c',
             'libarchive/archive_write_set_format_gnutar.c', 'libarchive/archive_write_set_format_cpio_odc.c',
             'libarchive/archive_write_set_format_cpio_newc.c', 'libarchive/archive_write_set_format_ar.c',
             'libarchive/archive_read_support_format_tar.c', 'libarchive/archive_read_support_format_cpio.c']

I64MAX, I64MIN = 2 ** 63 - 1, -2 ** 63

# (kind, [(s, max)], strict choices)
FMT_KINDS = [
    ('ustar_octal', [(6, 6), (11, 11), (7, 7), (1, 1), (12, 12)], [1]),
    ('ustar_number', [(6, 8), (11, 12), (11, 11), (7, 8)], [0, 1]),
    ('v7tar_number', [(6, 8), (11, 12)], [0, 1]),
    ('v7tar_octal', [(6, 6), (11, 11)], [1]),
    ('ustar_256', [(8, 8), (12, 12), (11, 11), (9, 9)], [1]),
    ('gnutar_octal', [(7, 7), (11, 11), (6, 6)], [1]),
    ('gnutar_number', [(7, 8), (11, 12)], [1]),
    ('odc_octal', [(6, 6), (11, 11)], [1]),
    ('newc_hex', [(8, 8), (6, 6)], [1]),
    ('ar_octal', [(8, 8), (3, 3), (1, 1)], [1]),
    ('ar_decimal', [(6, 6), (10, 10), (12, 12), (13, 13), (1, 1)], [1]),
]


def border_values(rng, s, base_bits):
    """Values around the field limit and the int64 borders."""
    lim = 1 << (s * base_bits)
    vs = [0, 1, 7, 8, lim - 1, lim, lim + 1, lim // 8, lim * 8 - 1, lim * 8, lim * 64 - 1, lim * 64,
          2 ** 31 - 1, 2 ** 31, 2 ** 32 - 1, 2 ** 32, 2 ** 33 - 1, 2 ** 33, 2 ** 62 - 1, 2 ** 62, I64MAX, I64MAX - 1,
          -1, -2, -255, -256, -2 ** 31, -2 ** 62, -2 ** 62 - 1, I64MIN, I64MIN + 1, 10 ** s - 1, 10 ** s]
    vs += [rng.randrange(0, lim), rng.randrange(0, 2 ** 63), -rng.randrange(0, 2 ** 63), rng.randrange(0, lim * 70)]
    return [v for v in vs if I64MIN <= v <= I64MAX]


def gen_fmt_cases(rng, tier):
    reps = 1 if tier == 'quick' else 12
    for kind, widths, stricts in FMT_KINDS:
        bits = 4 if kind == 'newc_hex' else 3
        for s, mx in widths:
            for strict in stricts:
                for _ in range(reps):
                    ops = []
                    for v in border_values(rng, s, bits):
                        if kind.endswith('_number'):
                            ops.append(f'fmt {kind} {v} {s} {mx} {strict}')
                        else:
                            ops.append(f'fmt {kind} {v} {s}')
                    yield Case(f'fmt-{kind}-{s}-{mx}-{strict}', ops)


def fields_for_atol(rng):
    """Byte strings shaped like numeric header fields: writer outputs, near misses, base-256, junk."""
    out = []
    for width in (6, 7, 8, 11, 12):
        v = rng.choice([0, 1, 8 ** width - 1, rng.randrange(8 ** width)])
        d = ('%0*o' % (width, v)).encode()
        out += [d, d + b' \0', d + b'\0', d + b' ', b' ' * 2 + d, b'\t' + d[:3] + b'8' + d[3:], d[:4] + b'\0' + d[4:]]
    out += [b'-123', b'-' + b'7' * 30, b'7' * 22, b'7' * 21, b'17' + b'7' * 20, b'1' + b'0' * 21, b'0' * 25 + b'7',
            b'777777777777777777777', b'1000000000000000000000', b'-1000000000000000000000', b'-777777777777777777777',
            b'9223372036854775807', b'9223372036854775808', b'-9223372036854775808', b'-9223372036854775809', b'  ', b'-', b'\0' * 8]
    for width in (8, 9, 11, 12, 1, 2):
        for v in (0, 1, -1, 255, -256, 2 ** 62 - 1, 2 ** 62, -2 ** 62, -2 ** 62 - 1, I64MAX, I64MIN, rng.randrange(-2 ** 63, 2 ** 63)):
            b = bytearray((v % (1 << (8 * width))).to_bytes(width, 'big'))
            b[0] |= 0x80
            out.append(bytes(b))
            if width > 8:
                b2 = bytearray(b); b2[1] ^= rng.choice([1, 0x80, 0x40]); out.append(bytes(b2))
        out.append(bytes([0x80 | rng.randrange(128)] + [rng.randrange(256) for _ in range(width - 1)]))
    for _ in range(6):
        out.append(bytes(rng.choice(b'01234567 89abcdefABCDEF\0-\t\x80\xff') for _ in range(rng.choice([1, 6, 8, 12, 23]))))
    return out


def gen_atol_cases(rng, tier):
    reps = 2 if tier == 'quick' else 40
    for r in range(reps):
        for kind in ('tar', 'tar8', 'tar10', 'tar256', 'cpio8', 'cpio16'):
            ops = [f'atol {kind} {f.hex()}' for f in fields_for_atol(rng) if f]
            yield Case(f'atol-{kind}-{r}', ops)


class Codec(Engine):
    name = 'codec'
    extra_cflags = tuple(os.path.join(H, f) for f in INC)
    repo_deps = tuple(REPO_DEPS) + tuple(os.path.join(H, f) for f in INC) + (os.path.join(H, 'codec_inc.h'),)

    def __init__(self, mode='c10'):
        self.mode = mode

    def gen(self, rng, tier):
        yield from gen_fmt_cases(rng, tier)
        yield from gen_atol_cases(rng, tier)

    def nontrivial(self, case, impl):
        return any('r=-1' in l or 'v=' in l or 'h=' in l for l in impl)

    def stats(self, cases, impl):
        st = {'ops': {}, 'fmt_overflow': 0, 'fmt_ok': 0}
        for c, im in zip(cases, impl):
            for op, o in zip(c.ops, im):
                k = op.split()[0]
                st['ops'][k] = st['ops'].get(k, 0) + 1
                if k == 'fmt':
                    st['fmt_overflow' if o.startswith('r=-1') else 'fmt_ok'] += 1
        return st
