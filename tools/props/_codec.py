"""Engine `codec` (shared by C10 and C02): numeric formatters/parsers called directly and whole
write -> read round trips through the real libarchive writers and readers."""
import os, re, subprocess
from lib import core
from lib.core import Engine, Case

H = core.HARNESS
INC = ['codec_w_pax.c', 'codec_w_ustar.c', 'codec_w_v7tar.c', 'codec_w_gnutar.c', 'codec_w_odc.c', 'codec_w_newc.c',
       'codec_w_ar.c', 'codec_r_tar.c', 'codec_r_cpio.c']
REPO_DEPS = ['libarchive/archive_write_set_format_pax.c', 'libarchive/archive_write_set_format_ustar.c', 'libarchive/archive_write_set_format_v7tar.c',
             'libarchive/archive_write_set_format_gnutar.c', 'libarchive/archive_write_set_format_cpio_odc.c',
             'libarchive/archive_write_set_format_cpio_newc.c', 'libarchive/archive_write_set_format_ar.c',
             'libarchive/archive_read_support_format_tar.c', 'libarchive/archive_read_support_format_cpio.c']

I64MAX, I64MIN = 2 ** 63 - 1, -2 ** 63

# (kind, [(s, max)], strict choices)
FMT_KINDS = [
    ('ustar_octal', [(6, 6), (11, 11), (7, 7), (1, 1), (12, 12)], [1]),
    ('ustar_number', [(6, 8), (11, 12), (11, 11), (7, 8)], [0, 1]),
    ('v7tar_number', [(6, 8), (11, 12)], [0, 1]),
    ('v7tar_octal', [(6, 6), (11, 11)], [1]),
    ('ustar_256', [(8, 8), (12, 12), (11, 11), (9, 9)], [1]),
    ('gnutar_octal', [(7, 7), (11, 11), (6, 6)], [1]),
    ('gnutar_number', [(7, 8), (11, 12)], [1]),
    ('odc_octal', [(6, 6), (11, 11)], [1]),
    ('newc_hex', [(8, 8), (6, 6)], [1]),
    ('ar_octal', [(8, 8), (3, 3), (1, 1)], [1]),
    ('ar_decimal', [(6, 6), (10, 10), (12, 12), (13, 13), (1, 1)], [1]),
]


def border_values(rng, s, base_bits):
    """Values around the field limit and the int64 borders."""
    lim = 1 << (s * base_bits)
    vs = [0, 1, 7, 8, lim - 1, lim, lim + 1, lim // 8, lim * 8 - 1, lim * 8, lim * 64 - 1, lim * 64,
          2 ** 31 - 1, 2 ** 31, 2 ** 32 - 1, 2 ** 32, 2 ** 33 - 1, 2 ** 33, 2 ** 62 - 1, 2 ** 62, I64MAX, I64MAX - 1,
          -1, -2, -255, -256, -2 ** 31, -2 ** 62, -2 ** 62 - 1, I64MIN, I64MIN + 1, 10 ** s - 1, 10 ** s]
    vs += [rng.randrange(0, lim), rng.randrange(0, 2 ** 63), -rng.randrange(0, 2 ** 63), rng.randrange(0, lim * 70)]
    return [v for v in vs if I64MIN <= v <= I64MAX]


def gen_fmt_cases(rng, tier):
    reps = 1 if tier == 'quick' else 12
    for kind, widths, stricts in FMT_KINDS:
        bits = 4 if kind == 'newc_hex' else 3
        for s, mx in widths:
            for strict in stricts:
                for _ in range(reps):
                    ops = []
                    for v in border_values(rng, s, bits):
                        if kind.endswith('_number'):
                            ops.append(f'fmt {kind} {v} {s} {mx} {strict}')
                        else:
                            ops.append(f'fmt {kind} {v} {s}')
                    yield Case(f'fmt-{kind}-{s}-{mx}-{strict}', ops)


def fields_for_atol(rng):
    """Byte strings shaped like numeric header fields: writer outputs, near misses, base-256, junk."""
    out = []
    for width in (6, 7, 8, 11, 12):
        v = rng.choice([0, 1, 8 ** width - 1, rng.randrange(8 ** width)])
        d = ('%0*o' % (width, v)).encode()
        out += [d, d + b' \0', d + b'\0', d + b' ', b' ' * 2 + d, b'\t' + d[:3] + b'8' + d[3:], d[:4] + b'\0' + d[4:]]
    out += [b'-123', b'-' + b'7' * 30, b'7' * 22, b'7' * 21, b'17' + b'7' * 20, b'1' + b'0' * 21, b'0' * 25 + b'7',
            b'777777777777777777777', b'1000000000000000000000', b'-1000000000000000000000', b'-777777777777777777777',
            b'9223372036854775807', b'9223372036854775808', b'-9223372036854775808', b'-9223372036854775809', b'  ', b'-', b'\0' * 8]
    for width in (8, 9, 11, 12, 1, 2):
        for v in (0, 1, -1, 255, -256, 2 ** 62 - 1, 2 ** 62, -2 ** 62, -2 ** 62 - 1, I64MAX, I64MIN, rng.randrange(-2 ** 63, 2 ** 63)):
            b = bytearray((v % (1 << (8 * width))).to_bytes(width, 'big'))
            b[0] |= 0x80
            out.append(bytes(b))
            if width > 8:
                b2 = bytearray(b); b2[1] ^= rng.choice([1, 0x80, 0x40]); out.append(bytes(b2))
        out.append(bytes([0x80 | rng.randrange(128)] + [rng.randrange(256) for _ in range(width - 1)]))
    for _ in range(6):
        out.append(bytes(rng.choice(b'01234567 89abcdefABCDEF\0-\t\x80\xff') for _ in range(rng.choice([1, 6, 8, 12, 23]))))
    return out


def gen_pax_cases(rng, tier):
    """Record lengths around every power of ten (the self-referential length prefix)."""
    lens = sorted(set([1, 2, 3, 4, 5, 6, 7, 8, 9, 10, 11] + [p + d for p in (10, 100, 1000, 10000) for d in range(-8, 5)]))
    reps = 1 if tier == 'quick' else 6
    for r in range(reps):
        ops = []
        for total in lens:
            # total = bytes of " key=value\n": 1 + k + 1 + v + 1
            k = rng.choice([1, 4, 9, 17])
            v = total - 3 - k
            if v < 0:
                k, v = max(1, total - 3), 0
            key = bytes(rng.choice(b'abcdefgXYZ.') for _ in range(k))
            val = bytes(rng.randrange(256) for _ in range(v))
            ops.append(f'paxrec {key.hex()} {val.hex() if val else "-"}')
        yield Case(f'paxrec-{r}', ops)


def gen_atol_cases(rng, tier):
    reps = 2 if tier == 'quick' else 40
    for r in range(reps):
        for kind in ('tar', 'tar8', 'tar10', 'tar256', 'cpio8', 'cpio16'):
            ops = [f'atol {kind} {f.hex()}' for f in fields_for_atol(rng) if f]
            yield Case(f'atol-{kind}-{r}', ops)



# --------------------------------------------------------------------------
# whole-archive cases

BYTE_FMTS = ['ustar', 'odc', 'newc']                     # byte-exact Lean model
SPEC_FMTS = ['pax', 'paxr', 'gnutar', 'v7tar', 'bin', 'pwb', 'arbsd', 'arsvr4', 'zip', '7zip', 'xar',
             'iso9660', 'mtree', 'warc']                  # spec-level (representable / norm) only
ALL_FMTS = BYTE_FMTS + SPEC_FMTS
SPOOLING = ('7zip', 'xar', 'iso9660', 'zip', 'mtree')   # nothing readable before close: no abort mode
TYPES = ['reg', 'dir', 'lnk', 'chr', 'blk', 'fifo', 'sock']


def hx(b):
    if isinstance(b, str):
        b = b.encode()
    return bytes(b).hex() if len(b) else '-'


def ent_line(d):
    return 'ent ' + ' '.join(f'{k}={v}' for k, v in d.items() if v is not None)


def good_entry(rng, fmt, k, typ='reg'):
    """A small entry every format accepts (per-format supported type), distinct names."""
    name = f'd{k}/f{k}' if fmt not in ('arbsd', 'arsvr4') else f'f{k}'
    size = rng.choice([0, 1, 3, 511, 512, 513, 1500])
    d = dict(path=hx(name), type='reg', perm=rng.choice(['644', '600', '755']), uid=str(rng.choice([0, 1, 1000, 65535])),
             gid=str(rng.choice([0, 5, 100])), size=str(size), mtime=str(rng.choice([0, 1, 10 ** 9, 2 ** 31 - 1])),
             dev='5', ino=str(20 + k), nlink='1', body=f'{rng.randrange(256)}:{size}')
    if rng.random() < 0.5:
        d['chunks'] = ','.join(str(rng.choice([1, 2, 7, 100, 511, 512, 513])) for _ in range(rng.choice([1, 2, 3])))
    return d


def with_type(d, typ, rng):
    d = dict(d)
    d['type'] = typ
    if typ != 'reg':
        d['size'] = '0'; d.pop('body', None); d.pop('chunks', None)
    if typ == 'lnk':
        d['sym'] = hx('target/of/link')
    if typ in ('chr', 'blk'):
        d['rdevmajor'] = str(rng.choice([0, 1, 8, 255])); d['rdevminor'] = str(rng.choice([0, 3, 255]))
    return d


NUM_BORDERS = sorted(set([0, 1, 255, 256, 4095, 4096, 65535, 65536, 262143, 262144, 999999, 1000000, 2097151, 2097152,
                          2 ** 24 - 1, 2 ** 24, 2 ** 31 - 1, 2 ** 31, 2 ** 32 - 1, 2 ** 32, 2 ** 33 - 1, 2 ** 33, 2 ** 56 - 1, 2 ** 56,
                          9999999999, 10 ** 10, 10 ** 12 - 1, 10 ** 12, 2 ** 60 - 1, 2 ** 60, 2 ** 62 - 1, 2 ** 62, 2 ** 63 - 1]))


def name_probes(rng):
    """Pathnames at the ustar / v7 / ar limits with '/' placed around the split rule."""
    out = []
    for L in (15, 16, 17, 99, 100, 101, 102, 154, 155, 156, 157, 200, 254, 255, 256, 257, 300):
        out.append(('flat', 'n' * L))
        for k in sorted(set([L - 102, L - 101, L - 100, L - 99, 153, 154, 155, 156, 1, L - 2])):
            if 0 < k < L - 1:
                p = ['x'] * L; p[k] = '/'
                out.append((f'slash@{k}', ''.join(p)))
        if L > 101:
            p = ['y'] * L; p[0] = '/'; out.append(('lead', ''.join(p)))
            p = ['y'] * L; p[0] = '/'; p[L - 60] = '/'; out.append(('lead+mid', ''.join(p)))
            p = ['z'] * L; p[L - 1] = '/'; out.append(('trail', ''.join(p)))
            p = ['z'] * L; p[L - 101] = '/'; p[L - 1] = '/'; out.append(('mid+trail', ''.join(p)))
            k = rng.choice([L - 101, L - 100, L - 50])
            p = ['w'] * L; p[k - 1] = '/'; p[k] = '/'; out.append((f'dbl@{k}', ''.join(p)))
    out += [('utf8', 'd/é中'.encode()), ('badutf8', b'd/\xff\xfe'), ('dot', './a/b'), ('abs', '/a/b'), ('dbl', 'a//b'),
            ('dotdot', '../b'), ('sp', 'a b/c d'), ('long', 'p/' * 400 + 'q')]
    return out


def c10_probes(rng, fmt):
    """(label, entry dict, big?) — one field of one entry pushed to / past a border."""
    base = lambda: good_entry(rng, fmt, 1)
    P = []
    for f in ('uid', 'gid'):
        for v in NUM_BORDERS + [-1]:
            d = base(); d[f] = str(v); P.append((f'{f}={v}', d, False))
    for v in NUM_BORDERS + [-1, -2, -2 ** 31, -2 ** 31 - 1, -11644473600, -11644473601, -2 ** 63]:
        d = base(); d['mtime'] = str(v); P.append((f'mtime={v}', d, False))
    for v in NUM_BORDERS:
        if v > 4000:
            d = base(); d['size'] = str(v); d.pop('body', None); d.pop('chunks', None); d['nofinish'] = '1'
            P.append((f'size={v}', d, True))
    for t in ('chr', 'blk'):
        for f in ('rdevmajor', 'rdevminor'):
            for v in (255, 256, 4095, 4096, 65535, 65536, 262143, 262144, 2097151, 2097152, 2 ** 32 - 1, 2 ** 32):
                d = with_type(base(), t, rng); d[f] = str(v); P.append((f'{t}.{f}={v}', d, False))
    for f, vals in (('dev', [65535, 65536, 262143, 262144, 2 ** 32 - 1, 2 ** 32, 2 ** 63 - 1]),
                    ('nlink', [2, 65535, 65536, 262143, 262144, 2 ** 32 - 1]),
                    ('ino', [0, 65535, 65536, 2 ** 32 - 1, 2 ** 32, 2 ** 63 - 1])):
        for v in vals:
            d = base(); d[f] = str(v); P.append((f'{f}={v}', d, False))
    for f in ('uname', 'gname'):
        for n in (1, 31, 32, 33, 64, 300):
            d = base(); d[f] = hx('u' * n); P.append((f'{f}.len={n}', d, False))
        d = base(); d[f] = hx(b'n\xffm'); P.append((f'{f}.badutf8', d, False))
    for lbl, nm in name_probes(rng):
        d = base(); d['path'] = hx(nm); P.append((f'path.{lbl}.{len(nm)}', d, False))
        if lbl.startswith('slash') and rng.random() < 0.3:
            d = with_type(base(), 'dir', rng); d['path'] = hx(nm); P.append((f'dirpath.{lbl}.{len(nm)}', d, False))
    for n in (1, 99, 100, 101, 255, 1000):
        d = with_type(base(), 'lnk', rng); d['sym'] = hx('t' * n); P.append((f'sym.len={n}', d, False))
        d = base(); d['hard'] = hx('h' * n); d['size'] = '0'; d.pop('body', None); d.pop('chunks', None); d['nlink'] = '2'
        P.append((f'hard.len={n}', d, False))
    for t in TYPES + ['none']:
        P.append((f'type={t}', with_type(base(), t, rng), False))
    d = base(); d['path'] = '-'; P.append(('nopath', d, False))
    d = base(); d['size'] = '-'; d.pop('body', None); d.pop('chunks', None); P.append(('nosize', d, False))
    for pm in ('0', '777', '7777', '4755'):
        d = base(); d['perm'] = pm; P.append((f'perm={pm}', d, False))
    d = base(); d['mtimens'] = '123456789'; P.append(('mtimens', d, False))
    return P


def archive_case(label, fmt, ents, bpb=None, bilb=None, filt=None, abort=False, nread=None):
    o = f'open f={fmt}'
    if bpb is not None:
        o += f' bpb={bpb}'
    if bilb is not None:
        o += f' bilb={bilb}'
    if filt:
        o += f' filter={filt}'
    ops = [o] + [ent_line(e) for e in ents] + ['abort' if abort else 'close']
    ops += [f'rd {i}' for i in range((nread if nread is not None else len(ents)) + 1)] + ['done']
    return Case(label, ops, {'fmt': fmt})


def needs_bilb1(fmt):
    return fmt in ('arbsd', 'arsvr4', 'warc')


def gen_c10_cases(rng, tier):
    for fmt in ALL_FMTS * (1 if tier == 'quick' else 3):       # thorough: three rounds with fresh neighbours / block sizes
        probes = c10_probes(rng, fmt)
        if tier == 'quick' and fmt not in BYTE_FMTS:
            probes = [p for p in probes if rng.random() < 0.3]
        for lbl, d, big in probes:
            a, b = good_entry(rng, fmt, 0), good_entry(rng, fmt, 2)
            if big and fmt in SPOOLING:
                if int(d['size']) > 65536:
                    continue      # these writers spool the declared size to a temporary file on close
                d = dict(d); d.pop('nofinish'); d['body'] = f"{rng.randrange(256)}:{d['size']}"
                big = False
            if big:
                # declared size only: unbuffered, header bytes reach the sink at once, no body, no close
                yield archive_case(f'c10-{fmt}-{lbl}', fmt, [a, d], bpb=0, abort=True, nread=2)
            else:
                extra = 3 if fmt == 'iso9660' else 0
                yield archive_case(f'c10-{fmt}-{lbl}', fmt, [a, d, b],
                                   bpb=rng.choice([None, 512, 0, 10240, 1, 7]) if not needs_bilb1(fmt) else rng.choice([None, 512]),
                                   bilb=1 if needs_bilb1(fmt) else rng.choice([None, None, 1, 512]), nread=3 + extra)


# --------------------------------------------------------------------------
# C02: round trips of representable entries

FMT_TYPES = {
    'ustar': ['reg', 'dir', 'lnk', 'chr', 'blk', 'fifo'], 'pax': ['reg', 'dir', 'lnk', 'chr', 'blk', 'fifo'],
    'paxr': ['reg', 'dir', 'lnk', 'chr', 'blk', 'fifo'], 'gnutar': ['reg', 'dir', 'lnk', 'chr', 'blk', 'fifo'],
    'v7tar': ['reg', 'dir', 'lnk'], 'odc': TYPES, 'newc': TYPES, 'bin': ['reg', 'dir', 'lnk', 'chr', 'blk'],
    'pwb': ['reg', 'dir', 'chr', 'blk'], 'arbsd': ['reg'], 'arsvr4': ['reg'], 'zip': ['reg', 'dir', 'lnk'],
    '7zip': ['reg', 'dir', 'lnk'], 'xar': ['reg', 'dir', 'lnk', 'fifo'], 'iso9660': ['reg', 'dir', 'lnk'],
    'mtree': ['reg', 'dir', 'lnk', 'chr', 'blk', 'fifo'], 'warc': ['reg'],
}
ID_MAX = {'ustar': 262143, 'v7tar': 262143, 'odc': 262143, 'gnutar': 2 ** 56 - 1, 'pax': 2 ** 53, 'paxr': 2 ** 53,
          'mtree': 2 ** 53, 'newc': 2 ** 32 - 1, 'zip': 2 ** 32 - 1, 'bin': 65535, 'pwb': 65535, 'arbsd': 999999,
          'arsvr4': 999999, 'xar': 2 ** 31 - 1, '7zip': 0, 'warc': 0, 'iso9660': 65535}
MT_RANGE = {'ustar': (0, 8 ** 11 - 1), 'v7tar': (0, 8 ** 11 - 1), 'gnutar': (0, 8 ** 11 - 1), 'odc': (0, 8 ** 11 - 1),
            'newc': (0, 2 ** 32 - 1), 'bin': (0, 2 ** 32 - 1), 'pwb': (0, 2 ** 32 - 1), 'zip': (0, 2 ** 32 - 1),
            'arbsd': (0, 10 ** 12 - 1), 'arsvr4': (0, 10 ** 12 - 1), 'pax': (0, 2 ** 62), 'paxr': (0, 2 ** 62),
            'mtree': (0, 2 ** 62), '7zip': (0, 910692730085), 'xar': (0, 253402300799),
            'warc': (0, 2 ** 33), 'iso9660': (0, 2 ** 32 - 1)}
SIZES = [0, 1, 2, 3, 511, 512, 513, 1023, 1024, 1025, 3000, 10239, 10240, 10241]


def pick_border(rng, lo, hi):
    cands = [v for v in NUM_BORDERS + [lo, hi, -1, -2 ** 31] if lo <= v <= hi]
    return rng.choice(cands + [rng.randint(lo, min(hi, lo + 10 ** 6))])


def c02_path(rng, fmt, k, typ):
    """A pathname the format can hold, unique per k, shaped by the format's own limits."""
    tag = f'{k:02d}'
    if fmt in ('arbsd', 'arsvr4'):
        n = rng.choice([1, 5, 13]) if fmt == 'arsvr4' else rng.choice([1, 14, 15, 16, 17, 40, 200])
        return ('m' * max(1, n - 2) + tag)[:max(n, 3)]
    shapes = ['short', 'short', 'deep'] + (['utf8'] if fmt != 'iso9660' else [])
    if fmt in ('ustar', 'paxr', 'pax', 'gnutar', 'zip', '7zip', 'mtree', 'odc', 'newc', 'bin', 'pwb', 'xar'):
        shapes += ['n99', 'n100', 'split', 'split155']
    if fmt in ('pax', 'gnutar', 'zip', '7zip', 'mtree', 'odc', 'newc', 'bin', 'pwb', 'xar'):
        shapes += ['n101', 'n255', 'n256', 'long']
    if fmt == 'v7tar':
        shapes += ['n98']
    if fmt == 'warc':
        shapes = ['short', 'deep', 'n99']
    sh = rng.choice(shapes)
    slashroom = 1 if typ == 'dir' else 0         # tar writers append '/' to directories
    if sh == 'short':
        return f'd{tag}/f{tag}'
    if sh == 'deep':
        return '/'.join(['a' + tag] + ['b'] * rng.choice([2, 5, 9]))
    if sh == 'utf8':
        return f'd{tag}/é中' + tag
    if sh in ('n98', 'n99', 'n100', 'n101', 'n255', 'n256'):
        n = int(sh[1:]) - slashroom
        return ('q' * n + tag)[-n:] if False else (tag + 'q' * n)[:n]
    if sh == 'split':          # total 101..255, '/' so that prefix <= 155 and name <= 100
        nm = rng.choice([1, 50, 99, 100 - slashroom])
        pf = rng.choice([1, 2, 100, 154, 155])
        return (tag + 'p' * pf)[:pf] + '/' + 'n' * nm
    if sh == 'split155':
        return (tag + 'p' * 155)[:155] + '/' + 'n' * (100 - slashroom)
    return tag + '/'.join(['L' * 60] * 8)


def c02_entry(rng, fmt, k, prev_regs):
    types = FMT_TYPES[fmt]
    typ = rng.choice(types + ['reg', 'reg'])
    d = dict(path=hx(c02_path(rng, fmt, k, typ)), type=typ, perm=rng.choice(['644', '755', '600', '0', '777', '7777', '4755']),
             dev='5', ino=str(100 + k), nlink='1')
    if fmt in ('xar',):
        d['perm'] = rng.choice(['644', '755', '600', '0', '777'])
    idm = ID_MAX[fmt]
    d['uid'] = str(pick_border(rng, 0, idm)); d['gid'] = str(pick_border(rng, 0, idm))
    lo, hi = MT_RANGE[fmt]
    d['mtime'] = str(pick_border(rng, lo, hi))
    if fmt in ('ustar', 'pax', 'paxr', 'gnutar', 'xar', 'mtree') and rng.random() < 0.7:
        d['uname'] = hx(rng.choice(['u', 'root', 'u' * 31, 'u' * 32] + (['ü' * 5] if fmt != 'mtree' else [])))
        d['gname'] = hx(rng.choice(['g', 'wheel', 'g' * 31, 'g' * 32]))
    if typ == 'reg':
        size = rng.choice(SIZES)
        d['size'] = str(size)
        blen = rng.choice([size, size, size, max(0, size - 1), size + 5]) if fmt not in SPOOLING and fmt not in ('warc', 'arbsd', 'arsvr4') else size
        d['body'] = f'{rng.randrange(256)}:{blen}'
        if blen:
            d['chunks'] = ','.join(str(rng.choice([1, 2, 7, 100, 511, 512, 513, 5000])) for _ in range(rng.choice([1, 2, 3])))
        if prev_regs and fmt in ('ustar', 'pax', 'paxr', 'gnutar', 'v7tar') and rng.random() < 0.2:
            d['hard'] = prev_regs[-1]; d['size'] = '0'; d.pop('body'); d.pop('chunks', None)
    else:
        d['size'] = '0'
    if typ == 'lnk':
        n = rng.choice([1, 10, 98, 99] + ([100] if fmt != 'v7tar' else []) + ([101, 300] if fmt in ('pax', 'gnutar', 'zip', '7zip', 'odc', 'newc', 'mtree', 'xar') else []))
        d['sym'] = hx(('t' * n))
    if typ in ('chr', 'blk'):
        mx = {'ustar': 262143, 'gnutar': 262143, 'odc': 255, 'bin': 255, 'pwb': 255}.get(fmt, 2 ** 20)
        d['rdevmajor'] = str(rng.choice([0, 1, 8, 255, mx])); d['rdevminor'] = str(rng.choice([0, 3, 255, mx if fmt not in ('odc',) else 255]))
    return d


FILTERS = ['gzip', 'bzip2', 'xz', 'zstd', 'lz4', 'compress', 'uuencode', 'b64encode']


def gen_c02_cases(rng, tier):
    per = {'quick': 18, 'thorough': 400}[tier]
    for fmt in ALL_FMTS:
        n = per * (3 if fmt in BYTE_FMTS else 1)
        for i in range(n):
            ents, regs = [], []
            for k in range(rng.choice([1, 1, 2, 3, 5])):
                e = c02_entry(rng, fmt, k, regs)
                if e['type'] == 'reg' and 'hard' not in e:
                    regs.append(e['path'])
                ents.append(e)
            bpb = rng.choice([None, 0, 1, 7, 512, 513, 10240, 20480])
            if fmt == 'zip' and bpb == 20480:
                bpb = 10240      # more than ~16 KiB of NUL padding hides the end-of-central-directory record from the seeking reader
            bilb = 1 if needs_bilb1(fmt) else rng.choice([None, None, 1, 512, 513])
            if needs_bilb1(fmt) and bpb == 0:
                bpb = None
            filt = rng.choice(FILTERS) if rng.random() < 0.25 and fmt != '7zip' else None   # the 7zip reader needs a seekable source
            o = f'open f={fmt}' + (f' bpb={bpb}' if bpb is not None else '') + (f' bilb={bilb}' if bilb is not None else '') + (f' filter={filt}' if filt else '')
            extra = 40 if fmt == 'iso9660' else 1
            ops = [o] + [ent_line(e) for e in ents] + ['close'] + [f'rd {j}' for j in range(len(ents) + extra)]
            g = fmt if rng.random() < 0.7 or fmt == 'mtree' else rng.choice(BYTE_FMTS + ['pax', 'gnutar', 'zip'])   # mtree holds no bodies
            ops += [f'rewrite f={g}' + (' bilb=1' if needs_bilb1(g) else '')] + [f'rd2 {j}' for j in range(len(ents) + (40 if 'iso9660' in (fmt, g) else 1))]
            ops += ['done']
            yield Case(f'c02-{fmt}-{i}', ops, {'fmt': fmt})

class Codec(Engine):
    name = 'codec'
    extra_cflags = tuple(os.path.join(H, f) for f in INC)
    repo_deps = tuple(REPO_DEPS) + tuple(os.path.join(H, f) for f in INC) + (os.path.join(H, 'codec_inc.h'),)

    # leak detection off: LSan's at-exit scan costs ~20 ms in each forked case and leaks are not what
    # C10/C02 observe (ASan/UBSan memory errors still abort the case)
    env = {'ASAN_OPTIONS': 'detect_leaks=0:abort_on_error=0:exitcode=99:allocator_may_return_null=1'}

    def __init__(self, mode='c10', bulk=False):
        self.mode = mode
        self.bulk = bulk          # the plain-flavour twin (`codecp`) runs the bulk of the round trips
        if bulk:
            self.name = 'codecp'
            self.flavour = 'plain'
            self.repo_deps = self.repo_deps + (os.path.join(H, 'eng_codec.c'),)

    def gen(self, rng, tier):
        if not self.bulk:
            yield from gen_fmt_cases(rng, tier)
            yield from gen_atol_cases(rng, tier)
            yield from gen_pax_cases(rng, tier)
        if self.mode == 'c02':
            for c in gen_c02_cases(rng, tier):
                if self.bulk or rng.random() < (0.1 if tier == 'quick' else 0.3):
                    yield c
        if self.mode == 'c10':
            for c in gen_c10_cases(rng, tier):
                # sanitizer build: a sample; plain build: everything
                if self.bulk or rng.random() < (0.06 if tier == 'quick' else 0.25):
                    yield c

    # -- the property predicate is a Lean function (engines codec.c10 / codec.c02): evaluated on the
    #    implementation's output by the driver, cached per (ops, impl)
    def _verdicts(self, pairs):
        lines = []
        for i, (ops, im) in enumerate(pairs):
            lines.append(f'#case {i}')
            for j, o in enumerate(ops):
                lines.append(o + '\t' + (im[j] if j < len(im) else ''))
        drv = os.path.join(core.LEAN, '.lake', 'build', 'bin', 'driver')
        r = subprocess.run([drv, 'codec.' + self.mode], input='\n'.join(lines) + '\n', stdout=subprocess.PIPE,
                           stderr=subprocess.PIPE, text=True, timeout=self.timeout)
        if r.returncode != 0:
            raise core.BuildError('oracle driver failed: ' + r.stderr[-2000:])
        out = core.split_cases(r.stdout, len(pairs))
        return [(o[-1] if o else 'ok') for o in out]

    def run_model(self, cases, impl):
        model = super().run_model(cases, impl)
        self._cache = getattr(self, '_cache', {})
        todo = [(c.ops, impl[i]) for i, c in enumerate(cases) if c.ops and c.ops[-1] == 'done']
        if todo:
            for (ops, im), v in zip(todo, self._verdicts(todo)):
                self._cache[('\n'.join(ops), '\n'.join(im))] = v
        return model

    def oracle(self, case, impl):
        if not case.ops:
            return None
        if case.ops[-1] != 'done':
            # a shrunk stream lost its tail: evaluate the property on the completed round trip
            # (open, the remaining entries, close, read everything back)
            if not case.ops[0].startswith('open ') or not any(o.startswith('ent ') for o in case.ops):
                return None
            ents = [o for o in case.ops if o.startswith('ent ')]
            full = Case('completed', [case.ops[0]] + ents + ['close'] + [f'rd {i}' for i in range(len(ents) + 1)] + ['done'])
            out, _ = self.run_impl(self.build(), [full])
            case, impl = full, out[0]
        k = ('\n'.join(case.ops), '\n'.join(impl))
        cache = getattr(self, '_cache', {})
        v = cache.get(k)
        if v is None:
            v = self._verdicts([(case.ops, impl)])[0]
        return None if v == 'ok' else v

    def nontrivial(self, case, impl):
        return any('r=-1' in l or 'v=' in l or 'h=' in l for l in impl)

    def stats(self, cases, impl):
        st = {'ops': {}, 'fmt_overflow': 0, 'fmt_ok': 0}
        for c, im in zip(cases, impl):
            for op, o in zip(c.ops, im):
                k = op.split()[0]
                st['ops'][k] = st['ops'].get(k, 0) + 1
                if k == 'fmt':
                    st['fmt_overflow' if o.startswith('r=-1') else 'fmt_ok'] += 1
        return st
