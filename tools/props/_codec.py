"""Engine `codec` (shared by C10 and C02): numeric formatters/parsers called directly and whole
write -> read round trips through the real libarchive writers and readers."""
import os, re, subprocess
from lib import core
from lib.core import Engine, Case

H = core.HARNESS
INC = ['codec_w_pax.c', 'codec_w_ustar.c', 'codec_w_v7tar.c', 'codec_w_gnutar.c', 'codec_w_odc.c', 'codec_w_newc.c',
       'codec_w_ar.c', 'codec_r_tar.c', 'codec_r_cpio.c']
REPO_DEPS = ['libarchive/archive_write_set_format_pax.c', 'libarchive/archive_write_set_format_ustar.c', 'libarchive/archive_write_set_format_v7tar.c',
             'libarchive/archive_write_set_format_gnutar.c', 'libarchive/archive_write_set_format_cpio_odc.c',
             'libarchive/archive_write_set_format_cpio_newc.c', 'libarchive/archive_write_set_format_ar.c',
             'libarchive/archive_read_support_format_tar.c', 'libarchive/archive_read_support_format_cpio.c']

I64MAX, I64MIN = 2 ** 63 - 1, -2 ** 63

# (kind, [(s, max)], strict choices)
FMT_KINDS = [
    ('ustar_octal', [(6, 6), (11, 11), (7, 7), (1, 1), (12, 12)], [1]),
    ('ustar_number', [(6, 8), (11, 12), (11, 11), (7, 8)], [0, 1]),
    ('v7tar_number', [(6, 8), (11, 12)], [0, 1]),
    ('v7tar_octal', [(6, 6), (11, 11)], [1]),
    ('ustar_256', [(8, 8), (12, 12), (11, 11), (9, 9)], [1]),
    ('gnutar_octal', [(7, 7), (11, 11), (6, 6)], [1]),
    ('gnutar_number', [(7, 8), (11, 12)], [1]),
    ('odc_octal', [(6, 6), (11, 11)], [1]),
    ('newc_hex', [(8, 8), (6, 6)], [1]),
    ('ar_octal', [(8, 8), (3, 3), (1, 1)], [1]),
    ('ar_decimal', [(6, 6), (10, 10), (12, 12), (13, 13), (1, 1)], [1]),
]


def border_values(rng, s, base_bits):
    """Values around the field limit and the int64 borders."""
    lim = 1 << (s * base_bits)
    vs = [0, 1, 7, 8, lim - 1, lim, lim + 1, lim // 8, lim * 8 - 1, lim * 8, lim * 64 - 1, lim * 64,
          2 ** 31 - 1, 2 ** 31, 2 ** 32 - 1, 2 ** 32, 2 ** 33 - 1, 2 ** 33, 2 ** 62 - 1, 2 ** 62, I64MAX, I64MAX - 1,
          -1, -2, -255, -256, -2 ** 31, -2 ** 62, -2 ** 62 - 1, I64MIN, I64MIN + 1, 10 ** s - 1, 10 ** s]
    vs += [rng.randrange(0, lim), rng.randrange(0, 2 ** 63), -rng.randrange(0, 2 ** 63), rng.randrange(0, lim * 70)]
    return [v for v in vs if I64MIN <= v <= I64MAX]


def gen_fmt_cases(rng, tier):
    reps = 1 if tier == 'quick' else 12
    for kind, widths, stricts in FMT_KINDS:
        bits = 4 if kind == 'newc_hex' else 3
        for s, mx in widths:
            for strict in stricts:
                for _ in range(reps):
                    ops = []
                    for v in border_values(rng, s, bits):
                        if kind.endswith('_number'):
                            ops.append(f'fmt {kind} {v} {s} {mx} {strict}')
                        else:
                            ops.append(f'fmt {kind} {v} {s}')
                    yield Case(f'fmt-{kind}-{s}-{mx}-{strict}', ops)


def fields_for_atol(rng):
    """Byte strings shaped like numeric header fields: writer outputs, near misses, base-256, junk."""
    out = []
    for width in (6, 7, 8, 11, 12):
        v = rng.choice([0, 1, 8 ** width - 1, rng.randrange(8 ** width)])
        d = ('%0*o' % (width, v)).encode()
        out += [d, d + b' \0', d + b'\0', d + b' ', b' ' * 2 + d, b'\t' + d[:3] + b'8' + d[3:], d[:4] + b'\0' + d[4:]]
    out += [b'-123', b'-' + b'7' * 30, b'7' * 22, b'7' * 21, b'17' + b'7' * 20, b'1' + b'0' * 21, b'0' * 25 + b'7',
            b'777777777777777777777', b'1000000000000000000000', b'-1000000000000000000000', b'-777777777777777777777',
            b'9223372036854775807', b'9223372036854775808', b'-9223372036854775808', b'-9223372036854775809', b'  ', b'-', b'\0' * 8]
    for width in (8, 9, 11, 12, 1, 2):
        for v in (0, 1, -1, 255, -256, 2 ** 62 - 1, 2 ** 62, -2 ** 62, -2 ** 62 - 1, I64MAX, I64MIN, rng.randrange(-2 ** 63, 2 ** 63)):
            b = bytearray((v % (1 << (8 * width))).to_bytes(width, 'big'))
            b[0] |= 0x80
            out.append(bytes(b))
            if width > 8:
                b2 = bytearray(b); b2[1] ^= rng.choice([1, 0x80, 0x40]); out.append(bytes(b2))
        out.append(bytes([0x80 | rng.randrange(128)] + [rng.randrange(256) for _ in range(width - 1)]))
    for _ in range(6):
        out.append(bytes(rng.choice(b'01234567 89abcdefABCDEF\0-\t\x80\xff') for _ in range(rng.choice([1, 6, 8, 12, 23]))))
    return out


def gen_pax_cases(rng, tier):
    """Record lengths around every power of ten (the self-referential length prefix)."""
    lens = sorted(set([1, 2, 3, 4, 5, 6, 7, 8, 9, 10, 11] + [p + d for p in (10, 100, 1000, 10000) for d in range(-8, 5)]))
    reps = 1 if tier == 'quick' else 6
    for r in range(reps):
        ops = []
        for total in lens:
            # total = bytes of " key=value\n": 1 + k + 1 + v + 1
            k = rng.choice([1, 4, 9, 17])
            v = total - 3 - k
            if v < 0:
                k, v = max(1, total - 3), 0
            key = bytes(rng.choice(b'abcdefgXYZ.') for _ in range(k))
            val = bytes(rng.randrange(256) for _ in range(v))
            ops.append(f'paxrec {key.hex()} {val.hex() if val else "-"}')
        yield Case(f'paxrec-{r}', ops)


def pax_record(key, val):
    """`len key=value\\n` with the self-referential decimal length."""
    body = b' ' + key + b'=' + val + b'\n'
    n = len(body) + 1
    while len(str(n)) + len(body) != n:
        n = len(str(n)) + len(body)
    return str(n).encode() + body


def gen_paxbody_cases(rng, tier):
    """Extended-header bodies for the reader's record loop: well-formed sequences of records with arbitrary
    value bytes (newlines, '=', NUL), keys up to the 512-byte look-ahead, unknown keys, and every malformed
    variant of each body (cut short, length off by one, newline replaced, first '=' removed)."""
    reps = 4 if tier == 'quick' else 40
    for r in range(reps):
        ops = []
        for _ in range(8):
            recs = []
            for k in range(rng.choice([0, 1, 2, 5])):
                if rng.random() < 0.75:
                    name = bytes(rng.choice(b'abcXYZ.-_%/ ') for _ in range(rng.choice([1, 2, 10, 60, 127, 128, 128, 129 if rng.random() < 0.2 else 100])))
                    key = b'SCHILY.xattr.' + name
                else:       # a key the reader does not know, on both sides of its initial 512-byte look-ahead
                    key = b'verif.' + bytes(rng.choice(b'abcXYZ.-_%/ ') for _ in range(rng.choice([1, 40, 200, 480, 495, 499, 500, 501, 505, 506, 512, 600, 1017, 1023, 1500, 2000])))
                vl = rng.choice([0, 1, 2, 8, 80, 85, 86, 87, 95, 500, 985, 990, 3000])
                val = bytes(rng.choice([10, 61, 0, 32, 48, 255, 97]) if rng.random() < 0.5 else rng.randrange(256) for _ in range(vl))
                recs.append(pax_record(key, val))
            body = b''.join(recs)
            ops.append(f'paxbody {hx(body)}')
            if body:
                for how in ('cut', 'len+1', 'nonl', 'noeq'):
                    m = bytearray(body)
                    if how == 'cut':
                        m = m[:rng.randrange(1, len(m))]
                    elif how == 'len+1':
                        m[0] = 48 + (m[0] - 48 + 1) % 10
                    elif how == 'nonl':
                        m[-1] = 32
                    else:
                        m = bytearray(m.replace(b'=', b':', 1))
                    ops.append(f'paxbody {hx(bytes(m))}')
        yield Case(f'paxbody-{r}', ops)


def gen_atol_cases(rng, tier):
    reps = 2 if tier == 'quick' else 40
    for r in range(reps):
        for kind in ('tar', 'tar8', 'tar10', 'tar256', 'cpio8', 'cpio16'):
            ops = [f'atol {kind} {f.hex()}' for f in fields_for_atol(rng) if f]
            yield Case(f'atol-{kind}-{r}', ops)



# --------------------------------------------------------------------------
# whole-archive cases

BYTE_FMTS = ['ustar', 'odc', 'newc']                     # byte-exact Lean model
AR_FMTS = ['arbsd', 'arsvr4']                            # byte-exact Lean model too (LA.Model.Ar), own state machine
SPEC_FMTS = ['pax', 'paxr', 'gnutar', 'v7tar', 'bin', 'pwb', 'arbsd', 'arsvr4', 'zip', '7zip', 'xar',
             'iso9660', 'mtree', 'warc']                  # spec-level (representable / norm) only
ALL_FMTS = BYTE_FMTS + SPEC_FMTS
SPOOLING = ('7zip', 'xar', 'iso9660', 'zip', 'mtree')   # nothing readable before close: no abort mode
TYPES = ['reg', 'dir', 'lnk', 'chr', 'blk', 'fifo', 'sock']


def hx(b):
    if isinstance(b, str):
        b = b.encode()
    return bytes(b).hex() if len(b) else '-'


def ent_line(d):
    return 'ent ' + ' '.join(f'{k}={v}' for k, v in d.items() if v is not None)


def good_entry(rng, fmt, k, typ='reg'):
    """A small entry every format accepts (per-format supported type), distinct names."""
    name = f'd{k}/f{k}' if fmt not in ('arbsd', 'arsvr4') else f'f{k}'
    size = rng.choice([0, 1, 3, 511, 512, 513, 1500])
    d = dict(path=hx(name), type='reg', perm=rng.choice(['644', '600', '755']), uid=str(rng.choice([0, 1, 1000, 65535])),
             gid=str(rng.choice([0, 5, 100])), size=str(size), mtime=str(rng.choice([0, 1, 10 ** 9, 2 ** 31 - 1])),
             dev='5', ino=str(20 + k), nlink='1', body=f'{rng.randrange(256)}:{size}')
    if rng.random() < 0.5:
        d['chunks'] = ','.join(str(rng.choice([1, 2, 7, 100, 511, 512, 513])) for _ in range(rng.choice([1, 2, 3])))
    return d


def with_type(d, typ, rng):
    d = dict(d)
    d['type'] = typ
    if typ != 'reg':
        d['size'] = '0'; d.pop('body', None); d.pop('chunks', None)
    if typ == 'lnk':
        d['sym'] = hx('target/of/link')
    if typ in ('chr', 'blk'):
        d['rdevmajor'] = str(rng.choice([0, 1, 8, 255])); d['rdevminor'] = str(rng.choice([0, 3, 255]))
    return d


NUM_BORDERS = sorted(set([0, 1, 255, 256, 4095, 4096, 65535, 65536, 262143, 262144, 999999, 1000000, 2097151, 2097152,
                          2 ** 24 - 1, 2 ** 24, 2 ** 31 - 1, 2 ** 31, 2 ** 32 - 1, 2 ** 32, 2 ** 33 - 1, 2 ** 33, 2 ** 56 - 1, 2 ** 56,
                          9999999999, 10 ** 10, 10 ** 12 - 1, 10 ** 12, 2 ** 60 - 1, 2 ** 60, 2 ** 62 - 1, 2 ** 62, 2 ** 63 - 1]))


def name_probes(rng):
    """Pathnames at the ustar / v7 / ar limits with '/' placed around the split rule."""
    out = []
    for L in (15, 16, 17, 99, 100, 101, 102, 154, 155, 156, 157, 200, 254, 255, 256, 257, 300):
        out.append(('flat', 'n' * L))
        for k in sorted(set([L - 102, L - 101, L - 100, L - 99, 153, 154, 155, 156, 1, L - 2])):
            if 0 < k < L - 1:
                p = ['x'] * L; p[k] = '/'
                out.append((f'slash@{k}', ''.join(p)))
        if L > 101:
            p = ['y'] * L; p[0] = '/'; out.append(('lead', ''.join(p)))
            p = ['y'] * L; p[0] = '/'; p[L - 60] = '/'; out.append(('lead+mid', ''.join(p)))
            p = ['z'] * L; p[L - 1] = '/'; out.append(('trail', ''.join(p)))
            p = ['z'] * L; p[L - 101] = '/'; p[L - 1] = '/'; out.append(('mid+trail', ''.join(p)))
            k = rng.choice([L - 101, L - 100, L - 50])
            p = ['w'] * L; p[k - 1] = '/'; p[k] = '/'; out.append((f'dbl@{k}', ''.join(p)))
    out += [('utf8', 'd/é中'.encode()), ('badutf8', b'd/\xff\xfe'), ('dot', './a/b'), ('abs', '/a/b'), ('dbl', 'a//b'),
            ('dotdot', '../b'), ('sp', 'a b/c d'), ('long', 'p/' * 400 + 'q')]
    return out


def c10_probes(rng, fmt):
    """(label, entry dict, big?) — one field of one entry pushed to / past a border."""
    base = lambda: good_entry(rng, fmt, 1)
    P = []
    for f in ('uid', 'gid'):
        for v in NUM_BORDERS + [-1]:
            d = base(); d[f] = str(v); P.append((f'{f}={v}', d, False))
    for v in NUM_BORDERS + [-1, -2, -2 ** 31, -2 ** 31 - 1, -11644473600, -11644473601, -2 ** 63]:
        d = base(); d['mtime'] = str(v); P.append((f'mtime={v}', d, False))
    for v in NUM_BORDERS:
        if v > 4000:
            d = base(); d['size'] = str(v); d.pop('body', None); d.pop('chunks', None); d['nofinish'] = '1'
            P.append((f'size={v}', d, True))
    for t in ('chr', 'blk'):
        for f in ('rdevmajor', 'rdevminor'):
            for v in (255, 256, 4095, 4096, 65535, 65536, 262143, 262144, 2097151, 2097152, 2 ** 32 - 1, 2 ** 32):
                d = with_type(base(), t, rng); d[f] = str(v); P.append((f'{t}.{f}={v}', d, False))
    for f, vals in (('dev', [65535, 65536, 262143, 262144, 2 ** 32 - 1, 2 ** 32, 2 ** 63 - 1]),
                    ('nlink', [2, 65535, 65536, 262143, 262144, 2 ** 32 - 1]),
                    ('ino', [0, 65535, 65536, 2 ** 32 - 1, 2 ** 32, 2 ** 63 - 1])):
        for v in vals:
            d = base(); d[f] = str(v); P.append((f'{f}={v}', d, False))
    for f in ('uname', 'gname'):
        for n in (1, 31, 32, 33, 64, 300):
            d = base(); d[f] = hx('u' * n); P.append((f'{f}.len={n}', d, False))
        d = base(); d[f] = hx(b'n\xffm'); P.append((f'{f}.badutf8', d, False))
    for lbl, nm in name_probes(rng):
        d = base(); d['path'] = hx(nm); P.append((f'path.{lbl}.{len(nm)}', d, False))
        if lbl.startswith('slash') and rng.random() < 0.3:
            d = with_type(base(), 'dir', rng); d['path'] = hx(nm); P.append((f'dirpath.{lbl}.{len(nm)}', d, False))
    for n in (1, 99, 100, 101, 255, 1000):
        d = with_type(base(), 'lnk', rng); d['sym'] = hx('t' * n); P.append((f'sym.len={n}', d, False))
        d = base(); d['hard'] = hx('h' * n); d['size'] = '0'; d.pop('body', None); d.pop('chunks', None); d['nlink'] = '2'
        P.append((f'hard.len={n}', d, False))
    for t in TYPES + ['none']:
        P.append((f'type={t}', with_type(base(), t, rng), False))
    d = base(); d['path'] = '-'; P.append(('nopath', d, False))
    d = base(); d['size'] = '-'; d.pop('body', None); d.pop('chunks', None); P.append(('nosize', d, False))
    for pm in ('0', '777', '7777', '4755'):
        d = base(); d['perm'] = pm; P.append((f'perm={pm}', d, False))
    d = base(); d['mtimens'] = '123456789'; P.append(('mtimens', d, False))
    return P


def archive_case(label, fmt, ents, bpb=None, bilb=None, filt=None, abort=False, nread=None):
    o = f'open f={fmt}'
    if bpb is not None:
        o += f' bpb={bpb}'
    if bilb is not None:
        o += f' bilb={bilb}'
    if filt:
        o += f' filter={filt}'
    ops = [o] + [ent_line(e) for e in ents] + ['abort' if abort else 'close']
    ops += [f'rd {i}' for i in range((nread if nread is not None else len(ents)) + 1)] + ['done']
    return Case(label, ops, {'fmt': fmt})


def needs_bilb1(fmt):
    return fmt in ('arbsd', 'arsvr4', 'warc')


def gen_c10_cases(rng, tier):
    for fmt in ALL_FMTS * (1 if tier == 'quick' else 3):       # thorough: three rounds with fresh neighbours / block sizes
        probes = c10_probes(rng, fmt)
        if tier == 'quick' and fmt not in BYTE_FMTS:
            probes = [p for p in probes if rng.random() < (0.6 if fmt in AR_FMTS else 0.3)]
        for lbl, d, big in probes:
            a, b = good_entry(rng, fmt, 0), good_entry(rng, fmt, 2)
            if big and fmt in SPOOLING:
                if int(d['size']) > 65536:
                    continue      # these writers spool the declared size to a temporary file on close
                d = dict(d); d.pop('nofinish'); d['body'] = f"{rng.randrange(256)}:{d['size']}"
                big = False
            if big:
                # declared size only: unbuffered, header bytes reach the sink at once, no body, no close
                yield archive_case(f'c10-{fmt}-{lbl}', fmt, [a, d], bpb=0, abort=True, nread=2)
            else:
                extra = 3 if fmt == 'iso9660' else 0
                yield archive_case(f'c10-{fmt}-{lbl}', fmt, [a, d, b],
                                   bpb=rng.choice([None, 512, 0, 10240, 1, 7]) if not needs_bilb1(fmt) else rng.choice([None, 512]),
                                   bilb=1 if needs_bilb1(fmt) else rng.choice([None, None, 1, 512]), nread=3 + extra)


# --------------------------------------------------------------------------
# C02: round trips of representable entries

FMT_TYPES = {
    'ustar': ['reg', 'dir', 'lnk', 'chr', 'blk', 'fifo'], 'pax': ['reg', 'dir', 'lnk', 'chr', 'blk', 'fifo'],
    'paxr': ['reg', 'dir', 'lnk', 'chr', 'blk', 'fifo'], 'gnutar': ['reg', 'dir', 'lnk', 'chr', 'blk', 'fifo'],
    'v7tar': ['reg', 'dir', 'lnk'], 'odc': TYPES, 'newc': TYPES, 'bin': ['reg', 'dir', 'lnk', 'chr', 'blk'],
    'pwb': ['reg', 'dir', 'chr', 'blk'], 'arbsd': ['reg'], 'arsvr4': ['reg'], 'zip': ['reg', 'dir', 'lnk'],
    '7zip': ['reg', 'dir', 'lnk'], 'xar': ['reg', 'dir', 'lnk', 'fifo'], 'iso9660': ['reg', 'dir', 'lnk'],
    'mtree': ['reg', 'dir', 'lnk', 'chr', 'blk', 'fifo'], 'warc': ['reg'],
}
ID_MAX = {'ustar': 262143, 'v7tar': 262143, 'odc': 262143, 'gnutar': 2 ** 56 - 1, 'pax': 2 ** 53, 'paxr': 2 ** 53,
          'mtree': 2 ** 53, 'newc': 2 ** 32 - 1, 'zip': 2 ** 32 - 1, 'bin': 65535, 'pwb': 65535, 'arbsd': 999999,
          'arsvr4': 999999, 'xar': 2 ** 31 - 1, '7zip': 0, 'warc': 0, 'iso9660': 65535}
MT_RANGE = {'ustar': (0, 8 ** 11 - 1), 'v7tar': (0, 8 ** 11 - 1), 'gnutar': (0, 8 ** 11 - 1), 'odc': (0, 8 ** 11 - 1),
            'newc': (0, 2 ** 32 - 1), 'bin': (0, 2 ** 32 - 1), 'pwb': (0, 2 ** 32 - 1), 'zip': (0, 2 ** 32 - 1),
            'arbsd': (0, 10 ** 12 - 1), 'arsvr4': (0, 10 ** 12 - 1), 'pax': (0, 2 ** 62), 'paxr': (0, 2 ** 62),
            'mtree': (0, 2 ** 62), '7zip': (0, 910692730085), 'xar': (0, 253402300799),
            'warc': (0, 2 ** 33), 'iso9660': (0, 2 ** 32 - 1)}
SIZES = [0, 1, 2, 3, 511, 512, 513, 1023, 1024, 1025, 3000, 10239, 10240, 10241]


def pick_border(rng, lo, hi):
    cands = [v for v in NUM_BORDERS + [lo, hi, -1, -2 ** 31] if lo <= v <= hi]
    return rng.choice(cands + [rng.randint(lo, min(hi, lo + 10 ** 6))])


def c02_path(rng, fmt, k, typ):
    """A pathname the format can hold, unique per k, shaped by the format's own limits."""
    tag = f'{k:02d}'
    if fmt in ('arbsd', 'arsvr4'):
        n = rng.choice([1, 5, 13]) if fmt == 'arsvr4' else rng.choice([1, 14, 15, 16, 17, 40, 200])
        return ('m' * max(1, n - 2) + tag)[:max(n, 3)]
    shapes = ['short', 'short', 'deep'] + (['utf8'] if fmt != 'iso9660' else [])
    if fmt in ('ustar', 'paxr', 'pax', 'gnutar', 'zip', '7zip', 'mtree', 'odc', 'newc', 'bin', 'pwb', 'xar'):
        shapes += ['n99', 'n100', 'split', 'split155']
    if fmt in ('pax', 'gnutar', 'zip', '7zip', 'mtree', 'odc', 'newc', 'bin', 'pwb', 'xar'):
        shapes += ['n101', 'n255', 'n256', 'long']
    if fmt == 'v7tar':
        shapes += ['n98']
    if fmt == 'warc':
        shapes = ['short', 'deep', 'n99']
    sh = rng.choice(shapes)
    slashroom = 1 if typ == 'dir' else 0         # tar writers append '/' to directories
    if sh == 'short':
        return f'd{tag}/f{tag}'
    if sh == 'deep':
        return '/'.join(['a' + tag] + ['b'] * rng.choice([2, 5, 9]))
    if sh == 'utf8':
        return f'd{tag}/é中' + tag
    if sh in ('n98', 'n99', 'n100', 'n101', 'n255', 'n256'):
        n = int(sh[1:]) - slashroom
        return ('q' * n + tag)[-n:] if False else (tag + 'q' * n)[:n]
    if sh == 'split':          # total 101..255, '/' so that prefix <= 155 and name <= 100
        nm = rng.choice([1, 50, 99, 100 - slashroom])
        pf = rng.choice([1, 2, 100, 154, 155])
        return (tag + 'p' * pf)[:pf] + '/' + 'n' * nm
    if sh == 'split155':
        return (tag + 'p' * 155)[:155] + '/' + 'n' * (100 - slashroom)
    return tag + '/'.join(['L' * 60] * 8)


def c02_entry(rng, fmt, k, prev_regs):
    types = FMT_TYPES[fmt]
    typ = rng.choice(types + ['reg', 'reg'])
    d = dict(path=hx(c02_path(rng, fmt, k, typ)), type=typ, perm=rng.choice(['644', '755', '600', '0', '777', '7777', '4755']),
             dev='5', ino=str(100 + k), nlink='1')
    if fmt in ('xar',):
        d['perm'] = rng.choice(['644', '755', '600', '0', '777'])
    idm = ID_MAX[fmt]
    d['uid'] = str(pick_border(rng, 0, idm)); d['gid'] = str(pick_border(rng, 0, idm))
    lo, hi = MT_RANGE[fmt]
    d['mtime'] = str(pick_border(rng, lo, hi))
    if fmt in ('ustar', 'pax', 'paxr', 'gnutar', 'xar', 'mtree') and rng.random() < 0.7:
        d['uname'] = hx(rng.choice(['u', 'root', 'u' * 31, 'u' * 32] + (['ü' * 5] if fmt != 'mtree' else [])))
        d['gname'] = hx(rng.choice(['g', 'wheel', 'g' * 31, 'g' * 32]))
    if typ == 'reg':
        size = rng.choice(SIZES)
        d['size'] = str(size)
        blen = rng.choice([size, size, size, max(0, size - 1), size + 5]) if fmt not in SPOOLING and fmt not in ('warc', 'arbsd', 'arsvr4') else size
        d['body'] = f'{rng.randrange(256)}:{blen}'
        if blen:
            d['chunks'] = ','.join(str(rng.choice([1, 2, 7, 100, 511, 512, 513, 5000])) for _ in range(rng.choice([1, 2, 3])))
        if prev_regs and fmt in ('ustar', 'pax', 'paxr', 'gnutar', 'v7tar') and rng.random() < 0.2:
            d['hard'] = prev_regs[-1]; d['size'] = '0'; d.pop('body'); d.pop('chunks', None)
    else:
        d['size'] = '0'
    if typ == 'lnk':
        n = rng.choice([1, 10, 98, 99] + ([100] if fmt != 'v7tar' else []) + ([101, 300] if fmt in ('pax', 'gnutar', 'zip', '7zip', 'odc', 'newc', 'mtree', 'xar') else []))
        d['sym'] = hx(('t' * n))
    if typ in ('chr', 'blk'):
        mx = {'ustar': 262143, 'gnutar': 262143, 'odc': 1023, 'bin': 255, 'pwb': 255}.get(fmt, 2 ** 20)
        d['rdevmajor'] = str(rng.choice([0, 1, 8, 255, mx])); d['rdevminor'] = str(rng.choice([0, 3, 255, mx if fmt not in ('odc',) else 255]))
    return add_extras(rng, fmt, d)


FILTERS = ['gzip', 'bzip2', 'xz', 'zstd', 'lz4', 'compress', 'uuencode', 'b64encode']


def gen_c02_cases(rng, tier):
    per = {'quick': 18, 'thorough': 400}[tier]
    for fmt in ALL_FMTS:
        n = per * (3 if fmt in BYTE_FMTS + AR_FMTS else 1)
        for i in range(n):
            ents, regs = [], []
            for k in range(rng.choice([1, 1, 2, 3, 5])):
                e = c02_entry(rng, fmt, k, regs)
                if e['type'] == 'reg' and 'hard' not in e:
                    regs.append(e['path'])
                ents.append(e)
            bpb = rng.choice([None, 0, 1, 7, 512, 513, 10240, 20480])
            if fmt == 'zip' and bpb == 20480:
                bpb = 10240      # more than ~16 KiB of NUL padding hides the end-of-central-directory record from the seeking reader
            bilb = 1 if needs_bilb1(fmt) else rng.choice([None, None, 1, 512, 513])
            if needs_bilb1(fmt) and bpb == 0:
                bpb = None
            filt = rng.choice(FILTERS) if rng.random() < 0.25 and fmt != '7zip' else None   # the 7zip reader needs a seekable source
            o = f'open f={fmt}' + (f' bpb={bpb}' if bpb is not None else '') + (f' bilb={bilb}' if bilb is not None else '') + (f' filter={filt}' if filt else '')
            extra = 40 if fmt == 'iso9660' else 1
            ops = [o] + [ent_line(e) for e in ents] + ['close'] + [f'rd {j}' for j in range(len(ents) + extra)]
            g = fmt if rng.random() < 0.7 or fmt == 'mtree' else rng.choice(BYTE_FMTS + ['pax', 'gnutar', 'zip'])   # mtree holds no bodies
            ops += [f'rewrite f={g}' + (' bilb=1' if needs_bilb1(g) else '')] + [f'rd2 {j}' for j in range(len(ents) + (40 if 'iso9660' in (fmt, g) else 1))]
            ops += ['done']
            yield Case(f'c02-{fmt}-{i}', ops, {'fmt': fmt})


# --------------------------------------------------------------------------
# metadata beyond the stat fields: further times, sparse maps, ACLs, extended attributes

def sparse_map_text_len(regions, size):
    """Length of the GNU.sparse 1.0 map text: the count line and two lines per region, with the empty
    region at EOF the writers append when the last region stops short of it."""
    r = list(regions)
    if not r or r[-1][0] + r[-1][1] < size:
        r.append((size, 0))
    return len(f'{len(r)}\n') + sum(len(f'{o}\n{n}\n') for o, n in r)


def sparse_regions(rng, size, n=None):
    """Non-touching data regions inside [0, size)."""
    if size < 4:
        return []
    n = n or rng.choice([1, 2, 3, 8])
    cuts = sorted(rng.sample(range(0, size), min(2 * n, size)))
    regs = [(cuts[i], cuts[i + 1] - cuts[i]) for i in range(0, len(cuts) - 1, 2)]
    out = []
    for o, l in regs:
        if out and out[-1][0] + out[-1][1] >= o:
            continue
        if l > 0:
            out.append((o, l))
    if rng.random() < 0.3 and out:
        o, l = out[-1]; out[-1] = (o, size - o)        # last region reaches EOF: no terminator
    return out


def sparse_for_text_len(rng, target):
    """(size, regions) whose map text is exactly `target` bytes long."""
    for _ in range(20000):
        n = rng.randrange(max(2, target // 12), max(3, target // 5))
        stride = rng.randrange(8, max(9, min(400, 60000 // n)))
        ln = rng.randrange(1, stride)
        start = rng.choice([0, 0, rng.randrange(0, 3000)])
        regs = [(start + k * stride, ln) for k in range(n)]
        size = regs[-1][0] + ln + rng.choice([0, 1, 77, 1000])
        if size > 65000:
            continue
        if sparse_map_text_len(regs, size) == target:
            return size, regs
    return None


POSIX_NAMES = ['usr', 'grp', 'бин', 'a b', '']


def acl_posix(rng, default=False, access=True):
    items = []
    if access:
        seen = set()
        for k in range(rng.choice([1, 1, 2, 3])):
            t = rng.choice(['u', 'g'])
            i = rng.choice([0, 1, 77 + k, 65534, 2 ** 31 - 1])
            if (t, i) in seen:
                continue              # one entry per (tag, id): a second one replaces the first
            seen.add((t, i))
            items.append(f"a:{t}:{rng.randrange(8)}:{i}:{hx(rng.choice(POSIX_NAMES[:4]) + str(k))}")
        items.append(f'a:m:{rng.randrange(8)}:-1:-')
    if default:
        items += [f'd:uo:{rng.randrange(8)}:-1:-', f'd:go:{rng.randrange(8)}:-1:-', f'd:o:{rng.randrange(8)}:-1:-']
        if rng.random() < 0.7:
            items += [f"d:u:{rng.randrange(8)}:{rng.choice([1, 500])}:{hx('du')}", f'd:m:{rng.randrange(8)}:-1:-']
            if rng.random() < 0.5:
                items.append(f"d:g:{rng.randrange(8)}:{rng.choice([2, 600])}:{hx('dg')}")
    return sorted(set(items))


NFS4_PERMS = [0x1, 0x8, 0x10, 0x20, 0x40, 0x80, 0x100, 0x200, 0x400, 0x800, 0x1000, 0x2000, 0x4000, 0x8000]
NFS4_FLAGS = [0x01000000, 0x02000000, 0x04000000, 0x08000000, 0x10000000]


def acl_nfs4(rng):
    items = []
    for k in range(rng.choice([1, 2, 4, 6])):
        ty = rng.choice('AADU' if k else 'AD')
        tag = rng.choice(['uo', 'go', 'e', 'u', 'g'])
        perm = 0
        for b in NFS4_PERMS:
            if rng.random() < 0.4:
                perm |= b
        if perm == 0:
            perm = 0x8
        for b in NFS4_FLAGS:
            if rng.random() < 0.2:
                perm |= b
        if ty in 'UL':
            perm |= rng.choice([0x20000000, 0x40000000])
        ident = f"{rng.choice([1, 77, 1000 + k])}:{hx('n' + str(k))}" if tag in ('u', 'g') else '-1:-'
        items.append(f'{ty}:{tag}:{perm}:{ident}')
    return sorted(set(items))


def xattrs(rng):
    items = {}
    for k in range(rng.choice([1, 1, 2, 5])):
        name = rng.choice(['user.k', 'user.mime_type', 'security.selinux', 'trusted.x', 'user.Я', 'com.apple.FinderInfo']) + str(k)
        n = rng.choice([0, 1, 3, 32, 33, 100, 511, 512, 513, 3000])
        val = bytes(rng.randrange(256) for _ in range(n)) if rng.random() < 0.6 else bytes(rng.choice(b'abc xyz=\n') for _ in range(n))
        items[hx(name)] = hx(val)
    return sorted(f'{k}:{v}' for k, v in items.items())


def add_times(rng, fmt, d, p=0.5):
    """atime/ctime/btime inside the format's time range, each independently present or absent."""
    lo, hi = MT_RANGE[fmt]
    for k in ('atime', 'ctime', 'btime'):
        if rng.random() < p:
            v = pick_border(rng, max(lo, 0), hi)
            ns = rng.choice([0, 0, 1, 100, 999999999, 123456789, 500000000])
            d[k] = f'{v}.{ns}' if ns else str(v)
    return d


def add_extras(rng, fmt, d):
    """Optional metadata on an otherwise representable entry (every format gets it: the formats that
    carry a field must return it, the others must still return the rest of the entry unchanged)."""
    if rng.random() < 0.45:
        add_times(rng, fmt, d)
    if rng.random() < 0.12:
        d['mtime'] = '-'; d.pop('mtimens', None)
    typ = d['type']
    if typ == 'reg' and 'hard' not in d and int(d.get('size', '0')) >= 4 and 'body' in d and rng.random() < 0.3:
        size = int(d['size'])
        regs = sparse_regions(rng, size)
        if regs:
            d['sparse'] = ','.join(f'{o}:{n}' for o, n in regs)
            d['body'] = d['body'].split(':')[0] + f':{size}'
    if typ in ('reg', 'dir') and 'hard' not in d and rng.random() < 0.3:
        if rng.random() < 0.3:
            items = acl_nfs4(rng)
        else:
            dflt = typ == 'dir' and rng.random() < 0.7
            items = acl_posix(rng, default=dflt, access=(not dflt) or rng.random() < 0.7)
        d['acl'] = ','.join(items)
    if typ in ('reg', 'dir', 'lnk') and 'hard' not in d and rng.random() < 0.3:
        d['xattr'] = ','.join(xattrs(rng))
    if typ in ('reg', 'dir') and rng.random() < 0.2:
        d['fflags'] = rng.choice(FFLAGS + (FFLAGS_FOREIGN if fmt in ('pax', 'paxr') else []))
    return d


# names whose UTF-16 form has units with a 0x2F / 0x5C / 0x00 byte in either half, two- and three-byte
# UTF-8, combining marks, a supplementary-plane character
UNI_NAMES = ['ДляЯны', 'Яя', 'įĀŜ', 'ĀĀ', 'ќ.ѯ', '中丯尀', '⼀⽯', '尯', 'ét́', 'naïve', 'ＡＢ', '한글', 'a😀b', 'ÿ', 'Ω/ω', 'ل']


def uni_path(rng, k, deep=True, supp=True, combining=True):
    pool = [n for n in UNI_NAMES if (supp or '😀' not in n) and (combining or '\u0301' not in n)]
    parts = [rng.choice(pool).replace('/', '') for _ in range(rng.choice([1, 2, 3]) if deep else 1)]
    parts[-1] = parts[-1] + f'{k:02d}' + rng.choice(['', '.txt', '.Я'])
    return '/'.join(parts)


def gen_meta_cases(rng, tier, mode):
    """Dimensions the per-field probes do not reach: many entries with optional fields missing at
    varying positions, sparse maps around the 512-byte borders of their text form, ACLs / xattrs,
    Unicode names under the reader / writer options that select another name encoding."""
    reps = 1 if tier == 'quick' else 6
    for fmt in ALL_FMTS:
        types = FMT_TYPES[fmt]
        b1 = ' bilb=1' if needs_bilb1(fmt) else ''
        # -- many small entries, optional times present in varying positions
        for n in ([9, 12, 17, 20, 33] if tier != 'quick' else [rng.choice([9, 10, 11, 12]), rng.choice([17, 18, 20, 33])]) * reps:
            pat = rng.choice(['first8', 'last', 'alt', 'rand', 'one'])
            ents = []
            for k in range(n):
                e = dict(path=hx(f'm{k:02d}' if fmt in ('arbsd', 'arsvr4') else f'e/m{k:02d}'), type='reg', perm='644', uid='0', gid='0',
                         size=str(k % 3), mtime=str(pick_border(rng, *MT_RANGE[fmt])), dev='5', ino=str(100 + k), nlink='1', body=f'{k}:{k % 3}')
                if 'dir' in types and rng.random() < 0.15:
                    e = with_type(e, 'dir', rng); e['path'] = hx(f'e/sub{k:02d}')
                for fld in ('atime', 'ctime', 'btime', 'mtime'):
                    on = {'first8': k < 8, 'last': k == n - 1, 'alt': k % 2 == 0, 'rand': rng.random() < 0.5, 'one': k == rng.randrange(n)}[pat]
                    if fld == 'mtime':
                        if not on and rng.random() < 0.5:
                            e['mtime'] = '-'
                    elif on:
                        lo, hi = MT_RANGE[fmt]
                        e[fld] = str(pick_border(rng, max(lo, 0), hi))
                ents.append(e)
            extra = 45 if fmt == 'iso9660' else 1
            ops = [f'open f={fmt}{b1}'] + [ent_line(e) for e in ents] + ['close'] + [f'rd {j}' for j in range(n + extra)] + ['done']
            yield Case(f'{mode}-{fmt}-many{n}-{pat}', ops, {'fmt': fmt})
        # -- sparse maps whose text form sits around a 512-byte border
        if 'reg' in types:
            for border in (512, 1024):
                for tlen in range(border - 2, border + 3):
                    if tier == 'quick' and fmt not in ('pax', 'paxr', 'gnutar') and rng.random() < 0.8:
                        continue
                    r = sparse_for_text_len(rng, tlen)
                    if r is None:
                        continue
                    size, regs = r
                    a, b = good_entry(rng, fmt, 0), good_entry(rng, fmt, 2)
                    d = good_entry(rng, fmt, 1); d['size'] = str(size); d['body'] = f'{rng.randrange(256)}:{size}'
                    d['sparse'] = ','.join(f'{o}:{n}' for o, n in regs)
                    d.pop('chunks', None)
                    if rng.random() < 0.5:
                        d['chunks'] = ','.join(str(rng.choice([1, 7, 100, 512, 5000])) for _ in range(2))
                    ops = [f'open f={fmt}{b1}'] + [ent_line(e) for e in (a, d, b)] + ['close'] + [f'rd {j}' for j in range(8 if fmt == 'iso9660' else 4)] + ['done']
                    yield Case(f'{mode}-{fmt}-sparsemap{tlen}', ops, {'fmt': fmt})
        # -- ACLs and extended attributes of every kind on files and directories
        for r_ in range(3 * reps):
            ents = []
            for k in range(rng.choice([1, 2, 3])):
                typ = rng.choice(['reg', 'dir'] if 'dir' in types else ['reg'])
                d = with_type(good_entry(rng, fmt, k), typ, rng)
                if typ == 'dir':
                    d['path'] = hx(f'd{k}/sub{k}')
                kind = rng.choice(['access', 'default', 'both', 'both', 'nfs4', 'none'])
                if kind == 'nfs4':
                    d['acl'] = ','.join(acl_nfs4(rng))
                elif kind != 'none':
                    d['acl'] = ','.join(acl_posix(rng, default=kind in ('default', 'both') and typ == 'dir', access=kind in ('access', 'both') or typ != 'dir'))
                if rng.random() < 0.6:
                    d['xattr'] = ','.join(xattrs(rng))
                ents.append(d)
            ops = [f'open f={fmt}{b1}'] + [ent_line(e) for e in ents] + ['close'] + [f'rd {j}' for j in range(len(ents) + (8 if fmt == 'iso9660' else 1))]
            if fmt not in ('mtree',) and rng.random() < 0.5:
                ops += [f'rewrite f={fmt}{b1}'] + [f'rd2 {j}' for j in range(len(ents) + (8 if fmt == 'iso9660' else 1))]
            yield Case(f'{mode}-{fmt}-aclx-{r_}', ops + ['done'], {'fmt': fmt})
        # -- Unicode names, also under the options that select another stored encoding
        optsets = [('', '')]
        if fmt == 'iso9660':
            optsets += [('', 'iso9660:!rockridge'), ('iso9660:joliet=long', 'iso9660:!rockridge'), ('iso9660:!rockridge', '')]
        if fmt in ('zip', 'pax', 'gnutar', 'v7tar', 'bin', 'pwb'):
            optsets += [(f'{cs}', f'{cs}') for cs in ('hdrcharset=KOI8-R', 'hdrcharset=CP866', 'hdrcharset=UTF-8')]
        if fmt == 'pax':
            optsets += [('hdrcharset=BINARY', '')]
        for opt, ropt in optsets * reps:
            if fmt in ('arbsd', 'arsvr4', 'warc', 'v7tar') and False:
                continue
            ents = []
            for k in range(rng.choice([2, 4, 6])):
                typ = rng.choice([t for t in types if t in ('reg', 'reg', 'dir', 'lnk')] or ['reg'])
                if typ == 'lnk' and ((opt and fmt in ('bin', 'pwb', 'odc', 'newc')) or '!rockridge' in opt):
                    typ = 'reg'       # cpio: a link's size is the length of the stored (converted) target; Joliet has no links
                d = with_type(good_entry(rng, fmt, k), typ, rng)
                # writers that convert names (to UTF-16, or to UTF-8 under hdrcharset) store them NFC-normalised:
                # decomposed sequences are left to the formats that keep the bytes (ASSUMPTIONS)
                nm = uni_path(rng, k, deep=fmt not in ('arbsd', 'arsvr4'), supp=mode == 'c10' or fmt != 'iso9660',
                              combining=fmt not in ('7zip', 'iso9660', 'xar') and 'hdrcharset' not in opt)
                if fmt == 'arsvr4':
                    nm = nm[:6] + f'{k}'
                if 'KOI8' in opt or 'CP866' in opt:
                    if mode == 'c02':
                        nm = rng.choice(['Привет', 'ДляЯны', 'файл']) + f'{k:02d}' + rng.choice(['', '/яЯ.txt'] if fmt not in ('arbsd', 'arsvr4') else [''])
                d['path'] = hx(nm)
                if typ == 'lnk':
                    d['sym'] = hx(rng.choice(['цель/Я', 'tärget', '中丯']) if not ('KOI8' in opt or 'CP866' in opt) else 'цель/Я')
                ents.append(d)
            o = f'open f={fmt}{b1}' + (f' opt={opt}' if opt else '') + (f' ropt={ropt}' if ropt else '')
            ops = [o] + [ent_line(e) for e in ents] + ['close'] + [f'rd {j}' for j in range(len(ents) + (24 if fmt == 'iso9660' else 1))] + ['done']
            yield Case(f'{mode}-{fmt}-uni-{opt or "dflt"}-{ropt or "dflt"}', ops, {'fmt': fmt})


def refusal_candidates(rng, fmt):
    """Entries of every kind some writer refuses (which ones a given format refuses is for the
    writer to say: the point is the state it leaves behind)."""
    base = lambda: good_entry(rng, fmt, 1)
    C = []
    d = base(); d['path'] = '-'; C.append(('nopath', d))
    d = base(); d['path'] = '""'; C.append(('emptypath', d))
    for t in ('none', 'sock', 'fifo', 'chr', 'lnk', 'dir'):
        C.append((f'type-{t}', with_type(base(), t, rng)))
    for n in (16, 101, 256, 600, 1100):
        d = base(); d['path'] = hx('L' * n); C.append((f'name{n}', d))
    d = base(); d['path'] = hx('dir/'); C.append(('trailslash', d))
    d = base(); d['path'] = hx('d/' + 'x' * 300 + '/f'); C.append(('component300', d))
    d = base(); d['path'] = hx(b'bad\xff\xfename'); C.append(('badutf8', d))
    d = base(); d['path'] = hx('../up'); C.append(('dotdot', d))
    for f_, v in (('uid', 2 ** 33), ('gid', 2 ** 21), ('mtime', 2 ** 40), ('mtime', -5), ('ino', 2 ** 40), ('nlink', 70000), ('dev', 2 ** 20)):
        d = base(); d[f_] = str(v); C.append((f'{f_}-{v}', d))
    d = with_type(base(), 'lnk', rng); d['sym'] = hx('t' * 300); C.append(('sym300', d))
    d = base(); d['hard'] = hx('h' * 300); d['size'] = '0'; d.pop('body', None); d.pop('chunks', None); C.append(('hard300', d))
    d = base(); d['size'] = '-'; d.pop('body', None); d.pop('chunks', None); C.append(('nosize', d))
    d = base(); d['uname'] = hx(b'u\xff'); C.append(('badutf8-uname', d))
    return C


def gen_refusal_cases(rng, tier):
    """An accepted member with an odd size (so that the writer owes padding), a candidate for refusal,
    accepted members again: whatever the writer answers, the archive must read back as the accepted
    entries."""
    for fmt in ALL_FMTS * (1 if tier == 'quick' else 4):
        for lbl, d in refusal_candidates(rng, fmt):
            if fmt in BYTE_FMTS and lbl == 'emptypath':
                continue        # the byte-exact models take their pathname from hex; "" has no hex form
            sizes = rng.sample([1, 3, 5, 511, 513, 1501], 3)
            ents = []
            for k, sz in zip((0, 2, 3), sizes):
                e = good_entry(rng, fmt, k); e['size'] = str(sz); e['body'] = f'{rng.randrange(256)}:{sz}'
                ents.append(e)
            d2 = dict(d)
            if d2.get('path') not in ('-', '""', None):
                d2['path'] = d2['path'][:-2] + '5a'          # a second candidate under another name (last byte 'Z')
            seq = [ents[0], d, ents[1]] + ([d2, ents[2]] if rng.random() < 0.5 else [])
            yield archive_case(f'c10-{fmt}-refuse-{lbl}', fmt, seq,
                               bpb=rng.choice([None, 512, 0, 1]) if not needs_bilb1(fmt) else rng.choice([None, 512]),
                               bilb=1 if needs_bilb1(fmt) else rng.choice([None, 1]), nread=len(seq) + (12 if fmt == 'iso9660' else 0))


LINK_FMTS_ = None
LINK_FMTS = ['ustar', 'pax', 'paxr', 'gnutar', 'v7tar', 'odc', 'newc', 'bin', 'pwb', 'xar', 'iso9660']
# names this platform's flag table knows (the mtree writer compares flags by their bits), and two it does not
FFLAGS = ['nodump', 'schg', 'sappnd', 'noatime', 'nodump,schg', 'compress', 'nodump,sappnd']
FFLAGS_FOREIGN = ['uappnd', 'uchg', 'nodump,uappnd']


def gen_link_cases(rng, tier, mode):
    """Files with 3..5 names: the body-carrying entry and its hard links, interleaved with other entries,
    a link sometimes in front of its target, two groups in one archive; every format that stores links
    (and, rarely, one that does not: the link must then not be accepted silently)."""
    reps = 2 if tier == 'quick' else 10
    for fmt in LINK_FMTS * reps + (['zip', '7zip', 'mtree'] if rng.random() < 0.5 or tier != 'quick' else []):
        ents = []
        k = 0
        for g in range(rng.choice([1, 1, 2])):
            n = rng.choice([3, 3, 4, 5])
            ino = 70 + g
            tname = f'g{g}/orig{g}' if rng.random() < 0.7 else f'orig{g}'
            size = rng.choice([0, 1, 5, 513])
            nlink = n if rng.random() < 0.8 else n + 2       # names outside the archive
            tgt = dict(path=hx(tname), type='reg', perm='644', uid='1', gid='2', size=str(size), mtime='1000000000',
                       dev='5', ino=str(ino), nlink=str(nlink), body=f'{rng.randrange(256)}:{size}')
            links = [dict(path=hx(rng.choice([f'g{g}/', f'h{g}/', '']) + f'link{g}_{j}'), type='reg', perm='644', uid='1', gid='2',
                          size='0', mtime='1000000000', dev='5', ino=str(ino), nlink=str(nlink), hard=hx(tname)) for j in range(n - 1)]
            seq = [tgt] + links
            if rng.random() < 0.15:
                seq = [links[0], tgt] + links[1:]             # a link written before its target
            for e in seq:
                ents.append(e)
                if rng.random() < 0.5:
                    k += 1
                    o = good_entry(rng, fmt, 40 + k); o['ino'] = str(200 + k); o['nlink'] = '1'
                    ents.append(o)
        b1 = ' bilb=1' if needs_bilb1(fmt) else ''
        extra = 16 if fmt == 'iso9660' else 1
        ops = [f'open f={fmt}{b1}'] + [ent_line(e) for e in ents] + ['close'] + [f'rd {j}' for j in range(len(ents) + extra)]
        if fmt in ('ustar', 'pax', 'gnutar', 'odc', 'newc', 'xar') and rng.random() < 0.5:
            ops += [f'rewrite f={fmt}'] + [f'rd2 {j}' for j in range(len(ents) + extra)]
        yield Case(f'{mode}-{fmt}-links', ops + ['done'], {'fmt': fmt})


MTREE_TOGGLES = ['!uid', '!gid', '!mode', '!time', '!size', '!flags', '!uname', '!gname', '!nlink', '!link', '!device',
                 'inode', 'resdevice', 'cksum', 'md5', 'sha1', 'sha256', 'sha512', 'rmd160']


def gen_mtree_cases(rng, tier, mode):
    """The mtree writer under every option, on trees of several directories in which the most common
    uid / gid / mode / flags / type among the children changes from directory to directory (what the
    `/set` and `/unset` lines of `use-set` are computed from)."""
    reps = 14 if tier == 'quick' else 150
    for r in range(reps):
        opts = []
        if rng.random() < 0.7:
            opts.append('use-set')
        if rng.random() < 0.3:
            opts.append('indent')
        if rng.random() < 0.1:
            opts.append('dironly')
        if rng.random() < 0.15:
            opts.append('all')
        elif rng.random() < 0.1:
            opts += ['!all', 'type'] + rng.sample(['uid', 'gid', 'mode', 'time', 'size', 'flags', 'link'], 3)
        opts += rng.sample(MTREE_TOGGLES, rng.choice([0, 0, 1, 2]))
        ents = []
        names = rng.random() < 0.4
        ndirs = rng.choice([2, 3, 4, 5])
        VALS = dict(uid=['0', '1000', '77'], gid=['0', '100', '5'], perm=['644', '600', '755'],
                    ff=['', 'nodump', '', 'schg', '', 'nodump,schg'], type=['reg', 'reg', 'dir', 'lnk'])
        prev = {}
        for d in range(ndirs):
            # the most common value of every attribute differs from that of the directory before
            dom = {}
            for key, vals in VALS.items():
                dom[key] = rng.choice([v for v in vals if v != prev.get(key)])
            prev = dom
            dname = f'd{d}' if rng.random() < 0.8 or d == 0 else f'd{d - 1}/s{d}'
            de = dict(path=hx(dname), type='dir', perm='755', uid=dom['uid'], gid=dom['gid'], size='0', mtime=str(10 ** 9 + d), nlink='2')
            if names:
                de['uname'] = hx({'0': 'root', '1000': 'user', '77': 'www', '65534': 'nobody'}[de['uid']])
                de['gname'] = hx({'0': 'wheel', '100': 'users', '5': 'tty'}[de['gid']])
            if dom['ff'] and rng.random() < 0.5:
                de['fflags'] = dom['ff']
            ents.append(de)
            for c in range(rng.choice([2, 2, 3, 4, 5]) if rng.random() < 0.9 else rng.choice([0, 1])):
                pick = lambda key, alts: dom[key] if rng.random() < 0.85 else rng.choice(alts)
                typ = pick('type', ['reg', 'dir', 'lnk'])
                e = dict(path=hx(f'{dname}/c{c}'), type=typ, perm=pick('perm', ['644', '600', '755', '4755']),
                         uid=pick('uid', ['0', '1000', '77', '65534']), gid=pick('gid', ['0', '100', '5']),
                         mtime=str(rng.choice([0, 10 ** 9, 10 ** 9 + c])), nlink='1')
                ff = pick('ff', ['', 'nodump', 'sappnd', 'schg', 'noatime'])
                if ff:
                    e['fflags'] = ff
                if typ == 'reg':
                    sz = rng.choice([0, 1, 100]); e['size'] = str(sz); e['body'] = f'{rng.randrange(256)}:{sz}'
                else:
                    e['size'] = '0'
                if typ == 'lnk':
                    e['sym'] = hx('t/a')
                if names:     # as on a real system: the name is a function of the id
                    e['uname'] = hx({'0': 'root', '1000': 'user', '77': 'www', '65534': 'nobody'}[e['uid']])
                    e['gname'] = hx({'0': 'wheel', '100': 'users', '5': 'tty'}[e['gid']])
                ents.append(e)
        o = 'open f=mtree' + (f" opt={','.join(opts)}" if opts else '')
        ops = [o] + [ent_line(e) for e in ents] + ['close'] + [f'rd {j}' for j in range(len(ents) + 1)]
        # (with a keyword switched off the read-back form is not the entry any more: no second pass)
        if rng.random() < 0.3 and 'dironly' not in opts and not any(o.startswith('!') for o in opts):
            ops += ['rewrite f=mtree'] + [f'rd2 {j}' for j in range(len(ents) + 1)]
        yield Case(f"{mode}-mtree-opts-{'+'.join(opts) or 'dflt'}", ops + ['done'], {'fmt': 'mtree'})


class Codec(Engine):
    name = 'codec'
    extra_cflags = tuple(os.path.join(H, f) for f in INC)
    repo_deps = tuple(REPO_DEPS) + tuple(os.path.join(H, f) for f in INC) + (os.path.join(H, 'codec_inc.h'),)

    # leak detection off: LSan's at-exit scan costs ~20 ms in each forked case and leaks are not what
    # C10/C02 observe (ASan/UBSan memory errors still abort the case)
    env = {'ASAN_OPTIONS': 'detect_leaks=0:abort_on_error=0:exitcode=99:allocator_may_return_null=1'}

    def __init__(self, mode='c10', bulk=False):
        self.mode = mode
        self.bulk = bulk          # the plain-flavour twin (`codecp`) runs the bulk of the round trips
        if bulk:
            self.name = 'codecp'
            self.flavour = 'plain'
            self.repo_deps = self.repo_deps + (os.path.join(H, 'eng_codec.c'),)

    def gen(self, rng, tier):
        if not self.bulk:
            yield from gen_fmt_cases(rng, tier)
            yield from gen_atol_cases(rng, tier)
            yield from gen_pax_cases(rng, tier)
            yield from gen_paxbody_cases(rng, tier)
        import itertools
        if self.mode == 'c02':
            for c in itertools.chain(gen_c02_cases(rng, tier), gen_meta_cases(rng, tier, 'c02'), gen_link_cases(rng, tier, 'c02'), gen_mtree_cases(rng, tier, 'c02')):
                if self.bulk or rng.random() < (0.1 if tier == 'quick' else 0.3):
                    yield c
        if self.mode == 'c10':
            for c in itertools.chain(gen_c10_cases(rng, tier), gen_refusal_cases(rng, tier), gen_meta_cases(rng, tier, 'c10'), gen_link_cases(rng, tier, 'c10'), gen_mtree_cases(rng, tier, 'c10')):
                # sanitizer build: a sample; plain build: everything
                if self.bulk or rng.random() < (0.06 if tier == 'quick' else 0.25):
                    yield c

    # -- the property predicate is a Lean function (engines codec.c10 / codec.c02): evaluated on the
    #    implementation's output by the driver, cached per (ops, impl)
    def _verdicts(self, pairs):
        lines = []
        for i, (ops, im) in enumerate(pairs):
            lines.append(f'#case {i}')
            for j, o in enumerate(ops):
                lines.append(o + '\t' + (im[j] if j < len(im) else ''))
        drv = os.path.join(core.LEAN, '.lake', 'build', 'bin', 'driver')
        r = subprocess.run([drv, 'codec.' + self.mode], input='\n'.join(lines) + '\n', stdout=subprocess.PIPE,
                           stderr=subprocess.PIPE, text=True, timeout=self.timeout)
        if r.returncode != 0:
            raise core.BuildError('oracle driver failed: ' + r.stderr[-2000:])
        out = core.split_cases(r.stdout, len(pairs))
        return [(o[-1] if o else 'ok') for o in out]

    def run_model(self, cases, impl):
        model = super().run_model(cases, impl)
        self._cache = getattr(self, '_cache', {})
        todo = [(c.ops, impl[i]) for i, c in enumerate(cases) if c.ops and c.ops[-1] == 'done']
        if todo:
            for (ops, im), v in zip(todo, self._verdicts(todo)):
                self._cache[('\n'.join(ops), '\n'.join(im))] = v
        return model

    def oracle(self, case, impl):
        if not case.ops:
            return None
        if case.ops[-1] != 'done':
            # a shrunk stream lost its tail: evaluate the property on the completed round trip
            # (open, the remaining entries, close, read everything back)
            if not case.ops[0].startswith('open ') or not any(o.startswith('ent ') for o in case.ops):
                return None
            ents = [o for o in case.ops if o.startswith('ent ')]
            full = Case('completed', [case.ops[0]] + ents + ['close'] + [f'rd {i}' for i in range(len(ents) + 1)] + ['done'])
            out, _ = self.run_impl(self.build(), [full])
            case, impl = full, out[0]
        k = ('\n'.join(case.ops), '\n'.join(impl))
        cache = getattr(self, '_cache', {})
        v = cache.get(k)
        if v is None:
            v = self._verdicts([(case.ops, impl)])[0]
        return None if v == 'ok' else v

    def nontrivial(self, case, impl):
        return any('r=-1' in l or 'v=' in l or 'h=' in l or 'st=' in l for l in impl)

    def stats(self, cases, impl):
        st = {'ops': {}, 'fmt_overflow': 0, 'fmt_ok': 0}
        for c, im in zip(cases, impl):
            for op, o in zip(c.ops, im):
                k = op.split()[0]
                st['ops'][k] = st['ops'].get(k, 0) + 1
                if k == 'fmt':
                    st['fmt_overflow' if o.startswith('r=-1') else 'fmt_ok'] += 1
        return st
