"""C17 — the hard-link resolver neither loses nor duplicates entries."""
from lib.core import Engine, Case
import re

PROP = 'C17'
PROPS_MODULES = ['LA.Props.C17']
GEN = ['Limits']
ASSUMPTIONS = ['malloc never fails (insert_entry returning NULL is not driven)',
               'entry identity is carried in the pathname; archive_entry setters/getters behave (C14)']
TRUSTED = ['model keeps live records in insertion order; the hash-bucket order is taken from the implementation '
           'as the choice index of drainAt/partialAt (theorems are quantified over every choice)',
           'bucket layer (Lemmas/LnkHash.lean: buckets[], hash & (number_buckets - 1), head insertion, grow_hash) is a '
           'hand-written model; its tie to the C is the extracted source shape (Gen/Limits: initial size, the three '
           'index computations, growth test, grow-before-index order; theorem bucket_source_shape) plus the lnk '
           'engine driving >4000 live groups; chain unlinking in next_entry/find_entry is covered by the flat model only']
MANIFEST = {
    'text': 'Lean theorems over a model of archive_entry_link_resolver.c: for every strategy and every history of '
            'linkify / drain / partial_links calls (any record choice at each drain, hence any hash layout and any '
            'number of table growths) followed by draining to NULL, the multiset of entry identities out equals the '
            'multiset in (exactly_once); entries differ from their input only in hardlink/size (unmodified_except_link); '
            'group structure for tar/mtree/new-cpio; pass-through cases.  Bucket layer under the flat table '
            '(buckets[hash & (number_buckets-1)], head insertion, grow_hash; any hash function): after any insertion '
            'history with any number of growths the table holds every record exactly once (buckets_no_loss_no_dup), '
            'every record is reached by the find_entry chain walk for its own key (buckets_find_every_record) and the '
            'walk equals the flat lookup (buckets_find_eq_lookup); placement invariant preserved by insert, grow and unlink, '
            'so after any insert/unlink history every remaining record is reachable (buckets_history_reachable).  '
            'The model is tied to the C by a differential '
            'engine that drives the real resolver (ASan/UBSan/LSan) and the model on the same op streams, incl. >4000 '
            'live groups to cross grow_hash twice.',
    'note': 'Trusted: Lean kernel; correspondence harness; hash-bucket order is not modelled (taken from the '
            'implementation as a choice index, theorems quantify over all choices); malloc failure not driven.',
    'technique': 'Lean 4 proof (induction over op histories, List.Perm conservation invariant) + model/C differential correspondence',
}
STRATS = ['tar', 'mtree', 'oldcpio', 'newcpio']
TYPES = ['reg', 'reg', 'reg', 'reg', 'lnk', 'fifo', 'dir', 'blk', 'chr']


class Lnk(Engine):
    name = 'lnk'
    keep_prefix = 1
    parallel = 8
    timeout = 3000

    def gen(self, rng, tier):
        n = 1500 if tier == 'quick' else 40000
        for i in range(n):
            strat = rng.choice(STRATS)
            nkeys = rng.choice([1, 2, 3, 5, 12])
            keys = [(rng.choice([0, 1, 5, -1, 2**31, 2**40 + 3]), rng.choice([0, 1, 7, 1025, 2049, 2**33 + 5, 2**62]) + k) for k in range(nkeys)]
            ops = ['strategy ' + strat]
            tag = 0
            for _ in range(rng.choice([2, 5, 10, 30])):
                r = rng.random()
                if r < 0.75:
                    tag += 1
                    d, ino = rng.choice(keys)
                    nl = rng.choice([1, 2, 2, 3, 3, 4])
                    ops.append(f'push {tag} {d} {ino} {nl} {rng.choice(TYPES)}')
                elif r < 0.9:
                    ops.append('drain')
                else:
                    ops.append('partial')
            for _ in range(rng.choice([0, 3, 40])):
                ops.append('drain')
            yield Case(f'rand{i}', ops)
        # same-bucket chains: several live groups whose hashes agree modulo the table size, completing in
        # every relative order (exercises unlinking from the head, middle and tail of a chain)
        for i in range(250 if tier == 'quick' else 4000):
            strat = rng.choice(STRATS)
            base = rng.choice([5, 77, 1023, 4096 + 9])
            ng = rng.choice([3, 3, 4, 5, 6])
            groups = [(rng.choice([0, 0, 1024]), base + 1024 * j, rng.choice([2, 2, 3])) for j in range(ng)]
            members = []
            for gi, (d, ino, nl) in enumerate(groups):
                k = nl if rng.random() < 0.8 else nl - 1      # some groups never complete
                members += [gi] * k
            # first members in order (fixes the chain order), the rest shuffled
            firsts = list(range(ng)); rest = [g for g in members]
            for g in firsts:
                rest.remove(g)
            rng.shuffle(rest)
            ops = ['strategy ' + strat]; tag = 0
            for g in firsts + rest:
                tag += 1
                d, ino, nl = groups[g]
                ops.append(f'push {tag} {d} {ino} {nl} reg')
                if rng.random() < 0.1:
                    ops.append('drain')
            # restart completed groups, then drain everything
            for g in rng.sample(range(ng), 2):
                tag += 1; d, ino, nl = groups[g]
                ops.append(f'push {tag} {d} {ino} {nl} reg')
            ops += ['drain'] * (len(members) + 4)
            yield Case(f'chain{i}', ops)
        # hash growth: more than 2*1024 live groups (twice), keys with every bit pattern in the bits that
        # select the bucket before and after growth; every group gets its later members afterwards
        for strat in (['newcpio', 'tar'] if tier == 'quick' else STRATS):
            ops = ['strategy ' + strat]
            N = 4300
            xor = rng.choice([0, 1024, 2048, 3072, 0x5555])
            keys = [(t % 3, (t * 2654435761 % 100003) ^ xor if t % 2 else t ^ xor) for t in range(1, N + 1)]
            keys = list(dict.fromkeys(keys))
            for t, (d, ino) in enumerate(keys, 1):
                ops.append(f'push {t} {d} {ino} 3 reg')
            order = list(range(len(keys))); rng.shuffle(order)
            for j, idx in enumerate(order):
                d, ino = keys[idx]
                ops.append(f'push {len(keys) + 1 + j} {d} {ino} 3 reg')
            ops += ['drain'] * (len(keys) + 10)
            ops += ['partial'] * 20
            yield Case('grow-' + strat, ops)

    def oracle(self, case, impl):
        """exactly-once on the implementation: identities out == identities in once drained to NULL."""
        pushed, out = [], []
        drained_null = False
        for op, o in zip(case.ops, impl):
            w = op.split()
            if w[0] == 'push':
                pushed.append(w[1]); drained_null = False
            if w[0] in ('push', 'drain'):
                for m in re.finditer(r'\b[ef]=(\d+):', o):
                    out.append(m.group(1))
                if w[0] == 'drain':
                    drained_null = o.startswith('e=null')
        if len(out) != len(set(out)):
            return 'an entry came out twice'
        if not set(out) <= set(pushed):
            return 'an entry came out that was never pushed'
        g = self.groups(case, impl)
        if g:
            return g
        if drained_null and sorted(out) != sorted(pushed):
            return 'after draining to NULL some pushed entries never came out: ' + ','.join(sorted(set(pushed) - set(out))[:5])
        return None

    def groups(self, case, impl):
        """tar/mtree: in a group of n = nlink members the first carries the body, the others link to it
        (checked for keys all of whose pushes have the same nlink >= 2 and a linkable type, no partial ops)."""
        strat = case.ops[0].split()[1]
        if strat not in ('tar', 'mtree') or any(o == 'partial' for o in case.ops):
            return None
        per = {}
        for op, o in zip(case.ops, impl):
            w = op.split()
            if w[0] == 'push':
                per.setdefault((w[2], w[3]), []).append((w, o))
        for key, lst in per.items():
            nls = {w[4] for w, _ in lst}
            if len(nls) != 1 or int(lst[0][0][4]) < 2 or any(w[5] in ('dir', 'blk', 'chr') for w, _ in lst):
                continue
            n = int(lst[0][0][4])
            for j, (w, o) in enumerate(lst):
                m = re.match(r'e=(\d+):hl=([^:]+):', o)
                if not m:
                    return 'push returned no entry under ' + strat
                want = '-' if j % n == 0 else lst[j - j % n][0][1]
                if m.group(2) != want:
                    return f'group member {w[1]} of key {key}: hardlink={m.group(2)}, expected {want}'
        return None

    def nontrivial(self, case, impl):
        return any(':hl=' in o and ':hl=-' not in o.split(' f=')[0] for o in impl) or any('f=' in o and 'f=null' not in o for o in impl)

    def stats(self, cases, impl):
        st = {'ops': {}, 'strategies': {}, 'hardlinked_outputs': 0, 'second_entry_returned': 0, 'drain_nonnull': 0, 'partial_nonnull': 0}
        for c, im in zip(cases, impl):
            st['strategies'][c.ops[0].split()[1]] = st['strategies'].get(c.ops[0].split()[1], 0) + 1
            for op, o in zip(c.ops, im):
                k = op.split()[0]
                st['ops'][k] = st['ops'].get(k, 0) + 1
                if k == 'push' and ':hl=' in o and not o.startswith('e=null') and ':hl=-' not in o.split(' f=')[0]:
                    st['hardlinked_outputs'] += 1
                if ' f=' in o and ' f=null' not in o:
                    st['second_entry_returned'] += 1
                if k == 'drain' and not o.startswith('e=null'):
                    st['drain_nonnull'] += 1
                if k == 'partial' and not o.startswith('p=null'):
                    st['partial_nonnull'] += 1
        return st


ENGINES = [Lnk()]
