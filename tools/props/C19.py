"""C19 — safe-writes extraction replaces files atomically, and leaves no temporary file."""
import os, re, subprocess
from lib.core import Engine, Case, LEAN, BuildError, split_cases

PROP = 'C19'
PROPS_MODULES = ['LA.Props.C19']
GEN = []
ASSUMPTIONS = [
    'POSIX semantics of the calls involved, as written down in LA.SafeWrite.FS.step (rename replaces atomically, '
    'a failed call has no effect, close releases the descriptor even when it reports an error); validated on every '
    'run against the real kernel through per-call snapshots of the scratch directory',
    'crash state = the calls issued so far, each atomic (no fsync/durability ordering, as the property text says)',
    'no short writes: write(2) on the temporary file either stores the whole buffer or fails',
    'the caller delivers blocks at non-decreasing offsets within the declared size (LA.SafeWrite.wellFormed); '
    'an offset beyond the declared size makes write_data_block compute a negative length (seen, out of scope, reported)',
    'no_temp_after_close: a fault set that makes the cleaning unlink itself fail is excluded (nothing can clean up then)',
    'one entry per handle; entry has a size; no ACL/xattr/fflags restore; mode without setuid/setgid; not ARCHIVE_EXTRACT_UNLINK',
]
TRUSTED = ['interposition layer in harness/eng_safe.c (open, lstat, fstat, lseek, write, pwrite, ftruncate, fchmod, chmod, '
           'fchown, lchown, futimens, utimensat, close, rename, unlink, mkstemp defined in the executable, forwarding '
           'with dlsym(RTLD_NEXT)); the number of interposed calls per kind is printed in the evidence']
MANIFEST = {
    'text': 'Lean theorems over a model of the SAFE_WRITES path of archive_write_disk_posix.c (restore_entry, la_mktemp, '
            'write_data_block incl. the sparse loop, finish_entry, close_file_descriptor, close) as a function from '
            '(old content, flags, declared size, data calls, fault SET) to the log of file-system calls with the state '
            'after each: atomic_at_every_prefix (for every fault set, after every call the target name resolves to the '
            'complete old or the complete new content), no_temp_after_close (no name.XXXXXX remains unless the cleaning '
            'unlink was itself faulted), with negation witnesses for the four unrepaired behaviours.  The model is tied '
            'to the C by a differential engine that interposes the file-system calls of the real disk writer, compares '
            'the call trace, the statuses and a snapshot of the directory after EVERY call, and injects a failure at '
            'every call index (and sampled pairs).',
    'note': 'Proof is about the model of the code as repaired by four fix: commits (temp file leaked when fchmod fails '
            'in la_mktemp; leaked on the error paths of finish_entry; a failed write followed by finish_entry renamed a '
            'zero-padded partial file over the target and returned OK; lazy_stat fell back to the file being replaced). '
            'Trusted: Lean kernel; the tiny FS semantics; the interposition harness; durability is out of scope.',
    'technique': 'Lean 4 proof (invariants over a syscall-trace model with an arbitrary fault set) + model/C differential '
                 'correspondence with interposed system calls, per-call crash snapshots and exhaustive single-fault injection',
}

B = 512
ERRNOS = ['ENOSPC', 'EACCES', 'EIO']


def part(rng, n, zero):
    return f'z{n}' if zero else f'p{n}:{rng.randrange(1, 10 ** 6)}'


def body_parts(rng, total, style):
    """A list of (length, is_zero) runs summing to `total`."""
    if total == 0:
        return []
    if style == 'plain':
        return [(total, False)]
    if style == 'zeros':
        return [(total, True)]
    runs, left, zero = [], total, style in ('lead', 'both')
    cuts = sorted(set(rng.choice([1, 7, 100, 511, 512, 513, 1000, 4095, 4096, 4097, total // 2, total - 1])
                      for _ in range(rng.choice([1, 2, 3]))))
    pos = 0
    for c in cuts:
        if pos < c < total:
            runs.append((c - pos, zero)); zero = not zero; pos = c
    last_zero = zero if style == 'mixed' else style in ('trail', 'both')
    if runs and runs[-1][1] == last_zero:
        runs[-1] = (runs[-1][0] + total - pos, last_zero)
    else:
        runs.append((total - pos, last_zero))
    return runs


def chunk_runs(rng, runs, mode):
    """Split a run list into chunks (each chunk = list of runs)."""
    total = sum(n for n, _ in runs)
    if total == 0:
        return []
    if mode == 'one':
        cuts = []
    elif mode == 'blocks':
        step = rng.choice([B, 4096, 1000])
        cuts = list(range(step, total, step))[:12]
    else:
        cuts = sorted(set(rng.randrange(1, total) for _ in range(rng.choice([1, 2, 3])))) if total > 1 else []
    chunks, cur, pos, ci = [], [], 0, 0
    for n, z in runs:
        while n > 0:
            nxt = cuts[ci] if ci < len(cuts) else total
            take = min(n, nxt - pos)
            cur.append((take, z)); pos += take; n -= take
            if pos == nxt and pos < total:
                chunks.append(cur); cur = []; ci += 1
    if cur:
        chunks.append(cur)
    return chunks


def spec(rng, runs):
    return '+'.join(part(rng, n, z) for n, z in runs) if runs else '-'


class Safe(Engine):
    name = 'safe'
    repo_deps = ('libarchive/archive_write_disk_posix.c', 'libarchive/archive_util.c')
    keep_prefix = 2
    # leaks are not what C19 observes (C07 does); LSan's stop-the-world at the exit of every forked case
    # dominates the run time under load
    env = {'ASAN_OPTIONS': 'detect_leaks=0:abort_on_error=0:exitcode=99:allocator_may_return_null=1'}

    def __init__(self):
        self._verdict = {}

    # -- generation ---------------------------------------------------------
    def base(self, rng):
        old_n = rng.choice([0, 1, 511, 512, 513, 700, 1024, 1536, 4096, 5000])
        old = spec(rng, body_parts(rng, old_n, rng.choice(['plain', 'plain', 'mixed', 'zeros'])))
        size = rng.choice([0, 1, 511, 512, 513, 1000, 1024, 1536, 1537, 4096, 4097, 8192, 12288])
        rel = rng.choice(['exact', 'exact', 'exact', 'short1', 'shorthalf', 'empty', 'long1', 'long600'])
        blen = {'exact': size, 'short1': max(size - 1, 0), 'shorthalf': size // 2, 'empty': 0,
                'long1': size + 1, 'long600': size + 600}[rel]
        style = rng.choice(['plain', 'plain', 'lead', 'trail', 'both', 'mixed', 'mixed', 'zeros'])
        runs = body_parts(rng, blen, style)
        chunks = chunk_runs(rng, runs, rng.choice(['one', 'rand', 'rand', 'blocks']))
        fl = [f for f in ('time', 'owner', 'perm') if rng.random() < 0.4]
        if rng.random() < 0.5 or style != 'plain' and rng.random() < 0.5:
            fl.append('sparse')
        api = rng.choice(['data', 'data', 'block', 'holes'])
        calls, pos = [], 0
        for ch in chunks:
            n = sum(k for k, _ in ch)
            if api == 'data':
                calls.append('data ' + spec(rng, ch))
            elif api == 'block' or pos + n > size:
                if pos <= size:
                    calls.append(f'block {pos} ' + spec(rng, ch))
            else:
                # like a sparse reader: zero runs become holes, data blocks carry their offsets
                p = pos
                for k, z in ch:
                    if not z:
                        calls.append(f'block {p} ' + spec(rng, [(k, z)]))
                    p += k
            pos += n
        fin = rng.random() < 0.6
        tail = (['finish'] if fin else []) + ['close', 'free']
        if rng.random() < 0.08:
            tail = ['finish', 'finish', 'close', 'close', 'free']
        if rng.random() < 0.04:
            tail = ['finish', 'data p3:1', 'close', 'free']           # misuse: data after finish -> fatal state
        hdr = f'header size={size} mode={rng.choice(["644", "600", "755"])}'
        return dict(old=old, flags=','.join(fl) or '-', hdr=hdr, calls=calls, tail=tail)

    @staticmethod
    def ops(b, fail, errno='ENOSPC'):
        f = ','.join(map(str, fail)) if fail else '-'
        return [f"setup old={b['old']} flags={b['flags']} fail={f} errno={errno}", b['hdr']] + b['calls'] + b['tail']

    def gen(self, rng, tier):
        nbase = 70 if tier == 'quick' else 450
        bases = [self.base(rng) for _ in range(nbase)]
        # fixed border cases: same content old/new; size 0; all-zero sparse body across 3 fs blocks
        bases.append(dict(old='p512:7', flags='-', hdr='header size=512 mode=644', calls=['data p512:7'], tail=['finish', 'close', 'free']))
        bases.append(dict(old='p10:1', flags='time,owner', hdr='header size=0 mode=644', calls=['data p5:2'], tail=['close', 'free']))
        bases.append(dict(old='-', flags='sparse', hdr='header size=12288 mode=644', calls=['data z12288'], tail=['finish', 'close', 'free']))
        bases.append(dict(old='p700:1', flags='sparse,time', hdr='header size=12288 mode=644',
                          calls=['data z100+p4000:3+z4096+p10:4', 'data z3000+p1082:5'], tail=['close', 'free']))
        bases.append(dict(old='p700:1', flags='inplace', hdr='header size=100 mode=644', calls=['data p100:3'], tail=['finish', 'close', 'free']))
        clean = [Case(f'base{i}', self.ops(b, [])) for i, b in enumerate(bases)]
        impl, _ = self.run_impl(self.exe, clean)
        out = list(clean)
        for i, b in enumerate(bases):
            n = sum(len([t for t in l.split(' |', 1)[1].split() if t != '-']) for l in impl[i] if ' |' in l)
            # every call index as the single fault
            for k in range(n + 1):
                out.append(Case(f'base{i}.f{k}', self.ops(b, [k], rng.choice(ERRNOS))))
            # pairs: the second fault lands in the cleanup / fallback code the first one leads to
            npairs = 6 if tier == 'quick' else 25
            for _ in range(npairs):
                a = rng.randrange(n + 1)
                c = a + rng.choice([1, 1, 2, 2, 3, 4, 5])
                out.append(Case(f'base{i}.f{a}.{c}', self.ops(b, [a, c], rng.choice(ERRNOS))))
            if rng.random() < 0.3:
                a = rng.randrange(n + 1)
                out.append(Case(f'base{i}.f3', self.ops(b, [a, a + 1, a + 2], rng.choice(ERRNOS))))
        return out

    # -- model + oracle -----------------------------------------------------
    def run_model(self, cases, impl):
        model = Engine.run_model(self, cases, impl)
        lines = []
        for i, c in enumerate(cases):
            lines.append(f'#case {i}')
            obs = impl[i] if i < len(impl) else []
            for j, o in enumerate(c.ops):
                lines.append(o + '\t' + (obs[j] if j < len(obs) else ''))
        drv = os.path.join(LEAN, '.lake', 'build', 'bin', 'driver')
        r = subprocess.run([drv, 'safeorc'], input='\n'.join(lines) + '\n', stdout=subprocess.PIPE,
                           stderr=subprocess.PIPE, text=True, timeout=self.timeout)
        if r.returncode != 0:
            raise BuildError('oracle driver failed: ' + r.stderr[-2000:])
        for c, v in zip(cases, split_cases(r.stdout, len(cases))):
            self._verdict[c.key()] = [l for l in v if l != '-']
        return model

    def oracle(self, case, impl):
        """LA.SafeWrite.atomicOk / noTemp evaluated by the Lean driver on the implementation's record."""
        if any(l.startswith('!') for l in impl):
            return 'implementation crashed'
        if ('free' not in case.ops and 'close' not in case.ops) or 'inplace' in case.ops[0]:
            return None     # without ARCHIVE_EXTRACT_SAFE_WRITES the property makes no claim (contrast cases)
        v = self._verdict.get(case.key(), [])
        if not v:
            return 'oracle gave no verdict'
        bad = []
        if 'atomic=ok' not in v[-1]:
            bad.append('at some call boundary the target name held neither the old nor the complete new content (' + v[-1] + ')')
        if 'notemp=ok' not in v[-1]:
            bad.append('a temporary file name.XXXXXX is left after close (' + v[-1] + ')')
        if 'bad-input' in v[-1]:
            bad.append('oracle could not parse the case')
        return '; '.join(bad) or None

    def nontrivial(self, case, impl):
        return any('mkstemp@tmp=0' in l for l in impl)

    def stats(self, cases, impl):
        st = {'interposed_calls': {}, 'injected_by_call': {}, 'cases_with_faults': {0: 0, 1: 0, 2: 0, 3: 0},
              'outcome': {'renamed': 0, 'kept_old': 0}, 'header_status': {}, 'finish_or_close_status': {},
              'data_status': {}, 'crash_points': 0, 'crash_point_views': {'old': 0, 'new': 0, 'other': 0},
              'flags': {}, 'sparse_writes_split': 0}
        for c, im in zip(cases, impl):
            m = re.search(r'fail=(\S+)', c.ops[0])
            nf = 0 if not m or m.group(1) == '-' else len(m.group(1).split(','))
            st['cases_with_faults'][min(nf, 3)] += 1
            for f in re.search(r'flags=(\S+)', c.ops[0]).group(1).split(','):
                st['flags'][f] = st['flags'].get(f, 0) + 1
            renamed = False
            for op, l in zip(c.ops, im):
                if ' |' not in l:
                    continue
                head, toks = l.split(' |', 1)
                k = op.split()[0]
                s0 = head.split()[0]
                if k == 'header':
                    st['header_status'][s0] = st['header_status'].get(s0, 0) + 1
                elif k in ('data', 'block'):
                    s0 = 'r=<count>' if re.fullmatch(r'r=\d+', s0) else s0
                    st['data_status'][s0] = st['data_status'].get(s0, 0) + 1
                elif k in ('finish', 'close'):
                    st['finish_or_close_status'][s0] = st['finish_or_close_status'].get(s0, 0) + 1
                for t in toks.split():
                    if t == '-':
                        continue
                    name = t.split('=')[0].split(':')[0]
                    st['interposed_calls'][name] = st['interposed_calls'].get(name, 0) + 1
                    res, view, _ = t.split('=', 1)[1].split('|')
                    st['crash_points'] += 1
                    st['crash_point_views']['old' if view == 'o' else 'new' if view.startswith('h') else 'other'] += 1
                    if res == 'F':
                        st['injected_by_call'][name] = st['injected_by_call'].get(name, 0) + 1
                    if name == 'rename@tmp>name' and res == '0':
                        renamed = True
                    if name == 'write@tmp' and 'sparse' in c.ops[0]:
                        a = t.split('=')[0].split(':')
                        if len(a) >= 3 and a[1].isdigit() and a[2].isdigit() and int(a[2]) > 1 and (int(a[1]) + int(a[2])) % 4096 == 0:
                            st['sparse_writes_split'] += 1
            st['outcome']['renamed' if renamed else 'kept_old'] += 1
        return st


ENGINES = [Safe()]
