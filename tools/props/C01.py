"""C01 — reader is memory-safe and terminates on arbitrary input."""
from props._rda import Rda
from props._read import Rd

PROP = 'C01'
PROPS_MODULES = ['LA.Props.C01']
GEN = ['Limits']
ASSUMPTIONS = ['malloc never fails',
               'seekable sources: the invariant is claimed while the filter is in step with the client '
               '(not between a failed seek and the next successful one)']
TRUSTED = []
MANIFEST = {
    'text': 'partial: Lean theorems for the layer every parser reads through (archive_read.c peek/consume window): '
            'representation invariant for every source/skip script and call sequence, returned windows lie inside '
            'the copy buffer or the current client block, the read-ahead loop always progresses; '
            '__archive_read_filter_seek never indexes outside dataset[] and restores the invariant; choose_filters is '
            'capped at the extracted MAX_NUMBER_FILTERS for any bidder behaviour. Tied to the C by the rda engine '
            '(ASan/UBSan) incl. fault scripts.',
    'note': 'Memory safety of the unmodelled format parsers and decompressors is exercised under sanitizers only.',
}
ENGINES = [Rda(faults=True, nbase=500), Rd()]
