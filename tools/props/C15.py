"""C15 — ACLs survive conversion to text and back."""
from lib.core import Engine, Case
import re

PROP = 'C15'
PROPS_MODULES = ['LA.Props.C15']
GEN = ['AclMaps']
ASSUMPTIONS = [
    'names are C strings (no NUL inside); ids are C ints; malloc never fails (the ENOMEM returns are not driven)',
    'a case is entirely narrow or entirely wide: names are set, printed and parsed in one representation, the only '
    'mbs<->wcs conversion is the one archive_entry_acl_next() does for the dump, in C.UTF-8, on valid code points',
    'round-trip theorems: the ACL is what archive_acl_add_entry can build (WF, proved reachable), qualifiers only on '
    'user/group entries (to_text drops an id or name given to any other tag), an unnamed user/group entry has id >= 0 '
    '(-1 prints as 0), names free of NUL : , blank tab newline and # and not purely numeric',
    'styles without EXTRA_ID are outside the round-trip theorems (there the wide copy prints 0 for the id of an unnamed '
    'entry while the narrow copy prints the id; both are modelled and compared, text_len_sufficient covers every style)',
    'uid_t is 4 bytes (sizeof(uid_t) * 3 + 1 = 13 in archive_acl_text_len)',
]
TRUSTED = [
    'tools/lib/extract.py AclMaps: the two print maps, the six parser switch tables and the ACL constants are read from '
    'archive_acl.c / archive_entry.h with regular expressions (fall-through between case labels is not analysed)',
    'keyword strings (user, group, mask, other, owner@, group@, everyone@, default, allow, deny, audit, alarm) and the '
    'control flow of the generators and parsers are modelled by hand; the acl engine ties them to the C',
    'archive_mstring / archive_string internals are not modelled beyond "a name is the characters before the first NUL"',
]
MANIFEST = {
    'text': 'Lean theorems over a model of archive_acl.c (both the char and the wchar_t copy, differences kept): '
            'text_len_sufficient — for every ACL and every flag word the generated text plus terminator fits in '
            'archive_acl_text_len, so the Buffer-overrun abort and the heap write before it are unreachable; '
            'entry_roundtrip_posix/nfs4 and acl_roundtrip_partial — for every well-formed POSIX.1e or NFSv4 ACL in the '
            "property's quantifier with no '#' in a name and every style with ids (mark-default, Solaris, comma/newline, "
            'compact) parsing the text back into a fresh ACL returns OK and rebuilds the listed entries in order with '
            'type, tag, id, permset, name (unnamed entries come back named by their id) and the mode bits; the '
            "full-strength statement is refuted with a '#' witness (acl_roundtrip_false); parser_total / parser_no_oob — "
            'both parsers terminate without reading text[length] / beyond the NUL or dereferencing a NULL field on every '
            'character list; malformed_skipped_with_warn and accepted_mode_field_valid; table lemmas by decide over the '
            'extracted maps; wf_reachable. Tied to the C by engine acl: real archive_entry_acl_to_text(_w), '
            'from_text(_w), archive_acl_from_text_nl on exact-size unterminated blocks, acl_reset/next, under ASan/UBSan.',
    'note': "Round trip holds with the extra hypothesis 'no # in a qualifier name' (known finding F15-hash-in-name). "
            'Five defects found by the proofs/correspondence were repaired in the libarchive worktree (fix: commits): '
            'from_text_nl over-read/endless loop, from_text_w NULL dereference, text_len under-count (heap overflow), '
            'ismode partial permset, acl_new_entry accepting OR-ed types. Trusted: Lean kernel, extractor, harness and '
            'generators; mstring conversions and malloc failure are not modelled.',
    'technique': 'Lean 4 proof (refinement of the pointer-level parser to field bodies, induction over the entry list, '
                 'decide over extracted tables) + model/C differential correspondence',
}

ACCESS, DEFAULT, ALLOW, DENY, AUDIT, ALARM = 0x100, 0x200, 0x400, 0x800, 0x1000, 0x2000
USER, USER_OBJ, GROUP, GROUP_OBJ, MASK, OTHER, EVERYONE = 10001, 10002, 10003, 10004, 10005, 10006, 10107
EXTRA_ID, MARK_DEFAULT, SOLARIS, COMMA, COMPACT = 1, 2, 4, 8, 16
NFS4_PERMS = [0x1, 0x8, 0x10, 0x20, 0x40, 0x80, 0x100, 0x200, 0x400, 0x800, 0x1000, 0x2000, 0x4000, 0x8000]
NFS4_FLAGS = [0x01000000, 0x02000000, 0x04000000, 0x08000000, 0x10000000, 0x20000000, 0x40000000]
IDS = [0, 1, 9, 10, 99, 100, 1000, 65534, 65535, 2**31 - 1, 2**31 - 2, 1234567890]

GOOD_NAMES = ['bob', 'a', 'user', 'default', 'd', 'u', 'x-y_z.0', 'r', 'rwx', 'deny', 'owner@', 'everyone@',
              'a1', '1a', 'Zoë', 'ö', '中文', 'naïve-🙂', 'g@h', 'A' * 40, '-', '--x']
HASH_NAMES = ['a#b', '#x', 'x#', 'jo#e', 'ö#ö']
DIGIT_NAMES = ['0', '7', '123', '2147483648', '00']
SEP_NAMES = ['a b', 'a:b', 'a,b', 'a\tb', 'a\nb', ' a', 'b ']


def enc(s, wide):
    if len(s) == 0:
        return '-'
    if isinstance(s, str):
        return '.'.join('%x' % ord(c) for c in s) if wide else s.encode('utf-8').hex()
    return '.'.join('%x' % c for c in s) if wide else bytes(s).hex()


def dec_fields(tok, wide):
    """'type/tag/perm/id/name' -> tuple with the name as a str/bytes key."""
    t, g, p, i, n = tok.split('/')
    return (int(t), int(g), int(p), int(i), n)


class Acl(Engine):
    name = 'acl'
    keep_prefix = 1
    timeout = 1500

    # ---- generators ----------------------------------------------------
    def pick_name(self, rng, allow_bad=True):
        r = rng.random()
        if r < 0.25:
            return ''
        if r < 0.75 or not allow_bad:
            return rng.choice(GOOD_NAMES)
        if r < 0.87:
            return rng.choice(HASH_NAMES)
        if r < 0.94:
            return rng.choice(DIGIT_NAMES)
        return rng.choice(SEP_NAMES)

    def pick_id(self, rng):
        r = rng.random()
        if r < 0.7:
            return rng.choice(IDS)
        if r < 0.9:
            return rng.randrange(0, 2**31)
        return rng.choice([-1, -1, -2, -(2**31)])

    def posix_entries(self, rng, wide):
        ops = []
        for _ in range(rng.choice([0, 1, 2, 3, 5, 8])):
            ty = rng.choice([ACCESS, DEFAULT, DEFAULT])
            tag = rng.choice([USER, USER, GROUP, GROUP, MASK, OTHER, USER_OBJ, GROUP_OBJ])
            perm = rng.randrange(8)
            if tag in (USER, GROUP):
                ops.append(f'add {ty} {perm} {tag} {self.pick_id(rng)} {enc(self.pick_name(rng), wide)}')
            else:
                # qualifier on a tag that has none: only now and then (outside the property's quantifier)
                q = rng.random() < 0.05
                ops.append(f'add {ty} {perm} {tag} {self.pick_id(rng) if q else -1} {enc("q" if q else "", wide)}')
        return ops

    def nfs4_entries(self, rng, wide):
        ops = []
        for _ in range(rng.choice([1, 2, 3, 5, 8])):
            ty = rng.choice([ALLOW, DENY, AUDIT, ALARM])
            tag = rng.choice([USER, USER, GROUP, GROUP, USER_OBJ, GROUP_OBJ, EVERYONE])
            perm = 0
            dens = rng.choice([0.0, 0.2, 0.5, 0.8, 1.0])
            for b in NFS4_PERMS + NFS4_FLAGS:
                if rng.random() < dens:
                    perm |= b
            if tag in (USER, GROUP):
                ops.append(f'add {ty} {perm} {tag} {self.pick_id(rng)} {enc(self.pick_name(rng), wide)}')
            else:
                ops.append(f'add {ty} {perm} {tag} -1 -')
        return ops

    PACK = 4          # scenarios per case: every case costs one fork of the ASan harness

    def gen(self, rng, tier):
        n = 1600 if tier == 'quick' else 6000
        packed = []
        for i in range(n):
            packed += self.rt_scenario(rng)
            if (i + 1) % self.PACK == 0 or i == n - 1:
                yield Case(f'rt{i}', packed)
                packed = []
        yield from self.gen_parse(rng, tier)
        yield from self.gen_exhaustive(tier)

    def gen_exhaustive(self, tier):
        """Every string up to a length over the characters the parsers branch on (labelled as a test, not a proof)."""
        import itertools
        posix = [58, 44, 10, 32, 35, 117, 100, 114, 45, 48, 111]      # : , \n space # u d r - 0 o
        nfs4 = [58, 44, 35, 32, 114, 45]                                  # (tag words are too long to enumerate)
        core = [58, 44, 10, 35, 117, 100, 114, 48]                        # length 5 over the 8 most decisive ones
        for alpha, want, label in ((posix, 0x100, 'posix'), (nfs4, 0x3c00, 'nfs4'), (core, 0x200, 'core')):
            if alpha is core and tier == 'quick':
                continue
            for wide in ((False,) if alpha is core else (False, True)):
                ops = []
                maxlen = 3 if tier == 'quick' else 4
                for n in ([5] if alpha is core else range(0, maxlen + 1 if alpha is posix else maxlen)):
                    for t in itertools.product(alpha, repeat=n):
                        if len(ops) == 0 or len(ops) % 400 == 0:
                            ops.append('variant ' + ('w' if wide else 'n'))
                        ops.append(f'{"parse" if wide else "parsenl"} {want} {enc(list(t), wide)}')
                        if n and t[0] == 117:
                            ops.append('dump')
                        if len(ops) >= 6000:
                            yield Case(f'exh-{label}-{"w" if wide else "n"}', ops)
                            ops = []
                if ops:
                    yield Case(f'exh-{label}-{"w" if wide else "n"}', ops)

    def rt_scenario(self, rng):
        if True:
            wide = rng.random() < 0.5
            ops = ['variant ' + ('w' if wide else 'n')]
            ops.append('mode %o' % rng.choice([0, 0o644, 0o755, 0o777, 0o100644, 0o40755, rng.randrange(0o10000)]))
            nfs4 = rng.random() < 0.45
            ops += self.nfs4_entries(rng, wide) if nfs4 else self.posix_entries(rng, wide)
            if rng.random() < 0.05:    # an entry of the other family, or with a bad tag / permset: must be refused
                ops.append(rng.choice([f'add {ACCESS} 7 {USER} 5 -', f'add {ALLOW} 8 {USER} 5 -', f'add {ALLOW} 8 {MASK} -1 -',
                                       f'add {DEFAULT} 7 {EVERYONE} -1 -', f'add {DEFAULT} 8 {USER} 1 -', f'add {ACCESS} 7 10000 1 -',
                                       f'add 0 7 {USER} 1 -', f'add {ACCESS | DEFAULT} 7 {USER_OBJ} -1 -', f'add {ALLOW | DENY} 8 {USER_OBJ} -1 -', f'add {ACCESS | ALLOW} 1 {USER} 1 -']))
            ops.append('dump')
            styles = list(range(32))
            rng.shuffle(styles)
            for st in styles[:rng.choice([3, 6, 32])]:
                if nfs4:
                    ops.append(f'rt {st} {0x3c00}')
                else:
                    sel = rng.choice([0, ACCESS, DEFAULT, ACCESS | DEFAULT])
                    want = DEFAULT if sel == DEFAULT else rng.choice([ACCESS, 0x300])
                    ops.append(f'rt {st | sel} {want}')
            ops.append(f'totext {rng.randrange(32) | rng.choice([0, ACCESS, DEFAULT, 0x300, 1024, 2048])}')
            return ops

    # ---- parser stream -----------------------------------------------------
    def valid_text(self, rng, nfs4):
        """A mostly valid ACL text in one of the many spellings the parser accepts."""
        ents = []
        for _ in range(rng.choice([1, 1, 2, 3, 6])):
            nm = rng.choice(['', '', 'bob', 'ö', 'a1', '77', '1000', 'x#y', 'default', 'd'])
            idf = rng.choice(['', '', '5', '1000', '2147483647', '2147483648', '99999999999', '007', 'x'])
            if nfs4:
                tag = rng.choice(['user', 'group', 'owner@', 'group@', 'everyone@'] * 4 + ['owner', 'User', 'everyone'])
                perms = ''.join(c for c in 'rwxpdDaARWcCos' if rng.random() < 0.5) if rng.random() < 0.7 else \
                    ''.join(c if rng.random() < 0.5 else '-' for c in 'rwxpdDaARWcCos')
                flags = ''.join(c if rng.random() < 0.4 else rng.choice(['-', '']) for c in 'fdinSFI')
                ty = rng.choice(['allow', 'deny', 'audit', 'alarm'] * 4 + ['Allow', 'den', ''])
                f = [tag] + ([nm] if tag in ('user', 'group') else []) + [perms, flags, ty]
                if idf and rng.random() < 0.6:
                    f.append(idf)
            else:
                tag = rng.choice(['user', 'group', 'other', 'mask', 'u', 'g', 'o', 'm'] * 3 + ['users', 'us', 'x', ''])
                mode = rng.choice(['rwx', 'r-x', '---', 'rw', 'r', 'RWX', '-', 'rwxx'] * 2 + ['rz', '', '7'])
                if tag in ('other', 'mask', 'o', 'm') and rng.random() < 0.5:
                    f = [tag, mode]                      # Solaris style
                else:
                    f = [tag, nm if tag[:1] in ('u', 'g') else rng.choice(['', '', 'x']), mode]
                if idf and rng.random() < 0.5:
                    f.append(idf)
                r = rng.random()
                if r < 0.2:
                    f = ['default'] + f
                elif r < 0.3:
                    f = ['d'] + f
                elif r < 0.4:
                    f[0] = 'default' + f[0]
                elif r < 0.43:
                    f = ['default']
            if rng.random() < 0.15:
                f = [rng.choice([' ', '\t', '  ']) + x + rng.choice([' ', '', '\t ']) for x in f]
            e = ':'.join(f)
            if rng.random() < 0.1:
                e += rng.choice(['#c', ' # comment: with, no', '#'])
            if rng.random() < 0.05:
                e = '#' + e
            ents.append(e)
        t = rng.choice([',', '\n', ', ', '\n\n']).join(ents)
        return t + rng.choice(['', '', '\n', ',', ' ', ':', '#'])

    def mutate(self, rng, t, wide):
        alpha = ':,\n \t#' * 3 + 'usergopmdfaultkhnywev@-rwxRWXpDaAcCsSFIin0123456789'
        t = list(t)
        for _ in range(rng.choice([0, 0, 0, 1, 1, 2, 4])):
            r = rng.random()
            i = rng.randrange(len(t) + 1)
            if r < 0.35 and t:
                del t[min(i, len(t) - 1)]
            elif r < 0.7:
                t.insert(i, rng.choice(alpha))
            elif t:
                t[min(i, len(t) - 1)] = rng.choice(alpha)
        return ''.join(t)

    def gen_parse(self, rng, tier):
        n = 3200 if tier == 'quick' else 16000
        packed = []
        for i in range(n):
            packed += self.parse_scenario(rng)
            if (i + 1) % (2 * self.PACK) == 0 or i == n - 1:
                yield Case(f'parse{i}', packed)
                packed = []

    def parse_scenario(self, rng):
        if True:
            wide = rng.random() < 0.4
            ops = ['variant ' + ('w' if wide else 'n')]
            if rng.random() < 0.3:
                ops.append('mode %o' % rng.randrange(0o1000))
            if rng.random() < 0.15:       # parse into an ACL that already has entries
                ops += (self.nfs4_entries if rng.random() < 0.5 else self.posix_entries)(rng, wide)[:3]
            if rng.random() < 0.03:      # the same parser behind the pax reader, value at the end of the client's buffer
                t = self.valid_text(rng, False)
                if rng.random() < 0.5:
                    t = ','.join([t] * 40)
                ops.append(f'{rng.choice(["paxtrunc", "paxcolon"])} {enc(t.encode("utf-8"), False)}')
            for _ in range(rng.choice([1, 1, 2, 3])):
                nfs4 = rng.random() < 0.45
                r = rng.random()
                if r < 0.75:
                    t = self.mutate(rng, self.valid_text(rng, nfs4), wide)
                    t = [ord(c) for c in t] if wide else list(t.encode('utf-8'))
                else:
                    alpha = [58, 58, 44, 10, 32, 9, 35, 100, 117, 103, 111, 109, 114, 119, 120, 45, 48, 57, 64, 101]
                    hi = [0xe9, 0x4e2d, 0x1f600, 0x7f, 1] if wide else [0xc3, 0xa9, 0xff, 0x80, 1, 0]
                    t = [rng.choice(alpha + hi) if rng.random() < 0.9 else rng.randrange(1, 0x250 if wide else 256)
                         for _ in range(rng.choice([0, 1, 2, 3, 5, 9, 17, 40]))]
                want = rng.choice([0x100, 0x100, 0x200, 0x300, 0x3c00, 0x3c00] if rng.random() < 0.95 else [0, 0x400, 0x3f00, 1])
                if nfs4 and rng.random() < 0.8:
                    want = 0x3c00
                if wide:
                    ops.append(f'parse {want} {enc(t, True)}')
                else:
                    ops.append(f'{rng.choice(["parse", "parsenl", "parsenl"])} {want} {enc(t, False)}')
                ops.append('dump')
            return ops

    # ---- oracle ----------------------------------------------------------
    @staticmethod
    def parse_dump(line):
        """'… mode=<o> types=<t> n=<k> e…' -> (mode, [entries without the three made up from mode])."""
        m = re.search(r'mode=([0-7]+) types=(\d+) n=(\d+)(.*)$', line)
        if not m:
            return None
        ents = [dec_fields(t, False) for t in m.group(4).split()]
        return int(m.group(1), 8), ents[3:] if ents else []

    @staticmethod
    def name_chars(n, wide):
        if n == '-':
            return []
        return [int(x, 16) for x in n.split('.')] if wide else list(bytes.fromhex(n))

    def oracle(self, case, impl):
        """Round trip on the implementation's own output: for an ACL inside the property's quantifier and a
        style with ids, the entries parsed back are the entries the text was made from."""
        wide = case.ops[0] == 'variant w'
        state = None
        for op, o in zip(case.ops, impl):
            w = op.split()
            if o.startswith('!'):
                return 'implementation crashed or aborted: ' + o
            if w[0] == 'variant':
                wide = w[1] == 'w'
                state = None
            if w[0] == 'dump':
                state = self.parse_dump(o)
            if w[0] in ('parse', 'parsenl') and not re.fullmatch(r'st=(ok|warn|failed|fatal)', o):
                return 'parser returned an unknown status: ' + o
            if w[0] != 'rt' or o == 'null' or state is None:
                continue
            flags, want = int(w[1]), int(w[2])
            if not flags & EXTRA_ID:
                continue
            mode, ents = state
            nfs4 = any(e[0] & 0x3c00 for e in ents)
            if nfs4:
                sel, sel_types = ents, 0x3c00
                if want != 0x3c00:
                    continue
            else:
                sel_types = flags & 0x300 or 0x300
                sel = [e for e in ents if e[0] & sel_types]
                if want != (DEFAULT if sel_types == DEFAULT else ACCESS) and not (want == 0x300 and sel_types != DEFAULT):
                    continue
            # the property's quantifier
            inside, hashed = True, False
            for (ty, tag, perm, id_, nm) in sel:
                chars = self.name_chars(nm, wide)
                if tag in (USER, GROUP):
                    if not 0 <= id_ < 2**31:
                        inside = False
                    if any(c in (58, 44, 32, 9, 10, 0) for c in chars) or (chars and all(48 <= c <= 57 for c in chars)):
                        inside = False
                    if 35 in chars:
                        hashed = True
                elif id_ != -1 or chars:
                    inside = False
            if not inside:
                continue
            if hasattr(self, 'counters'):
                self.counters['checked'] += 1
                self.counters['hashed'] += 1 if hashed else 0
            got = self.parse_dump(o)
            m = re.search(r' st=(\w+) ', o)
            if got is None or m is None:
                return 'unreadable rt result ' + o[:80]
            exp = []
            for (ty, tag, perm, id_, nm) in sel:
                if tag in (USER, GROUP) and nm == '-':
                    nm = enc(str(id_), wide)
                exp.append((ty, tag, perm, id_, nm))
            exp_mode = (mode & 0o777) if (nfs4 is False and sel_types & ACCESS) else 0
            bad = None
            if m.group(1) != 'ok':
                bad = f'parsing the generated text returned {m.group(1)}'
            elif sorted(got[1]) != sorted(exp):
                bad = f'entries after the round trip differ: lost {sorted(set(exp) - set(got[1]))[:2]} gained {sorted(set(got[1]) - set(exp))[:2]}'
            elif got[0] != exp_mode:
                bad = f'mode after the round trip is {got[0]:o}, expected {exp_mode:o}'
            if bad:
                if hashed:
                    return "round trip fails for a qualifier name containing '#': " + bad
                return f'round trip (flags {flags}, {"wide" if wide else "narrow"}): ' + bad
        return None

    def nontrivial(self, case, impl):
        return any(o.startswith('t=') and ' n=0' not in o for o in impl)

    def stats(self, cases, impl):
        st = {'ops': {}, 'rt_null': 0, 'rt_text': 0, 'rt_in_quantifier_checked': 0, 'rt_hash_names': 0,
              'parse_status': {}, 'parse_entries_after': {}, 'variants': {'n': 0, 'w': 0}, 'styles_seen': set()}
        for c, im in zip(cases, impl):
            for op, o in zip(c.ops, im):
                w = op.split()
                k = w[0]
                if k == 'variant':
                    st['variants'][w[1]] += 1
                st['ops'][k] = st['ops'].get(k, 0) + 1
                if k == 'rt':
                    st['rt_null' if o == 'null' else 'rt_text'] += 1
                    st['styles_seen'].add(int(w[1]) & 31)
                if k in ('parse', 'parsenl'):
                    st['parse_status'][o] = st['parse_status'].get(o, 0) + 1
            self.counters = {'checked': 0, 'hashed': 0}
            self.oracle(c, im)
            st['rt_in_quantifier_checked'] += self.counters['checked']
            st['rt_hash_names'] += self.counters['hashed']
        st['styles_seen'] = len(st['styles_seen'])
        return st


ENGINES = [Acl()]
