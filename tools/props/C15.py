"""C15 — ACLs survive conversion to text and back."""
from lib.core import Engine, Case
import re

PROP = 'C15'
PROPS_MODULES = ['LA.Props.C15']
GEN = ['AclMaps']
ASSUMPTIONS = []
TRUSTED = []
MANIFEST = {'text': '', 'note': '', 'technique': ''}

ACCESS, DEFAULT, ALLOW, DENY, AUDIT, ALARM = 0x100, 0x200, 0x400, 0x800, 0x1000, 0x2000
USER, USER_OBJ, GROUP, GROUP_OBJ, MASK, OTHER, EVERYONE = 10001, 10002, 10003, 10004, 10005, 10006, 10107
EXTRA_ID, MARK_DEFAULT, SOLARIS, COMMA, COMPACT = 1, 2, 4, 8, 16
NFS4_PERMS = [0x1, 0x8, 0x10, 0x20, 0x40, 0x80, 0x100, 0x200, 0x400, 0x800, 0x1000, 0x2000, 0x4000, 0x8000]
NFS4_FLAGS = [0x01000000, 0x02000000, 0x04000000, 0x08000000, 0x10000000, 0x20000000, 0x40000000]
IDS = [0, 1, 9, 10, 99, 100, 1000, 65534, 65535, 2**31 - 1, 2**31 - 2, 1234567890]

GOOD_NAMES = ['bob', 'a', 'user', 'default', 'd', 'u', 'x-y_z.0', 'r', 'rwx', 'deny', 'owner@', 'everyone@',
              'a1', '1a', 'Zoë', 'ö', '中文', 'naïve-🙂', 'g@h', 'A' * 40, '-', '--x']
HASH_NAMES = ['a#b', '#x', 'x#', 'jo#e', 'ö#ö']
DIGIT_NAMES = ['0', '7', '123', '2147483648', '00']
SEP_NAMES = ['a b', 'a:b', 'a,b', 'a\tb', 'a\nb', ' a', 'b ']


def enc(s, wide):
    if s == '':
        return '-'
    if isinstance(s, str):
        return '.'.join('%x' % ord(c) for c in s) if wide else s.encode('utf-8').hex()
    return '.'.join('%x' % c for c in s) if wide else bytes(s).hex()


def dec_fields(tok, wide):
    """'type/tag/perm/id/name' -> tuple with the name as a str/bytes key."""
    t, g, p, i, n = tok.split('/')
    return (int(t), int(g), int(p), int(i), n)


class Acl(Engine):
    name = 'acl'
    keep_prefix = 1

    # ---- generators ----------------------------------------------------
    def pick_name(self, rng, allow_bad=True):
        r = rng.random()
        if r < 0.25:
            return ''
        if r < 0.75 or not allow_bad:
            return rng.choice(GOOD_NAMES)
        if r < 0.87:
            return rng.choice(HASH_NAMES)
        if r < 0.94:
            return rng.choice(DIGIT_NAMES)
        return rng.choice(SEP_NAMES)

    def pick_id(self, rng):
        r = rng.random()
        if r < 0.7:
            return rng.choice(IDS)
        if r < 0.9:
            return rng.randrange(0, 2**31)
        return rng.choice([-1, -1, -2, -(2**31)])

    def posix_entries(self, rng, wide):
        ops = []
        for _ in range(rng.choice([0, 1, 2, 3, 5, 8])):
            ty = rng.choice([ACCESS, DEFAULT, DEFAULT])
            tag = rng.choice([USER, USER, GROUP, GROUP, MASK, OTHER, USER_OBJ, GROUP_OBJ])
            perm = rng.randrange(8)
            if tag in (USER, GROUP):
                ops.append(f'add {ty} {perm} {tag} {self.pick_id(rng)} {enc(self.pick_name(rng), wide)}')
            else:
                # qualifier on a tag that has none: only now and then (outside the property's quantifier)
                q = rng.random() < 0.05
                ops.append(f'add {ty} {perm} {tag} {self.pick_id(rng) if q else -1} {enc("q" if q else "", wide)}')
        return ops

    def nfs4_entries(self, rng, wide):
        ops = []
        for _ in range(rng.choice([1, 2, 3, 5, 8])):
            ty = rng.choice([ALLOW, DENY, AUDIT, ALARM])
            tag = rng.choice([USER, USER, GROUP, GROUP, USER_OBJ, GROUP_OBJ, EVERYONE])
            perm = 0
            dens = rng.choice([0.0, 0.2, 0.5, 0.8, 1.0])
            for b in NFS4_PERMS + NFS4_FLAGS:
                if rng.random() < dens:
                    perm |= b
            if tag in (USER, GROUP):
                ops.append(f'add {ty} {perm} {tag} {self.pick_id(rng)} {enc(self.pick_name(rng), wide)}')
            else:
                ops.append(f'add {ty} {perm} {tag} -1 -')
        return ops

    def gen(self, rng, tier):
        n = 700 if tier == 'quick' else 20000
        for i in range(n):
            wide = rng.random() < 0.5
            ops = ['variant ' + ('w' if wide else 'n')]
            ops.append('mode %o' % rng.choice([0, 0o644, 0o755, 0o777, 0o100644, 0o40755, rng.randrange(0o10000)]))
            nfs4 = rng.random() < 0.45
            ops += self.nfs4_entries(rng, wide) if nfs4 else self.posix_entries(rng, wide)
            if rng.random() < 0.05:    # an entry of the other family, or with a bad tag / permset: must be refused
                ops.append(rng.choice([f'add {ACCESS} 7 {USER} 5 -', f'add {ALLOW} 8 {USER} 5 -', f'add {ALLOW} 8 {MASK} -1 -',
                                       f'add {DEFAULT} 7 {EVERYONE} -1 -', f'add {DEFAULT} 8 {USER} 1 -', f'add {ACCESS} 7 10000 1 -',
                                       f'add 0 7 {USER} 1 -']))
            ops.append('dump')
            styles = list(range(32))
            rng.shuffle(styles)
            for st in styles[:rng.choice([3, 6, 32])]:
                if nfs4:
                    ops.append(f'rt {st} {0x3c00}')
                else:
                    sel = rng.choice([0, ACCESS, DEFAULT, ACCESS | DEFAULT])
                    want = DEFAULT if sel == DEFAULT else rng.choice([ACCESS, 0x300])
                    ops.append(f'rt {st | sel} {want}')
            ops.append(f'totext {rng.randrange(32) | rng.choice([0, ACCESS, DEFAULT, 0x300, 1024, 2048])}')
            yield Case(f'rt{i}', ops)

    # ---- oracle ----------------------------------------------------------
    def oracle(self, case, impl):
        return None

    def nontrivial(self, case, impl):
        return any(o.startswith('t=') and ' n=0' not in o for o in impl)

    def stats(self, cases, impl):
        st = {'ops': {}, 'rt_null': 0, 'rt_text': 0}
        for c, im in zip(cases, impl):
            for op, o in zip(c.ops, im):
                k = op.split()[0]
                st['ops'][k] = st['ops'].get(k, 0) + 1
                if k == 'rt':
                    st['rt_null' if o == 'null' else 'rt_text'] += 1
        return st


ENGINES = [Acl()]
