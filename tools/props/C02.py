"""C02 — write-then-read round trip preserves entries in every format."""
from props._codec import Codec

PROP = 'C02'
PROPS_MODULES = ['LA.Props.C02']
GEN = ['TarLayout', 'CpioLayout', 'ArLayout', 'CodecConsts']
ASSUMPTIONS = []
TRUSTED = []
MANIFEST = {'text': 'wip', 'note': '', 'technique': 'Lean 4 proof + differential correspondence'}
ENGINES = [Codec('c02'), Codec('c02', bulk=True)]
