"""C02 — write-then-read round trip preserves entries in every format."""
from props._codec import Codec

PROP = 'C02'
PROPS_MODULES = ['LA.Props.C02']
GEN = ['TarLayout', 'CpioLayout', 'ArLayout', 'CodecConsts']
ASSUMPTIONS = [
    'strings are C strings of bytes, conversion is the identity (C.UTF-8); an entry names at most one kind of link',
    'driven per entry: pathname, type, size, link targets, ids, names, permissions, mtime (also unset), atime / ctime / birth time '
    '(each present or absent), rdev, bodies, sparse maps (the body is NUL in the holes; a hole at the end of the file is implied by the size), '
    'POSIX.1e access / default and NFSv4 ACLs, extended attributes; file flags and mac metadata are not driven',
    'which format carries which optional field is part of the spec (LA.Model.FmtSpec: atimeMode, btimeMode, carriesSparse, carriesAcl, '
    'carriesXattr); a field a format does not carry is not compared. Birth time: pax and iso9660 store it only when it is not later than mtime',
    'Unicode names: writers that convert names (7zip, iso9660, xar; any writer under hdrcharset=) store them NFC-normalised; names with '
    'combining marks are generated only for the formats that keep the bytes. Under hdrcharset=KOI8-R / CP866 round-trip names are drawn '
    'from that charset. The Joliet tree (reader option !rockridge or an image written without Rock Ridge) is compared on name, type, '
    'size, mtime and body for names Joliet holds unchanged (<= 64, with joliet=long <= 103 UCS-2 units per component, none of * / : ; ? \\)',
    'an ACL names each (tag, id) at most once; ACL / xattr / option cases are not rewritten into a different format',
    'hard links are a property of the whole archive (LA.Drive.CodecOracle.linkAdjust): tar returns the name stored in the link entry, the '
    'cpio family the first member seen with the same (dev, ino) - the reader model replayed on the written entries -, xar and iso9660 '
    'the named target and a link count they compute themselves (target + links written after it; iso9660 may name any member of the group '
    'as the file); a link written before its target and links handed to formats without links are recorded findings',
    'file flags are compared as text for pax and mtree (mtree: flags=none is "no flags"); flag names are those this platform parses '
    '(the mtree writer compares bits); for mtree the expectation is restricted to the keywords the options leave switched on '
    '(mtreeKeys), `dironly` stores directories only; names are a function of the ids in the option trees (as on a real system)',
    'write filters are not modelled: with a filter the byte-level model only monitors and the round trip is judged by the '
    'predicate engine; 7zip is not driven through filters (its reader needs a seekable source)',
    'read block size is not varied here (C05); shar and raw have no reader',
    'bodies of entries read from mtree (which stores none) are not compared; rewriting mtree read-back into other formats is not driven',
]
TRUSTED = [
    'spec-level representable / norm for the formats without a byte model (differential against the spec only)',
    'the Lean predicate engine codec.c02 evaluated on the implementation output; plain-build bulk engine codecp',
]
MANIFEST = {
    'text': 'Lean theorems over byte-exact models tied to the C by the codec engine: ustar - decode_encode_ustar, '
            'stream_roundtrip_ustar (any list of entries, bodies in any chunking, truncated / zero filled / padded, two zero '
            'blocks, any block padding: the reader returns exactly the accepted entries in order, bodies byte-identical), '
            'readback_fixed_point_ustar (write -> decode -> write the decoded record -> decode gives the same record); cpio - '
            'stream_roundtrip_newc, stream_roundtrip_odc and their "every list of representable entries" forms with '
            'representable_{newc,odc}_accepted (110 / 76 byte headers, name NUL and 4-byte padding, symlink bodies, body '
            'padding, inode synthesis of odc, the TRAILER!!! entry, refused entries leave no trace); ar - decode_encode_ar, '
            'stream_roundtrip_ar for the BSD and SVR4 variants (60-byte header, name/ and name-blank forms, BSD #1/<len> long '
            'names in front of the body, the pad byte, the global header written with the first member or at close); pax - '
            'pax_len_fixed_point, paxRecords_roundtrip (any key/value list, values of any bytes, is split back by the '
            "reader's header_pax_extension loop), pax_number_roundtrip, decode_encode_pax_partial; body framing independent "
            'of chunking; norm_path_idem. Tie: extracted layouts; the codec engine compares model and real writer/reader byte '
            'for byte on ustar/odc/newc/arbsd/arsvr4 (incl. block padding and a second write of the read-back entries), the '
            'pax record writer (paxrec) and the pax record parser (paxbody, observed through SCHILY.xattr attributes) '
            'against the real functions, and, for all 17 readable formats x chunkings x block sizes x filters, evaluates on '
            'the real code: representable => ARCHIVE_OK, read-back == norm, detected format == written, clean EOF, and the '
            'fixed point (read-back entries written again, into the same or another format, read back unchanged). Further '
            'generator dimensions: archives of 9..33 entries with the optional times present at varying positions; sparse maps whose '
            'text form is 510..514 / 1022..1026 bytes long; access, default, access+default and NFSv4 ACLs and extended attributes '
            'on files and directories; Unicode names whose UTF-16 units have a 0x2F / 0x5C / 0x00 byte, also read through the Joliet '
            'tree and under hdrcharset conversions; files with 3..5 names (hard-link groups, links interleaved with other entries, '
            'two groups per archive) in every format that stores links; file flags; the mtree writer under every option '
            '(use-set, indent, dironly, all / !all, each keyword on and off, every checksum) on trees of 2..5 directories in which the '
            'most common uid, gid, mode, flags and type of the children changes from each directory to the next.',
    'note': 'partial: proofs for ustar, cpio odc/newc and ar (headers + whole streams) and the pax record layer; the pax '
            "writer's attribute selection, time text form and trailing ustar header, the SVR4 ar filename table, and all other "
            'formats are checked differentially against the spec only.',
    'technique': 'Lean 4 proof (well-founded reader over the stream, induction over entries, fold lemma for arbitrary chunkings) '
                 '+ extraction + model/C differential correspondence + Lean-evaluated round-trip predicate on the C output',
}
ENGINES = [Codec('c02'), Codec('c02', bulk=True)]
