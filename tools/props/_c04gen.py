"""Generators for C04: path strings for cleanup/check_symlinks, and entry
sequences (plant-a-symlink-then-traverse patterns) for the disk writer."""

LONG = 'L' * 260
NAMES = ['a', 'b', 'd', 'f', 's']
OPTS = ['unlink', 'nooverwrite', 'safewrites', 'perm', 'time']
MODES = ['644', '755', '600', '555', '700', '777', '500']
# link targets that leave the target directory (the canary tree has R/a, R/a/b, R/a/a, R/b, R/f, R/d, R/l)
ESCAPES = ['..', '../a', '../b', '../a/b', '../d', '../f', '/R/a', '/R', '/R/b', '/R/a/b', '../..', '../l', '../target/..', '.././a']
INSIDE = ['.', 'a', 'b', 'a/b', 'd', 'f', 'nonexist', 'a/..', './a', 'b/.', 's', 's/a', 's/b']


def hx(s):
    return s.encode().hex() if s else '-'


def ent(kind, path, link='', mode='755', mtime=1000000, data=''):
    return f'ent {kind} {hx(path)} {hx(link)} {mode} {mtime} {hx(data)}'


def pre(kind, path, arg='', mode='755'):
    return f'pre {kind} {hx(path)} {hx(arg)} {mode}'


def rand_path(rng, maxc=4, weird=0.35):
    """A pathname from the property's grammar: '/', '.', '..', names, duplicate/trailing slashes, long components."""
    n = rng.choice([1, 1, 2, 2, 2, 3, 3, 4, maxc])
    comps = []
    for _ in range(n):
        r = rng.random()
        if r < weird * 0.35:
            comps.append('.')
        elif r < weird * 0.6:
            comps.append('..')
        elif r < weird * 0.8:
            comps.append('')
        elif r < weird * 0.86:
            comps.append(LONG)
        elif r < weird * 0.93:
            comps.append(rng.choice(['..a', '...', '.a', 'a.']))
        else:
            comps.append(rng.choice(NAMES))
    p = '/'.join(comps)
    r = rng.random()
    if r < 0.08:
        p = '/' + p
    r = rng.random()
    if r < 0.10:
        p += '/'
    elif r < 0.16:
        p += '/.'
    elif r < 0.19:
        p += '//'
    return p


def clean_path(rng, maxc=3):
    return '/'.join(rng.choice(NAMES) for _ in range(rng.choice([1, 1, 2, 2, 3, maxc])))


def rand_entry(rng, mt):
    k = rng.choices(['file', 'dir', 'symlink', 'hardlink', 'fifo'], [30, 28, 22, 14, 6])[0]
    path = rand_path(rng) if rng.random() < 0.4 else clean_path(rng)
    mode = rng.choice(MODES)
    if k == 'file':
        return ent(k, path, '', mode, mt, rng.choice(['', 'x', 'hello', 'data' * 50]))
    if k == 'symlink':
        tgt = rng.choice(ESCAPES) if rng.random() < 0.6 else (rng.choice(INSIDE) if rng.random() < 0.8 else rand_path(rng))
        return ent(k, path, tgt, '777', mt)
    if k == 'hardlink':
        r = rng.random()
        tgt = clean_path(rng) if r < 0.55 else (rng.choice(INSIDE + ESCAPES) if r < 0.8 else rand_path(rng))
        return ent(k, path, tgt, mode, mt, rng.choice(['', '', 'y', 'zz']))
    return ent(k, path, '', mode, mt)


def rand_pre(rng):
    k = rng.choices(['dir', 'file', 'symlink', 'fifo', 'hardlink'], [30, 25, 30, 5, 10])[0]
    path = clean_path(rng, 2)
    if k == 'symlink':
        return pre(k, path, rng.choice(ESCAPES + INSIDE[:5]), '777')
    if k == 'file':
        return pre(k, path, rng.choice(['old', 'o']), rng.choice(MODES))
    if k == 'hardlink':
        return pre(k, path, clean_path(rng, 2), '644')
    return pre(k, path, '', rng.choice(MODES))


def patterns(rng, mt):
    """Plant-then-traverse templates; each returns a list of entry ops."""
    esc = rng.choice(ESCAPES)
    x, y = rng.sample(NAMES, 2)
    m = rng.choice(MODES)
    P = [
        # symlink then a path through it
        [ent('symlink', x, esc), ent('file', f'{x}/{y}', '', m, mt, 'pwn')],
        [ent('symlink', x, esc), ent('dir', f'{x}/{y}', '', m, mt)],
        [ent('symlink', x, esc), ent('dir', f'{x}', '', m, mt)],
        [ent('symlink', x, esc), ent('dir', f'{x}/', '', m, mt)],
        [ent('symlink', x, esc), ent('dir', f'{x}/.', '', m, mt)],
        [ent('symlink', x, esc), ent('file', f'./{x}//{y}', '', m, mt, 'pwn')],
        [ent('symlink', x, esc), ent('hardlink', y, f'{x}/a', m, mt)],
        [ent('symlink', x, esc), ent('hardlink', y, f'{x}', m, mt, 'dd')],
        [ent('symlink', x, esc), ent('hardlink', y, f'{x}/', m, mt)],
        [ent('symlink', x, esc), ent('hardlink', y, f'{x}/.', m, mt, 'd')],
        [ent('symlink', x, esc), ent('hardlink', f'{x}/{y}', 'f', m, mt), ent('file', 'f', '', m, mt, 'q')],
        [ent('symlink', x, esc), ent('symlink', f'{x}/{y}', 'zz')],
        [ent('symlink', x, esc), ent('fifo', f'{x}/{y}', '', m, mt)],
        [ent('symlink', x, esc), ent('fifo', y, '', m, mt), ent('hardlink', 'h', y, '700', mt, 'dat')],
        # replace a directory by a symlink after a fixup was queued
        [ent('dir', x, '', m, mt), ent('symlink', x, esc)],
        [ent('dir', f'{x}/.', '', m, mt), ent('symlink', x, esc)],
        [ent('dir', f'{x}//', '', m, mt), ent('symlink', x, esc)],
        [ent('dir', f'{x}/{y}', '', m, mt), ent('hardlink', f'{x}/{y}', x, m, mt), ent('symlink', x, esc)],
        [ent('dir', f'{x}/{y}', '', m, mt), ent('hardlink', f'{x}/{y}', 'nonexist', m, mt), ent('symlink', x, esc)],
        [ent('dir', f'{x}/{y}', '', m, mt), ent('file', f'{x}/{y}', '', m, mt, 'r'), ent('symlink', x, esc)],
        [ent('dir', f'{x}/{y}/.', '', m, mt), ent('symlink', f'{x}/{y}', esc), ent('dir', f'{x}', '', '700', mt)],
        # dot-dot and absolute spellings
        [ent('file', f'../{y}', '', m, mt, 'pwn')],
        [ent('file', f'{x}/../../{y}', '', m, mt, 'pwn')],
        [ent('file', f'{x}/..', '', m, mt, 'pwn')],
        [ent('dir', '..', '', m, mt)],
        [ent('file', f'/R/{y}', '', m, mt, 'pwn')],
        [ent('file', f'//R//{y}', '', m, mt, 'pwn')],
        [ent('hardlink', x, f'../{y}', m, mt)],
        [ent('hardlink', x, f'/R/{y}', m, mt, 'dd')],
        [ent('hardlink', x, f'{y}/../../b', m, mt)],
        [ent('dir', '.', '', m, mt)],
        [ent('dir', './', '', m, mt)],
        [ent('file', '.', '', m, mt, 'q')],
        [ent('symlink', '.', esc)],
        [ent('file', '', '', m, mt, 'q')],
        # deep chains
        [ent('symlink', x, '.'), ent('file', f'{x}/{x}/{x}/{y}', '', m, mt, 'q')],
        [ent('symlink', x, y), ent('symlink', y, esc), ent('file', f'{x}/a', '', m, mt, 'q')],
        [ent('dir', x, '', m, mt), ent('symlink', f'{x}/{y}', '../' + esc), ent('file', f'{x}/{y}/a', '', m, mt, 'q')],
        [ent('file', f'{LONG}/{y}', '', m, mt, 'q')],
        [ent('symlink', x, esc), ent('file', f'{x}/{LONG}', '', m, mt, 'q')],
    ]
    return rng.choice(P)


def sequence(rng, tier='quick'):
    ops = []
    opts = [o for o in OPTS if rng.random() < 0.4]
    ops.append('opts ' + ' '.join(opts))
    for _ in range(rng.choice([0, 0, 1, 2, 3])):
        ops.append(rand_pre(rng))
    mt = 1000000
    n = rng.choice([1, 2, 3, 4, 6])
    while n > 0:
        mt += 1
        if rng.random() < 0.45:
            p = patterns(rng, mt)
            ops += p; n -= len(p)
        else:
            ops.append(rand_entry(rng, mt)); n -= 1
    ops += ['close', 'snap']
    return ops


PATH_MAX = 4096


def deep_comps(rng, total, width=None):
    """Components 'x…<i>' whose '/'-join is at least `total` bytes long."""
    width = width or rng.choice([200, 250, 254, 254])
    comps, n = [], 0
    while n < total:
        c = ('x' * width + str(len(comps)))[:255]
        comps.append(c); n += len(c) + 1
    return comps


def deep_sequence(rng):
    """Entries whose pathnames are PATH_MAX .. 3*PATH_MAX long (edit_deep_directories: the writer chdir()s
    into intermediate directories), with a component that cannot be created or entered at a varying depth."""
    opts = [o for o in OPTS if rng.random() < 0.4]
    total = rng.choice([PATH_MAX - 10, PATH_MAX, PATH_MAX + 1, PATH_MAX + 500, 2 * PATH_MAX - 20, 2 * PATH_MAX - 20,
                        2 * PATH_MAX + 300, 2 * PATH_MAX + 300, 3 * PATH_MAX + 100])
    comps = deep_comps(rng, total)
    ops, mt = [], 1000000
    kind = rng.choice(['file', 'file', 'dir', 'dir', 'fifo', 'symlink', 'hardlink'])
    bad = rng.choice(['none', 'none', 'long', 'long', 'huge', 'file', 'file', 'symlink', 'dotdot'])
    k = rng.randrange(1, len(comps))          # where the trouble sits
    if bad == 'long':
        comps[k] = 'L' * rng.choice([256, 300, 1000])
    elif bad == 'huge':
        comps[k] = 'H' * rng.choice([PATH_MAX - 9, PATH_MAX, PATH_MAX + 50])
    elif bad == 'dotdot':
        comps[k] = '..'
    elif bad in ('file', 'symlink'):
        pref = '/'.join(comps[:k])
        if k > 1:
            ops.append(ent('dir', '/'.join(comps[:k - 1]) if k > 1 else comps[0], '', '755', mt))
        if bad == 'file':
            ops.append(ent('file', pref, '', '644', mt + 1, 'obstacle'))
            if rng.random() < 0.7 and 'nooverwrite' not in opts:
                opts.append('nooverwrite')
        else:
            ops.append(ent('symlink', pref, rng.choice(ESCAPES), '777', mt + 1))
    path = '/'.join(comps)
    data = rng.choice(['', 'deep data'])
    link = ''
    if kind == 'symlink':
        link = rng.choice(ESCAPES + ['x'])
    if kind == 'hardlink':
        link = rng.choice(['f0', path[:100]])
        ops.append(ent('file', 'f0', '', '644', mt + 2, 'zero'))
    ops.append(ent(kind, path, link, rng.choice(MODES), mt + 3, data if kind in ('file', 'hardlink') else ''))
    # what comes next must still land in the target
    ops.append(ent('file', 'after', '', '644', mt + 4, 'a'))
    ops.append(ent('dir', 'afterdir/sub', '', '700', mt + 5))
    if rng.random() < 0.3:
        ops.append(ent('file', path + '/more', '', '600', mt + 6, 'm'))
    return ['opts ' + ' '.join(opts)] + ops + ['close', 'snap']


ALPHABET12 = [
    ('dir', 'a', ''), ('dir', 'a/b', ''), ('dir', 'a/.', ''), ('file', 'a/b', ''), ('file', 'a', ''),
    ('symlink', 'a', '../a'), ('symlink', 'a/b', '/R/a'), ('symlink', 'b', 'a'),
    ('hardlink', 'a/b', 'a'), ('hardlink', 'b', 'a/b'), ('hardlink', 'a/b', 'nonexist'), ('fifo', 'a/b', ''),
]


def exhaustive3(optsets):
    """All sequences of <= 3 entries over the 12-entry alphabet x the given option sets."""
    import itertools
    for opts in optsets:
        for n in (1, 2, 3):
            for combo in itertools.product(range(len(ALPHABET12)), repeat=n):
                ops = ['opts ' + ' '.join(opts)]
                for j, i in enumerate(combo):
                    k, p, l = ALPHABET12[i]
                    ops.append(ent(k, p, l, '700' if k == 'dir' else '640', 1000001 + j, 'dd' if k in ('file', 'hardlink') and i % 2 == 0 else ''))
                ops += ['close', 'snap']
                yield ops
