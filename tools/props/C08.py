"""C08 — truncated or failing input is reported and never invents data."""
from props._rda import Rda
from props._read import Trunc

PROP = 'C08'
PROPS_MODULES = ['LA.Props.C08']
GEN = ['Limits']
ASSUMPTIONS = ['single data node; seek faults not yet in the model', 'malloc never fails']
TRUSTED = []
MANIFEST = {
    'text': 'partial: Lean theorems for the read-ahead/consume window of archive_read.c under truncation and callback '
            'faults (error, end-of-file, short or failing skip at any invocation): what is delivered is a prefix of the '
            'intact stream, errors are sticky. Tied to the C by the rda engine with fault scripts.',
    'technique': 'Lean 4 proof (prefix monotonicity over client programs, fault absorption) + model/C differential correspondence with fault scripts',
    'note': 'Unmodelled format parsers are covered only through the interface contract; see DESIGN.md C08.',
}
ENGINES = [Rda(faults=True), Trunc()]
