"""C08 — truncated or failing input is reported and never invents data."""
from props._rda import Rda
from props._read import Trunc

PROP = 'C08'
PROPS_MODULES = ['LA.Props.C08']
GEN = ['Limits']
ASSUMPTIONS = ['malloc never fails',
               'client open/close/switch callbacks succeed; seek callback is file-like; a failing seek callback does not move',
               'NoSeekSkip: a source with a seek callback also has a skip callback (open finding skip-by-seek)',
               'after a failed seek the client seeks successfully before it reads again (open finding seek-failure-desync)']
TRUSTED = []
MANIFEST = {
    'text': 'partial: Lean theorems for the read-ahead/consume window of archive_read.c under truncation and callback '
            'faults (error, end-of-file, short or failing skip at any invocation): what is delivered is a prefix of the '
            'intact stream, errors are sticky; a seek is never silent: for every seek-callback script it reports failure '
            'or leaves the filter consistent exactly at the position it returns, out-of-range targets are refused. '
            'Tied to the C by the rda engine with fault scripts (read, skip and seek callbacks).',
    'technique': 'Lean 4 proof (prefix monotonicity over client programs, fault absorption) + model/C differential correspondence with fault scripts',
    'note': 'Unmodelled format parsers are covered only through the interface contract; see DESIGN.md C08.',
}
ENGINES = [Rda(faults=True), Trunc()]
