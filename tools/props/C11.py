"""C11 — writer output is deterministic and contains no uninitialised bytes."""
from props._cw import Det

PROP = 'C11'
PROPS_MODULES = ['LA.Props.C11']
GEN = ['WriteLayout']
ASSUMPTIONS = ['heap contents are modelled by ASan\'s malloc_fill_byte (two values), stack contents by a scribbling prologue before every API call (two values)',
               'time(), getpid() and archive_random() are pinned by definitions in the harness executable: they are inputs of the writers',
               'external compression libraries are deterministic functions of their input']
TRUSTED = []
MANIFEST = {
    'text': 'partial: Lean theorems that no uninitialised cell of the block buffer or of the ustar header array can reach the output; '
            'determinism of the model is definitional; tied to the C by the det engine (two runs under different heap/stack poison, all writable formats).',
    'technique': 'Lean 4 proof (definedness tracking with Option cells) + differential execution under heap/stack poisoning',
    'note': 'definedness inside zip/7zip/xar/iso9660 writers is tested, not proved',
}
ENGINES = [Det()]
