"""C13 — independent handles can be used from different threads."""
import json, os, re
from lib.core import Engine, Case, ROOT, BuildError
from lib import refs

PROP = 'C13'
PROPS_MODULES = ['LA.Props.C13']
GEN = ['Statics']
ASSUMPTIONS = [
    'loads and stores of one table slot or flag are atomic and memory is sequentially consistent (LA.Model.LazyInit); '
    'the C11/hardware memory model is not modelled, so "idempotent-init" statics are still formal data races (recorded finding)',
    'one API call is one step in LA.Model.Handles; sub-call interleavings matter only through shared statics, which the inventory enumerates',
    'the process time zone and locale do not change while handles are in use (dos_max_unix/dos_min_unix are mktime() of constants)',
    'libc serialises tzset/localtime_r/mktime internally; races inside external libraries are not attributed to libarchive',
    'documented exceptions: umask during disk-writer header calls (directory modes are left out of the disk-writer digest) and the '
    'working directory in the disk reader/writer (digests of two or more concurrent disk readers are not predicted; observed to differ)',
    'immutable-after-load is by review (the compiler placed the only such object in .rodata in this build); pages are not write-protected at run time',
]
TRUSTED = [
    'tools/lib/extract_statics.py: readelf -SW/-sW parsing, the alternate-configuration compiles (archive_random.c without '
    'HAVE_ARC4RANDOM_BUF, archive_crc32.h), the regex source scan, the lock-bracket test over preprocessed archive_random.c',
    'tools/statics_classified.json: the hand-reviewed class and one-line justification of every static object',
    'ThreadSanitizer (gcc libtsan) as the race detector of engine thr; a race is only seen if the schedule of the run exhibits it',
    'function-local statics are matched by name with the compiler-added .<n> suffix removed',
]
MANIFEST = {
    'text': 'Lean: independent_commute (every interleaving of the calls of any number of handles yields the per-handle states and '
            'results of the sequential order, provided calls only read shared state; counter-example when they write it); '
            'small-step all-schedule theorems for the lazy-initialisation idioms found in the C (fill-then-flag and idempotent '
            'fill are safe for any number of threads; flag-first and sentinel+wipe are not: explicit schedules = the lha CRC-16 '
            'and tar base64 defects, repaired). Tie: the inventory of writable static objects is regenerated from readelf over '
            'the freshly compiled objects on every run, and `decide` checks it against a reviewed classification '
            '(shared_inventory_closed, no_racy_statics_partial, arc4random_locked, process_wide_closed). Engine thr (TSan build): '
            'k threads x read/write/disk workloads on separate handles, fresh process per attempt, barrier release; per-workload '
            'digests of statuses, entry metadata, data and of what each handle reports about itself after every header/body (format code and name, filter codes and names, counters) must equal the sequential and the solo runs; races are attributed to static objects.',
    'note': 'Partial: the C memory model, races inside external libraries and schedules TSan did not see are outside. '
            'Known findings: archive_version_details() racy first call; dos_*/can_dupfd_cloexec unsynchronised but idempotent.',
    'technique': 'Lean 4 proof (induction over interleavings, invariant for the small-step lazy-init machine) + extracted '
                 'static-object inventory checked by decide + TSan differential engine (concurrent vs sequential vs solo digests)',
}

CLASSIFIED = os.path.join(ROOT, 'tools', 'statics_classified.json')


def tolerated_syms():
    cj = json.load(open(CLASSIFIED))
    return {e['symbol']: e['class'] for e in cj['objects'] if e['class'] in ('racy', 'idempotent-init')}


WRITE_FORMATS = ['zip', 'pax', 'ustar', 'gnutar', 'v7tar', 'cpio', 'newc', 'odc', 'bin', '7zip', 'ar', 'arbsd', 'mtree',
                 'iso9660', 'xar', 'warc', 'shar', 'raw']
WRITE_FILTERS = ['none', 'gzip', 'bzip2', 'xz', 'lzma', 'lzip', 'zstd', 'lz4', 'compress', 'b64encode', 'uuencode']
SKIP_REF = re.compile(r'\.(grz|lrz|lzo)(\.|$)|lrzip|grzip|lzop|program')   # would spawn external programs


class Thr(Engine):
    name = 'thr'
    flavour = 'tsan'
    keep_prefix = 10 ** 6          # no delta debugging: schedules are not reproducible op by op
    env = {'TSAN_OPTIONS': 'exitcode=0:report_signal_unsafe=0:history_size=4:ignore_noninstrumented_modules=1', 'VERIF_REFS': refs.REFDIR}
    timeout = 3000

    def build(self):
        # The obligation shared_inventory_closed is only as fresh as lean/LA/Gen/Statics.lean: refuse to go on
        # when the extractor was not run by this check (it once was silently dropped from extract.EXTRACTORS).
        from lib import extract_statics
        if extract_statics.LAST_RUN is None:
            raise BuildError('the Statics extractor did not run in this check: lean/LA/Gen/Statics.lean may be stale, '
                             'so shared_inventory_closed says nothing about the current tree')
        return super().build()

    def refs(self):
        if not hasattr(self, '_refs'):
            self._refs = [(n, '@refs/' + n) for n, p in refs.decoded() if not SKIP_REF.search(n) and os.path.getsize(p) < 150000]
        return self._refs

    def pick(self, pat):
        return [p for n, p in self.refs() if re.search(pat, n)]

    def unreviewed(self):
        """Static objects of the regenerated inventory that the review table does not cover: [(file, symbol)]."""
        cj = json.load(open(CLASSIFIED))
        known = {(e['file'], e['symbol']) for e in cj['objects']}
        try:
            text = open(os.path.join(ROOT, 'lean', 'LA', 'Gen', 'Statics.lean')).read()
        except OSError:
            return []
        out = []
        for blk in re.findall(r'def (?:elf|alt) : [^\n]*:= \[(.*?)\]\n', text, re.S):
            for m in re.finditer(r'\("([^"]+)", "([^"]+)", "[^"]*", \d+, (?:true|false)\)', blk):
                if (m.group(1), m.group(2)) not in known:
                    out.append((m.group(1), m.group(2)))
        return out

    def targeted(self, rng, att):
        """Search guided by the broken obligation: workloads that exercise the file an unreviewed static lives in,
        several threads on the same and on different inputs."""
        for file, sym in self.unreviewed()[:4]:
            m = re.search(r'(?:format|filter)_([a-z0-9]+)', file)
            key = m.group(1) if m else re.sub(r'^archive_|\.[ch]$', '', file)
            alias = {'gzip': r'gz|tgz', 'bzip2': r'bz2|tbz', 'xz': r'xz|txz|lzma|lz$', 'compress': r'\.Z$', 'lha': r'lzh', 'tar': r'\.tar$|pax|gtar',
                     'iso9660': r'iso', 'uu': r'\.uu|uudecode', 'zstd': r'zst', 'cpio': r'cpio', 'ar': r'_ar[._]|\.ar$|\.a$', 'zip': r'\.zip$', '7zip': r'\.7z$'}
            pat = alias.get(key, re.escape(key))
            hits = [p for n, p in self.refs() if re.search(pat, n)]
            wls = []
            if hits:
                wls += ['rd ' + p for p in rng.sample(hits, min(4, len(hits)))]
                wls += ['rd ' + hits[0]] * 2
            if key in WRITE_FORMATS:
                wls += [f'wr {key} none {rng.randrange(1000)} 5' for _ in range(3)]
            if key in WRITE_FILTERS:
                wls += [f'wr pax {key} {rng.randrange(1000)} 5' for _ in range(3)]
            if len(wls) >= 2:
                yield self.case(f'target:{file}:{sym}', wls[:10], att + 5)

    @staticmethod
    def filt(rng, fmt):
        """lz4 closed with zero bytes written crashes single-threaded (XXH32_digest(NULL)): a C03 finding, not a
        concurrency one.  Keep it out of the C13 workloads: no lz4 over formats that can emit nothing (raw with an
        empty first entry, anything with zero entries)."""
        flt = rng.choice(WRITE_FILTERS)
        while flt == 'lz4' and fmt == 'raw':
            flt = rng.choice(WRITE_FILTERS)
        return flt

    def case(self, label, wls, attempts):
        return Case(label, ['wl ' + w for w in wls] + ['solo', 'seq', f'par {attempts}'], {'n': len(wls)})

    def gen(self, rng, tier):
        quick = tier == 'quick'
        att = 3 if quick else 6
        R = self.refs()
        if len(R) < 100:
            raise RuntimeError('reference corpus not found')
        lha, paxx = self.pick(r'\.lzh$'), self.pick(r'pax_xattr|xattr.*\.tar$|acl_pax')
        zips, comp = self.pick(r'\.zip$'), self.pick(r'\.Z$')
        tars = self.pick(r'\.tar$')
        for c in self.targeted(rng, att):
            yield c
        # first use of every lazily initialised table in several threads at once
        yield self.case('lha-first-use', ['rd ' + p for p in rng.sample(lha, 4)], att + 2)
        yield self.case('pax-base64-first-use', ['rd ' + p for p in (paxx * 2)[:4]], att + 2)
        yield self.case('compress-first-use', ['rd ' + p for p in rng.sample(comp, min(4, len(comp)))], att + 2)
        yield self.case('zip-dos-time-first-use', [f'wr zip none {rng.randrange(1000)} 6' for _ in range(3)] + ['rd ' + rng.choice(zips)], att + 2)
        yield self.case('tar-inode-counters', ['rd ' + p for p in rng.sample(tars, 4)], att)
        yield self.case('same-archive-4x', ['rd ' + rng.choice(tars)] * 4, att)
        yield self.case('disk', [f'dw {rng.randrange(1000)} 8', f'dw {rng.randrange(1000)} 8', 'dr', 'dr', f'dw {rng.randrange(1000)} 5'], att)
        yield self.case('iso-xar-7zip-writers', [f'wr iso9660 none {rng.randrange(99)} 4', f'wr xar none {rng.randrange(99)} 4',
                                                 f'wr 7zip none {rng.randrange(99)} 4', f'wr iso9660 none {rng.randrange(99)} 3'], att)
        yield self.case('version-details', ['ver', 'ver'], 2)
        # per format family: handles of the same reader side by side on different inputs (per-handle format names,
        # method strings, codec state), a few inputs each
        fams = [('lha', r'\.lzh$'), ('zip', r'\.(zip|xps|jar)$'), ('7zip', r'\.7z$'), ('rar', r'\.rar$'), ('cab', r'\.cab$'),
                ('iso', r'\.iso'), ('xar', r'\.xar$'), ('mtree', r'mtree'), ('cpio', r'cpio'), ('ar', r'_ar[._]|\.ar$'),
                ('warc', r'\.warc'), ('tar', r'\.(tar|pax|gtar)$|\.t[gbx]z$')]
        if quick:
            fams = fams[:2] + rng.sample(fams[2:], 5)     # lha and zip always: they rename the format per entry
        for fam, pat in fams:
            hits = self.pick(pat)
            if len(hits) >= 2:
                k = 4 if quick else 8
                yield self.case('family:' + fam, ['rd ' + p for p in rng.sample(hits, min(k, len(hits)))], att)
        fmts = list(WRITE_FORMATS)
        rng.shuffle(fmts)
        for i in range(0, len(fmts), 6):
            yield self.case(f'writers-{i}', [f'wr {f} {self.filt(rng, f)} {rng.randrange(1000)} {rng.choice([1, 3, 7])}'
                                             for f in fmts[i:i + 6]], att)
        n = 12 if quick else 120
        for i in range(n):
            k = rng.choice([2, 3, 4, 6, 8] if quick else [2, 3, 4, 6, 8, 12, 16])
            wls = []
            for _ in range(k):
                r = rng.random()
                if r < 0.6:
                    wls.append('rd ' + rng.choice(R)[1])
                elif r < 0.9:
                    fmt = rng.choice(WRITE_FORMATS)
                    flt = self.filt(rng, fmt)
                    cnt = rng.choice([1, 4, 9] if flt == 'lz4' else [0, 1, 4, 9])
                    wls.append(f'wr {fmt} {flt} {rng.randrange(1000)} {cnt}')
                elif r < 0.96:
                    wls.append(f'dw {rng.randrange(1000)} {rng.choice([1, 6])}')
                else:
                    wls.append('dr')
            yield self.case(f'mix{i}', wls, att)
        if not quick:
            # every reference file against itself and a neighbour
            for i, (n_, p) in enumerate(R):
                yield self.case('ref:' + n_, ['rd ' + p, 'rd ' + p, 'rd ' + R[(i + 1) % len(R)][1]], 2)

    @staticmethod
    def parse(impl):
        out = {}
        for key, line in zip(('solo', 'seq', 'par'), impl[-3:]):
            out[key] = line.split()
        return out

    def oracle(self, case, impl):
        if any(l.startswith('!') for l in impl):
            return 'a workload process crashed or was killed: ' + ' / '.join(l for l in impl if l.startswith('!'))[:200]
        if len(impl) < 3 or any(not l.startswith('d') for l in impl[-3:]):
            return 'malformed harness output'
        wls = [o[3:] for o in case.ops if o.startswith('wl ')]
        p = self.parse(impl)
        k = len(wls)
        solo, seq, par = p['solo'][1:1 + k], p['seq'][1:1 + k], p['par'][1:1 + k]
        f = dict(x.split('=', 1) for x in p['par'][1 + k:] if '=' in x)
        only_ver = all(w == 'ver' for w in wls)
        tol = tolerated_syms()
        races = [] if f.get('races', '-') == '-' else f['races'].split(',')
        bad = [s for s in races if s not in tol]
        if not only_ver:
            for i in range(k):
                if seq[i] != solo[i]:
                    return f'workload {i} ({wls[i][:60]}) gives a different result after other handles were used in the same process (handle coupling)'
            many_dr = sum(1 for w in wls if w == 'dr') >= 2
            for i in range(k):
                if wls[i] == 'dr' and many_dr:
                    continue      # documented exception: concurrent disk readers share the working directory (fchdir)
                if par[i] != seq[i]:
                    return f'workload {i} ({wls[i][:60]}) gives a different result when run concurrently ({par[i]}) than sequentially'
            if f.get('crashes', '0') != '0':
                return 'concurrent run crashed'
        if bad:
            return 'data race on static object(s) not classified as racy/idempotent: ' + ','.join(bad)
        if f.get('heap', '0') != '0' and not only_ver:
            return f"data race on heap memory between handles ({f['heap']} reports)"
        if f.get('other', '0') != '0':
            return f"ThreadSanitizer report attributed to libarchive ({f['other']})"
        racy = [s for s in races if tol[s] == 'racy']
        if racy or (only_ver and (f.get('crashes', '0') != '0' or 'MIXED' in par or f.get('heap', '0') != '0')):
            return 'known racy static: ' + ','.join(racy or ['archive_version_details'])
        if races:
            return 'benign data race only: ' + ','.join(races)
        return None

    def nontrivial(self, case, impl):
        return case.meta.get('n', 0) >= 2 and len(impl) >= 3 and impl[-1].startswith('d ') and 'MIXED' not in impl[-1]

    def stats(self, cases, impl):
        st = {'workloads': {}, 'threads_per_case': {}, 'race_symbols_seen': {}, 'ext_reports': 0, 'write_formats': {}, 'write_filters': {},
              'documented_exception_observed(concurrent disk readers disagree with their sequential run)': 0}
        for c, im in zip(cases, impl):
            wls = [o.split() for o in c.ops if o.startswith('wl ')]
            st['threads_per_case'][len(wls)] = st['threads_per_case'].get(len(wls), 0) + 1
            for w in wls:
                st['workloads'][w[1]] = st['workloads'].get(w[1], 0) + 1
                if w[1] == 'wr':
                    st['write_formats'][w[2]] = st['write_formats'].get(w[2], 0) + 1
                    st['write_filters'][w[3]] = st['write_filters'].get(w[3], 0) + 1
            if im and len(im) >= 3 and sum(1 for w in wls if w[1] == 'dr') >= 2:
                a, b = im[-2].split(), im[-1].split()
                if any(w[1] == 'dr' and i + 1 < len(a) and i + 1 < len(b) and a[i + 1] != b[i + 1] for i, w in enumerate(wls)):
                    st['documented_exception_observed(concurrent disk readers disagree with their sequential run)'] += 1
            if im:
                m = re.search(r'races=(\S+)', im[-1])
                if m and m.group(1) != '-':
                    for s in m.group(1).split(','):
                        st['race_symbols_seen'][s] = st['race_symbols_seen'].get(s, 0) + 1
                m = re.search(r'ext=(\d+)', im[-1])
                if m:
                    st['ext_reports'] += int(m.group(1))
        return st


ENGINES = [Thr()]
