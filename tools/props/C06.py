"""C06 — headers and data do not depend on how entry bodies are consumed."""
from props._read import Cons
from props._rdd import Rdd

PROP = 'C06'
PROPS_MODULES = ['LA.Props.C06']
GEN = ['Status']
ASSUMPTIONS = [
    '"well-formed" = the all-read reference run of the implementation under test is clean (every header OK, '
    'every body ends with EOF, archive ends with EOF) [engine cons]',
    'theorems are about archive_read.c (archive_read_data, archive_read_data_block, archive_read_data_skip, '
    '__archive_reset_read_data, _archive_read_next_header2) over ANY format reader, represented by the script of its '
    'read_header/read_data/read_data_skip results; that a real format reader delivers well-formed blocks '
    '(increasing, non-overlapping offsets within the entry size, end offset reported with EOF not before the end of the '
    'data) and that its skip hook lands where reading lands is a hypothesis (WellFormed / CleanEntry), tested on the '
    'real readers by engine cons only',
    'offsets are mathematical integers in the model and int64_t in the C: exact while '
    'read_data_output_offset + s < 2^63 at entry of archive_read_data (the sum is invariant inside a call and bounds '
    'every intermediate value)',
    'archive_seek_data is not modelled',
]
TRUSTED = ['harness/eng_rdd.c: the scripted format registered through __archive_read_register_format answers '
           'read_header/read_data/read_data_skip exactly from the script']
MANIFEST = {
    'text': 'partial: Lean model (LA.RD) of archive_read_data / archive_read_data_block / archive_read_data_skip / '
            '__archive_reset_read_data / _archive_read_next_header2 over a scripted format reader, with theorems for '
            'EVERY block script, buffer-size sequence and consumption history: never more than s bytes; the results are '
            'the dense image (leading, interior, trailing holes zero-filled) cut at the buffer sizes, the same bytes for '
            'any two buffer-size sequences and never more than the entry size; ARCHIVE_RETRY exactly on out-of-order '
            'blocks; progress; the next header (status and complete handle state) is the same after any consumption of '
            'the earlier bodies. Tied to the C by engine rdd (real archive_read.c driven over a fake format through the '
            'private registration API, state members compared after every call) and by engine cons (the real readers '
            'over the reference corpus under per-entry consumption vectors).',
    'technique': 'Lean 4 simulation proof (well-founded model of the C loop, invariant + abstraction to the pending '
                 'dense image) + model/C differential correspondence',
    'note': 'Format-specific block production and skip logic of the unmodelled parsers is covered only by the cons '
            'differential. Five defects found and repaired in /repo (known_findings.json, fixed: property=C06).',
}
ENGINES = [Rdd(), Cons()]
