"""C06 — headers and data do not depend on how entry bodies are consumed."""
from props._read import Cons
from props._rdd import Rdd

PROP = 'C06'
PROPS_MODULES = ['LA.Props.C06']
GEN = []
ASSUMPTIONS = ['"well-formed" = the all-read reference run of the implementation under test is clean (every header OK, '
               'every body ends with EOF, archive ends with EOF)']
TRUSTED = []
MANIFEST = {
    'text': 'partial: Lean model of archive_read_data over zero-copy blocks (dense image, zero-filled holes, bounded by '
            'the request) with theorems for every block sequence and every buffer-size sequence, plus the prediction '
            'function for consumption vectors. Tied to the C by the cons engine: the real reader over the reference '
            'corpus under per-entry choices {read_data any buffers, read_data_block, prefix, skip, nothing}.',
    'note': 'Format-specific skip logic of unmodelled parsers is covered only by the differential.',
}
ENGINES = [Cons(), Rdd()]
