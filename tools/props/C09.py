"""C09 — output is correctly blocked and write faults are always reported."""
from props._cw import Cw

PROP = 'C09'
PROPS_MODULES = ['LA.Props.C09', 'LA.Props.C09Filters']
GEN = ['WriteLayout', 'WriteCalls']
ASSUMPTIONS = ['malloc never fails',
               'a write callback never claims more bytes than it was offered (outside the property\'s quantifier: "accepts only k bytes")',
               'header strings are NUL-free bytes copied without charset conversion (sconv == NULL on POSIX); '
               'negative uid/gid/size are stored as 0 by the archive_entry setters',
               'b64encode/uuencode with the default mode 0644 and name "-"']
TRUSTED = ['the cw harness observes the memory sink by wrapping libarchive\'s own memory_write callback after archive_write_open_memory',
           'tools/lib/extract.py gen_WriteCalls: a call is "discarded" when nothing but a control header or (void) precedes it in its statement']
MANIFEST = {
    'text': 'proof for the blocking layer and the memory sink, partial above it: Lean theorems over a model of '
            'archive_write_client_open/_write/_close (archive_write.c) and memory_write (archive_write_open_memory.c), quantified over '
            'every deterministic write callback (any state machine), block size, last-block setting and write sequence: accepted bytes = '
            'written bytes ++ zero padding, in order, once (stream_exact); every offer but the last is bytes_per_block, the last follows the '
            'last-block rule (blocked); block-size independence; every offer starts at the first byte not yet accepted (short_write_resumed); a '
            'non-positive answer at any invocation makes the call in progress return fatal, no store leaves the block buffer, what was accepted '
            'is a prefix (fault_reported, fault_reported_script); used <= size and no store past the caller block (memory_sink_bounded). Above the '
            'layer: api_fault_reported / ustar_ / b64_ / uu_fault_reported for a model of the write core, the raw and ustar writers and the two '
            'encoding filters; no_unchecked_output_calls over the extracted call-site inventory (117 sites). Tied to the C by the cw engine '
            '(ASan/UBSan/LSan): size+hash of every callback offer, every API status, accepted-stream digest, exact-size memory-sink blocks for '
            'every size 0..needed, fault index sweeps, open-callback failures, close/free/leak check after failure; all other writable formats '
            'and filters in monitor mode (predicate only).',
    'technique': 'Lean 4 proof (refinement of the blocking loops to an abstract byte stream; fault propagation by structural induction) '
                 '+ extraction of the call-site inventory + model/C differential correspondence with fault scripts',
    'note': 'Error propagation inside format writers other than raw/ustar and filters other than b64encode/uuencode is covered only by the '
            'call-site inventory and the monitor-mode fault sweep; archive_write_open_fd/_filename short-write loops are not driven. '
            'Recorded finding: zip writer leaks its compression stream after a write fault.',
}
ENGINES = [Cw()]
