"""C09 — output is correctly blocked and write faults are always reported."""
from props._cw import Cw

PROP = 'C09'
PROPS_MODULES = ['LA.Props.C09', 'LA.Props.C09Filters']
GEN = ['WriteLayout', 'WriteCalls']
ASSUMPTIONS = ['malloc never fails', 'a write callback never claims more bytes than it was offered (outside the property\'s quantifier)',
               'header strings are NUL-free bytes copied without charset conversion (sconv == NULL on POSIX)']
TRUSTED = []
MANIFEST = {
    'text': 'Lean theorems over a model of the client write layer of archive_write.c and of archive_write_open_memory.c, '
            'for every callback behaviour, block size, last-block setting and write sequence; tied to the C by the cw engine.',
    'technique': 'Lean 4 proof (refinement of the blocking loops to an abstract byte stream) + model/C differential correspondence with fault scripts',
    'note': 'partial above the blocking layer',
}
ENGINES = [Cw()]
