#!/usr/bin/env python3
"""Development aid: run the part / cons / trunc engines over the whole reference corpus with a
fixed variant set and summarise disagreements by (archive, variant) so that defect classes can be
triaged.  Not a registered check."""
import os, sys, json, random, collections
sys.path.insert(0, os.path.dirname(os.path.abspath(__file__)))
from lib.core import Case, first_diff
from lib import core
from props import _read

which = sys.argv[1]
core.lake_build(['driver'])
rng = random.Random(7)
rs = _read.ref_pool(rng, 10 ** 6, 400000)
eng = {'part': _read.Part, 'cons': _read.Cons, 'trunc': _read.Trunc}[which]()
eng.build()
cases = []
for name, path in rs:
    size = os.path.getsize(path)
    if which == 'part':
        for cls, (refsrc, variants) in _read.CLASSES.items():
            ops = ['load ' + path, f'run blk=w src={refsrc} cons=A trunc=- fault=-']
            for b in (['1', '7', '513', '10240', 'r5', f'c{size//2}', f'c{max(0,size-1)}'] if size < 30000 else ['7', '513', '10240', 'r5']):
                ops.append(f'run blk={b} src={refsrc} cons=A trunc=- fault=-')
            for v in variants[2:]:
                ops.append(f'run blk=w src={v.format(bs=512, cut=size//3)} cons=A trunc=- fault=-')
                ops.append(f'run blk=w src={v.format(bs=7 if size < 30000 else 513, cut=min(size, 100))} cons=A trunc=- fault=-')
            cases.append(Case(f'{name}:{cls}', ops))
    elif which == 'cons':
        for src in ('cbk', 'cb'):
            ops = ['load ' + path, f'run blk=w src={src} cons=A trunc=- fault=-']
            for v in ('B', 'a', 'S', 'N', 'P10', 'P1000', 'A,S', 'S,A', 'N,B,a', 'P10,S,B'):
                ops.append(f'run blk=w src={src} cons={v} trunc=- fault=-')
            cases.append(Case(f'{name}:{src}', ops))
    else:
        if size > 60000:
            continue
        for src in ('cbk', 'cb', 'cbs'):
            ops = ['load ' + path, f'run blk=w src={src} cons=A trunc=- fault=-']
            offs = sorted({random.Random(size + i).randrange(0, size + 1) for i in range(12)} | {0, 1, size - 1, size // 2})
            for t in offs:
                if 0 <= t <= size:
                    ops.append(f'run blk=w src={src} cons=A trunc={t} fault=-')
            for kind in ('err', 'eof', 'skiperr', 'skipshort', 'seekerr'):
                for idx in (0, 1, 2, 4):
                    ops.append(f'run blk=512 src={src} cons=A trunc=- fault={kind}@{idx}')
            cases.append(Case(f'{name}:{src}', ops))
print(len(cases), 'cases', sum(len(c.ops) for c in cases), 'ops', file=sys.stderr)
impl, err = eng.run_impl(eng.exe, cases)
model = eng.run_model(cases, impl)
tab = collections.OrderedDict()
for c, im, mo in zip(cases, impl, model):
    for j, (a, b) in enumerate(zip(im, mo)):
        if a != b:
            kv = dict(x.split('=', 1) for x in c.ops[j].split()[1:])
            key = (c.label, ' '.join(f'{k}={v}' for k, v in kv.items() if v not in ('-',) and k != 'cons' or (k == 'cons' and which == 'cons')))
            tab.setdefault(c.label, []).append((c.ops[j], a[:160], b[:160]))
json.dump(tab, open(os.path.join(core.OUT, f'sweep_{which}.json'), 'w'), indent=1)
for k, v in tab.items():
    print(k, len(v), '|', v[0][0][4:70], '|', v[0][1][:90])
print('archives with disagreements:', len(tab), 'of', len(cases))
