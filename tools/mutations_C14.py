#!/usr/bin/env python3
"""Mutation run for C14: applies each source mutation to $VERIF_REPO (default /repo), runs the quick check,
reports whether a VIOLATION was printed, and restores the tree with `git checkout -- .`.
usage: VERIF_REPO=<libarchive worktree> python3 tools/mutations_C14.py [name ...]"""
import subprocess, os, sys, re
REPO = os.environ.get('VERIF_REPO', '/repo')
ROOT = os.path.dirname(os.path.dirname(os.path.abspath(__file__)))
muts = {
 'M1-set_perm-drops-flag': ('libarchive/archive_entry.c',
   "\tentry->acl.mode |= ~AE_IFMT & p;\n\tentry->ae_set |= AE_SET_PERM;\n", "\tentry->acl.mode |= ~AE_IFMT & p;\n"),
 'M2-sparse_add-size-border-off-by-one': ('libarchive/archive_entry_sparse.c',
   "\t    offset + length > archive_entry_size(entry))", "\t    offset + length >= archive_entry_size(entry))"),
 'M3-unset_mtime-clears-wrong-flag': ('libarchive/archive_entry.c',
   "\tarchive_entry_set_mtime(entry, 0, 0);\n\tentry->ae_set &= ~AE_SET_MTIME;", "\tarchive_entry_set_mtime(entry, 0, 0);\n\tentry->ae_set &= ~AE_SET_CTIME;"),
 'M4-set_gid-keeps-stale-stat-cache': ('libarchive/archive_entry.c',
   "\t\tg = 0;\n\t}\n\tentry->stat_valid = 0;\n", "\t\tg = 0;\n\t}\n"),
 'M5-clone-forgets-encryption': ('libarchive/archive_entry.c',
   "\tentry2->encryption = entry->encryption;\n", ""),
 'M6-set_hardlink-null-ignores-symlink': ('libarchive/archive_entry.c',
   "\t\tentry->ae_set &= ~AE_SET_HARDLINK;\n\t\tif (entry->ae_set & AE_SET_SYMLINK) {\n\t\t\treturn;\n\t\t}\n", "\t\tentry->ae_set &= ~AE_SET_HARDLINK;\n"),
 'M7-sparse_count-whole-file-off-by-one': ('libarchive/archive_entry_sparse.c',
   "\t\t    sp->length >= archive_entry_size(entry)) {", "\t\t    sp->length > archive_entry_size(entry)) {"),
 'M9-set_fflags-keeps-stale-text': ('libarchive/archive_entry.c',
   "\tarchive_mstring_clean(&entry->ae_fflags_text);\n\tentry->ae_fflags_set = set;", "\tentry->ae_fflags_set = set;"),
 'M10-strtofflags-no-prefix-sense': ('libarchive/archive_entry.c',
   "\t\t\t\t/* Matched \"noXXXX\", so reverse the sense. */\n\t\t\t\tclear |= flag->set;\n\t\t\t\tset |= flag->clear;\n\t\t\t\tbreak;\n\t\t\t} else if (length == flag_length - 2\n\t\t\t    && memcmp(",
   "\t\t\t\t/* Matched \"noXXXX\", so reverse the sense. */\n\t\t\t\tclear |= flag->set;\n\t\t\t\tset |= flag->set;\n\t\t\t\tbreak;\n\t\t\t} else if (length == flag_length - 2\n\t\t\t    && memcmp("),
 'M8-AE_SET_UID-collides-with-GID': ('libarchive/archive_entry_private.h',
   "#define\tAE_SET_UID\t2048", "#define\tAE_SET_UID\t4096"),
}
sel = sys.argv[1:] or list(muts)
for name in sel:
    f, a, b = muts[name]
    p = os.path.join(REPO, f)
    s = open(p).read()
    assert s.count(a) == 1, (name, s.count(a))
    open(p, 'w').write(s.replace(a, b))
    try:
        r = subprocess.run(['python3', 'tools/check.py', 'C14', '--tier', 'quick'], cwd=ROOT,
                           env=dict(os.environ, VERIF_REPO=REPO), capture_output=True, text=True)
        v = [l for l in r.stdout.split('\n') if l.startswith('VIOLATION')]
        print(name, 'exit', r.returncode, 'CAUGHT' if v else 'MISSED')
        for l in v[:3]:
            m = re.search(r'replay=(\S+)', l)
            import json
            d = json.load(open(m.group(1)))
            print('   ', d['kind'], '|', d.get('what', '')[:200], '|', d.get('ops', '')[:6] if isinstance(d.get('ops'), list) else '')
    finally:
        subprocess.run(['git', '-C', REPO, 'checkout', '--', '.'])
