#!/usr/bin/env python3
"""Markdown status table for DESIGN.md from MANIFEST.json, evidence/*.json and known_findings.json."""
import json, os
root = os.path.dirname(os.path.dirname(os.path.dirname(os.path.abspath(__file__))))
man = json.load(open(os.path.join(root, 'MANIFEST.json')))
kf = json.load(open(os.path.join(root, 'known_findings.json')))
print('| property | theorems audited | engines | cases (quick) | quick wall s | open findings | fixes |')
print('|---|---|---|---|---|---|---|')
for c in man['checks']:
    pid = c['property_id']
    ev = {}
    p = os.path.join(root, 'evidence', pid + '.json')
    if os.path.exists(p):
        ev = json.load(open(p))
    cov = ev.get('coverage', {})
    nf = sum(1 for f in kf['findings'] if f['property'] == pid and f.get('status') == 'open')
    nx = sum(1 for f in kf['fixed'] if f'property={pid} ' in f)
    print(f"| {pid} | {cov.get('discharged', '?')}/{cov.get('obligations', '?')} | {c['engine']} | {cov.get('evaluations', '?')} | {ev.get('wall_s', '?')} | {nf} | {nx} |")
