"""Developer aid: applies each C16 mutation to $VERIF_REPO (a scratch worktree!), runs the quick check, reverts with git checkout.\nusage: VERIF_REPO=<worktree> python3 tools/dev/mutations_C16.py [name ...]"""
import subprocess, sys, os, re, glob, json, shutil
REPO=os.environ.get('VERIF_REPO', '/repo'); V=os.path.dirname(os.path.dirname(os.path.dirname(os.path.abspath(__file__))))
PM='libarchive/archive_pathmatch.c'; MA='libarchive/archive_match.c'
MUTS = {
 'M1-wide-guard-dropped': (PM, "if (*s == L'\\0' ||\n\t\t\t\t    !pm_list_w(p + 1, end, *s, flags))", "if (!pm_list_w(p + 1, end, *s, flags))", 1),
 'M2-trailing-dash-off-by-one': (PM, "if ((rangeStart == '\\0') || (p == end - 1)) {", "if ((rangeStart == '\\0') || (p == end)) {", 1),
 'M3-slashskip-final-dot': (PM, "\t    || (s[0] == '.' && s[1] == '\\0'))\n\t\t++s;\n\treturn (s);\n}\n\nstatic const wchar_t", "\t    )\n\t\t++s;\n\treturn (s);\n}\n\nstatic const wchar_t", 1),
 'M4-unanchored-keeps-slash': (PM, "\t\tfor ( ; s != NULL; s = strchr(s, '/')) {\n\t\t\tif (*s == '/')\n\t\t\t\ts++;", "\t\tfor ( ; s != NULL; s = strchr(s + 1, '/')) {\n\t\t\tif (*s == '/' && s[1] == '/')\n\t\t\t\ts++;", 1),
 'M5-dollar-ignores-flag': (PM, "if (p[1] == '\\0' && (flags & PATHMATCH_NO_ANCHOR_END)){", "if (p[1] == '\\0'){", 1),
 'M6-inclusion-before-exclusion': (MA, "\t/* Exclusions take priority */\n\tfor (match = a->exclusions.first; match != NULL;\n\t    match = match->next){\n\t\tr = match_path_exclusion(a, match, mbs, pathname);\n\t\tif (r)\n\t\t\treturn (r);\n\t}\n\n\t/* It's not excluded and we found an inclusion above, so it's\n\t * included. */\n\tif (matched != NULL)\n\t\treturn (0);\n",
     "\tif (matched != NULL)\n\t\treturn (0);\n\n\t/* Exclusions take priority */\n\tfor (match = a->exclusions.first; match != NULL;\n\t    match = match->next){\n\t\tr = match_path_exclusion(a, match, mbs, pathname);\n\t\tif (r)\n\t\t\treturn (r);\n\t}\n", 1),
 'M7-count-not-decremented': (MA, "\t\t\ta->inclusions.unmatched_count--;\n", "", 1),
 'M8-older-ctime-equal-border': (MA, "\t\t\tif (nsec > a->older_ctime_nsec)\n\t\t\t\treturn (1); /* Too new, skip it. */", "\t\t\tif (nsec >= a->older_ctime_nsec)\n\t\t\t\treturn (1); /* Too new, skip it. */", 1),
 'M9-bsearch-misses-last': (MA, "\tb = (unsigned)ids->count;\n\twhile (t < b) {", "\tb = (unsigned)ids->count - 1;\n\twhile (t < b) {", 1),
 'M10-trailing-slash-kept': (MA, "\tif (len && pattern[len - 1] == '/')\n\t\t--len;", "\tif (len > 1 && pattern[len - 2] == '/')\n\t\t--len;", 1),
 'M11-exent-equal-flag': (MA, "\t\t\t} else if (f->flag & ARCHIVE_MATCH_EQUAL)\n\t\t\t\treturn (1);\n\t\t}\n\t}\n\tif (f->flag & ARCHIVE_MATCH_MTIME) {", "\t\t\t}\n\t\t}\n\t}\n\tif (f->flag & ARCHIVE_MATCH_MTIME) {", 1),
}
which = sys.argv[1:] or list(MUTS)
env = dict(os.environ, VERIF_REPO=REPO)
for name in which:
    f, a, b, cnt = MUTS[name]
    path = os.path.join(REPO, f)
    src = open(path).read()
    if src.count(a) != cnt:
        print(name, 'PATTERN COUNT', src.count(a)); continue
    open(path, 'w').write(src.replace(a, b))
    shutil.rmtree(os.path.join(V, 'out/replays'), ignore_errors=True)
    try:
        r = subprocess.run(['python3', 'tools/check.py', 'C16', '--tier', 'quick'], cwd=V, env=env, capture_output=True, text=True)
        viol = [l for l in r.stdout.split('\n') if l.startswith('VIOLATION')]
        what = []
        for l in viol[:2]:
            m = re.search(r'replay=(\S+)', l)
            d = json.load(open(m.group(1)))
            what.append((d.get('engine'), d['what'][:160], d.get('ops', [])[:3]))
        print(name, 'rc=%d' % r.returncode, 'CAUGHT' if viol else 'MISSED', len(viol), what, flush=True)
        if r.returncode and not viol:
            print(r.stdout[-500:], r.stderr[-800:])
    finally:
        subprocess.run(['git', '-C', REPO, 'checkout', '--', '.'])
