#!/usr/bin/env python3
"""Development helper: apply each mutation of __archive_read_filter_seek to $VERIF_REPO, run the quick check of the
given property, report what it says, revert.  usage: VERIF_REPO=... tools/dev/seek_mutations.py [C05|C08|C01]"""
import glob, json, os, subprocess, sys, time
REPO = os.environ['VERIF_REPO']
F = os.path.join(REPO, 'libarchive/archive_read.c')
PROP = sys.argv[1] if len(sys.argv) > 1 else 'C05'
ROOT = os.path.dirname(os.path.dirname(os.path.dirname(os.path.abspath(__file__))))
MUT = [
    ('M1 drop the end_of_file reset', '\t\tfilter->end_of_file = 0;\n\t}\n\treturn r;', '\t}\n\treturn r;'),
    ('M2 node border off by one again, only in the walk over the nodes already known',
     '''			    client->dataset[cursor].begin_position +
			      client->dataset[cursor].total_size > offset ||
			    cursor + 1 >= client->nodes)
				break;
			r = client->dataset[cursor].begin_position +
				client->dataset[cursor].total_size;
			client->dataset[++cursor].begin_position = r;
		}
		while (1) {
			r = client_switch_proxy(filter, cursor);
			if (r != ARCHIVE_OK)
				return r;
			if ((r = client_seek_proxy(filter, 0, SEEK_END)) < 0)
				return r;
			client->dataset[cursor].total_size = r;
			if (client->dataset[cursor].begin_position +
			    client->dataset[cursor].total_size > offset ||''',
     '''			    client->dataset[cursor].begin_position +
			      client->dataset[cursor].total_size - 1 > offset ||
			    cursor + 1 >= client->nodes)
				break;
			r = client->dataset[cursor].begin_position +
				client->dataset[cursor].total_size;
			client->dataset[++cursor].begin_position = r;
		}
		while (1) {
			r = client_switch_proxy(filter, cursor);
			if (r != ARCHIVE_OK)
				return r;
			if ((r = client_seek_proxy(filter, 0, SEEK_END)) < 0)
				return r;
			client->dataset[cursor].total_size = r;
			if (client->dataset[cursor].begin_position +
			    client->dataset[cursor].total_size > offset ||'''),
    ('M3 forget client_avail = 0', 'filter->avail = filter->client_avail = 0;', 'filter->avail = 0;'),
    ('M4 forget r += begin_position', '\tr += client->dataset[cursor].begin_position;\n\n\tif (r >= 0) {', '\n\tif (r >= 0) {'),
    ('M5 SEEK_END: walk back past the first node again (cursor == 0 tested after the adjustment)',
     '''			if (cursor == 0)
				break;
			offset += client->dataset[cursor].total_size;
			cursor--;''',
     '''			offset += client->dataset[cursor].total_size;
			if (cursor == 0)
				break;
			cursor--;'''),
    ('M6 SEEK_CUR relative to the client position instead of the consumed position (offset += position dropped)',
     '\t\toffset += filter->position;\n', '\t\toffset += filter->position - filter->avail;\n'),
]
orig = open(F).read()
res = []
try:
    for name, a, b in MUT:
        if orig.count(a) != 1:
            res.append((name, 'PATTERN NOT FOUND x%d' % orig.count(a))); continue
        open(F, 'w').write(orig.replace(a, b))
        for f in glob.glob(os.path.join(ROOT, 'out/replays/*.json')):
            os.unlink(f)
        t0 = time.time()
        r = subprocess.run(['python3', os.path.join(ROOT, 'tools/check.py'), PROP, '--tier', 'quick'], stdout=subprocess.PIPE,
                           stderr=subprocess.STDOUT, text=True)
        viol = [l for l in r.stdout.split('\n') if l.startswith('VIOLATION')]
        det = []
        for f in sorted(glob.glob(os.path.join(ROOT, 'out/replays/*.json'))):
            d = json.load(open(f))
            if d.get('engine') == 'rda':
                det.append((d['kind'], d['found_failing_input'], d.get('what', '')[:150], d.get('ops', [])[:14]))
        res.append((name, f'exit={r.returncode} violations={len(viol)} wall={time.time()-t0:.0f}s', det))
finally:
    open(F, 'w').write(orig)
for r in res:
    print('==', r[0]); print('  ', r[1])
    for d in (r[2] if len(r) > 2 else []):
        print('   ', d[0], 'failing_input=%s' % d[1], d[2]); print('      ops:', ' | '.join(d[3]))
