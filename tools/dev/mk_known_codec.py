import copy, re
"""One-off helper: build the C10/C02 entries of known_findings.json (witness case + what the
implementation prints for it).  Run by hand after a finding is triaged; never at check time."""
import json, os, subprocess, sys
sys.path.insert(0, os.path.dirname(os.path.dirname(os.path.abspath(__file__))))
from props._codec import hx, ent_line
ROOT = os.path.dirname(os.path.dirname(os.path.dirname(os.path.abspath(__file__))))

def good(k, fmt):
    nm = f'f{k}' if fmt.startswith('ar') else f'd{k}/f{k}'
    return dict(path=hx(nm), type='reg', perm='644', uid='1000', gid='100', size='3', mtime='1000000000', dev='5', ino=str(20 + k), nlink='1', body='7:3')

def case(fmt, probe, extra_open='', n=3):
    return [f'open f={fmt}{extra_open}', ent_line(good(0, fmt)), ent_line(probe), ent_line(good(2, fmt)), 'close'] + [f'rd {i}' for i in range(n + 1)] + ['done']

def P(fmt, **kw):
    d = good(1, fmt); d.update(kw)
    return {k: v for k, v in d.items() if v is not None}

F = []
def add(id, prop, what, ops, match):
    # every message may carry " filter=<name>" after the format
    if ' filter=' not in match:
        match = re.sub(r'^(\^C\d\d f=(?:\([^)]*\)|\\w\+|[\w?]+))', lambda m: m.group(1) + r'( filter=\w+)?', match)
    F.append(dict(property=prop, id=id, status='open', engine='codecp', case=ops, what=what, oracle_match=match))

add('C10-gnutar-silent', 'C10',
    'gnutar writer: mtime >= 2^33 stored as 8589934591 and negative mtime as 0 (format_octal result ignored), uname/gname cut to 32 bytes, '
    'uid/gid >= 2^62 unreadable in the 8-byte base-256 field - archive_write_header returns ARCHIVE_OK in every case',
    case('gnutar', P('gnutar', mtime='8589934592')), r'^C10 f=gnutar status=ok field=(uid|gid|mtime|uname|gname) ')
add('C10-pax-silent', 'C10',
    'pax writer returns ARCHIVE_OK but the entry reads back altered: negative mtime (ustar field written base-256 in 11 of the 12 bytes the reader '
    'parses: -1 reads as -224), rdevmajor/rdevminor where only one of the two needs a pax attribute (the reader then ignores the ustar field of the other), '
    'uid/gid >= 2^62, mtime at the int64 borders (reader warning)',
    case('pax', P('pax', mtime='-1')), r'^(C10 f=paxr?( filter=\w+)?|C02 f=\w+ rewrite=paxr?) status=ok field=(mtime|rdevmajor|rdevminor|uid|gid|readstatus)')
add('C10-tar-regslash', 'C10',
    'tar writers (ustar, pax, gnutar, v7tar) accept a regular file whose pathname ends in "/" with ARCHIVE_OK; the reader turns it into a directory '
    'and does not skip its body, so the next header is read from the body bytes',
    case('ustar', P('ustar', path=hx('dir/name/'))), r'^C10 f=(ustar|paxr?|gnutar|v7tar) status=ok field=type wrote=32768 read=16384')
add('C10-ustar-dblslash', 'C10',
    'ustar (and pax, when the name fits the ustar split) writer splits a long pathname at a "/" that directly follows another "/": the prefix then ends in "/" and the reader joins prefix and name '
    'without re-inserting the separator, so "a//b" reads back as "a/b" although archive_write_header returned ARCHIVE_OK',
    case('ustar', P('ustar', path=hx('w' * 39 + '//' + 'w' * 100))), r'^C10 f=(ustar|paxr?) status=ok field=path ')
add('C10-cpiobin-wrap', 'C10',
    'binary cpio writers (bin, pwb) cast uid, gid, dev, nlink, rdev to uint16_t and mtime to uint32_t without any check: out-of-range values wrap, status ARCHIVE_OK',
    case('bin', P('bin', uid='65536')), r'^C10 f=(bin|pwb) status=ok field=(uid|gid|dev|nlink|mtime|rdevmajor|rdevminor) ')
add('C10-cpiobin-fatal', 'C10',
    'binary cpio writers refuse fifos, sockets (and pwb: symlinks) with ARCHIVE_FATAL: the handle is dead and every later entry is rejected, '
    'instead of a per-entry ARCHIVE_FAILED that leaves the archive usable',
    case('bin', dict(P('bin', type='fifo', size='0'), body=None)), r'^C10 f=(bin|pwb) refusal was fatal')
add('C10-makedev-wrap', 'C10',
    'rdevmajor/rdevminor >= 2^32 are reduced modulo 2^32 by makedev() inside archive_entry_rdev() before the odc/mtree writers see them: stored as 0, status ARCHIVE_OK',
    case('odc', dict(P('odc', type='chr', size='0', rdevmajor='4294967296', rdevminor='1'), body=None)), r'^C10 f=(odc|mtree|bin|pwb) status=ok field=rdev(major|minor) wrote=(4294967296|\d+) read=0')
add('C10-zip-wrap', 'C10',
    'zip writer stores uid/gid/mtime in 32-bit extra fields without a range check: values >= 2^32 (and negative mtime) wrap, status ARCHIVE_OK',
    case('zip', P('zip', uid='4294967296')), r'^C10 f=zip status=ok field=(uid|gid|mtime) ')
add('C10-zip-regslash', 'C10',
    'zip writer accepts a regular file whose pathname ends in "/" with ARCHIVE_OK; it reads back as a directory',
    case('zip', P('zip', path=hx('dir/name/'))), r'^C10 f=zip status=ok field=type wrote=32768 read=16384')
add('C10-7zip-mtime', 'C10',
    '7zip writer: mtime beyond what a signed 64-bit FILETIME holds is stored wrapped, status ARCHIVE_OK',
    case('7zip', P('7zip', mtime='999999999999')), r'^C10 f=7zip status=ok field=mtime ')
add('C10-7zip-badname', 'C10',
    '7zip writer: a pathname that is not valid UTF-8 is (depending on what was written before) accepted with ARCHIVE_OK and stored under a replacement name',
    ['open f=7zip bpb=1', ent_line(dict(path=hx('d0/f0'), type='reg', perm='600', uid='1', gid='100', size='0', mtime='1', body='36:0')),
     ent_line(dict(path='642ffffe', type='reg', perm='600', uid='1000', gid='5', size='3', mtime='1', body='239:3', chunks='512')),
     ent_line(dict(path=hx('d2/f2'), type='reg', perm='644', uid='0', gid='100', size='0', mtime='1', body='90:0')),
     'close', 'rd 0', 'rd 1', 'rd 2', 'rd 3', 'done'], r'^C10 f=7zip accepted entry not read back path=642ffffe')
add('C10-zip-badname', 'C10',
    'zip writer accepts a pathname that is not valid UTF-8 with ARCHIVE_OK (C.UTF-8 locale); the reader cannot convert it and returns the entry without a pathname',
    case('zip', P('zip', path=bytes([0x64, 0x2f, 0xff, 0xfe]).hex())), r'^C10 f=zip status=ok field=path ')
add('C10-xar-badname-close', 'C10',
    'xar writer accepts a uname/gname that is not valid UTF-8 with ARCHIVE_OK; archive_write_close then fails with ARCHIVE_FATAL while writing the TOC and no archive is produced at all',
    case('xar', P('xar', uname=bytes([110, 255, 109]).hex())), r'^C10 f=xar close failed status=fatal')
add('C10-iso9660-mtime', 'C10',
    'iso9660 writer: mtime outside the 7-byte directory-record date range (years 1900..2155) is stored wrapped, status ARCHIVE_OK',
    case('iso9660', P('iso9660', mtime='8589934592'), n=6), r'^C10 f=iso9660 status=ok field=mtime ')
add('C10-dotdot-rewrite', 'C10',
    'iso9660, mtree and xar writers silently drop ".." components of a pathname ("../b" is stored as "b"), status ARCHIVE_OK',
    case('mtree', P('mtree', path=hx('../b'))), r'^C10 f=(iso9660|mtree|xar) accepted entry not read back path=(2e2f)?2e2e2f')
add('C10-mtree-names', 'C10',
    'mtree: a uname/gname with a byte >= 0x80 is written octal-escaped (\\377) but the reader does not unescape uname/gname values',
    case('mtree', P('mtree', uname=bytes([110, 255, 109]).hex())), r'^C10 f=mtree status=ok field=(uname|gname) ')
add('C10-mtree-type', 'C10',
    'mtree writer accepts sockets ("type=socket", which the reader does not know and turns into a regular file with a warning) and entries without a file type, status ARCHIVE_OK',
    case('mtree', dict(P('mtree', type='sock', size='0'), body=None)), r'^C10 f=mtree status=ok field=type ')
add('C10-warc-silent', 'C10',
    'warc writer: mtime beyond year 9999 cannot be formatted and the reader falls back to the record date; a regular file whose name ends in "/" reads back under a different name; status ARCHIVE_OK',
    case('warc', P('warc', mtime='999999999999'), ' bilb=1'), r'^C10 f=warc status=ok field=(mtime|path) ')
add('C10-xar-silent', 'C10',
    'xar: uid/gid >= 2^31 and mtime beyond year 9999 are written but read back as 0; the setuid/setgid/sticky bits of the mode are dropped; an entry without a file type is stored as a regular file; status ARCHIVE_OK',
    case('xar', P('xar', uid='2147483648')), r'^C10 f=xar status=ok field=(uid|gid|mtime|type|perm) ')
add('C10-nopath-crash', 'C10',
    'gnutar and 7zip writers do not check for a missing pathname: archive_write_header dereferences / memcpy()s a NULL pointer (UBSan/ASan abort; '
    'in a plain build gnutar stores an entry with an empty name and returns ARCHIVE_OK)',
    case('7zip', P('7zip', path='-')), r'^C10 f=(gnutar|7zip) crashed in archive_write_header')
add('C10-mandatory-missing', 'C10',
    'an entry without a pathname (missing, or for v7tar the empty string) or without a file type is accepted with ARCHIVE_OK by the gnutar (pathname), v7tar, 7zip, iso9660, mtree and xar writers '
    '(stored under an empty or invented name / as a regular file)',
    case('mtree', P('mtree', path='-')), r'^C10 f=(7zip|gnutar|v7tar|iso9660|mtree|xar|zip) (status=ok field=(path|type) missing mandatory field|accepted entry not read back path=-$)')
add('C10-fatal-longcomponent', 'C10',
    'iso9660, mtree and xar writers answer a pathname component longer than 255 bytes with ARCHIVE_FATAL: the handle is dead and every later entry is rejected',
    case('mtree', P('mtree', path=hx('x' * 298 + '/x'))), r'^C10 f=(iso9660|mtree|xar) refusal was fatal')
add('C10-iso9660-deep-close', 'C10',
    'iso9660 writer accepts a 400-level deep pathname with ARCHIVE_OK; archive_write_close then fails with ARCHIVE_FATAL (directory hierarchy too deep) and no archive is produced',
    case('iso9660', P('iso9660', path=hx('p/' * 400 + 'q')), n=6), r'^C10 f=iso9660 close failed status=fatal')
add('C10-xar-deep', 'C10',
    'xar writer accepts a 400-level deep pathname with ARCHIVE_OK; the resulting archive cannot be read at all (TOC nesting beyond the XML parser limit)',
    case('xar', P('xar', path=hx('p/' * 400 + 'q')), n=6), r'^C02 f=xar every entry accepted with ARCHIVE_OK but the archive cannot be read back')

add('C10-pax-xattr-twice', 'C10',
    'pax writer stores every extended attribute twice (LIBARCHIVE.xattr.<url-encoded name> in base64 and SCHILY.xattr.<url-encoded name> raw) and the tar reader adds both: '
    'each attribute is read back twice, the SCHILY copy under the still url-encoded name (differs for names with non-ASCII bytes, "%" or "=")',
    case('pax', P('pax', xattr=hx('user.k') + ':' + hx('v'))), r'^(C10 f=paxr?( filter=\w+)?|C02 f=\w+ rewrite=paxr?) status=ok field=xattr every attribute read back twice')
add('C10-pax-acl-separator', 'C10',
    'pax writer stores ACLs in the textual form whose fields are separated by ":" "," white space and "#": a user or group name containing one of these is cut there '
    'when read back, archive_write_header returns ARCHIVE_OK',
    case('pax', P('pax', acl='a:m:7:-1:-,a:u:6:77:' + hx('a b'))), r'^(C10 f=paxr?( filter=\w+)?|C02 f=\w+ rewrite=paxr?) status=ok field=acl name with a separator character altered')
add('C10-xar-duplicate-name', 'C10',
    'xar writer accepts a second entry with the pathname of an earlier one with ARCHIVE_OK: the archive holds one entry of that name whose data cannot be read '
    '(length and offset of the stored stream disagree; the reader used to loop forever on it)',
    ['open f=xar', ent_line(good(0, 'xar')), ent_line(good(0, 'xar')), 'close', 'rd 0', 'rd 1', 'rd 2', 'done'],
    r'^C10 f=xar( filter=\w+)? .*\(pathname written twice\)$')

add('C10-link-before-target', 'C10',
    'xar and iso9660 writers: a hard-link entry whose target has not been written before it (or never is) is stored as an empty regular file '
    'without the link, nlink 1, status ARCHIVE_OK',
    ['open f=xar', ent_line(dict(good(1, 'xar'), hard=hx('d0/f0'), size='0', body=None, nlink='2')), ent_line(dict(good(0, 'xar'), nlink='2')),
     'close', 'rd 0', 'rd 1', 'rd 2', 'done'],
    r'^C10 f=(xar|iso9660)( filter=\\w+)? status=ok field=hard link entry written before')
add('C10-link-dropped', 'C10',
    'zip, 7zip, mtree, ar and warc writers accept an entry that is a hard link (archive_entry_hardlink set) with ARCHIVE_OK and store an empty regular file: '
    'the link target is lost without a report',
    ['open f=zip', ent_line(good(0, 'zip')), ent_line(dict(good(1, 'zip'), hard=hx('d0/f0'), size='0', body=None, nlink='2')),
     'close', 'rd 0', 'rd 1', 'rd 2', 'done'],
    r'^C10 f=(zip|7zip|mtree|arbsd|arsvr4|warc)( filter=\\w+)? status=ok field=hard link target not stored')
add('C10-mtree-foreign-flags', 'C10',
    'mtree writer with use-set compares file flags by the bit values of this platform: a flags text the platform does not know (uappnd on Linux) '
    'counts as "no flags", so after "/set flags=uappnd" unflagged entries are written without flags=none and read back with the flag',
    ['open f=mtree opt=use-set', ent_line(dict(good(0, 'mtree'), fflags='uappnd')), ent_line(good(1, 'mtree')), ent_line(good(2, 'mtree')),
     'close', 'rd 0', 'rd 1', 'rd 2', 'rd 3', 'done'],
    r'^C10 f=mtree status=ok field=fflags wrote= read=(uappnd|uchg)')

def case2(opts, ents, n=None):
    n = len(ents) if n is None else n
    return ['open ' + opts] + [ent_line(e) for e in ents] + ['close'] + [f'rd {i}' for i in range(n + 1)] + ['done']

add('C02-filter-padding', 'C02',
    'an archive written through the zstd write filter with any last-block padding (the default for archive_write_open with callbacks / memory), '
    'or through the xz filter with a block size that is not a multiple of 4, cannot be read back: the readers reject the NUL padding after the compressed stream',
    case2('f=ustar filter=zstd', [good(0, 'ustar')]), r'^C02 f=\w+ filter=(xz|zstd) (every entry accepted|the filtered stream cannot be read back)')
add('C02-zip-streaming', 'C02',
    'a zip archive read through a filter (not seekable) is read in streaming mode: permissions, file type of symlinks and sizes come back as defaults '
    '(0664/0775, regular file, size unset) because only the central directory holds them',
    case2('f=zip filter=gzip', [P('zip', perm='7777')]), r'^C10 f=zip filter=\w+ status=ok field=(perm|size|type|sym)')
add('C02-iso9660-deep-crash', 'C02',
    'iso9660 writer: a directory hierarchy 10 levels deep (Rock Ridge relocation of the 9th level) makes archive_write_close dereference a NULL '
    'isoent (archive_write_set_format_iso9660.c:6812 _compare_path_table, SIGSEGV)',
    case2('f=iso9660', [dict(path=hx('a01/b/b/b/b/b/b/b/b/b'), type='dir', perm='755', uid='0', gid='0', mtime='4096', size='0'),
                        dict(path=hx('a04/b/b/b/b/b/b/b/b/b'), type='reg', perm='644', uid='0', gid='0', mtime='4096', size='3', body='1:3')]),
    r'^C02 f=iso9660 crashed in archive_write_close')
add('C02-ar-warc-padding', 'C02',
    'ar and warc archives written with last-block NUL padding (the default for archive_write_open with callbacks / memory) read back all members but then end with ARCHIVE_FATAL instead of EOF',
    case2('f=arbsd', [good(0, 'arbsd')]), r'^C02 f=(arbsd|arsvr4|warc) archive does not end cleanly')
add('C02-tar-id56', 'C02',
    'gnutar and pax writers store a uid/gid in 2^56 .. 2^62 base-256 with a first byte other than 0x80; the tar bidder/reader then rejects the whole archive although every entry was accepted with ARCHIVE_OK',
    case2('f=gnutar', [P('gnutar', uid=str(2 ** 56))]), r'^C02 f=(gnutar|paxr?) every entry accepted')

env = dict(os.environ, LC_ALL='C.UTF-8', LANG='C.UTF-8',
           ASAN_OPTIONS='detect_leaks=0:abort_on_error=0:exitcode=99:allocator_may_return_null=1')
OUT = []
# one entry per engine: the bulk engine (plain build) and the sanitizer-build sample engine
F2 = []
for f in F:
    F2.append(f)
    if f['property'] == 'C10':
        g = copy.deepcopy(f); g['property'] = 'C02'; g['id'] = f['id'].replace('C10-', 'C02/C10-'); F2.append(g)
    else:
        g = copy.deepcopy(f); g['property'] = 'C10'; g['id'] = f['id'].replace('C02-', 'C10/C02-'); F2.append(g)
for f in F2:
    for eng, exe, suffix in (('codecp', ROOT + '/.build/bin-plain/eng_codecp', ''), ('codec', ROOT + '/.build/bin-asan/eng_codec', '@asan')):
        g = copy.deepcopy(f); g['engine'] = eng; g['id'] = f['id'] + suffix
        text = '#case 0\n' + ''.join(o + '\n' for o in g['case'])
        r = subprocess.run([exe], input=text, capture_output=True, text=True, env=env, timeout=60)
        g['impl_shows'] = [l for l in r.stdout.split('\n')[1:] if l]
        drv = ROOT + '/lean/.lake/build/bin/driver'
        inp = '#case 0\n' + ''.join(o + '\t' + (g['impl_shows'][j] if j < len(g['impl_shows']) else '') + '\n' for j, o in enumerate(g['case']))
        v = subprocess.run([drv, 'codec.c10' if g['property'] == 'C10' else 'codec.c02'], input=inp, capture_output=True, text=True).stdout.strip().split('\n')[-1]
        print(g['id'], '->', v[:150], '| match' if re.search(g['oracle_match'], v) else '| NO MATCH')
        OUT.append(g)
p = ROOT + '/known_findings.json'
K = json.load(open(p))
K['findings'] = [x for x in K['findings'] if x['property'] not in ('C10', 'C02')] + OUT
FIXED = [
 'fixed: property=C10 6208de7 cpio odc write_header ignored format_octal overflow: uid/gid/dev/nlink/rdev/mode/mtime out of range stored as the field maximum with ARCHIVE_OK (now ARCHIVE_WARN); a name length that does not fit c_namesize is refused with ARCHIVE_FAILED',
 'fixed: property=C10 4621003 cpio newc write_header ignored format_hex overflow: uid/gid/nlink/mtime/dev/rdev >= 2^32 stored as ffffffff with ARCHIVE_OK (now ARCHIVE_WARN)',
 'fixed: property=C02 de97988 xar_finish_entry subtracted the zero-fill bytes twice from bytes_remaining: any entry with a body shorter than its declared size made the counter wrap and finish_entry compress ~2^64 zero bytes into the temporary file',
 'fixed: property=C10 ea96ed5 ar writer: a member refused with ARCHIVE_WARN left the previous member pad state; the following finish_entry wrote a stray newline and every later member became unreadable',
 'fixed: property=C10 a302640 warc writer: an entry refused for its name length left w->typ set; finish_entry appended an end-of-record marker to the previous record (and the header string leaked)',
 'fixed: property=C10 890a482 gnutar writer: the K/L long-name headers of an entry refused for its file type stayed in the archive and were applied to the next entry',
 'fixed: property=C10 edecab6 pax writer: build_ustar_entry_name() can return 256 characters + NUL but its three destination buffers on the stack of archive_write_pax_header() were 256 bytes: one-byte stack-buffer-overflow for a 155-byte prefix + "//" + 100-byte name (found under ASan by the C10 path probes)',
 'fixed: property=C02 f131e22 tar reader: a pax NFSv4 or default ACL attribute marked the permission bits as set, so the entry came back with mode 0; with an access ACL the set-uid/set-gid/sticky bits of the header were dropped',
 'fixed: property=C02 d1db1c2 pax writer wrote atime/ctime only when non-zero: a time stamp of exactly 0 read back as unset',
 'fixed: property=C02 13c8d4f xar reader: archive_read_data_block returned ARCHIVE_OK with an empty block forever when an entry\'s compressed stream ends before the length the TOC declares (as in the archive the xar writer produces for two entries of the same name)',
 'fixed: property=C10 5bfa422 zip writer: write_path()/copy_path() looked at path[strlen(path) - 1] for an empty pathname (one byte before the buffer: ASan heap-buffer-overflow, ARCHIVE_FATAL in a plain build) and dereferenced a missing pathname; both are now refused with ARCHIVE_FAILED',
 'fixed: property=C02 4b5a1e9 mtree writer with use-set: write_global() re-asserted in its state a keyword that an earlier /unset had removed whenever the keyword was not re-evaluated for a directory (no children, fewer than two entries sharing a value): entries with the formerly set flags were then written without them and read back unflagged',
 'fixed: property=C02 a48e314 xar writer make_fflags_entry(): fe->name[cp - p] read beyond the end of a flag-table name shorter than the flag word of the entry (noatime vs sappnd): global-buffer-overflow under ASan, found by the file-flags dimension',
 'fixed: property=C10 1911fd7 gnutar writer: same orphaned long-name header when a numeric field (rdev, uid, size) of the entry itself did not fit',
]
K['fixed'] = [x for x in K.get('fixed', []) if not any(x.split()[2] == y.split()[2] for y in FIXED)] + FIXED
json.dump(K, open(p, 'w'), indent=1)
