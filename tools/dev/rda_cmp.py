#!/usr/bin/env python3
"""Development helper: run an .ops file (with #case lines) through the rda harness and the Lean driver, print both
side by side with differences marked.  usage: VERIF_REPO=... tools/dev/rda_cmp.py file.ops"""
import os, subprocess, sys
sys.path.insert(0, os.path.join(os.path.dirname(os.path.abspath(__file__)), '..'))
from lib import core
from props._rda import Rda

eng = Rda()
exe = eng.build()
cases, cur = [], None
for l in open(sys.argv[1]):
    l = l.rstrip('\n')
    if l.startswith('#case'):
        cur = core.Case(l, []); cases.append(cur)
    elif l.strip() and not l.startswith('#'):
        if cur is None:
            cur = core.Case('0', []); cases.append(cur)
        cur.ops.append(l)
eng.parallel = 1
impl, err = eng.run_impl(exe, cases)
model = eng.run_model(cases, impl)
bad = 0
for c, a, b in zip(cases, impl, model):
    print(c.label)
    for i, op in enumerate(c.ops):
        x = a[i] if i < len(a) else '<missing>'
        y = b[i] if i < len(b) else '<missing>'
        if x == y:
            print(f'   {op[:60]:60s} {x[:100]}')
        else:
            bad += 1
            print(f'!! {op[:60]:60s} impl:  {x[:140]}\n   {"":60s} model: {y[:140]}')
    o = eng.oracle(c, a)
    if o:
        print('   ORACLE:', o)
if err.strip():
    print('stderr:', err[-1500:])
print('differences:', bad)
