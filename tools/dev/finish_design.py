#!/usr/bin/env python3
"""Refresh the generated blocks of DESIGN.md: the status table (from evidence/) and the seeded-change matrix
(from seeded/RESULTS.md).  Blocks are delimited by <!-- NAME:BEGIN --> / <!-- NAME:END --> comments."""
import os, re, subprocess
root = os.path.dirname(os.path.dirname(os.path.dirname(os.path.abspath(__file__))))
p = os.path.join(root, 'DESIGN.md'); s = open(p).read()
def block(name, text):
    global s
    pat = re.compile(r'(<!-- %s:BEGIN -->\n).*?(<!-- %s:END -->)' % (name, name), re.S)
    assert pat.search(s), name
    s = pat.sub(lambda m: m.group(1) + text.rstrip('\n') + '\n' + m.group(2), s)
st = subprocess.run(['python3', os.path.join(root, 'tools/dev/status_table.py')], capture_output=True, text=True).stdout
block('STATUS', '\n'.join(l for l in st.split('\n') if l.startswith('|')))
import json
kf = json.load(open(os.path.join(root, 'known_findings.json')))
if '<!-- FINDINGS:BEGIN -->' in s:
    seen = {}
    for f in kf['findings']:
        if f.get('status') != 'open':
            continue
        base = re.sub(r'@asan$', '', f['id']).replace('C02/', '').replace('C10/', '')
        seen.setdefault(base, (f['property'], f['what']))
        if f['property'] not in seen[base][0]:
            seen[base] = (seen[base][0] + '/' + f['property'], seen[base][1])
    rows = ['| id | property | what fails |', '|---|---|---|']
    for k in sorted(seen, key=lambda x: (seen[x][0], x)):
        rows.append(f"| {k} | {seen[k][0]} | {seen[k][1][:260].replace('|', '/')} |")
    block('FINDINGS', '\n'.join(rows) + f"\n\n{len(kf['fixed'])} `fixed:` lines (one per repaired defect) are in `known_findings.json`.")
rm = os.path.join(root, 'seeded', 'RESULTS.md')
if os.path.exists(rm) and '<!-- SEEDED:BEGIN -->' in s:
    block('SEEDED', open(rm).read())
open(p, 'w').write(s)
