#!/usr/bin/env python3
"""Refresh the generated blocks of DESIGN.md: the status table (from evidence/) and the seeded-change matrix
(from seeded/RESULTS.md).  Blocks are delimited by <!-- NAME:BEGIN --> / <!-- NAME:END --> comments."""
import os, re, subprocess
root = os.path.dirname(os.path.dirname(os.path.dirname(os.path.abspath(__file__))))
p = os.path.join(root, 'DESIGN.md'); s = open(p).read()
def block(name, text):
    global s
    pat = re.compile(r'(<!-- %s:BEGIN -->\n).*?(<!-- %s:END -->)' % (name, name), re.S)
    assert pat.search(s), name
    s = pat.sub(lambda m: m.group(1) + text.rstrip('\n') + '\n' + m.group(2), s)
st = subprocess.run(['python3', os.path.join(root, 'tools/dev/status_table.py')], capture_output=True, text=True).stdout
block('STATUS', '\n'.join(l for l in st.split('\n') if l.startswith('|')))
rm = os.path.join(root, 'seeded', 'RESULTS.md')
if os.path.exists(rm) and '<!-- SEEDED:BEGIN -->' in s:
    block('SEEDED', open(rm).read())
open(p, 'w').write(s)
