"""Apply one mutation to the repo worktree, run the quick check of a property, report, revert."""
import subprocess, sys, os, re, time
REPO = os.environ.get('VERIF_REPO', '/repo'); V = os.path.dirname(os.path.dirname(os.path.dirname(os.path.abspath(__file__))))
MUTS = {
 'M1-ustar-uid-failed-dropped': ('C10', 'libarchive/archive_write_set_format_ustar.c',
   '''		archive_set_error(&a->archive, ERANGE,
		    "Numeric user ID too large");
		ret = ARCHIVE_FAILED;''', '''		archive_set_error(&a->archive, ERANGE,
		    "Numeric user ID too large");'''),
 'M2-odc-format_octal-limit-bit': ('C10', 'libarchive/archive_write_set_format_cpio_odc.c',
   'max = (((int64_t)1) << (digits * 3)) - 1;', 'max = (((int64_t)1) << (digits * 3 + 1)) - 1;'),
 'M3a-ustar-uname-limit-define-33': ('C10', 'libarchive/archive_write_set_format_ustar.c',
   '#define	USTAR_uname_size 32', '#define	USTAR_uname_size 33'),
 'M3b-ustar-uname-limit-inline-33': ('C10', 'libarchive/archive_write_set_format_ustar.c',
   'if (copy_length > USTAR_uname_size) {', 'if (copy_length > USTAR_uname_size + 1) {'),
 'M4-newc-uid-overflow-ignored': ('C10', 'libarchive/archive_write_set_format_cpio_newc.c',
   '''	overflow |= format_hex(archive_entry_uid(entry),
	    h + c_uid_offset, c_uid_size);''', '''	format_hex(archive_entry_uid(entry),
	    h + c_uid_offset, c_uid_size);'''),
 'M5-ustar-socket-accepted': ('C10', 'libarchive/archive_write_set_format_ustar.c',
   '''			__archive_write_entry_filetype_unsupported(
			    &a->archive, entry, "ustar");
			ret = ARCHIVE_FAILED;''', '''			__archive_write_entry_filetype_unsupported(
			    &a->archive, entry, "ustar");'''),
 'M6-ustar-linkname-limit-off-by-one': ('C10', 'libarchive/archive_write_set_format_ustar.c',
   'if (copy_length > USTAR_linkname_size) {', 'if (copy_length > USTAR_linkname_size + 1) {'),
 'M7-ustar-entry_padding': ('C02', 'libarchive/archive_write_set_format_ustar.c',
   'ustar->entry_padding = 0x1ff & (-(int64_t)ustar->entry_bytes_remaining);', 'ustar->entry_padding = 0x1ff & (-(int64_t)ustar->entry_bytes_remaining - 1);'),
 'M8-ustar-prefix-split-moved': ('C02', 'libarchive/archive_write_set_format_ustar.c',
   "p = strchr(pp + copy_length - USTAR_name_size - 1, '/');", "p = strchr(pp + copy_length - USTAR_name_size, '/');"),
 'M9-pax-length-digit-adjust-removed': ('C02', 'libarchive/archive_write_set_format_pax.c',
   '''	if (len + digits >= next_ten)
		digits++;''', '''	if (0 && len + digits >= next_ten)
		digits++;'''),
 'M10-odc-namesize-without-nul': ('C02', 'libarchive/archive_write_set_format_cpio_odc.c',
   '''	/* Include trailing null. */
	pathlength = (int)len + 1;''', '''	/* Include trailing null. */
	pathlength = (int)len;'''),
 'M11-tar-reader-padding': ('C02', 'libarchive/archive_read_support_format_tar.c',
   '''	tar->entry_padding = 0x1ff & (-tar->entry_bytes_remaining);

	return (err);
}

static int
header_pax_extension''', '''	tar->entry_padding = 0x1fe & (-tar->entry_bytes_remaining);

	return (err);
}

static int
header_pax_extension'''),
 'M12-newc-data-padding': ('C02', 'libarchive/archive_write_set_format_cpio_newc.c',
   'cpio->padding = (int)PAD4(cpio->entry_bytes_remaining);', 'cpio->padding = (int)PAD4(cpio->entry_bytes_remaining + 1);'),
}
which = sys.argv[1:] or list(MUTS)
for name in which:
    prop, rel, old, new = MUTS[name]
    p = os.path.join(REPO, rel)
    s = open(p).read()
    if s.count(old) != 1:
        print(name, 'PATTERN COUNT', s.count(old)); continue
    open(p, 'w').write(s.replace(old, new))
    t = time.time()
    env = dict(os.environ, VERIF_REPO=REPO, VERIF_SEED='1')
    r = subprocess.run(['python3', 'tools/check.py', prop, '--tier', 'quick'], cwd=V, env=env, capture_output=True, text=True)
    vio = [l for l in r.stdout.split('\n') if l.startswith('VIOLATION')]
    kinds = sorted(set(re.search(r'_(\w+?)_\d+\.json', l).group(1) for l in vio))
    print(f'{name:40s} {prop} rc={r.returncode} violations={len(vio)} kinds={kinds} {time.time()-t:.0f}s', flush=True)
    subprocess.run(['git', '-C', REPO, 'checkout', '--', rel])
# restore generated tables / builds to the clean tree
subprocess.run(['python3', 'tools/check.py', 'C10', '--tier', 'quick'], cwd=V, env=dict(os.environ, VERIF_REPO=REPO), capture_output=True)
