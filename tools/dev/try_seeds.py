#!/usr/bin/env python3
"""Apply each delivered seeded change of a property to /repo, run the quick check at two seeds, revert.
usage: try_seeds.py <PROP> [<CHECKPROP> ...]   (default: check the property itself)"""
import glob, os, subprocess, sys
prop = sys.argv[1]; checks = sys.argv[2:] or [prop]
root = os.path.dirname(os.path.dirname(os.path.dirname(os.path.abspath(__file__))))
for d in sorted(glob.glob(f'/tmp/mut/{prop}/' + os.environ.get('SEED_DIR', 'out') + '/[0-9]*')):
    pd = os.path.join(d, 'patch.diff')
    if not os.path.exists(pd):
        continue
    r = subprocess.run(['git', '-C', '/repo', 'apply', pd], capture_output=True, text=True)
    if r.returncode != 0:
        print(prop, os.path.basename(d), 'PATCH DOES NOT APPLY:', r.stderr.strip()[:200]); continue
    res = []
    try:
        for chk in checks:
            for seed in ('1', '2'):
                env = dict(os.environ, VERIF_SEED=seed)
                p = subprocess.run(['python3', os.path.join(root, 'tools', 'check.py'), chk], capture_output=True, text=True, env=env, cwd=root)
                v = [l for l in p.stdout.split('\n') if l.startswith('VIOLATION')]
                res.append(f"{chk}@{seed}:" + ('CAUGHT' + ('(nfi)' if v and all('no-failing-input-found' in x for x in v) else '') if p.returncode else 'missed'))
    finally:
        subprocess.run(['git', '-C', '/repo', 'checkout', '--', '.'])
    print(prop, os.path.basename(d), ' '.join(res), flush=True)
