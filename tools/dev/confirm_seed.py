#!/usr/bin/env python3
"""Confirm a seeded change delivered by a sub-agent: in a scratch worktree of /repo (HEAD), check that
(a) the demo passes on the unchanged tree, (b) with the patch the library builds, the test suite result is the
baseline's, and the demo fails.  Then store it as /verif/seeded/<id>-<n>/ (patch.diff, demo, meta.json).
usage: confirm_seed.py <PROP> <n> [<n> ...]"""
import json, os, shutil, subprocess, sys, time
prop, nums = sys.argv[1], sys.argv[2:]
root = os.path.dirname(os.path.dirname(os.path.dirname(os.path.abspath(__file__))))
LIBS = '-lz -lbz2 -llzma -lb2 -llz4 -lzstd -lcrypto -lxml2 -lacl -lpthread'
def sh(cmd, cwd=None, timeout=3600):
    r = subprocess.run(cmd, shell=True, cwd=cwd, capture_output=True, text=True, errors='replace', timeout=timeout)
    return r.returncode, (r.stdout + r.stderr)
wt = f'/tmp/confirm/{prop}'
sh(f'git -C /repo worktree remove --force {wt}'); shutil.rmtree(wt, ignore_errors=True)
os.makedirs('/tmp/confirm', exist_ok=True)
rc, out = sh(f'git -C /repo worktree add --detach {wt} HEAD'); assert rc == 0, out
def build_and_test(tag):
    rc, out = sh(f'cmake -G Ninja -B _b -DCMAKE_BUILD_TYPE=Release -DENABLE_WERROR=OFF > /dev/null && ninja -C _b 2>&1 | tail -3', cwd=wt)
    if rc != 0: return None, out
    rc, out = sh('ctest --test-dir _b -j16 --timeout 900 2>&1 | grep -E "tests passed|\\(Failed\\)|Failed  "', cwd=wt)
    import re
    norm = sorted(set(re.findall(r'- (\S+) \(Failed\)', out))) + re.findall(r'\d+% tests passed, \d+ tests failed out of \d+', out)
    return ' | '.join(norm), out
def build_san():
    return sh('cmake -G Ninja -B _bs -DCMAKE_BUILD_TYPE=Release -DENABLE_WERROR=OFF -DENABLE_TEST=OFF -DCMAKE_C_FLAGS="-g -fsanitize=address,undefined -fno-omit-frame-pointer" > /dev/null && ninja -C _bs archive_static 2>&1 | tail -3', cwd=wt)
def demo(src, extra='', b='_b'):
    rc, out = sh(f'gcc -O1 -g {extra} -I libarchive -I {b} -I libarchive/test {src} {b}/libarchive/libarchive.a {LIBS} -o _b/demo 2>&1 | tail -5', cwd=wt)
    if not os.path.exists(os.path.join(wt, '_b/demo')) and '__LIBARCHIVE_BUILD' not in extra:
        return demo(src, extra + ' -D__LIBARCHIVE_BUILD -DHAVE_CONFIG_H', b)
    if not os.path.exists(os.path.join(wt, '_b/demo')): return None, out
    envp = f'BIN={wt}/_b/bin ' + (f'DEMO_SH={os.path.dirname(src)}/demo.sh ' if os.path.exists(os.path.join(os.path.dirname(src), 'demo.sh')) else '')
    rc, out = sh(envp + './_b/demo', cwd=wt, timeout=900)
    os.unlink(os.path.join(wt, '_b/demo'))
    return rc, out[-1500:]
base_tests, _ = build_and_test('base')
print('baseline tests:', base_tests)
for n in nums:
    # '<n>' = first round (/tmp/mut/<P>/out/<n>); 'r2:<n>' = second round (/tmp/mut/<P>/out2/<n>, stored as <P>-r2-<n>)
    src = f'/tmp/mut/{prop}/out2/{n[3:]}' if n.startswith('r2:') else f'/tmp/mut/{prop}/out/{n}'
    n = n.replace(':', '-')
    res = {'property': prop, 'n': n}
    d0 = demo(f'{src}/demo.c')
    rc, out = sh(f'git apply {src}/patch.diff', cwd=wt)
    if rc != 0:
        print(n, 'PATCH DOES NOT APPLY', out); continue
    t, _ = build_and_test('mut')
    d1 = demo(f'{src}/demo.c')
    how_demo = 'plain build'
    if d0[0] == 0 and d1[0] == 0 and t == base_tests:
        # a memory error that a plain build does not show: the same demo against sanitized builds
        build_san(); d1 = demo(f'{src}/demo.c', '-fsanitize=address,undefined', '_bs')
        sh('git checkout -- .', cwd=wt)
        build_san(); d0 = demo(f'{src}/demo.c', '-fsanitize=address,undefined', '_bs')
        how_demo = 'ASan/UBSan build'
    sh('git checkout -- .', cwd=wt)
    ok = d0[0] == 0 and d1[0] not in (0, None) and t == base_tests
    res.update(demo_unchanged_rc=d0[0], demo_patched_rc=d1[0], tests_with_patch=t, baseline_tests=base_tests, confirmed=ok,
               demo_patched_tail=(d1[1] or '')[-400:])
    print(json.dumps(res)[:600])
    if ok:
        dst = os.path.join(root, 'seeded', f'{prop}-{n}')
        os.makedirs(dst, exist_ok=True)
        for f in ('patch.diff', 'demo.c', 'demo.sh', 'notes.md'):
            if os.path.exists(f'{src}/{f}'): shutil.copy(f'{src}/{f}', dst)
        meta = {'property': prop, 'breaks': open(f'{src}/notes.md').read()[:1500] if os.path.exists(f'{src}/notes.md') else '',
                'confirmed': {'demo on unchanged tree': 'exit 0', 'demo with patch': f'exit {d1[0]}', 'demo build': how_demo,
                              'ctest with patch': t, 'ctest baseline': base_tests,
                              'how': 'tools/dev/confirm_seed.py in a scratch worktree of /repo HEAD (Release build, ctest -j16)'},
                'detected_by': 'see DESIGN.md section 10'}
        json.dump(meta, open(os.path.join(dst, 'meta.json'), 'w'), indent=1)
sh(f'git -C /repo worktree remove --force {wt}'); shutil.rmtree(wt, ignore_errors=True)
