#!/usr/bin/env python3
"""Resolve the three files every per-property branch touches (union merge), then regenerate MANIFEST.json."""
import json, re, subprocess, sys, os
root = os.path.dirname(os.path.dirname(os.path.dirname(os.path.abspath(__file__))))
os.chdir(root)

def show(stage, path):
    return subprocess.run(['git', 'show', f':{stage}:{path}'], capture_output=True, text=True).stdout

def conflicted():
    return subprocess.run(['git', 'diff', '--name-only', '--diff-filter=U'], capture_output=True, text=True).stdout.split()

for f in conflicted():
    if f == 'lean/Driver/Main.lean':
        ours, theirs = show(2, f), show(3, f)
        imps = []
        for t in (ours, theirs):
            for l in t.split('\n'):
                if l.startswith('import ') and l not in imps:
                    imps.append(l)
        ents = []
        for t in (ours, theirs):
            m = re.search(r'def engines[^\n]*\[\n(.*?)\n\]', t, re.S)
            for l in m.group(1).split('\n'):
                l = l.strip().rstrip(',')
                if l and l not in ents:
                    ents.append(l)
        body = ours
        body = re.sub(r'(?:import [^\n]*\n)+', '\n'.join(imps) + '\n', body, count=1)
        body = re.sub(r'(def engines[^\n]*\[\n).*?(\n\])', lambda m: m.group(1) + ',\n'.join('  ' + e for e in ents) + m.group(2), body, count=1, flags=re.S)
        open(f, 'w').write(body)
    elif f == 'known_findings.json':
        a, b = json.loads(show(2, f)), json.loads(show(3, f))
        ids = {x['id'] for x in a['findings']}
        a['findings'] += [x for x in b['findings'] if x['id'] not in ids]
        a['fixed'] += [x for x in b.get('fixed', []) if x not in a['fixed']]
        json.dump(a, open(f, 'w'), indent=1)
    elif f in ('MANIFEST.json',) or f.startswith('evidence/'):
        open(f, 'w').write(show(2, f))
    elif f == '.gitignore':
        lines = []
        for t in (show(2, f), show(3, f)):
            for l in t.split('\n'):
                if l and l not in lines:
                    lines.append(l)
        open(f, 'w').write('\n'.join(lines) + '\n')
    elif f.endswith('.md') or f.endswith('lean/LA.lean') or f == 'lean/LA.lean' or f == 'tools/lib/extract.py':
        import tempfile
        tmp = []
        for st in (2, 1, 3):
            t = tempfile.NamedTemporaryFile('w', delete=False, suffix='.m'); t.write(show(st, f)); t.close(); tmp.append(t.name)
        r = subprocess.run(['git', 'merge-file', '--union', '-p'] + tmp, capture_output=True, text=True)
        out = r.stdout
        if f == 'tools/lib/extract.py':      # per-branch registry literals overwrite one another: keep only the automatic one
            out = '\n'.join(l for l in out.split('\n') if not l.startswith("EXTRACTORS = {'"))
        open(f, 'w').write(out)
        for t in tmp: os.unlink(t)
    else:
        print('MANUAL:', f); continue
    subprocess.run(['git', 'add', f])
print('left:', conflicted())
