#!/usr/bin/env python3
"""After cherry-picking fix commits from a work branch onto /repo main, rewrite the commit ids quoted in
known_findings.json ("fixed: property=Cxx <id> …") to the ids on main (matched by commit subject)."""
import json, re, subprocess, os
root = os.path.dirname(os.path.dirname(os.path.dirname(os.path.abspath(__file__))))
def git(*a):
    return subprocess.run(['git', '-C', '/repo'] + list(a), capture_output=True, text=True).stdout
main = {l.split(' ', 1)[1]: l.split(' ', 1)[0] for l in git('log', '--format=%h %s', 'main').strip().split('\n')}
p = os.path.join(root, 'known_findings.json')
d = json.load(open(p))
out = []
for line in d['fixed']:
    m = re.match(r'(fixed: property=\S+ )([0-9a-f]{7,40})( .*)', line)
    if m and m.group(2) not in main.values():
        subj = git('log', '-1', '--format=%s', m.group(2)).strip()
        if subj in main:
            line = m.group(1) + main[subj] + m.group(3)
        else:
            print('unmapped:', line[:80])
    out.append(line)
d['fixed'] = out
json.dump(d, open(p, 'w'), indent=1)
for l in out: print(l[:110])
