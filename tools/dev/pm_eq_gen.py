#!/usr/bin/env python3
"""Developer aid (not run by the check): prints the non-dependent unfolding equations
`X_eq` of the mutual block of lean/LA/Model/Pm.lean, i.e. each definition with its `h :`
binders dropped.  Paste the output over the `X_eq` section of lean/LA/Lemmas/Pm.lean after
editing the model; Lean re-proves each equation against the definition (`deq`)."""
import os, re, sys
root = os.path.dirname(os.path.dirname(os.path.dirname(os.path.abspath(__file__))))
src = open(os.path.join(root, 'lean/LA/Model/Pm.lean')).read()
start = src.index('mutual\n'); end = src.index('\nend\n\n/-- `__archive_pathmatch(p, s, flags)`')
out = []
for d in re.split(r'\n(?=/-- )', src[start + 7:end]):
    m = re.search(r'def (\w+) \(cfg : Cfg\) \(p s : List Nat\) \(fl : Flags\) \(pi si : Nat\) : Res :=\n(.*?)\ntermination_by', d, re.S)
    if not m:
        continue
    name, b = m.group(1), m.group(2)
    b = re.sub(r'match \w+ : ', 'match ', b)
    b = re.sub(r'if \w+ : ', 'if ', b)
    b = re.sub(r' *--.*', '', b)
    b = '\n'.join(l for l in b.split('\n') if l.strip())
    out.append(f'theorem {name}_eq (cfg : Cfg) (p s : List Nat) (fl : Flags) (pi si : Nat) :\n'
               f'    {name} cfg p s fl pi si = (\n{b}) := by\n  rw [{name}]\n  deq\n')
sys.stdout.write('\n'.join(out))
