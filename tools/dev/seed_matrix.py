#!/usr/bin/env python3
"""Run the registered quick checks against every confirmed seeded change in /verif/seeded/<P>-<n>/.

For each seeded change: `git -C /repo apply patch.diff`, run the quick check of the property it was written
against (plus any further checks named in meta.json "also_checked_by") at VERIF_SEED 1 and 2, undo with
`git -C /repo checkout -- .`.  Results go to seeded/RESULTS.json and seeded/RESULTS.md.
Development tool: never part of a registered check.   usage: seed_matrix.py [<P>-<n> ...]
"""
import glob, json, os, subprocess, sys, time
root = os.path.dirname(os.path.dirname(os.path.dirname(os.path.abspath(__file__))))
REPO = os.environ.get('VERIF_REPO', '/repo')
want = sys.argv[1:]
resf = os.path.join(root, 'seeded', 'RESULTS.json')
results = json.load(open(resf)) if os.path.exists(resf) else {}
dirty = subprocess.run(['git', '-C', REPO, 'status', '--porcelain', '--untracked-files=no'], capture_output=True, text=True).stdout.strip()
if dirty:
    sys.exit('refusing to run: ' + REPO + ' has uncommitted changes')
for d in sorted(glob.glob(os.path.join(root, 'seeded', 'C*-*'))):
    sid = os.path.basename(d)
    if want and sid not in want:
        continue
    meta = json.load(open(os.path.join(d, 'meta.json')))
    checks = [meta['property']] + [c for c in meta.get('also_checked_by', []) if c != meta['property']]
    r = subprocess.run(['git', '-C', REPO, 'apply', os.path.join(d, 'patch.diff')], capture_output=True, text=True)
    if r.returncode != 0:
        results[sid] = {'error': 'patch does not apply to the current tree: ' + r.stderr.strip()[:200]}
        print(sid, results[sid]); continue
    row = {}
    try:
        for chk in checks:
            for seed in ('1', '2'):
                t = time.time()
                p = subprocess.run(['python3', os.path.join(root, 'tools', 'check.py'), chk], capture_output=True, text=True,
                                   env=dict(os.environ, VERIF_SEED=seed), cwd=root)
                v = [l for l in p.stdout.split('\n') if l.startswith('VIOLATION')]
                row[f'{chk}@{seed}'] = {'caught': p.returncode != 0, 'violations': len(v),
                                        'with_failing_input': sum('no-failing-input-found' not in x for x in v),
                                        'wall_s': round(time.time() - t)}
    finally:
        subprocess.run(['git', '-C', REPO, 'checkout', '--', '.'])
    results[sid] = row
    print(sid, ' '.join(f"{k}:{'CAUGHT' if v['caught'] else 'missed'}({v['with_failing_input']}/{v['violations']})" for k, v in row.items()), flush=True)
    json.dump(results, open(resf, 'w'), indent=1, sort_keys=True)
# markdown table
lines = ['| seeded change | what it breaks (first line of the author\'s notes) | checks run: caught? (violations with a failing input / all) |', '|---|---|---|']
for sid in sorted(results):
    d = os.path.join(root, 'seeded', sid)
    what = ''
    try:
        what = [l for l in open(os.path.join(d, 'notes.md')).read().split('\n') if l.strip()][0].lstrip('# ').strip()
    except Exception:
        pass
    row = results[sid]
    if 'error' in row:
        cell = row['error']
    else:
        cell = ', '.join(f"{k}: {'caught' if v['caught'] else '**missed**'} ({v['with_failing_input']}/{v['violations']})" for k, v in sorted(row.items()))
    lines.append(f'| {sid} | {what[:160]} | {cell} |')
open(os.path.join(root, 'seeded', 'RESULTS.md'), 'w').write('\n'.join(lines) + '\n')
