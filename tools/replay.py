#!/usr/bin/env python3
"""Replay a file written by a check (out/replays/*.json) or a known-findings witness against /repo's current tree.

usage: replay.py <replay.json>

For a replay that holds an operation stream: rebuilds the engine from /repo's working tree, runs the stream on the
implementation and on the Lean model, prints both outputs side by side, evaluates the property predicate (oracle)
on the implementation's output and exits 1 when they still disagree or the predicate is still false, 0 otherwise.
For a replay of a broken proof obligation (no stream): re-runs extraction, `lake build` of the property's theorem
modules and the axiom audit, prints what does not check, exits 1 while it does not.
"""
import importlib, json, os, sys
sys.path.insert(0, os.path.dirname(os.path.abspath(__file__)))
from lib import core


def main():
    if len(sys.argv) != 2:
        print(__doc__); return 2
    d = json.load(open(sys.argv[1]))
    prop = d.get('property')
    if not prop:
        print('replay file names no property'); return 2
    P = importlib.import_module('props.' + prop)
    from lib import extract
    errs = extract.run(getattr(P, 'GEN', None))
    for e in errs:
        print('extract:', e)
    ops = d.get('ops') or d.get('case')
    if not ops or d.get('kind') in ('proof', 'extract', 'model-build'):
        ok, out, lerrs = core.lake_build(P.PROPS_MODULES)
        bad = {}
        if ok:
            ax, _ = core.audit(P.PROPS_MODULES)
            bad = {n: a for n, a in ax.items() if a is None or not set(a) <= core.ALLOWED_AXIOMS}
        hits = core.lean_grep()
        print('obligation:', d.get('what', ''))
        print('lake build:', 'ok' if ok else 'FAILED'); [print('  ', l) for l in lerrs[:20]]
        print('theorems not checked:', sorted(bad)); print('forbidden tokens:', hits)
        return 1 if (errs or not ok or bad or hits) else 0
    name = d.get('engine')
    engs = [e for e in P.ENGINES if e.name == name] or list(P.ENGINES)
    eng = engs[0]
    ok, out, lerrs = core.lake_build(['driver'])
    if not ok:
        print('model driver does not build:', lerrs[:10]); return 1
    exe = eng.build()
    case = core.Case(d.get('label', 'replay'), list(ops))
    impl, err = eng.run_impl(exe, [case])
    model = eng.run_model([case], impl)
    im, mo = impl[0], model[0]
    width = max([len(o) for o in ops] + [4])
    for i, o in enumerate(ops):
        a = im[i] if i < len(im) else '<missing>'
        b = mo[i] if i < len(mo) else '<missing>'
        print(f'op    {o[:300]}\n impl  {a[:600]}\n model {b[:600]}' + ('' if a == b else '\n ^^^^^ differ'))
    verdict = eng.oracle(case, im)
    diff = core.first_diff(im, mo)
    print('first differing line:', diff)
    print('property predicate on the implementation:', 'holds' if verdict is None else 'FALSE: ' + str(verdict))
    if err.strip():
        print('stderr tail:\n' + err[-1500:])
    return 1 if (diff is not None or verdict is not None) else 0


if __name__ == '__main__':
    sys.exit(main())
